"""Per-property case generation.  Each generator returns a list of batches
   {'label', 'cases', 'builds': [(feature, profile)], 'kinds': what is compared}."""
import itertools, random
from . import gen
from .common import hexs

def L(p, d, line): return 'L %d %d %s' % (p, d, hexs(line))
def C(p, d, line): return 'C %d %d %s' % (p, d, hexs(line))
def M(b): return 'M ' + hexs(b)
def U(fill, b): return 'U %d %s' % (fill, hexs(b))
def S(c): return 'S %d' % c

STD = [('std', 'debug')]
ALL3 = [('std', 'debug'), ('alloc', 'debug'), ('none', 'debug')]
ALL6 = ALL3 + [('std', 'release'), ('alloc', 'release'), ('none', 'release')]
QUICK4 = ALL3 + [('none', 'release')]
QUICK5 = QUICK4 + [('std', 'release')]      # release differs from debug by more than speed: overflow wraps, debug_assert! bodies vanish

def scale(tier, q, t): return q if tier == 'quick' else t

# ------------------------------------------------------------------ message-level streams

def with_truncations(rng, cases, rate=0.12):
    """interleave truncated copies of message cases: a decoder that keeps anything between calls
    (scratch buffers, caches) is only caught by a failing call followed by a good one"""
    out = []
    for cse in cases:
        out.append(cse)
        if cse.startswith('M ') and len(cse) > 8 and rng.random() < rate:
            hx = cse[2:]
            n = len(hx) // 2
            cut = rng.randrange(1, n)
            out.append('M ' + hx[:2 * cut])
            out.append(cse)
    return out

def msg_cases(rng, tier, types=None, per_type=None, modes=('mixed', 'random', 'ones', 'zeros')):
    types = types or gen.SUPPORTED
    per_type = per_type or scale(tier, 120, 3000)
    out = []
    for t in types:
        for i in range(per_type):
            mode = modes[i % len(modes)] if i >= 4 else modes[i % len(modes)]
            out.append(M(gen.pack(gen.message_bits(rng, t, mode))))
    return with_truncations(rng, out)

def nom_take_cases(rng, tier):
    """nom::bits::complete::take itself against its transcription (Model/NomBits.v): every count 0..40
    (and up to 60) x every bit offset x input lengths around the need, contents zeros / ones / one-hot / random"""
    out = []
    for cnt in list(range(0, 41)) + [48, 56, 57, 60]:
        for off in range(8):
            need = (cnt + off + 7) // 8
            for n in sorted({0, max(0, need - 1), need, need + 1, need + 3}):
                pats = [bytes(n), b'\xff' * n] + [bytes(rng.getrandbits(8) for _ in range(n)) for _ in range(scale(tier, 3, 30))]
                if n: pats.append(bytes((0x80 >> rng.randrange(8)) if i == rng.randrange(n) else 0 for i in range(n)))
                for b in pats:
                    out.append('T %d %d %s' % (cnt, off, b.hex() if b else '-'))
    return out

def nom_bytes_cases(rng, tier):
    """C08/C07: the library routines behind the numeric fields (u8::from_str after digit1; nom's hex_u32),
    run as themselves against their transcriptions in Model/NomBytes.v: every short string over the
    characters that matter, every value with leading zeros, long digit runs"""
    out = []
    dec_alpha = b'0129+- a5'
    for n in range(0, 5):
        for t in itertools.product(dec_alpha, repeat=n):
            b = bytes(t)
            out.append('N d ' + hexs(b)); out.append('N s ' + hexs(b))
    for v in range(0, 1300):
        for z in (0, 1, 2, 5, 17):
            b = b'0' * z + str(v).encode()
            out.append('N d ' + hexs(b + b',1')); out.append('N s ' + hexs(b))
    for b in (b'4294967295', b'4294967296', b'18446744073709551616', b'255', b'256', b'0255', b'0256', b'25 5', b'\xc3\xa9', b'\xff', b'+255', b'+256', b'+0', b'++1', b'-0', b'1_0', b'1e1', b'0x10', b'\xef\xbc\x91'):
        out.append('N d ' + hexs(b)); out.append('N s ' + hexs(b))
    hex_alpha = b'09afAFgG*'
    for n in range(0, 5):
        for t in itertools.product(hex_alpha, repeat=n):
            out.append('N x ' + hexs(bytes(t)))
    for n in range(5, 14):
        for _ in range(scale(tier, 60, 600)):
            b = bytes(rng.choice(b'0123456789abcdefABCDEF') for _ in range(n)) + rng.choice([b'', b'\r', b'zz', b'*', b' 1'])
            out.append('N x ' + hexs(b))
    for v in range(256):
        for f in ('%02X', '%02x', '%X', '%08X', '%09X', '%010x', '000000%02X5'):
            out.append('N x ' + hexs((f % v).encode()))
    return out

def sentence_path_cases(rng, tier):
    """C13/C14/C15 (and C03, C17 through them): messages with a variable-length tail sent as sentences, for
    every phase of the payload length against the byte grid and every fill count, the fill positions of
    the last character holding ones / random bits (the receiver has to clear them before any decoder reads
    "what is left"); and each such sentence followed, on the same parser, by the same payload announced with
    another fill count and by a variant differing in one sentence field (stale-result caches)"""
    out = []
    def tail_bits(t, n):
        if t == 5: return gen.message_bits(rng, 5)[:302 + n]
        if t == 24:
            vals = gen.rand_values(rng, gen.LAYOUTS[24] + gen.PART_A, 'random'); vals['type'] = 24; vals['part'] = 0
            return gen.bits_of(gen.LAYOUTS[24] + gen.PART_A, vals)[:160 + (n % 8)]
        fl = gen.LAYOUTS[t]
        vals = gen.rand_values(rng, fl, 'random'); vals['type'] = t
        return gen.bits_of(fl, vals) + ''.join(rng.choice('01') for _ in range(n))
    for t in (5, 6, 8, 12, 14, 17, 24):
        for n in list(range(0, 50)) + [rng.randrange(50, 300) for _ in range(scale(tier, 6, 60))]:
            bits = tail_bits(t, n)
            for garbage in ('111111', ''.join(rng.choice('01') for _ in range(6))):
                pay, fill = gen.armor(bits, garbage)
                line = gen.sentence(pay, fill)
                out.append('H'); out.append(L(0, 1, line))
                # the same payload under every other fill count, and one-field variants, on the same parser
                f2 = rng.choice([f for f in range(6) if f != fill])
                out.append(L(0, 1, gen.sentence(pay, f2)))
                out.append(L(0, 1, line))
                out.append(L(0, 1, gen.sentence(pay, fill, chan=b'B')))
                out.append(L(0, 1, gen.sentence(pay[:-1] + bytes([gen.armor_char(rng.randrange(64))]), fill)))
    return out

def line_length_cases(rng, tier):
    """C04/C07/C09 (fixed-offset fast paths): single sentences of every total length, for every length of the
    channel field, decodable at every length (binary broadcast / safety text / addressed binary)"""
    out = []
    for chan in (b'', b'A', b'B', b'AB', b'1'):
        for t in (8, 14, 6):
            for n in range(8, 84):
                for sid, start in [(None, b'!')] * (8 if chan in (b'', b'A') else 2) + [(None, b'$'), (3, b'!')]:
                    bits = gen.message_bits(rng, t, rng.choice(['random', 'ones', 'mixed']))
                    bits = (bits + ''.join(rng.choice('01') for _ in range(6 * n)))[:6 * n]
                    pay, fill = gen.armor(bits)
                    out.append('H'); out.append(L(0, 1, gen.sentence(pay, fill, sid=sid, chan=chan, start=start)))
    # long payloads, both sides of every width an index or a length might be kept in (u8, the no-allocator
    # capacities, powers of two), unfragmented and as a first fragment, every character random
    for n in (120, 127, 128, 129, 170, 250, 254, 255, 256, 257, 258, 259, 260, 300, 320, 383, 384, 385, 400, 511, 512, 513, 514, 600, 1000, 1025):
        for t in (8, 14, 6, 8):
            bits = gen.message_bits(rng, t, 'random')
            bits = (bits + ''.join(rng.choice('01') for _ in range(6 * n)))[:6 * n]
            pay, fill = gen.armor(bits)
            for d in (0, 1):
                out.append('H'); out.append(L(0, d, gen.sentence(pay, fill)))
                out.append('H'); out.append(L(0, d, gen.sentence(pay, 0, 2, 1, 4))); out.append(L(0, d, gen.sentence(b'00', 0, 2, 2, 4)))
    # a long channel field in front of an ordinary payload
    pay, fill = gen.armor(gen.message_bits(rng, 1))
    for n in (2, 3, 16, 200, 255, 256, 257, 300):
        for d in (0, 1):
            out.append('H'); out.append(L(0, d, gen.sentence(pay, fill, chan=bytes(rng.choice(b'ABab12 xyz') for _ in range(n)))))
    return out

def id_pair_cases(rng, tier):
    """C06/C05: two-fragment groups whose sentences spell the sequence id in every pair of ways (absent, 0, 255,
    leading zeros, neighbours of the type's bounds): only equal ids may continue a group"""
    out = []
    ids = [None, 0, 1, 9, 10, 99, 100, 127, 128, 254, 255, b'00', b'000', b'01', b'010', b'0255', b'256']
    for a in ids:
        for b in ids:
            for d in (0, 1):
                out.append('H')
                out.append(L(0, d, gen.sentence(b'55M', 0, 2, 1, a)))
                out.append(L(0, d, gen.sentence(b'66', 0, 2, 2, b)))
                out.append(L(0, d, gen.sentence(b'77', 0, 2, 2, a)))
    return out

def field_values(name, w):
    """the handful of values of a field at which special treatment lives"""
    m = (1 << w) - 1
    vals = {0, 1, m, m - 1}
    for table in (gen.MAX_VALID, gen.NOT_AVAILABLE):
        v = gen._scaled(name, w, table)
        if v is not None: vals |= {v, (v + 1) & m, (v - 1) & m}
    return sorted(vals)

def field_values_wide(name, w):
    """... plus every special value with one bit flipped"""
    m = (1 << w) - 1
    vals = set(field_values(name, w))
    for table in (gen.MAX_VALID, gen.NOT_AVAILABLE):
        v = gen._scaled(name, w, table)
        if v is not None: vals |= {v ^ (1 << i) for i in range(w)}
    return sorted(vals)

def pairwise_cases(rng, tier, types=None):
    """every pair of fields of every layout at every pair of their special values (zero, one, the two largest,
    the not-available code, the largest meaningful value and their neighbours), the other fields random: any
    dependence of one field's decoding on ONE other field's value shows on one of these"""
    out = []
    for t in (types or gen.SUPPORTED):
        variants = [({}, gen.LAYOUTS[t])]
        if t == 24: variants = [({'part': 0}, gen.LAYOUTS[t] + gen.PART_A), ({'part': 1}, gen.LAYOUTS[t] + gen.PART_B)]
        elif t in (7, 13): variants = [({}, gen.LAYOUTS[t] + [(n + str(i), w) for i in range(2) for (n, w) in gen.ACK])]
        elif t == 20: variants = [({}, gen.LAYOUTS[t] + [(n + str(i), w) for i in range(2) for (n, w) in gen.RESERVATION])]
        for fixed, fl in variants:
            names = [(n, w) for (n, w) in fl if n != 'type' and n not in fixed and not (w > 40)]
            for i in range(len(names)):
                for j in range(i + 1, len(names)):
                    (a, wa), (b, wb) = names[i], names[j]
                    va_all, vb_all = field_values(a, wa), field_values(b, wb)
                    if tier == 'quick' and len(va_all) * len(vb_all) > 30:
                        va_all = rng.sample(va_all, min(len(va_all), 6)); vb_all = rng.sample(vb_all, min(len(vb_all), 5))
                    for va in va_all:
                        for vb in vb_all:
                            vals = gen.rand_values(rng, fl, 'random')
                            vals.update(fixed); vals['type'] = t; vals[a] = va; vals[b] = vb
                            bits = gen.bits_of(fl, vals)
                            if t in (12, 14): bits += '000001' * 3
                            out.append(M(gen.pack(bits)))
    return out

def bulk_cases(rng, tier, types=None, per_type=None):
    """plain volume: plausible payloads of every type (identities with decimal structure, all other
    fields uniformly random) — finds dependences of a field on the *value* of another field that
    boundary-directed cases do not aim at"""
    per_type = per_type or scale(tier, 6000, 60000)
    out = []
    for t in (types or gen.SUPPORTED):
        for i in range(per_type):
            out.append(M(gen.pack(gen.message_bits(rng, t, 'decimal' if i % 4 else 'random'))))
    return out

def one_field_cases(rng, tier, types=None):
    """each field of each layout at its extremes / single bits / sentinels with neighbours all-zero,
    all-one and random"""
    out = []
    reps = scale(tier, 1, 6)
    for t in (types or gen.SUPPORTED):
        fields = gen.LAYOUTS[t]
        extra = []
        if t == 24: extra = [({'part': 0}, gen.PART_A), ({'part': 1}, gen.PART_B)]
        elif t in (7, 13): extra = [({}, gen.ACK * 2)]
        elif t == 20: extra = [({}, gen.RESERVATION * 2)]
        else: extra = [({}, [])]
        for fixed, more in extra:
            allf = list(fields) + [(n + str(i), w) for i, (n, w) in enumerate(more)]
            for name, w in allf:
                if name == 'type' or name in fixed: continue
                m = (1 << w) - 1
                cand = {0, 1, m, m - 1, 1 << (w - 1), (1 << (w - 1)) - 1} | {s & m for s in gen.SENTINELS} \
                       | {(s + 1) & m for s in gen.SENTINELS} | {(s - 1) & m for s in gen.SENTINELS}
                if w <= 8: cand |= set(range(1 << w)) if tier != 'quick' or w <= 6 else set()
                cand |= {1 << i for i in range(w)}
                cand |= set(field_values_wide(name, w))        # the field's own special values, each also with one bit flipped
                for _ in range(reps):
                    for v in sorted(cand):
                        for mode in ('zeros', 'ones', 'random', 'maxvalid', 'unavailable'):
                            vals = gen.rand_values(rng, allf, mode)
                            vals.update(fixed); vals['type'] = t; vals[name] = v
                            out.append(M(gen.pack(gen.bits_of(allf, vals))))
    return with_truncations(rng, out)

def poisoned_parser_cases(rng, tier, types=None):
    """the same AisParser is reused after a line that fails at the decode stage (bad armouring
    character after a good one, unsupported type, payload too short, capacity), then decodes a good
    line: whatever a parser keeps between lines must not leak into the next message"""
    out = []
    types = types or gen.SUPPORTED
    def bad_lines():
        t = rng.choice(gen.SUPPORTED)
        pay, fill = gen.armor(gen.message_bits(rng, t, 'random'))
        yield gen.sentence(pay[:1] + b'x' + pay[2:], fill)                                  # invalid armouring character
        yield gen.undecodable_sentence(rng, 0)                                              # ... anywhere behind a valid prefix
        yield gen.sentence(pay[:-1] + bytes([rng.choice(gen.ILLEGAL_ARMOR)]), fill)          # ... in last place: everything before it was unpacked
        yield gen.sentence(pay[:rng.randrange(1, max(2, len(pay) // 2))], 0)                 # too short for its type
        u = rng.choice([0, 22, 23, 25, 26, 28, 40, 63])
        yield gen.sentence(bytes([gen.armor_char(u)]) + pay[1:], fill)                       # unsupported type
        yield gen.sentence(bytes(rng.choice(gen.ALPHABET) for _ in range(rng.choice([1, 5, 60]))), rng.randrange(6))
    def priors():
        """things a parser may have seen before: failing lines, and *accepted* traffic that leaves something
        behind in a careless implementation — a delivered group whose non-final fragments announce fill
        bits, an abandoned group, a long binary message, a sentence with the maximal fill count"""
        for b in bad_lines(): yield [(1, b)]
        t2 = rng.choice([5, 8, 19, 21, 6])
        pay, fill = gen.armor(gen.message_bits(rng, t2, 'ones'), '111111')
        n = rng.choice([2, 3])
        cuts = sorted(rng.sample(range(1, len(pay)), n - 1))
        parts = [pay[a:b] for a, b in zip([0] + cuts, cuts + [len(pay)])]
        sid = rng.choice([None, 2])
        # fill count announced on the first / on every sentence of the group, 0 on the last
        yield [(1, gen.sentence(p, (rng.randrange(1, 6) if i < n - 1 else 0), n, i + 1, sid)) for i, p in enumerate(parts)]
        yield [(1, gen.sentence(p, 5, n, i + 1, sid)) for i, p in enumerate(parts)]
        yield [(rng.randrange(2), gen.sentence(p, 0, n, i + 1, sid)) for i, p in enumerate(parts[:-1])]       # abandoned
        long8, f8 = gen.armor(gen.message_bits(rng, 8, 'ones') + '1' * 600, '11111')
        yield [(1, gen.sentence(long8, f8))]
        yield [(1, gen.sentence(gen.armor(gen.message_bits(rng, 14) + '111111' * 7 + '1', '11111')[0], 5))]
    for t in types:
        for _ in range(scale(tier, 4, 40)):
            good, gfill = gen.armor(gen.message_bits(rng, t, rng.choice(['random', 'ones', 'mixed', 'zeros', 'unavailable', 'maxvalid'])))
            for prior in priors():
                out.append('H')
                for d, l in prior: out.append(L(0, d, l))
                out.append(L(0, 1, gen.sentence(good, gfill)))
                out.append(L(0, 1, gen.sentence(good, gfill)))
    for u in range(64):     # every type value after a poisoned line
        out.append('H'); out.append(L(0, 1, gen.sentence(b'1x', 0)))
        b = bytearray(gen.pack(gen.message_bits(rng, 1, 'zeros')) + bytes(10)); b[0] = (u << 2)
        out.append(L(0, 1, gen.sentence(gen.armor(''.join(format(x, '08b') for x in b))[0], 0)))
    return out

def length_cases(rng, tier):
    """every type value 0..63 x every byte length 0..70 (and some long ones) x contents"""
    out = []
    reps = scale(tier, 2, 20)
    for t in range(64):
        for n in list(range(0, 71)) + [119, 120, 121, 127, 128, 135, 160]:
            for r in range(reps + 2):
                if n == 0: b = b''
                else:
                    if r == 0: body = [0] * n
                    elif r == 1: body = [255] * n
                    else: body = [rng.getrandbits(8) for _ in range(n)]
                    body[0] = (t << 2) | (body[0] & 3)
                    b = bytes(body)
                out.append(M(b))
    return out

def enum_cases(rng, tier):
    """every code of every enumerated field through the real message path"""
    out = []
    enum_fields = {'status': 4, 'maneuver': 2, 'epfd': 4, 'shiptype': 8, 'aidtype': 5, 'sync': 2, 'dte': 1,
                   'accuracy': 1, 'assigned': 1, 'cs': 1, 'part': 2, 'selector': 1}
    for t in gen.SUPPORTED:
        fields = gen.LAYOUTS[t]
        variants = [({}, fields)]
        if t == 24: variants = [({'part': 0}, fields + gen.PART_A), ({'part': 1}, fields + gen.PART_B), ({'part': 2}, fields), ({'part': 3}, fields)]
        for fixed, fl in variants:
            for name, w in fl:
                if name in enum_fields and name not in fixed:
                    for code in range(1 << w):
                        # neighbours all zeros / all ones / random, then one identity of every station class of
                        # ITU-R M.585 (a code's meaning must not depend on who transmits it)
                        for mode in ['zeros', 'ones', 'random', 'random', 'maxvalid', 'unavailable'] + list(range(gen.IDENTITY_CLASSES)):
                            vals = gen.rand_values(rng, fl, mode if isinstance(mode, str) else 'mixed')
                            if not isinstance(mode, str): vals['mmsi'] = gen.identity_of_class(rng, mode)
                            vals.update(fixed); vals['type'] = t; vals[name] = code
                            bits = gen.bits_of(fl, vals)
                            if t in (7, 13): bits += '0' * 32
                            if t == 20: bits += '0' * 30
                            if t in (12, 14): bits += '000001' * 3
                            out.append(M(gen.pack(bits)))
    return with_truncations(rng, out)

def text_cases(rng, tier):
    out = []
    text_fields = {5: ['callsign', 'name', 'destination'], 19: ['name'], 21: ['name'], 24: []}
    def with_text(t, fl, fixed, name, chars, mode):
        vals = gen.rand_values(rng, fl, mode); vals.update(fixed); vals['type'] = t
        v = 0
        for c in chars: v = (v << 6) | c
        vals[name] = v
        return M(gen.pack(gen.bits_of(fl, vals)))
    specs = [(5, gen.LAYOUTS[5], {}, 'callsign', 7), (5, gen.LAYOUTS[5], {}, 'name', 20), (5, gen.LAYOUTS[5], {}, 'destination', 20),
             (19, gen.LAYOUTS[19], {}, 'name', 20), (21, gen.LAYOUTS[21], {}, 'name', 20),
             (24, gen.LAYOUTS[24] + gen.PART_A, {'part': 0}, 'name', 20),
             (24, gen.LAYOUTS[24] + gen.PART_B, {'part': 1}, 'vendor', 3),
             (24, gen.LAYOUTS[24] + gen.PART_B, {'part': 1}, 'callsign', 7)]
    for t, fl, fixed, name, k in specs:
        # one-hot sweep: all 64 values at every position, rest '@' / space / 'A'
        for pos in range(k):
            for v in range(64):
                for fillc in (0, 32, 1):
                    chars = [fillc] * k; chars[pos] = v
                    out.append(with_text(t, fl, fixed, name, chars, 'random'))
        for _ in range(scale(tier, 60, 1500)):
            style = rng.randrange(5)
            if style == 0: chars = [rng.randrange(64) for _ in range(k)]
            elif style == 1: chars = [rng.choice([0, 32, 1, 2, 33]) for _ in range(k)]
            elif style == 2:
                n = rng.randrange(k + 1); chars = [32] * rng.randrange(3) + [rng.randrange(1, 27) for _ in range(n)]
                chars = (chars + [0] * k)[:k]
            elif style == 3:
                n = rng.randrange(k + 1); chars = ([rng.randrange(64) for _ in range(n)] + [32] * rng.randrange(4) + [0] * k)[:k]
            else: chars = [rng.choice([0, 32]) for _ in range(k)]
            out.append(with_text(t, fl, fixed, name, chars, 'random'))
    # model/serial of part B: the 24 bits model(4)+serial(20) read as text
    fl = gen.LAYOUTS[24] + gen.PART_B
    for _ in range(scale(tier, 300, 3000)):
        vals = gen.rand_values(rng, fl, 'random'); vals['part'] = 1; vals['type'] = 24
        out.append(M(gen.pack(gen.bits_of(fl, vals))))
    # safety texts of every length
    for t in (12, 14):
        head = gen.LAYOUTS[t]
        for n in list(range(0, 30)) + [155, 156, 157, 161, 162]:
            for _ in range(scale(tier, 3, 20)):
                vals = gen.rand_values(rng, head, 'random'); vals['type'] = t
                style = rng.randrange(3)
                chars = [rng.randrange(64) if style == 0 else rng.choice([0, 32, 1, 33]) for _ in range(n)]
                bits = gen.bits_of(head, vals) + ''.join(format(c, '06b') for c in chars)
                out.append(M(gen.pack(bits)))
            # a body followed by padding: '@' and space runs in every order, body lengths around the
            # 20-character capacity of the build without an allocator
            for m in sorted(set(x for x in (0, 1, n // 2, n - 3, n - 2, n - 1, n, 18, 19, 20, 21) if 0 <= x <= n)):
                for tail in ('at', 'sp', 'at-sp', 'sp-at', 'mix'):
                    vals = gen.rand_values(rng, head, 'random'); vals['type'] = t
                    r = n - m
                    pad = {'at': [0] * r, 'sp': [32] * r, 'at-sp': [0] * (r // 2) + [32] * (r - r // 2),
                           'sp-at': [32] * (r // 2) + [0] * (r - r // 2), 'mix': [rng.choice([0, 32]) for _ in range(r)]}[tail]
                    chars = [rng.randrange(1, 32) for _ in range(m)] + pad
                    bits = gen.bits_of(head, vals) + ''.join(format(c, '06b') for c in chars)
                    out.append(M(gen.pack(bits)))
    return with_truncations(rng, out)

def radio_cases(rng, tier):
    out = []
    for t in (1, 2, 3, 4, 9, 11, 18):
        fl = gen.LAYOUTS[t]
        for sel in ((0, 1) if t in (9, 18) else (0,)):
            for sync in range(4):
                for timeout in range(8):
                    subs = {0, 1, 2, 3, 4, 77, 0x3fff, 0x3ffe, 0x2000, 0x1fff, 8230, (23 << 9) | (59 << 2), (31 << 9) | (127 << 2) | 3,
                            (5 << 9) | (64 << 2), 1 << 8, 1 << 9} | {rng.getrandbits(14) for _ in range(scale(tier, 6, 60))}
                    for sub in subs:
                        vals = gen.rand_values(rng, fl, 'random'); vals['type'] = t
                        if 'selector' in vals: vals['selector'] = sel
                        vals['sync'] = sync; vals['comm'] = (timeout << 14) | sub
                        out.append(M(gen.pack(gen.bits_of(fl, vals))))
        for _ in range(scale(tier, 1500, 4000)):
            vals = gen.rand_values(rng, fl, 'random'); vals['type'] = t
            out.append(M(gen.pack(gen.bits_of(fl, vals))))
        if tier != 'quick':
            # exhaustive: every 19-bit communication state (with each selector value), the other
            # fields re-drawn every 4096 states; the state occupies the last 19 bits of the 168
            for sel in ((0, 1) if t in (9, 18) else (0,)):
                for hi in range(0, 1 << 19, 4096):
                    vals = gen.rand_values(rng, fl, 'random'); vals['type'] = t
                    if 'selector' in vals: vals['selector'] = sel
                    vals['sync'] = 0; vals['comm'] = 0
                    base = int(gen.bits_of(fl, vals), 2)
                    for lo in range(4096):
                        out.append('M ' + format(base | hi | lo, '042x'))
    return with_truncations(rng, out) if tier == 'quick' else out

def coord_cases(rng, tier):
    out = []
    per = scale(tier, 1, 8)
    for t in (1, 2, 3, 4, 9, 11, 17, 18, 19, 21, 27, 5):
        fl = gen.LAYOUTS[t]
        for name, w in fl:
            if name not in ('lon', 'lat', 'speed', 'course', 'draught'): continue
            m = (1 << w) - 1
            cand = {0, 1, 2, m, m - 1, 1 << (w - 1), (1 << (w - 1)) - 1, (1 << (w - 1)) + 1}
            for s in (108600000, 54600000, 108600, 54600, 1023, 3600, 511, 63, 1022, 3599, 510, 62, 600, 600000, 10):
                for d in (-1, 0, 1): cand |= {(s + d) & m, (-(s + d)) & m}
            for i in range(w): cand |= {1 << i, (1 << i) - 1, (1 << i) + 1, m ^ (1 << i)}
            # every special value with one bit flipped (a comparison that ignores one bit, the sign bit included)
            for s in (108600000, 54600000, 108600, 54600, 108000000, 54000000, 108000, 54000, 1023, 3600, 511, 63, 1022, 3599):
                if s <= m: cand |= {s ^ (1 << i) for i in range(w)}
            if w <= 12 and tier != 'quick': cand |= set(range(1 << w))
            elif w <= 10: cand |= set(range(1 << w))
            exhaustive = w in (17, 18) and tier != 'quick'     # the 1/10-minute fields of types 17 and 27: every raw value
            if exhaustive:
                for v in range(1 << w):
                    vals = gen.rand_values(rng, fl, 'random'); vals['type'] = t; vals[name] = v
                    out.append(M(gen.pack(gen.bits_of(fl, vals))))
            n_rand = scale(tier, 800, 30000) if w > 12 else 0
            hi = rng.getrandbits(w) & ~0xfff
            cand |= {(hi | i) & m for i in range(0, 4096, scale(tier, 16, 1))} if w > 12 else set()
            cand |= {rng.getrandbits(w) for _ in range(n_rand)}
            for v in sorted(cand):
                for _ in range(per):
                    vals = gen.rand_values(rng, fl, 'random'); vals['type'] = t; vals[name] = v
                    out.append(M(gen.pack(gen.bits_of(fl, vals))))
            # the sibling coordinate at each "not available" code while this one carries a value
            if name in ('lon', 'lat'):
                other = 'lat' if name == 'lon' else 'lon'
                for sv in (108600000, 54600000, 108600, 54600):
                    for v in [0, 1, m, 1 << (w - 1), 12345 & m] + [rng.getrandbits(w) for _ in range(6)]:
                        vals = gen.rand_values(rng, fl, 'random'); vals['type'] = t; vals[name] = v; vals[other] = sv
                        out.append(M(gen.pack(gen.bits_of(fl, vals))))
    return with_truncations(rng, out)

def scaling_ranges(rng, tier):
    """C10/C11: the public scaling functions of messages::navigation over whole ranges of raw values,
    compared through digests.  quick: all 2^16 speed and course codes, longitude / latitude around
    zero, the sentinels, the field extremes and 64 random blocks; thorough: every value of the 28-bit
    and 27-bit two's-complement domains."""
    from . import sweep
    B = 1 << 16
    out = [sweep.range_case('sog', 0, B), sweep.range_case('cog', 0, B)]
    if tier == 'quick':
        for which, w, sentinel in (('lon', 28, 108600000), ('lat', 27, 54600000)):
            half = 1 << (w - 1)
            starts = [-8 * B, -half, half - B, sentinel - B // 2, -sentinel - B // 2, half, -half - B, (1 << 31) - B, -(1 << 31)]
            starts += [rng.randrange(-half, half - B) for _ in range(64)]
            for s0 in starts:
                out.append(sweep.range_case(which, s0, 16 * B if s0 == -8 * B else B))
    else:
        blk = 1 << 20
        for which, w in (('lon', 28), ('lat', 27)):
            half = 1 << (w - 1)
            for s0 in range(-half, half, blk):
                out.append(sweep.range_case(which, s0, blk))
            out += [sweep.range_case(which, half, blk), sweep.range_case(which, -half - blk, blk),
                    sweep.range_case(which, (1 << 31) - blk, blk), sweep.range_case(which, -(1 << 31), blk)]
    return out

def binary_cases(rng, tier):
    out = []
    for t in (6, 8, 17):
        fl = gen.LAYOUTS[t]
        for n in range(0, 126):
            for r in range(scale(tier, 3, 40)):
                vals = gen.rand_values(rng, fl, ['random', 'ones', 'zeros'][r % 3] if r < 3 else 'mixed'); vals['type'] = t
                data = bytes(rng.getrandbits(8) for _ in range(n)) if r != 1 else bytes([255] * n)
                out.append(M(gen.pack(gen.bits_of(fl, vals)) + data))
        # header cut short
        hb = len(gen.pack(gen.bits_of(fl, {})))
        for n in range(0, hb):
            vals = gen.rand_values(rng, fl, 'random'); vals['type'] = t
            out.append(M(gen.pack(gen.bits_of(fl, vals))[:n]))
    return with_truncations(rng, out)

# ------------------------------------------------------------------ unarmor

def unarmor_cases(rng, tier):
    out = []
    A = gen.ALPHABET
    # every byte value at every phase, every fill, alphabet context
    for b in range(256):
        for pos in range(4):
            for fill in range(6):
                ctx = bytes(rng.choice(A) for _ in range(pos)) + bytes([b]) + bytes(rng.choice(A) for _ in range(rng.randrange(0, 5)))
                out.append(U(fill, ctx))
    # runs of one byte value — whole groups of an invalid byte, not only one invalid byte among valid ones
    for b in range(256):
        for n in (2, 3, 4, 5, 8, 12):
            out.append(U(rng.randrange(6), bytes([b]) * n))
        out.append(U(0, bytes([b]) * 4 + b'15M:Ih001'))
        out.append(U(rng.randrange(6), b'15M0' + bytes([b]) * 4 + b'1'))
    # payloads that are text in some encoding: every two-byte UTF-8 sequence, a stride of the three- and four-byte
    # ones, overlong and surrogate forms, UTF-16 / Latin-1 spellings — behind and in front of alphabet characters
    def u8(cp):
        try: return chr(cp).encode('utf-8')
        except UnicodeEncodeError: return None
    for cp in list(range(0x80, 0x800)) + list(range(0x800, 0x10000, 61)) + list(range(0x10000, 0x110000, 4093)):
        e = u8(cp)
        if e is None: continue
        out.append(U(0, b'9' + e))
        if cp % 7 == 0: out.append(U(rng.randrange(6), e + b'15M'))
    for raw in (b'\xc0\xb1', b'\xe0\x80\xb1', b'\xed\xa0\xb1', b'\xf8\x88\x80\x80\xb1', b'1\x00', b'\x001', b'\xff\xfe1\x00', b'\xb1', b'\xe9'):
        out.append(U(0, b'9' + raw)); out.append(U(0, raw + b'9'))
    # all strings up to length 2 over all bytes (length 2: boundary bytes x all bytes)
    for fill in range(6):
        out.append(U(fill, b''))
    edge = [47, 48, 87, 88, 95, 96, 119, 120, 0, 255, 64, 63]
    for a in range(256):
        for fill in (0, 1, 5):
            out.append(U(fill, bytes([a])))
        for b in edge:
            out.append(U(rng.randrange(6), bytes([a, b])))
            out.append(U(rng.randrange(6), bytes([b, a])))
    # every length 0..70 x every fill: all-ones (w = 63), all-zero, random
    for n in range(0, 71):
        for fill in range(6):
            out.append(U(fill, bytes([119] * n)))
            out.append(U(fill, bytes([48] * n)))
            out.append(U(fill, bytes(rng.choice(A) for _ in range(n))))
    if tier != 'quick':
        for a in range(256):          # every pair of bytes
            for b in range(256):
                out.append(U((a + b) % 6, bytes([a, b])))
        small = [48, 49, 87, 96, 119, 47, 88, 120]
        for n in (3, 4, 5):
            for s in itertools.product(small, repeat=n):
                out.append(U(rng.randrange(6), bytes(s)))
    for _ in range(scale(tier, 3000, 100000)):
        n = rng.choice([rng.randrange(0, 20), rng.randrange(0, 120), rng.randrange(0, 1000)])
        s = bytearray(rng.choice(A) for _ in range(n))
        if n and rng.random() < 0.15: s[rng.randrange(n)] = rng.getrandbits(8)
        out.append(U(rng.randrange(6), bytes(s)))
    for n in (509, 510, 511, 512, 513, 514, 515, 516, 1000, 2000):
        out.append(U(rng.randrange(6), bytes(rng.choice(A) for _ in range(n))))
    return out

def unarmor_capacity_cases(rng, tier):
    """C03 on the builds with fixed capacities: every length around the 384-byte output (512 characters) and around
    384 characters, every fill count; short strings for the common path"""
    out = []
    A = gen.ALPHABET
    for n in list(range(0, 12)) + list(range(376, 392)) + list(range(504, 520)) + [119, 120, 121, 255, 256, 257, 400, 450, 500, 768, 1024]:
        for fill in range(6):
            out.append(U(fill, bytes(rng.choice(A) for _ in range(n))))
        if n: out.append(U(rng.randrange(6), bytes(rng.choice(A) for _ in range(n - 1)) + b'x'))
    return out

# ------------------------------------------------------------------ sentence-level streams

def sentence_field_cases(rng, tier):
    """C07/C08/C19: well-formed sentences with every field varied"""
    out = []
    pay, fill = gen.armor(gen.message_bits(rng, 1))
    def add(line, d=None):
        for dd in ((0, 1) if d is None else (d,)):
            out.append('H'); out.append(L(0, dd, line))
    alpha = b'ABDINRSTXVMO' + bytes([0, 31, 32, 47, 58, 64, 91, 96, 127, 128, 255, 33, 36, 92, 97, 98])
    for a in alpha:
        for b in alpha:
            add(gen.sentence(pay, fill, addr=bytes([a, b]) + b'VDM'), 0)
    for x in itertools.product(b'VDMOXvdm\x00\xff', repeat=3):
        add(gen.sentence(pay, fill, addr=b'AI' + bytes(x)), 0)
    for v in range(256):
        for z in ('', '0', '00', '000'):
            s = (z + str(v)).encode()
            add(gen.sentence(pay, fill, n=s, k=1), 0)        # n of a first fragment
            add(gen.sentence(pay, fill, n=b'1', k=b'1', sid=s), 0)
            if v >= 1: add(gen.sentence(pay, fill, n=s, k=s if v == 1 else b'1'), 0)
        add(gen.sentence(pay, fill, n=255, k=v), 0)
    for v in (256, 257, 300, 999, 1000, 65535, 65536, 4294967296):
        add(gen.sentence(pay, fill, n=v), 0); add(gen.sentence(pay, fill, k=v), 0); add(gen.sentence(pay, fill, sid=v), 0)
        add(gen.sentence(pay, v), 0)
    # long digit strings in every decimal field: zero padding, embedded non-zero digits, overflow
    digit_strings = [b'01001', b'010000', b'090255', b'00100002', b'0000256', b'000001', b'0999', b'00300', b'1000',
                     b'100000001', b'0000000000000000000001', b'00000000000000000000256', b'4294967297', b'0255', b'00255', b'1255', b'0256']
    digit_strings += [bytes(rng.choice(b'0000012359') for _ in range(rng.randrange(4, 10))) for _ in range(40)]
    for ds in digit_strings:
        add(gen.sentence(pay, fill, n=ds, k=b'1'), 0); add(gen.sentence(pay, fill, n=b'9', k=ds), 0)
        add(gen.sentence(pay, fill, sid=ds), 0); add(gen.sentence(pay, ds), 0)
        add(gen.sentence(pay, fill, n=ds, k=ds), 0)
    for c in range(256):
        if c == 44: continue
        add(gen.sentence(pay, fill, chan=bytes([c])), 0)
        add(gen.sentence(pay, fill, chan=bytes([c, 65])), 0)
        add(gen.sentence(bytes([c]) + pay[1:], fill), None)     # first payload byte (message_type)
        add(gen.sentence(pay[:5] + bytes([c]) + pay[6:], fill), 0)
        add(gen.sentence(bytes([c]), fill), 0)
    # channel fields that are text in some encoding: well-formed and broken UTF-8 of every length
    for ch in ('é', 'é1', 'Aé', '€', '€A', '\U0001F600', 'ß€', '\u0080', '\u07ff', '\u0800', '\uffff', '\U00010000', '\U0010ffff'):
        add(gen.sentence(pay, fill, chan=ch.encode('utf-8')), 0)
    for ch in (b'\xc3', b'\xc3\x28', b'\xe2\x82', b'\xe2\x28\xa1', b'\xf0\x9f\x98', b'\xc0\xaf', b'\xed\xa0\x80', b'\xf4\x90\x80\x80', b'\xc3\xa9\xff', b'\xff\xc3\xa9'):
        add(gen.sentence(pay, fill, chan=ch), 0)
    for f in range(0, 12):
        add(gen.sentence(pay, f)); add(gen.sentence(pay, b'0' + str(f).encode()))
    for tag in (None, b'', b's:1*00', b'\\', b'a' * 100, b'!AIVDM', b'*', b','):
        for start in (b'!', b'$', b'#', b''):
            add(gen.sentence(pay, fill, start=start, tag=tag), 0)
    for tail in (b'', b'\r', b'\r\n', b'0', b'00', b'zz', b' ', b'G', b'000000', b'\xff'):
        add(gen.sentence(pay, fill, tail=tail), 0)
    # what loggers and multiplexers append behind the checksum (time stamps, station names, a second checksum), behind
    # payloads of every type bucket: nothing behind the checksum digits belongs to the sentence
    for tail in (b',1241827200', b',x', b',', b',,', b',0*00', b'*00', b'\r,1', b',r003669945,1241827200', b' 1241827200', b';1', b',A,B,C,D,E,F,G'):
        for first in b'048<@DHLPTdhw':
            for ff in (0, 2, 5):
                add(gen.sentence(bytes([first]) + pay[1:], ff, tail=tail), None)
            add(gen.sentence(bytes([first]) + pay[1:], 0, 2, 1, 3, tail=tail), 0)
    # realistic TAG blocks (group / source / time parameters) in front of every numbering shape
    for _ in range(40):
        for (n, k, sid) in ((1, 1, None), (1, 1, 4), (2, 1, None), (2, 1, 3), (3, 1, None), (9, 1, 0), (0, 1, None), (2, 2, None)):
            add(gen.sentence(pay, fill, n, k, sid, tag=gen.tag_block(rng, k, n)), 0)
    # bytes in front of the sentence (a byte order mark, blanks, line ends, NULs, the tail of a torn line): rejected as
    # the first line a parser ever sees and as a later one alike — nothing may be skipped to find the sentence
    for pre in (b'\xef\xbb\xbf', b'\xef\xbb', b'\xff\xfe', b'\xfe\xff', b' ', b'  ', b'\t', b'\r', b'\n', b'\r\n', b'\x00', b'\x00\x00\x00', b'\xef\xbb\xbf ',
                b'x', b'0*00', b',0*5C\r\n', b'\x11', b'\x13', b'\x1b[0m', b'>', b'#', b'\\', b'\\\\', b'!', b'$', b'!!', b'$!'):
        for tagged in (None, b's:AIS1*00'):
            line = pre + gen.sentence(pay, fill, tag=tagged)
            out.append('H'); out.append(L(0, 1, line))                                                   # first call
            out.append('H'); out.append(L(0, 1, gen.sentence(pay, fill))); out.append(L(0, 1, line))      # a later call
            out.append('H'); out.append(L(0, 0, b'junk')); out.append(L(0, 0, line)); out.append(L(0, 0, line))
    # a buffer that holds more than the sentence: line ends, NULs, flow-control bytes and whole further sentences behind
    # the checksum, short and long (beyond every fixed capacity) — the sentence is what it is, the rest is not looked at
    second = gen.sentence(gen.armor(gen.message_bits(rng, 18))[0], 0)
    for noise in (b'\r\n', b'\n', b'\x00', b'\r\n\x00', b'\x11', b' \t ', b'\r\r\n'):
        for copies in (1, 2, 5, 8, 40):
            add(gen.sentence(pay, fill) + (noise + second) * copies + noise, None)
        add(gen.sentence(pay, fill) + noise * 200, 0); add(gen.sentence(pay, fill) + noise + b'x' * 400, 0)
        longp = bytes(rng.choice(gen.ALPHABET) for _ in range(370))
        add(gen.sentence(b'8' + longp, 0) + noise + second + noise, None)
        add(gen.sentence(pay, fill, 2, 1, 3) + noise + second * 6, 0)
    # TAG blocks whose parameters carry hostile values (signs, exponents, nan / inf, overflowing integers, malformed
    # groupings) behind a correct block checksum, in front of every numbering shape: nothing in a TAG block may matter
    for code in (b'c', b'g', b'n', b's', b'd', b't', b'x'):
        for val in gen.HOSTILE_VALUES:
            body = code + b':' + val
            if b'\\' in body or b'*' in body: continue
            for good in (True, False):
                tag = body + b'*%02X' % (gen.checksum(body) ^ (0 if good else 0x33))
                add(gen.sentence(pay, fill, tag=tag), 1)
            tag2 = b's:AIS1,' + body + b',n:7'; tag2 += b'*%02X' % gen.checksum(tag2)
            add(gen.sentence(pay, fill, 2, 1, 3, tag=tag2), 0)
    for _ in range(60):
        for (n, k, sid) in ((1, 1, None), (2, 1, None), (2, 1, 3), (2, 2, None)):
            add(gen.sentence(pay, fill, n, k, sid, tag=gen.hostile_tag_block(rng)), 0)
    # spellings of the checksum field: runs of up to and beyond eight hex digits (only the first eight are read)
    for pl in (pay, b'15M', pay[:7] + b'w'):
        base = gen.sentence(pl, fill)
        head, cs = base[:-2], base[-2:]
        for sp in (b'0' + cs, b'00' + cs, b'000000' + cs, b'0000000' + cs, b'00000000' + cs, b'000000' + cs + b'5', b'000000' + cs + b'F0',
                   cs.lower(), b'000000' + cs.lower(), cs + b'g', cs + b'G', b'0' * 20 + cs, cs + b'0' * 10, b'1' + cs, b'100' + cs[1:],
                   cs[:1], cs[1:], b'0x' + cs, b'+' + cs, b' ' + cs, b'FFFFFFFF' + cs, b'00000' + cs + b'0'):
            add(head + sp, 0)
    for _ in range(scale(tier, 600, 8000)):
        add(gen.valid_sentence(rng))
    return out

def sentence_pairwise_cases(rng, tier):
    """every pair of the dimensions of a sentence at every pair of their noteworthy values — start delimiter, talker /
    report type (known, lower case, unknown), TAG block (none, plain, with commas, hostile), sequence id, channel
    (none, one, several characters), payload (a type per bucket, lower-case first character, unsupported type), fill,
    what follows the checksum (nothing, a line end, a logger's fields, another sentence) — the other dimensions random:
    a dependence of the handling of one part of the line on ONE other part shows on one of these; decoded and not"""
    out = []
    pays = []
    for t in (1, 18, 5, 21, 27, 16):
        pays.append(gen.armor(gen.message_bits(rng, t, 'random')))
    p18, f18 = gen.armor(gen.message_bits(rng, 18, 'random'))
    pays += [(b'b' + p18[1:], f18), (b'k' + p18[1:], f18), (b'F' + p18[1:], f18), (bytes(rng.choice(b'abcdefghijklmnopqrstuvw') for _ in range(28)), 0)]
    dims = {
        'start': [b'!', b'$'],
        'addr': [b'AIVDM', b'AIVDO', b'aivdm', b'AIvdm', b'XXVDM', b'AIXXX', b'BSVDM', b'\xc1IVDM'],
        'tag': [None, b's:1*6F', b's:rx1,c:1696241893*0A', b'g:1-2-73874,n:5*00', gen.hostile_tag_block(rng), b''],
        'sid': [None, 0, 3, b'03'],
        'chan': [b'A', b'B', b'', b'AB', b'1'],
        'pay': pays,
        'tail': [b'', b'\r\n', b'\n', b',1696241893', b',x,y', b' ', b'\r\n!AIVDM,1,1,,A,15M,0*6F'],
        'frag': [(1, 1), (2, 1), (1, 1)],
    }
    names = list(dims)
    def build(choice):
        pay, fill = choice['pay']
        n, k = choice['frag']
        return gen.sentence(pay, fill, n, k, choice['sid'], chan=choice['chan'], addr=choice['addr'], start=choice['start'], tag=choice['tag'], tail=choice['tail'])
    for i in range(len(names)):
        for j in range(i + 1, len(names)):
            for va in dims[names[i]]:
                for vb in dims[names[j]]:
                    choice = {nm: rng.choice(vs) for nm, vs in dims.items()}
                    # mostly ordinary values in the other dimensions, so that the line gets far enough for the pair to matter
                    for nm in names:
                        if nm not in (names[i], names[j]) and rng.random() < 0.6: choice[nm] = dims[nm][0]
                    choice[names[i]] = va; choice[names[j]] = vb
                    line = build(choice)
                    for d in (0, 1):
                        out.append('H'); out.append(L(0, d, line))
    return out

def address_sweeps(rng, tier):
    """C07: the two address tables exhaustively — all 2^16 talkers and all 2^24 three-byte report
    types (256 sweeps), plus talker x first report byte"""
    from . import sweep
    line = gen.sentence(b'15M', 0)
    out = [sweep.case(line, 1, 2), sweep.case(gen.sentence(b'15M', 0, addr=b'AIVDO'), 1, 2), sweep.case(gen.sentence(b'15M', 0, start=b'$'), 1, 2),
           sweep.case(line, 2, 3), sweep.case(line, 1, 3)]
    for x in range(256):
        out.append(sweep.case(gen.sentence(b'15M', 0, addr=b'AI' + bytes([x]) + b'DM'), 4, 5))
    # the channel field: every two-byte field, and every pair in front of / behind a third byte
    l2, l3 = gen.sentence(b'15M', 0, chan=b'AB'), gen.sentence(b'15M', 0, chan=b'ABC')
    i = l2.index(b',AB,') + 1
    out += [sweep.case(l2, i, i + 1), sweep.case(l3, i, i + 1), sweep.case(l3, i + 1, i + 2),
            sweep.case(gen.sentence(b'15M', 0, chan=b'\xe2\x82\xac'), i, i + 2), sweep.case(gen.sentence(b'15M', 0, chan=b'\xf0\x9f\x98\x80'), i, i + 1)]
    if tier != 'quick':
        for x in range(256):
            out.append(sweep.case(gen.sentence(b'15M', 0, addr=bytes([x]) + b'IVDM'), 2, 3))     # talker x first report byte
            out.append(sweep.case(gen.sentence(b'15M', 0, addr=b'A' + bytes([x]) + b'VDM'), 1, 5))
    return out

def sentence_sweeps(rng, tier, decode=0):
    """C01/C07/C08: every adjacent byte pair (and pairs one apart) of sentences of each shape, checksum kept valid"""
    from . import sweep
    pay, fill = gen.armor(gen.message_bits(rng, rng.choice([1, 5, 18, 24])))
    pay = pay[:9]
    lines = [gen.sentence(b'15M', 0), gen.sentence(pay, 2, 2, 1, 7, chan=b'B'), gen.sentence(pay, 0, 12, 10, 3, chan=b''),
             gen.sentence(b'15M', 0, tag=b's:r!*4A')]
    if tier != 'quick':
        lines += [gen.sentence(pay, 0, tag=b's:r,c:12*4A'), gen.sentence(pay, 5, 1, 1, 0, start=b'$'), gen.sentence(b'', 0), gen.sentence(pay, 0, tail=b'\r')]
    out = []
    for l in lines:
        out += sweep.adjacent(l, decode, 1, gaps=(1, 2) if tier != 'quick' else (1,))
        star = l.rfind(b'*')
        # the checksum field itself and its neighbours, not recomputed
        out += [sweep.case(l, star + 1, star + 2, decode, 0), sweep.case(l, star, star + 1, decode, 0), sweep.case(l, star - 1, star + 2, decode, 0)]
        if len(l) > star + 3: out.append(sweep.case(l, star + 2, star + 3, decode, 0))
    return out

def message_sweeps(rng, tier, types=None, per_type=None):
    """C04/C09/C10/C11/C12/C14/C16: every value of a 16-bit window of a plausible payload of each type
    (65536 payloads per sweep, compared through one digest); thorough tier only — the extracted model
    needs 5-30 s per sweep"""
    from . import sweep
    out = []
    per_type = per_type or scale(tier, 1, 4)
    for t in (types or sorted(gen.LAYOUTS)):
        for j in range(per_type):
            b = gen.pack(gen.message_bits(rng, t, mode=['mixed', 'random', 'ones', 'zeros'][j % 4]))
            if t == 5 and j > 1: continue          # the two 120-bit texts make type 5 the slowest
            i = rng.randrange(0, len(b) - 1)
            out.append(sweep.msg_case(b, i, i + 1))
    return out

def message_type_cases(rng, tier):
    """C19: the first payload byte against payload length, fill field and sentence shape"""
    out = []
    pay, fill = gen.armor(gen.message_bits(rng, 1))
    rests = [b'', b'0', b'w', pay[1:]]
    for ch in range(256):
        for rest in rests:
            p = bytes([ch]) + rest
            for f in range(0, 7):
                out += ['H', L(0, rng.randrange(2), gen.sentence(p, f, start=rng.choice([b'!', b'$'])))]
                out += ['H', L(0, 0, gen.sentence(p, f, 2, 1, 5)), L(0, rng.randrange(2), gen.sentence(b'0000', 0, 2, 2, 5))]
                out += ['H', L(0, 0, gen.sentence(pay, 0, 2, 1, 5)), L(0, rng.randrange(2), gen.sentence(p, f, 2, 2, 5))]
                out += ['H', L(0, 0, gen.sentence(pay, 0, 3, 1, 5)), L(0, 0, gen.sentence(p, f, 3, 2, 5)), L(0, rng.randrange(2), gen.sentence(b'00', 0, 3, 3, 5))]
    return out

def message_type_sweeps(rng, tier):
    """C19: first payload byte x second payload byte, first payload byte x fill field (one-character
    payload), with and without decoding, unfragmented and as a first fragment"""
    from . import sweep
    out = []
    for d in (0, 1):
        for n, k, sid in ((1, 1, None), (2, 1, 4)):
            l1 = gen.sentence(b'1', 0, n, k, sid)          # ...,A,1,0*hh
            i = l1.rfind(b',') - 1
            out.append(sweep.case(l1, i, i + 2, d, 1, sweep.MTYPE))
            l2 = gen.sentence(b'15M0', 0, n, k, sid)
            i = l2.rfind(b',') - 4
            out.append(sweep.case(l2, i, i + 1, d, 1, sweep.MTYPE))
            out.append(sweep.case(l2, i, l2.rfind(b',') + 1, d, 1, sweep.MTYPE))
    return out

def sentence_context_cases(rng, tier):
    """C07: the reported fields and payload of sentences with every numbering shape, offered on a
    fresh parser, inside an open group and right after a delivered group (same and other id)"""
    out = []
    pay, fill = gen.armor(gen.message_bits(rng, 1))
    shapes = [(n, k) for n in (0, 1, 2, 3, 9, 255) for k in (0, 1, 2, 3, 9, 255)]
    for sid in (None, 1, 7):
        for n, k in shapes:
            target = gen.sentence(pay, fill, n, k, sid, chan=rng.choice([b'A', b'B', b'']))
            for ctx in range(5):
                out.append('H')
                if ctx == 1:      # open group, previous fragment k-1 accepted
                    for j in range(1, max(k, 1)):
                        out.append(L(0, 0, gen.sentence(b'1', 0, max(n, k, 2), j, sid)))
                elif ctx == 2:    # just-delivered group with the same id
                    out.append(L(0, 0, gen.sentence(b'55', 0, 2, 1, sid))); out.append(L(0, 0, gen.sentence(b'66', 0, 2, 2, sid)))
                elif ctx == 3:    # just-delivered group with another id
                    out.append(L(0, 0, gen.sentence(b'55', 0, 2, 1, 3))); out.append(L(0, 0, gen.sentence(b'66', 0, 2, 2, 3)))
                elif ctx == 4:    # abandoned group with the same id
                    out.append(L(0, 0, gen.sentence(b'55', 0, 3, 1, sid)))
                out.append(L(0, rng.randrange(2), target))
                out.append(L(0, 0, target))
    return out

def mutation_cases(rng, tier):
    out = []
    def add(line):
        out.append('H'); out.append(L(0, 0, line))
    base = [gen.valid_sentence(rng) for _ in range(scale(tier, 25, 300))]
    base += [gen.sentence(b'15M', 0), gen.sentence(b'1', 0, n=2, k=1, sid=3), gen.sentence(b'15M', 0, tag=b'x')]
    for s in base:
        add(s)
        for i in range(len(s) + 1):
            add(s[:i] + s[i + 1:])                               # delete
            for c in b',*!$\\0A9Ff\x00\xff @':
                add(s[:i] + bytes([c]) + s[i:])                  # insert
                if i < len(s): add(s[:i] + bytes([c]) + s[i + 1:])   # replace
        parts = s.split(b',')
        for j in range(len(parts)):
            add(b','.join(parts[:j] + parts[j + 1:]))
            add(b','.join(parts[:j] + [parts[j]] + parts[j:]))
            add(b','.join(parts[:j] + [b''] + parts[j + 1:]))
    # fragment-numbered shapes in the state where sequencing lets them through
    for n, k, sid in ((2, 2, 1), (3, 2, 1), (3, 3, None), (9, 9, 7), (2, 2, None)):
        for payload, fill, cs in ((b'15M', 0, None), (b'', 0, None), (b'15M', 6, None), (b'15M', 0, b'00'), (b'1,5', 0, None), (b'15M', b'', None), (b'*', 0, None)):
            line = gen.sentence(payload, fill, n, k, sid, cs=cs)
            variants = [line, line[:-3], line.replace(b',A,', b',,', 1), line.replace(b'!', b'$', 1), b'\\x\\' + line]
            for v in variants:
                out.append('H')
                for j in range(1, k): out.append(L(0, 0, gen.sentence(b'1', 0, n, j, sid)))
                out.append(L(0, 0, v)); out.append(L(0, 0, v))
    near = [b'', b'!', b'$', b'!AIVDM', b'!AIVDM,1,1,,A,15M,0', b'!AIVDM,1,1,,A,15M,0*', b'!AIVDM,1,1,,A,15M,0*G', b'!AIVDM,1,1,,A,,0*00',
            b'!AIVDM,1,1,,A,15M,6*00', b'!AIVDM,1,1,,A,15M,*00', b'!AIVDM,,1,,A,15M,0*00', b'!AIVDM,1,,,A,15M,0*00',
            b'!AIVDM,1,1,,A,15M,0*100', b'!AIVDM,1,1,,A,15M,0*0000000000', b'\\!AIVDM,1,1,,A,15M,0*00', b'\\\\!AIVDM,1,1,,A,15M,0*00',
            b'!AIVDM,1,1,,A,15M*zz,0*73', b'!AIVDM,1,1,,A*,15M,0*00', b'!AIV*M,1,1,,A,15M,0*00', b'!AIVDM,1,1,,A,15M,0,0*00',
            b'!AIVDM,1,1,A,15M,0*00', b'!AIVDM,+1,1,,A,15M,0*00', b'!AIVDM,1,-1,,A,15M,0*00', b'!AIVDM,1,1,,A,15M,+0*00',
            b'!AIVDM,1,1,,A,15M,05*00', b'!AIVDM,1,1,,A,15M,5*', b'!AIVDM, 1,1,,A,15M,0*00']
    for s in near:
        add(s)
        if b'*' in s:   # with the right checksum too
            body = s[1:s.index(b'*')] if s[:1] in (b'!', b'$') else s[:s.index(b'*')]
            add(s[:s.index(b'*') + 1] + b'%02X' % gen.checksum(body))
    for _ in range(scale(tier, 8000, 150000)):
        add(gen.random_line(rng))
    for _ in range(scale(tier, 4000, 80000)):
        add(gen.mutate(rng, gen.mutate(rng, rng.choice(base))))
    return out

def checksum_cases(rng, tier):
    out = []
    def hist(prior, line):
        out.append('H')
        for p in prior: out.append(L(0, 0, p))
        out.append(L(0, 1, line))
        if (len(out) + len(line)) % 3 == 0:      # the same line again, straight away (a retransmission)
            out.append(L(0, 1, line)); out.append(L(0, 0, line))
    pay2 = gen.armor(gen.message_bits(rng, 5))[0]
    f1, f2 = gen.fragment(rng, pay2, 2, 2, 7)
    priors = [[], [f1], [f1, f2]]
    bodies = []
    for _ in range(scale(tier, 40, 600)):
        s = gen.valid_sentence(rng)
        bodies.append(s)
    bodies += [f1, f2, gen.sentence(b'15M', 0), gen.sentence(b'1*5M', 0), gen.sentence(b'15M', 0, chan=b'*'), gen.sentence(b'15M', 0, addr=b'A*VDM')]
    # tag blocks whose text contains the characters that delimit the checksummed body
    tagged = [gen.sentence(b'15M', 0, tag=t, start=st) for st in (b'!', b'$')
              for t in (b's:ST!N01,c:1696241893*37', b't:ahoy!*1A', b's:rx$7*00', b'g:1-2-3*5F', b'x!AIVDM,1,1,,A,15M,0*6F',
                        b'a*b', b'$', b'!', b'!*', b'$AI*00', b's:1*6F')]
    tagged.append(gen.fragment(rng, pay2, 2, 2, 7)[1].replace(b'!', b'\\s:AB!g:2-2-1*2A\\!', 1))
    bodies += tagged
    for s in bodies:
        star = s.rindex(b'*')
        for v in range(256):
            for fmt in ((b'%02X',) if v % 7 else (b'%02X', b'%02x', b'%X', b'%04X')):
                hist(priors[v % 3], s[:star + 1] + fmt % v)
            if v % 5 == 0:      # long digit runs: only the first eight digits are read
                for fmt in (b'%08X', b'1%08X', b'%09X', b'F0%08X', b'%07X', b'%012X', b'1000%08x'):
                    hist(priors[v % 3], s[:star + 1] + fmt % v)
    # long bodies (payload, channel or talker-side garbage makes no difference to the rule): every byte between the
    # delimiter and the '*' counts, also the one at offset 255, 256, 384, 512, 4096 ...; right checksum, a checksum
    # that is right for a prefix of the body only, and single-bit errors in the last bytes
    A = gen.ALPHABET
    for n in (200, 250, 255, 256, 257, 300, 370, 380, 383, 384, 385, 386, 400, 511, 512, 513, 600, 1000, 1023, 1024, 1025, 4095, 4096, 4097):
        for where in ('payload', 'channel'):
            filler = bytes(rng.choice(A) for _ in range(n))
            s = gen.sentence(filler, 0) if where == 'payload' else gen.sentence(pay2[:28], 0, chan=filler)
            star = s.rindex(b'*'); body = s[1:star]
            hist([], s)
            for cut in (255, 256, 383, 384, 385, 511, 512, 1024, 4096, 65535, 65536, len(body) - 1, len(body) - 2):
                if 0 < cut < len(body):
                    hist([], s[:star + 1] + b'%02X' % gen.checksum(body[:cut]))          # right for a prefix only
            for back in (1, 2, 3, 20):
                i = star - back
                hist([], s[:i] + bytes([s[i] ^ 1]) + s[i:][1:])                            # an error near the end, checksum left as it was
    base = [gen.valid_sentence(rng) for _ in range(scale(tier, 60, 800))] + [f2] + tagged[:4]
    for s in base:
        for i in range(len(s)):
            reps = {s[i] ^ (1 << b) for b in range(8)} | {42, 44, 33, 36, 92} | {rng.getrandbits(8) for _ in range(4)}
            for c in reps:
                if c != s[i]:
                    hist(priors[(i + c) % 3], s[:i] + bytes([c]) + s[i + 1:])
    return out

SYMS = None
def history_alphabet():
    """sentence alphabet for exhaustive histories: n in 1..3, k in 0..4, id in {none, 1, 2};
    distinct one-character payloads so that every delivered concatenation identifies its parts"""
    syms = []
    i = 0
    for sid in (None, 1, 2):
        for n, k in ((2, 1), (2, 2), (3, 1), (3, 2), (3, 3), (2, 3), (3, 0), (2, 0)):
            if sid == 2 and (n, k) in ((2, 3), (3, 0), (2, 0)): continue
            syms.append(gen.sentence(bytes([gen.ALPHABET[1 + i % 60]]), 0, n, k, sid)); i += 1
    syms.append(gen.sentence(b'7', 3, 2, 1, 1))                  # first fragment carrying fill bits
    syms.append(gen.sentence(b'8', 5, 3, 2, 1))                  # middle fragment carrying fill bits
    syms.append(gen.sentence(b'15M', 0))                         # unfragmented
    syms.append(gen.sentence(b'15M', 0, cs=b'00'))               # bad checksum
    syms.append(b'garbage')                                      # bad form
    syms.append(gen.sentence(b'1', 0, 1, 2, 1))                  # "2 of 1"
    syms.append(gen.sentence(b'2', 0, 0, 1, 1))                  # "1 of 0"
    return syms

def history_cases(rng, tier, depth=None):
    syms = history_alphabet()
    depth = depth or scale(tier, 3, 4)
    out = []
    for h in itertools.product(range(len(syms)), repeat=depth):
        out.append('H')
        for s in h: out.append(L(0, 0, syms[s]))
    return out, len(syms)

def random_history(rng, length):
    """validly numbered sentences over several ids and group sizes with loss, duplication, reordering,
    interleaving, id reuse; plus unfragmented and rejected lines"""
    lines = []
    pending = []
    while len(lines) < length:
        c = rng.random()
        if c < 0.45:
            t = rng.choice(gen.SUPPORTED)
            pay, fill = gen.armor(gen.message_bits(rng, t))
            n = rng.choice([2, 2, 3, 4, 5, 9])
            sid = rng.choice([None, 0, 1, 2, 3, 9])
            frs = gen.fragment(rng, pay, fill, n, sid, chan=rng.choice([b'A', b'A', b'B', b'B', b'', b'1', b'2']))
            d = rng.random()
            if d < 0.25 and len(frs) > 1: del frs[rng.randrange(len(frs))]            # loss
            elif d < 0.4: j = rng.randrange(len(frs)); frs.insert(j, frs[j])           # duplication
            elif d < 0.5 and len(frs) > 1:
                j = rng.randrange(len(frs) - 1); frs[j], frs[j + 1] = frs[j + 1], frs[j]   # reordering
            if rng.random() < 0.3 and pending:
                other = pending.pop()
                frs = [x for pair in itertools.zip_longest(frs, other) for x in pair if x is not None]   # interleave groups
            elif rng.random() < 0.2:
                pending.append(frs); continue
            if rng.random() < 0.12:       # a fragment whose payload carries an arbitrary byte (checksum still right)
                j = rng.randrange(len(frs)); f = frs[j].split(b',')
                if len(f) == 7 and f[5]:
                    k = rng.randrange(len(f[5])); b = rng.choice([0x80, 0xff, 0xc3, 0xe2, 0x7f, 0x20, 0x00, 0x58, 0x78, rng.getrandbits(8)])
                    if b not in (0x2c, 0x2a, 0x0a, 0x0d):
                        f[5] = f[5][:k] + bytes([b]) + f[5][k + 1:]
                        body = b','.join(f)[1:].split(b'*')[0]
                        frs[j] = frs[j][:1] + body + b'*%02X' % gen.checksum(body)
            lines += frs
        elif c < 0.7: lines.append(gen.valid_sentence(rng))
        elif c < 0.8: lines.append(gen.mutate(rng, gen.valid_sentence(rng)))
        elif c < 0.86: lines.append(gen.random_line(rng))
        elif c < 0.93: lines.append(gen.undecodable_sentence(rng))
        else:
            s = gen.valid_sentence(rng); lines.append(s[:-2] + b'00')
    return lines[:length]

def random_history_cases(rng, tier, count=None, length=None):
    out = []
    for _ in range(count or scale(tier, 300, 6000)):
        out.append('H')
        for l in random_history(rng, length or rng.choice([5, 20, 60, 200])):
            out.append(L(0, rng.randrange(2), l))
    return out

def reassembly_cases(rng, tier):
    """C05: in-order groups under priors and interleaved transparent lines, with conversions"""
    out = []
    for _ in range(scale(tier, 1200, 30000)):
        t = rng.choice(gen.SUPPORTED)
        pay, fill = gen.armor(gen.message_bits(rng, t))
        if len(pay) < 2: continue
        n = rng.choice([2, 2, 3, 4, 5, 6, 7, 8, 9, 9, 10, 12])
        n = min(n, len(pay))
        sid = rng.choice([None, 0, 1, 5, 9, 10, 42, 255, b'007', b'00'])
        if rng.random() < 0.12:      # a group that no decoder exists for / that cannot be unarmored
            pay = rng.choice([bytes([gen.armor_char(rng.choice([0, 22, 23, 25, 26, 28, 63]))]) + pay[1:], pay[:3] + b'x' + pay[4:]])
        frs = gen.fragment(rng, pay, fill, n, sid)
        prior = rng.randrange(5)
        out.append('H c')
        d = rng.randrange(2)
        mixed = rng.random() < 0.35       # every line with its own decode flag
        if prior == 1:   # abandoned group
            for l in gen.fragment(rng, pay, fill, max(2, n), rng.choice([sid, 3]))[:rng.randrange(1, max(2, n))]: out.append(L(0, d, l))
        elif prior == 2:  # just-delivered group
            for l in gen.fragment(rng, pay, fill, n, sid): out.append(L(0, d, l))
        elif prior == 3:  # failed final fragment (payload does not decode)
            for l in gen.fragment(rng, b'000', 0, 2, sid): out.append(L(0, 1, l))
        elif prior == 4:
            for l in random_history(rng, rng.randrange(1, 12)): out.append(L(0, d, l))
        for fr in frs:
            while rng.random() < 0.3:   # transparent lines between the fragments
                x = rng.choice([gen.valid_sentence(rng), b'junk', gen.valid_sentence(rng)[:-2] + b'zz',
                                gen.sentence(b'9', 0, n + 1, n + 1, sid), gen.sentence(b'9', 0, 3, 2, 77),
                                # unfragmented sentences that do not decode: unsupported type, too short, bad character
                                gen.sentence(bytes([gen.armor_char(rng.choice([0, 22, 23, 25, 26, 28, 63]))]) + bytes(rng.choice(gen.ALPHABET) for _ in range(27)), 0),
                                gen.sentence(b'1', 0), gen.sentence(b'1x5', 0), gen.undecodable_sentence(rng, 0), gen.undecodable_sentence(rng)])
                out.append(C(0, rng.randrange(2), x))
            out.append(C(0, rng.randrange(2) if (mixed and fr is not frs[-1]) else d, fr))    # the last line and the unfragmented twin share their flag
        out.append(C(0, d, gen.sentence(pay, fill)))     # the same payload unfragmented
    # consecutive fragments that look alike: same length and same checksum (the only difference a receiver
    # can rely on is the fragment number), identical payload parts, and parts differing in one character
    for _ in range(scale(tier, 40, 400)):
        t = rng.choice([5, 6, 8, 12, 14, 17, 19, 21])
        pay, fill = gen.armor(gen.message_bits(rng, t, 'random'))
        n = rng.choice([2, 3, 4]); L0 = len(pay) // n
        if L0 < 3: continue
        parts = [bytearray(pay[i * L0:(i + 1) * L0]) for i in range(n - 1)] + [bytearray(pay[(n - 1) * L0:(n - 1) * L0 + L0])]
        sid = rng.choice([None, 3, 7])
        def line(i): return gen.sentence(bytes(parts[i]), fill if i == n - 1 else 0, n, i + 1, sid)
        j = rng.randrange(n - 1)          # make fragment j+1 collide with fragment j
        mode = rng.randrange(3)
        if mode == 0: parts[j + 1] = bytearray(parts[j])
        for _try in range(4000):
            a, b = line(j), line(j + 1)
            if a[-2:] == b[-2:] and len(a) == len(b): break
            k = rng.randrange(len(parts[j + 1])); parts[j + 1][k] = rng.choice(gen.ALPHABET)
        out.append('H c')
        for i in range(n): out.append(C(0, 1, line(i)))
        out.append(C(0, 1, gen.sentence(b''.join(bytes(p) for p in parts), fill)))
    # long runs of transparent lines between two fragments (anything that counts lines to age a group out)
    for K in (1, 2, 7, 8, 9, 10, 15, 16, 17, 31, 32, 33, 63, 64, 65, 100, 127, 128, 129, 255, 256, 257, 300):
        pay, fill = gen.armor(gen.message_bits(rng, rng.choice([5, 8, 21])))
        frs = gen.fragment(rng, pay, fill, 2, rng.choice([None, 1]))
        for kind in range(3):
            out.append('H c'); out.append(C(0, 1, frs[0]))
            for _ in range(K):
                x = [gen.valid_sentence(rng), gen.sentence(b'9', 0, 2, 2, 8), gen.valid_sentence(rng)[:-2] + b'zz'][kind]
                out.append(L(0, 1, x))
            out.append(C(0, 1, frs[1]))
            out.append(C(0, 1, gen.sentence(pay, fill)))
    # all split points of short payloads
    for t in (10, 27, 7):
        pay, fill = gen.armor(gen.message_bits(rng, t, 'random'))
        for cut in range(1, len(pay)):
            out.append('H c')
            for fr in gen.fragment(rng, pay, fill, 2, 1, cuts=[cut]): out.append(C(0, 1, fr))
        for c1 in range(1, len(pay), 3):
            for c2 in range(c1 + 1, len(pay), 2):
                out.append('H c')
                for fr in gen.fragment(rng, pay, fill, 3, None, cuts=[c1, c2]): out.append(C(0, 1, fr))
    return out

def capacity_cases(rng, tier):
    """boundaries of the no-allocator capacities"""
    out = []
    A = gen.ALPHABET
    def rp(n): return bytes(rng.choice(A) for _ in range(n))
    for n in (380, 383, 384, 385, 386, 400, 512, 513, 600):
        out.append('H'); out.append(L(0, 1, gen.sentence(b'8' + rp(n - 1), 0)))     # type 8, long
        out.append('H'); out.append(L(0, 0, gen.sentence(rp(n), 0)))
        for k in (2, 3):
            parts = gen.fragment(rng, b'8' + rp(n - 1), 0, k, 1)
            out.append('H')
            for p in parts: out.append(L(0, 1, p))
            out.append(L(0, 1, gen.sentence(b'15M', 0, 2, 1, 1))); out.append(L(0, 1, gen.sentence(b'15M', 0, 2, 2, 1)))
    # reassembly crossing 384 in the middle of a group, then continuing
    for a, b, c in ((200, 184, 10), (200, 185, 10), (384, 1, 1), (300, 300, 300), (128, 128, 128), (128, 128, 129)):
        out.append('H')
        out.append(L(0, 1, gen.sentence(b'8' + rp(a - 1), 0, 3, 1, 4)))
        out.append(L(0, 1, gen.sentence(rp(b), 0, 3, 2, 4)))
        out.append(L(0, 1, gen.sentence(rp(c), 0, 3, 3, 4)))
        out.append(L(0, 1, gen.sentence(rp(c), 0, 3, 3, 4)))
        out.append(L(0, 1, gen.sentence(b'15M', 0)))
    # an abandoned group leaves bytes behind; the next group must be judged on its own size
    for stale in (100, 300, 330, 336, 383, 384):
        for first in (40, 49, 54, 55, 71, 85):
            out.append('H')
            k, left = 1, stale
            while left > 0:
                out.append(L(0, 0, gen.sentence(rp(min(60, left)), 0, 9, k, 3))); left -= 60; k += 1
            pay, fill = gen.armor(gen.message_bits(rng, 5))
            out.append(L(0, 1, gen.sentence(pay[:first], 0, 2, 1, 1))); out.append(L(0, 1, gen.sentence(pay[first:], fill, 2, 2, 1)))
            out.append(L(0, 1, gen.sentence(b'15M', 0)))
    # a continuation that the buffer cannot hold (right id, right number) is rejected there; the group's own
    # continuation, which fits, follows: what the rejected line leaves behind must not matter
    for _ in range(scale(tier, 12, 120)):
        pay, fill = gen.armor(gen.message_bits(rng, rng.choice([5, 8, 12, 19, 21])))
        n = rng.choice([2, 3, 3, 4]); sid = rng.choice([None, 1, 5])
        frs = gen.fragment(rng, pay, fill, n, sid)
        j = rng.randrange(1, n)                      # the oversized line stands in front of fragment j+1
        have = sum(len(f.split(b',')[5]) for f in frs[:j])
        big = rng.choice([384 - have + 1, 384 - have + 2, 384, 383, 360, 500])
        d = rng.randrange(2)
        out.append('H c')
        for i, fr in enumerate(frs):
            if i == j: out.append(C(0, d, gen.sentence(rp(big), 0, n, j + 1, sid)))
            out.append(C(0, d, fr))
        out.append(C(0, d, gen.sentence(pay, fill)))
    # a long group whose fragment k overflows the buffer by one byte, then more fragments
    for k in (2, 3, 100, 254, 255):
        for over in (0, 1):
            out.append('H')
            for j in range(1, k): out.append(L(0, 0, gen.sentence(b'0', 0, 255, j, None)))
            out.append(L(0, 0, gen.sentence(rp(384 - (k - 1) + over), 0, 255, k, None)))
            out.append(L(0, 0, gen.sentence(b'0', 0, 2, 2, None)))
            if k < 255: out.append(L(0, 0, gen.sentence(b'0', 0, 255, k + 1, None)))
            out.append(L(0, 1, gen.sentence(b'15M', 0)))
            out.append(L(0, 0, gen.sentence(b'0', 0, 255, 255, None)))
    for t, head in ((6, 11), (8, 7), (17, 15)):
        for n in (117, 118, 119, 120, 121, 125):
            b = bytearray(rng.getrandbits(8) for _ in range(head + n)); b[0] = (t << 2) | (b[0] & 3)
            out.append(M(bytes(b)))
    for t, hb in ((12, 72), (14, 40)):
        for n in (18, 19, 20, 21, 22, 30):
            vals = gen.rand_values(rng, gen.LAYOUTS[t], 'random'); vals['type'] = t
            out.append(M(gen.pack(gen.bits_of(gen.LAYOUTS[t], vals) + ''.join(format(rng.randrange(1, 27), '06b') for _ in range(n)))))
    for n in (510, 511, 512, 513, 514, 600):
        out.append(U(0, rp(n)))
    return out

def cli_streams(rng, tier):
    out = []
    def v(): return gen.valid_sentence(rng)
    fixed = [b'', b'\n', b'\n\n', b'x', b'x\n', b'\xff\n', b'\xff', v() + b'\n', v(), v() + b'\r\n' + v() + b'\r\n',
             b'\x00\n' + v() + b'\n', v() + b'\n\xfe\xff\n' + v() + b'\n', b'\n'.join(gen.fragment(rng, gen.armor(gen.message_bits(rng, 5))[0], 2, 2, 1)) + b'\n',
             b'a' * 100000 + b'\n' + v() + b'\n']
    bad = v(); bad = bad[:20] + b'\xc3\x28' + bad[22:]
    fixed.append(bad + b'\n' + v() + b'\n')
    g = v(); fixed.append(g[:-2] + b'zz\n\x80' + g + b'\n')
    out += fixed
    # long lines around the sizes a bounded reader would pick: noise, noise with a sentence at its end,
    # a sentence behind a long tag block, a fragment pair split by a long line
    f1, f2 = gen.fragment(rng, gen.armor(gen.message_bits(rng, 5))[0], 2, 2, 3)
    for n in (255, 256, 257, 383, 384, 385, 511, 512, 1023, 1024, 1025, 4095, 4096, 4097, 8191, 8192, 8193, 16384, 65535, 65536, 65537):
        a, b = v(), v()
        out.append(a + b'\n' + b'x' * n + b'\n' + b + b'\n')
        out.append(a + b'\n' + b'#' * (n - len(b)) + b + b'\n' + a + b'\n')
        if n <= 8193:
            out.append(b'\\' + b't' * n + b'\\' + a + b'\n' + b + b'\n')
            out.append(f1 + b'\n' + b'#' * n + f2 + b'\n' + a + b'\n')
            out.append(b'\x00' * n + b'\n' + a)
    # a group with other traffic between its fragments: unfragmented sentences that carry the group's own sequence id
    # (or another, or none), sentences that do not decode, rejected lines — none of them may touch the group
    for _ in range(scale(tier, 200, 2000)):
        pay, fill = gen.armor(gen.message_bits(rng, rng.choice([5, 8, 19, 21, 12])))
        sid = rng.choice([None, 1, 5, 9])
        frs = gen.fragment(rng, pay, fill, rng.choice([2, 2, 3, 4]), sid)
        parts = []
        for fr in frs:
            parts.append(fr)
            if fr is frs[-1]: break
            for _k in range(rng.choice([0, 1, 1, 2])):
                p2, f2_ = gen.armor(gen.message_bits(rng, rng.choice(gen.SUPPORTED)))
                parts.append(rng.choice([gen.sentence(p2, f2_, sid=sid), gen.sentence(p2, f2_, sid=sid, chan=b'B'), gen.sentence(p2, f2_, sid=rng.choice([None, 2, 5])),
                                         gen.undecodable_sentence(rng, None, sid=sid), gen.sentence(p2, f2_, sid=sid)[:-2] + b'zz', b'junk',
                                         gen.sentence(b'9', 0, 3, 3, 77)]))
        parts.append(v())
        out.append(b'\n'.join(parts) + b'\n')
    # torn lines: a sentence (plain or behind a TAG block) cut in two at the TAG block's end, inside the TAG block,
    # inside a field, in front of the checksum — each piece is a line of its own and is rejected; a tool that glues
    # pieces to their neighbours shows in the records of the good lines around them
    for _ in range(scale(tier, 150, 1500)):
        a, b2, c2 = v(), v(), v()
        tagged = gen.sentence(gen.armor(gen.message_bits(rng, rng.choice(gen.SUPPORTED)))[0], 0, tag=gen.tag_block(rng))
        t = rng.choice([tagged, tagged, b2])
        cuts = [t.find(b'\\', 1) + 1] if t[:1] == b'\\' else []
        cuts += [rng.randrange(1, len(t)), t.rfind(b'*'), t.rfind(b'*') + 1, t.find(b',') + 1]
        k = rng.choice([x for x in cuts if 0 < x < len(t)])
        follower = rng.choice([tagged, c2, gen.sentence(gen.armor(gen.message_bits(rng, 1))[0], 0, tag=b's:AIS1*00')])
        out.append(b'\n'.join([a, t[:k], follower, t[k:], c2]) + b'\n')
        out.append(b'\n'.join([a, t[:k], t[k:], follower]) + b'\n')
    # a group that is complete but does not decode (no decoder, too short, an illegal character), then a stray
    # continuation numbered one further with the same id, then ordinary traffic: the failed group is over
    for _ in range(scale(tier, 120, 1200)):
        pay, fill = gen.armor(gen.message_bits(rng, rng.choice([5, 8, 19, 21])))
        kind = rng.randrange(3)
        if kind == 0: pay = bytes([gen.armor_char(rng.choice([0, 22, 23, 25, 26, 28, 40, 63]))]) + pay[1:]
        elif kind == 1: pay = pay[:rng.randrange(8, 30)]
        else: k_ = rng.randrange(1, len(pay)); pay = pay[:k_] + bytes([rng.choice(gen.ILLEGAL_ARMOR)]) + pay[k_ + 1:]
        n = rng.choice([2, 2, 3]); sid = rng.choice([None, 3, 7])
        frs = gen.fragment(rng, pay, fill, n, sid)
        stray_pay = gen.armor(gen.message_bits(rng, 5))[0][-rng.randrange(5, 40):]
        parts = frs + [gen.sentence(stray_pay, rng.choice([0, 2]), rng.choice([n + 1, n + 2, 9]), n + 1, sid), v()]
        if rng.random() < 0.5: parts.append(gen.sentence(stray_pay, 0, 9, n + 2, sid))
        out.append(b'\n'.join(parts) + b'\n')
    for _ in range(scale(tier, 250, 5000)):
        n = rng.choice([1, 3, 10, 40])
        parts = []
        for l in random_history(rng, n):
            if rng.random() < 0.1: l = l + b'\r'
            if rng.random() < 0.1: l = bytes(rng.getrandbits(8) for _ in range(rng.randrange(0, 30))).replace(b'\n', b'\x0b')
            parts.append(l.replace(b'\n', b' '))
        s = b'\n'.join(parts)
        if rng.random() < 0.7: s += b'\n'
        out.append(s)
    return out
