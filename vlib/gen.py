"""Input generators.  The layout table below is a third transcription of ITU-R M.1371 used only
to *reach* interesting inputs (field boundaries, sentinels, thresholds); an error here lowers
coverage, never soundness — the oracle is always the Coq model."""
import random

# (name, width); names starting with '_' are spare bits
HEAD = [('type', 6), ('repeat', 2), ('mmsi', 30)]
POS123 = HEAD + [('status', 4), ('turn', 8), ('speed', 10), ('accuracy', 1), ('lon', 28), ('lat', 27),
                 ('course', 12), ('heading', 9), ('second', 6), ('maneuver', 2), ('_spare', 3), ('raim', 1),
                 ('sync', 2), ('comm', 17)]
BASE = HEAD + [('year', 14), ('month', 4), ('day', 5), ('hour', 5), ('minute', 6), ('second', 6), ('accuracy', 1),
               ('lon', 28), ('lat', 27), ('epfd', 4), ('_spare', 10), ('raim', 1), ('sync', 2), ('comm', 17)]
LAYOUTS = {
    1: POS123, 2: POS123, 3: POS123, 4: BASE, 11: BASE,
    5: HEAD + [('version', 2), ('imo', 30), ('callsign', 42), ('name', 120), ('shiptype', 8), ('bow', 9), ('stern', 9),
               ('port', 6), ('starboard', 6), ('epfd', 4), ('month', 4), ('day', 5), ('hour', 5), ('minute', 6),
               ('draught', 8), ('destination', 120), ('dte', 1), ('_spare', 1)],
    6: HEAD + [('seqno', 2), ('dest', 30), ('retransmit', 1), ('_spare', 1), ('dac', 10), ('fid', 6)],
    7: HEAD + [('_spare', 2)], 13: HEAD + [('_spare', 2)],
    8: HEAD + [('_spare', 2), ('dac', 10), ('fid', 6)],
    9: HEAD + [('altitude', 12), ('speed', 10), ('accuracy', 1), ('lon', 28), ('lat', 27), ('course', 12), ('second', 6),
               ('regional', 8), ('dte', 1), ('_spare', 3), ('assigned', 1), ('raim', 1), ('selector', 1), ('sync', 2), ('comm', 17)],
    10: HEAD + [('_spare', 2), ('dest', 30), ('_spare2', 2)],
    12: HEAD + [('seqno', 2), ('dest', 30), ('retransmit', 1), ('_spare', 1)],
    14: HEAD + [('_spare', 2)],
    15: HEAD + [('_spare', 2), ('mmsi1', 30), ('type1_1', 6), ('offset1_1', 12), ('_spare2', 2), ('type1_2', 6), ('offset1_2', 12),
                ('_spare3', 2), ('mmsi2', 30), ('type2_1', 6), ('offset2_1', 12), ('_spare4', 2)],
    16: HEAD + [('_spare', 2), ('mmsi1', 30), ('offset1', 12), ('increment1', 10), ('mmsi2', 30), ('offset2', 12), ('increment2', 10)],
    17: HEAD + [('_spare', 2), ('lon', 18), ('lat', 17), ('_spare2', 5), ('dtype', 6), ('station', 10), ('zcount', 13),
                ('seq', 3), ('n', 5), ('health', 3)],
    18: HEAD + [('_reserved', 8), ('speed', 10), ('accuracy', 1), ('lon', 28), ('lat', 27), ('course', 12), ('heading', 9),
                ('second', 6), ('_reserved2', 2), ('cs', 1), ('display', 1), ('dsc', 1), ('band', 1), ('msg22', 1),
                ('assigned', 1), ('raim', 1), ('selector', 1), ('sync', 2), ('comm', 17)],
    19: HEAD + [('_reserved', 8), ('speed', 10), ('accuracy', 1), ('lon', 28), ('lat', 27), ('course', 12), ('heading', 9),
                ('second', 6), ('_reserved2', 4), ('name', 120), ('shiptype', 8), ('bow', 9), ('stern', 9), ('port', 6),
                ('starboard', 6), ('epfd', 4), ('raim', 1), ('dte', 1), ('assigned', 1), ('_spare', 4)],
    20: HEAD + [('_spare', 2)],
    21: HEAD + [('aidtype', 5), ('name', 120), ('accuracy', 1), ('lon', 28), ('lat', 27), ('bow', 9), ('stern', 9), ('port', 6),
                ('starboard', 6), ('epfd', 4), ('second', 6), ('offposition', 1), ('regional', 8), ('raim', 1), ('virtual', 1),
                ('assigned', 1), ('_spare', 1)],
    24: HEAD + [('part', 2)],
    27: HEAD + [('accuracy', 1), ('raim', 1), ('status', 4), ('lon', 18), ('lat', 17), ('speed', 6), ('course', 9), ('gnss', 1), ('_spare', 1)],
}
PART_A = [('name', 120), ('_spare', 7)]
PART_B = [('shiptype', 8), ('vendor', 18), ('model', 4), ('serial', 20), ('callsign', 42), ('bow', 9), ('stern', 9),
          ('port', 6), ('starboard', 6), ('_spare', 6)]
ACK = [('ackmmsi', 30), ('ackseq', 2)]
RESERVATION = [('offset', 12), ('slots', 4), ('timeout', 3), ('increment', 11)]
SUPPORTED = [1, 2, 3, 4, 5, 6, 7, 8, 9, 10, 11, 12, 13, 14, 15, 16, 17, 18, 19, 20, 21, 24, 27]
SENTINELS = [1023, 3600, 511, 128, 4095, 60, 63, 15, 108600000, 54600000, 108600, 54600, 100, 99, 31, 32]

def interesting(rng, w):
    """a directed value for a w-bit field"""
    m = (1 << w) - 1
    c = rng.random()
    if c < 0.12: return 0
    if c < 0.20: return m
    if c < 0.26: return 1
    if c < 0.32: return m - 1
    if c < 0.40: return 1 << rng.randrange(w)
    if c < 0.45: return m ^ (1 << rng.randrange(w))
    if c < 0.60:
        s = rng.choice(SENTINELS) + rng.choice([0, 0, 1, -1])
        return s & m
    if c < 0.65: return 1 << (w - 1)          # most negative for signed fields
    return rng.getrandbits(w)

def decimal_identity(rng):
    """a 30-bit identity with the decimal structure ITU-R M.585 gives to station classes (a
    maintainer's heuristic would key on these digits): 99MIDaXXX aids, 111MIDXXX aircraft, 00MIDXXXX
    coast, 0MIDXXXXX groups, 970/972/974 devices, 98MIDXXXX craft, 8MIDXXXXX handhelds, plain ships"""
    return identity_of_class(rng, rng.randrange(9))

IDENTITY_CLASSES = 9
def identity_of_class(rng, c):
    mid = rng.randrange(201, 776)
    if c == 0: return 990000000 + mid * 10000 + rng.randrange(10) * 1000 + rng.randrange(1000)
    if c == 1: return 111000000 + mid * 1000 + rng.randrange(1000)
    if c == 2: return mid * 10000 + rng.randrange(10000)
    if c == 3: return mid * 100000 + rng.randrange(100000)
    if c == 4: return rng.choice([970, 972, 974]) * 1000000 + rng.randrange(1000000)
    if c == 5: return 980000000 + mid * 10000 + rng.randrange(10000)
    if c == 6: return 800000000 + mid * 100000 + rng.randrange(100000)
    if c == 7: return rng.randrange(10 ** 9)
    return mid * 1000000 + rng.randrange(1000000)

def bits_of(fields, values):
    out = []
    for name, w in fields:
        v = values.get(name, 0) & ((1 << w) - 1)
        out.append(format(v, '0%db' % w))
    return ''.join(out)

# the largest value of a field that is still a meaningful measurement, and its "not available" code
MAX_VALID = {'hour': 23, 'minute': 59, 'second': 59, 'month': 12, 'day': 31, 'year': 9999, 'heading': 359, 'course': 3599,
             'speed': 1022, 'lon': 180 * 600000, 'lat': 90 * 600000, 'turn': 127, 'altitude': 4094, 'status': 14, 'epfd': 8,
             'maneuver': 2, 'shiptype': 99, 'aidtype': 31, 'draught': 255}
NOT_AVAILABLE = {'hour': 24, 'minute': 60, 'second': 60, 'month': 0, 'day': 0, 'year': 0, 'heading': 511, 'course': 3600,
                 'speed': 1023, 'lon': 181 * 600000, 'lat': 91 * 600000, 'turn': 128, 'altitude': 4095, 'status': 15, 'epfd': 0,
                 'maneuver': 0, 'shiptype': 0, 'aidtype': 0}
def _scaled(name, w, table):
    v = table.get(name.rstrip('0123456789'))
    if v is None: return None
    if name in ('lon', 'lat') and w <= 18: v //= 1000           # the 1/10-minute forms
    if name == 'speed' and w == 6: v = 62 if table is MAX_VALID else 63
    if name == 'course' and w == 9: v = 359 if table is MAX_VALID else 511
    return v & ((1 << w) - 1)

def rand_values(rng, fields, mode='mixed'):
    vals = {}
    for name, w in fields:
        if name == 'type': continue
        if mode in ('maxvalid', 'unavailable'):
            # every field at the edge of its meaningful range (23:59:59 on 31 December ...) / every field at its
            # "not available" code: the corners where special-casing of one field by its neighbours lives
            v = _scaled(name, w, MAX_VALID if mode == 'maxvalid' else NOT_AVAILABLE)
            vals[name] = v if v is not None else (((1 << w) - 1) if mode == 'maxvalid' else 0)
        elif mode == 'random': vals[name] = rng.getrandbits(w)
        elif mode == 'zeros': vals[name] = 0
        elif mode == 'ones': vals[name] = (1 << w) - 1
        elif mode == 'decimal':      # plausible traffic: identities with decimal structure, other fields random
            vals[name] = decimal_identity(rng) if w == 30 else rng.getrandbits(w)
        else: vals[name] = interesting(rng, w) if rng.random() < 0.5 else rng.getrandbits(w)
    return vals

def message_bits(rng, t, mode='mixed', overrides=None):
    """bit string (text of 0/1) of a plausible message of type t, with its variable part"""
    f = list(LAYOUTS[t])
    vals = rand_values(rng, f, mode)
    vals['type'] = t
    bits = ''
    if overrides: vals.update(overrides)
    bits = bits_of(f, vals)
    if t in (7, 13):
        for _ in range(rng.choice([1, 1, 2, 3, 4, 4, 5])):
            bits += bits_of(ACK, rand_values(rng, ACK, mode))
    elif t == 20:
        for _ in range(rng.choice([1, 2, 3, 4, 4, 5])):
            bits += bits_of(RESERVATION, rand_values(rng, RESERVATION, mode))
    elif t in (6, 8, 17):
        n = rng.choice([0, 1, 2, 8, 16, 40, rng.randrange(0, 120)])
        bits += ''.join(rng.choice('01') for _ in range(8 * n))
    elif t in (12, 14):
        n = rng.choice([1, 2, 5, 19, 20, 21, rng.randrange(1, 157)])
        bits += ''.join(rng.choice('01') for _ in range(6 * n))
    elif t == 24:
        part = vals['part']
        if part == 0: bits += bits_of(PART_A, rand_values(rng, PART_A, mode))
        elif part == 1: bits += bits_of(PART_B, rand_values(rng, PART_B, mode))
    elif t == 15:
        cut = rng.choice([88, 110, 160, 160, 160, 108, 96, 140])
        bits = bits[:cut]
    elif t == 16:
        if rng.random() < 0.4: bits = bits[:96]
    elif t == 5:
        if rng.random() < 0.3: bits = bits[:rng.choice([302, 308, 350, 416, 420, 422, 423])]
    return bits

def pack(bits):
    """bit string -> bytes, zero padded to a whole byte"""
    bits = bits + '0' * (-len(bits) % 8)
    return bytes(int(bits[i:i + 8], 2) for i in range(0, len(bits), 8))

def armor_char(v):
    return v + 48 if v < 40 else v + 56

def armor(bits, fill_bits=None):
    """bit string -> (armoured payload bytes, fill count).  The fill positions of the last character are
    zeros, or the given bit string (a transmitter may leave anything there: the receiver must clear them)"""
    fill = -len(bits) % 6
    bits = bits + ((fill_bits or '') + '0' * fill)[:fill]
    return bytes(armor_char(int(bits[i:i + 6], 2)) for i in range(0, len(bits), 6)), fill

def armor_val(c):
    if 48 <= c <= 87: return c - 48
    if 96 <= c <= 119: return c - 56
    return None

ALPHABET = bytes(list(range(48, 88)) + list(range(96, 120)))

def checksum(body):
    x = 0
    for b in body: x ^= b
    return x

def sentence(payload, fill=0, n=1, k=1, sid=None, chan=b'A', addr=b'AIVDM', start=b'!', tag=None, cs=None, tail=b''):
    """A framed sentence.  n, k, sid, fill may be ints or raw byte strings."""
    def num(x):
        if x is None: return b''
        return x if isinstance(x, bytes) else str(x).encode()
    body = addr + b',' + num(n) + b',' + num(k) + b',' + num(sid) + b',' + chan + b',' + payload + b',' + num(fill)
    c = checksum(body) if cs is None else cs
    line = start + body + b'*' + (c if isinstance(c, bytes) else b'%02X' % c) + tail
    if tag is not None:
        line = b'\\' + tag + b'\\' + line
    return line

def tag_block(rng, k=None, n=None, gid=None):
    """the content of a realistic NMEA 4.0 TAG block (group, line count, source, time, destination, text
    parameters in any order) with its own checksum"""
    parts = []
    if gid is not None or rng.random() < 0.7:
        g = gid if gid is not None else rng.choice([0, 1, 7, 9, 42, 255, 256, 73874, 4294967295])
        parts.append(b'g:%d-%d-%d' % (k or rng.randrange(1, 4), n or rng.randrange(1, 4), g))
    if rng.random() < 0.5: parts.append(b'n:%d' % rng.randrange(1, 999999))
    if rng.random() < 0.6: parts.append(b's:' + rng.choice([b'r003669945', b'AIS1', b'2573345', b'b']))
    if rng.random() < 0.6: parts.append(b'c:%d' % rng.choice([1241544035, 1696241893, 0, 1]))
    if rng.random() < 0.15: parts.append(b'd:' + rng.choice([b'DEST', b'1']))
    if rng.random() < 0.15: parts.append(b't:' + rng.choice([b'text', b'1,1', b'2-2-1']))
    if rng.random() < 0.15: parts.append(b'r:%d' % rng.randrange(0, 300))
    rng.shuffle(parts)
    body = b','.join(parts)
    return body + b'*%02X' % checksum(body)

HOSTILE_VALUES = [b'', b'-1', b'-0', b'+1', b'0', b'00', b'1e30', b'1e400', b'1E5', b'-1e30', b'nan', b'NaN', b'inf', b'-inf', b'infinity',
                  b'0.5', b'.5', b'1.', b'1.5e3', b'0x10', b'255', b'256', b'65535', b'65536', b'4294967295', b'4294967296',
                  b'18446744073709551615', b'18446744073709551616', b'9' * 40, b'1-2', b'1-2-3', b'0-0-0', b'2-1-5', b'1-0-1', b'256-256-256',
                  b'-1-2-3', b'1--2', b'1-2-', b'-', b'--', b':', b'c:1', b'\xff', b'\xc3\xa9', b' 1', b'1 ', b'a']

def hostile_tag_block(rng, good_checksum=True):
    """a TAG block whose parameters carry every kind of value a reader might choke on, with a correct block
    checksum (so that a reader which validates the block before using it gets that far)"""
    codes = [b'c', b'g', b'n', b's', b'd', b't', b'r', b'x', b'G', b'C', b'']
    parts = [rng.choice(codes) + b':' + rng.choice(HOSTILE_VALUES) for _ in range(rng.choice([1, 1, 2, 3]))]
    if rng.random() < 0.1: parts.append(rng.choice(HOSTILE_VALUES))
    body = b','.join(parts).replace(b'\\', b'/').replace(b'*', b'+')
    cs = checksum(body) if good_checksum else checksum(body) ^ 0x55
    return body + b'*%02X' % cs

def fragment(rng, payload, fill, n, sid, chan=b'A', cuts=None):
    """split an armoured payload into n sentences at random character boundaries (non-empty parts)"""
    L = len(payload)
    n = max(1, min(n, L))
    if cuts is None:
        cuts = sorted(rng.sample(range(1, L), n - 1)) if n > 1 else []
    parts = [payload[a:b] for a, b in zip([0] + cuts, cuts + [L])]
    out = []
    odd = rng.random() < 0.15       # occasionally a fill count on a fragment that is not the last
    tagged = rng.choice([0, 0, 0, 1, 2])     # no TAG blocks / on every fragment / on the first only
    gid = rng.choice([1, 9, 200, 73874])
    for i, p in enumerate(parts):
        tag = tag_block(rng, i + 1, n, gid) if tagged == 1 or (tagged == 2 and i == 0) else None
        out.append(sentence(p, fill if i == n - 1 else (rng.randrange(6) if odd else 0), n, i + 1, sid, chan, tag=tag))
    return out

def random_line(rng):
    c = rng.random()
    n = rng.choice([0, 1, 2, 5, 10, 30, 60, 82, 200])
    if c < 0.4: return bytes(rng.getrandbits(8) for _ in range(n))
    if c < 0.7: return bytes(rng.choice(b'!$\\,*0123456789ABCDEFAIVDMO') for _ in range(n))
    return bytes(rng.choice(ALPHABET + b',*!') for _ in range(n))

def mutate(rng, line):
    """single-point mutation of a sentence"""
    line = bytearray(line)
    c = rng.random()
    if not line: return bytes(line)
    i = rng.randrange(len(line))
    if c < 0.3: del line[i]
    elif c < 0.55: line.insert(i, rng.choice(b',*!$\\0159AFaf@W`w\xff\x00 ') if rng.random() < 0.7 else rng.getrandbits(8))
    elif c < 0.9: line[i] = rng.choice(b',*!$\\0159AFaf@W`w\xff\x00 ') if rng.random() < 0.6 else rng.getrandbits(8)
    else:
        # drop or duplicate a whole comma-separated field
        parts = bytes(line).split(b',')
        j = rng.randrange(len(parts))
        if rng.random() < 0.5 and len(parts) > 1: del parts[j]
        else: parts.insert(j, parts[j])
        return b','.join(parts)
    return bytes(line)

ILLEGAL_ARMOR = bytes(range(88, 96)) + bytes(range(120, 128)) + b' !"#$%&\'()+-./' + bytes([0, 9, 128, 200, 255])

def undecodable_sentence(rng, kind=None, **kw):
    """a sentence that is well-formed at the sentence level (checksum included) and fails at the payload level:
    0 a character outside the armouring alphabet behind a valid prefix (unarmoring stops half-way), 1 such a
    character in first place, 2 a type no decoder exists for, 3 a payload too short for its type"""
    kind = rng.randrange(4) if kind is None else kind
    pay, fill = armor(message_bits(rng, rng.choice(SUPPORTED), rng.choice(['random', 'ones', 'mixed'])))
    pay = bytearray(pay)
    if kind == 0:
        pos = rng.choice([1, 1, 2, len(pay) - 1, rng.randrange(1, len(pay))]) if len(pay) > 1 else 0
        pay[pos] = rng.choice(ILLEGAL_ARMOR)
    elif kind == 1:
        pay[0] = rng.choice(ILLEGAL_ARMOR)
    elif kind == 2:
        pay[0] = armor_char(rng.choice([0, 22, 23, 25, 26, 28, 40, 63]))
    else:
        pay = pay[:rng.randrange(1, 7)]
    return sentence(bytes(pay), fill, **kw)

def valid_sentence(rng, t=None, decode_ok=True):
    t = t or rng.choice(SUPPORTED)
    payload, fill = armor(message_bits(rng, t))
    # an unfragmented sentence may carry a sequence id (unusual, legal): the ids that the generated groups use
    return sentence(payload, fill, sid=rng.choice([None] * 8 + [0, 1, 2, 3, 5, 9]), chan=rng.choice([b'A', b'B', b'', b'1', b'AB']),
                    addr=rng.choice([b'AIVDM', b'AIVDO', b'ABVDM', b'BSVDM', b'SAVDO', b'XXVDM', b'AIXXX']),
                    start=rng.choice([b'!', b'!', b'$']),
                    tag=rng.choice([None, None, None, None, None, None, b's:2573345,c:1696241893*00', b'', tag_block(rng), tag_block(rng), hostile_tag_block(rng), hostile_tag_block(rng, rng.random() < 0.8)]))
