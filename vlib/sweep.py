"""Two-byte sweeps: a case `A p1 p2 decode fix <line hex>` stands for the 65536 lines obtained by
writing every pair of byte values at positions p1, p2 of a template sentence (with `fix`, the
checksum field is recomputed so that the sentence stays acceptable), each offered to a fresh parser.
The harness and the driver print one digest of the 65536 token lines; when the digests differ the
sweep is expanded here into ordinary `L` cases and compared line by line."""
from . import common as c

HEXD = b'0123456789ABCDEF'

STATE, MTYPE = 1, 2      # digest flags: include the private state hint / the sentence-level message type

def case(line, p1, p2, decode=0, fix=1, flags=0):
    """flags = 0: the digest covers the outcome of every line without the state hint (a refactoring of
    the parser's private representation must not disturb it) and without the sentence-level message
    type (property C19's business, where the unchanged tree has a recorded finding)"""
    assert 0 <= p1 < len(line) and 0 <= p2 < len(line)
    return 'A %d %d %d %d %d %s' % (p1, p2, decode, fix, flags, bytes(line).hex())

import re
_M = re.compile(r'(?<= )m\d+(?= )')
def normal(case_line, out_line):
    """an expanded line's output reduced to what the sweep's digest covers"""
    if not case_line.startswith('A '): return out_line
    flags = int(case_line.split(' ')[5])
    if not flags & STATE: out_line = out_line.split(' ; (s')[0]
    if not flags & MTYPE: out_line = _M.sub('m_', out_line)
    return out_line

def msg_case(payload, p1, p2):
    assert 0 <= p1 < len(payload) and 0 <= p2 < len(payload)
    return 'B %d %d %s' % (p1, p2, bytes(payload).hex())

def range_case(which, lo, count):
    """`count` consecutive raw values through a public scaling function (lon, lat, sog, cog)"""
    return 'F %s %d %d' % (which, lo, count)

def size(case_line):
    return int(case_line.split(' ')[3]) if case_line.startswith('F ') else 65536

def expand(case_line):
    if case_line.startswith('F '):
        _, which, lo, count = case_line.split(' ')
        return ['f %s %d' % (which, r) for r in range(int(lo), int(lo) + int(count))]
    if case_line.startswith('B '):
        _, p1, p2, hx = case_line.split(' ')
        b = bytearray(bytes.fromhex(hx)); out = []
        for y in range(256):
            for z in range(256):
                b[int(p1)] = y; b[int(p2)] = z
                out.append('M ' + bytes(b).hex())
        return out
    _, p1, p2, d, fix, _flags, hx = case_line.split(' ')
    p1, p2, fix = int(p1), int(p2), fix == '1'
    b = bytearray(bytes.fromhex(hx))
    star = b.rfind(b'*')
    b0 = 1
    if b[:1] == b'\\':
        j = b.find(b'\\', 1)
        b0 = j + 2 if j >= 0 else 1
    out = []
    for y in range(256):
        for z in range(256):
            b[p1] = y; b[p2] = z
            if fix and star >= b0 and star + 2 < len(b):
                x = 0
                for v in b[b0:star]: x ^= v
                b[star + 1] = HEXD[x >> 4]; b[star + 2] = HEXD[x & 15]
            out.append('H'); out.append('L 0 %s %s' % (d, bytes(b).hex()))
    return out

def adjacent(line, decode=0, fix=1, gaps=(1,), lo=1, hi=None, flags=0):
    """sweeps over the byte pairs (i, i+g) of a sentence, checksum field excluded when it is recomputed"""
    star = bytes(line).rfind(b'*')
    hi = (star if fix and star > 0 else len(line)) if hi is None else hi
    return [case(line, i, i + g, decode, fix, flags) for g in gaps for i in range(lo, hi - g)]

def is_sweep(x):
    return x.startswith(('A ', 'B ', 'F '))

def digest(tag, lines):
    """the digest the harness and the driver print, recomputed from expanded token lines"""
    h1, h2 = 2166136261, 0x9747b28c
    for l in lines:
        for ch in (l + '\n').encode('latin-1'):
            h1 = ((h1 ^ ch) * 16777619) & 0xffffffff; h2 = ((h2 ^ ch) * 709607) & 0xffffffff
    return '%s %08x%08x' % (tag, h1, h2)

def self_check(case_line, impl_digest, model_digest, feat='std', prof='debug'):
    """glue check: the digests printed for a sweep must be the digests of its expansion, computed
    here from the ordinary per-line outputs of both executables"""
    sub = expand(case_line)
    io = [normal(case_line, x) for x, c_ in zip(c.run_impl(sub, feat, prof), sub) if c_ != 'H']
    mo = [normal(case_line, x) for x, c_ in zip(c.run_model(sub, feat, 'asis'), sub) if c_ != 'H']
    di, dm = digest(case_line[0], io), digest(case_line[0], mo)
    if di != impl_digest or dm != model_digest:
        raise RuntimeError('sweep self-check failed for %s: harness %s vs expansion %s; driver %s vs expansion %s'
                           % (case_line[:60], impl_digest, di, model_digest, dm))
