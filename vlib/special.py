"""Correspondence runs that are not a plain impl-vs-model diff: the two recorded findings
(three-way comparison with the repaired model), the metamorphic C17 runs, and the real CLI binary."""
import json, os, random, subprocess
from . import common as c, gen, props as P

def explored(target, tier):
    """cases retained by the coverage-guided search on the current tree (vlib/explore.py)"""
    if os.environ.get('VERIF_NO_EXPLORE'): return []
    from . import explore
    try:
        return explore.cases(target, tier)[0]
    except Exception:
        return []          # the search only proposes inputs; without it the check runs its own batches

def _hist(cases, i):
    if cases[i][0] not in 'LC': return [cases[i]]
    j = i
    while j > 0 and not cases[j].startswith('H'): j -= 1
    return cases[j:i + 1]

def _known(pid):
    return [k for k in c.known_findings()['known'] if k['property'] == pid]

def three_way(pid, quirk, cases, proj, what):
    """impl vs model as-is vs model with the finding repaired, on the projection.
    agrees with repaired -> property holds there; in the recorded class and equal to the as-is
    value -> known finding; anything else -> violation."""
    io = c.run_impl(cases, 'std', 'debug')
    ma = c.run_model(cases, 'std', 'asis')
    mf = c.run_model(cases, 'std', quirk)
    listed = _known(pid)
    viol, known, n, nt = [], {}, 0, set()
    for i, case in enumerate(cases):
        if case.startswith('H'): continue
        n += 1
        a, _, _ = c.split_line(io[i]); b, _, _ = c.split_line(ma[i]); f, _, _ = c.split_line(mf[i])
        if a.startswith('(k c0'): nt.add(case)
        d_fixed = c.relevant_diffs(a, f, proj) if a != f else []
        if not d_fixed:
            continue
        d_asis = c.relevant_diffs(a, b, proj) if a != b else []
        in_class = bool(c.relevant_diffs(b, f, proj)) if b != f else False
        if not d_asis and in_class and listed:
            known[listed[0]['id']] = listed[0]['what']
            continue
        if len(viol) < 20:
            viol.append({'batch': what, 'build': ['std', 'debug'], 'cases': _hist(cases, i),
                         'impl': a[:3000], 'model': b[:3000], 'model_repaired': f[:3000],
                         'diffs': [list(x) for x in (d_asis or d_fixed)[:10]], 'proj': sorted(proj), 'quirk': quirk})
    k = next((i for i, x in enumerate(cases) if not x.startswith('H')), 0)
    return {'violations': viol, 'evaluations': n, 'nontrivial': nt, 'known': known,
            'batches': {what: {'cases': n, 'builds': ['std/debug'], 'three_way': True}},
            'samples': [{'batch': what, 'case': cases[k][:300]}]}

def c16(tier, rng, seed):
    r = three_way('C16', 'q16', P.radio_cases(rng, tier), {'C16'}, 'radio')
    r = merge3(r, three_way('C16', 'q16', P.poisoned_parser_cases(rng, tier, [1, 2, 3, 4, 9, 11, 18]), {'C16'}, 'reused-parser'))
    r = merge3(r, three_way('C16', 'q16', P.pairwise_cases(rng, tier, [1, 2, 3, 4, 9, 11, 18]), {'C16'}, 'field-pairs'))
    ex = explored('msg', tier)
    if ex: r = merge3(r, three_way('C16', 'q16', ex, {'C16'}, 'explored-msg'))
    return r

def merge3(r, r2):
    r['violations'] += r2['violations']; r['evaluations'] += r2['evaluations']; r['nontrivial'] |= r2['nontrivial']
    r['known'].update(r2['known']); r['batches'].update(r2['batches']); r['samples'] += r2['samples']
    return r

def merge(r, r2):
    r['violations'] += r2['violations']; r['evaluations'] += r2['evaluations']; r['nontrivial'] |= r2['nontrivial']
    r['known'].update(r2['known']); r['batches'].update(r2['batches']); r['samples'] += r2['samples']
    return r

def swept_three_way(pid, quirk, sweeps, proj, what):
    """two-byte sweeps: the implementation's digest must equal the as-is model's (then every line
    behaves as recorded); a sweep whose digests differ is expanded and judged line by line"""
    from . import sweep
    io = c.run_impl(sweeps, 'std', 'debug'); ma = c.run_model(sweeps, 'std', 'asis')
    r = {'violations': [], 'evaluations': 65536 * len(sweeps), 'nontrivial': set(sweeps), 'known': {},
         'batches': {what: {'cases': len(sweeps), 'swept_lines': 65536 * len(sweeps), 'builds': ['std/debug'], 'three_way': 'digest vs as-is model'}},
         'samples': [{'batch': what, 'case': sweeps[0][:300]}]}
    listed = _known(pid)
    if listed: r['known'][listed[0]['id']] = listed[0]['what']     # the as-is model carries the recorded behaviour on these lines
    for i, sc in enumerate(sweeps):
        if io[i] == ma[i] and io[i].startswith(('A ', 'B ')): continue
        r2 = three_way(pid, quirk, sweep.expand(sc), proj, what + '/expanded')
        r['violations'] += r2['violations']
    return r

def c19(tier, rng, seed):
    r = three_way('C19', 'q19', P.sentence_field_cases(rng, tier), {'C19'}, 'sentence-fields')
    merge(r, three_way('C19', 'q19', P.message_type_cases(rng, tier), {'C19'}, 'first-byte x length x fill x shape'))
    merge(r, swept_three_way('C19', 'q19', P.message_type_sweeps(rng, tier), {'C19'}, 'first-byte-sweeps'))
    merge(r, three_way('C19', 'q19', P.line_length_cases(rng, tier), {'C19'}, 'line-lengths'))
    merge(r, three_way('C19', 'q19', P.sentence_pairwise_cases(rng, tier), {'C19'}, 'sentence-pairs'))
    ex = explored('hist', tier)
    if ex: merge(r, three_way('C19', 'q19', ex, {'C19'}, 'explored-hist'))
    return r

def replay_three_way(rp):
    pid, cases, proj = rp['property'], rp['cases'], set(rp['proj'])
    io = c.run_impl(cases, 'std', 'debug'); ma = c.run_model(cases, 'std', 'asis'); mf = c.run_model(cases, 'std', rp['quirk'])
    a, b, f = (c.split_line(x[-1])[0] for x in (io, ma, mf))
    print('impl          :', a[:1200]); print('model as-is   :', b[:1200]); print('model repaired:', f[:1200])
    if not c.relevant_diffs(a, f, proj):
        print('agrees with the repaired model'); return 0
    if not c.relevant_diffs(a, b, proj) and c.relevant_diffs(b, f, proj):
        print('KNOWN-FINDING: property=%s (recorded behaviour)' % pid); return 0
    print('VIOLATION property=%s replay=(this file)' % pid); return 1

# ---------------------------------------------------------------- C17

def c17(tier, rng, seed):
    """(a) impl vs model on every step of histories with inserted lines, two parsers interleaved;
    (b) metamorphic on the implementation alone: the outputs for all other lines are the same
    with and without a rejected / unfragmented line."""
    viol, n, nt = [], 0, set()
    syms = P.history_alphabet()
    transparent_pool = [gen.sentence(b'15M', 0), gen.sentence(b'15M', 0, cs=b'00'), b'garbage', b'', gen.sentence(b'000', 0),
                        gen.sentence(b'9', 0, 3, 3, 9), gen.sentence(b'9', 0, 2, 0, 1), gen.sentence(b'9', 0, 2, 2, 8),
                        gen.sentence(b'15M', 9), b'!AIVDM,2,1,1,A,15M,0', gen.sentence(b'15M', 0, n=256)]
    transparent_pool += [gen.undecodable_sentence(rng, k) for k in (0, 0, 0, 0, 1, 2, 3)]
    bases = []
    import itertools
    depth = 3 if tier == 'quick' else 4
    for h in itertools.product(range(len(syms)), repeat=depth):
        if rng.random() < (0.25 if tier == 'quick' else 0.12):
            bases.append([syms[s] for s in h])
    for _ in range(P.scale(tier, 300, 4000)):
        bases.append(P.random_history(rng, rng.choice([4, 8, 20, 50])))
    cases = []
    index = []   # (start of base run, start of variant run, position, length)
    # an unfragmented sentence in front of its own twin: same payload (variable-length tail, arbitrary bits in the
    # fill positions) announced with another fill count, or differing in one sentence field
    twins = {}
    for _ in range(P.scale(tier, 250, 2500)):
        t = rng.choice([5, 6, 8, 12, 14, 17])
        bits = gen.message_bits(rng, t, 'random') + ''.join(rng.choice('01') for _ in range(rng.randrange(0, 40)))
        pay, fill = gen.armor(bits, ''.join(rng.choice('01') for _ in range(6)))
        a = gen.sentence(pay, fill)
        b = rng.choice([gen.sentence(pay, rng.choice([f for f in range(6) if f != fill])), gen.sentence(pay, fill, chan=b'B'),
                        gen.sentence(pay, fill, sid=4), gen.sentence(pay, fill, addr=b'AIVDO')])
        h = [b] + P.random_history(rng, rng.choice([0, 2]))
        bases.append(h); twins[id(h)] = a
    # a sentence whose payload does not decode (unarmoring stops half-way, no decoder, too short) in front of
    # ordinary decoded traffic: whatever the failed attempt touched must not show in the next message
    for _ in range(P.scale(tier, 200, 2000)):
        h = [gen.valid_sentence(rng)] + P.random_history(rng, rng.choice([0, 0, 2]))
        bases.append(h); twins[id(h)] = gen.undecodable_sentence(rng, rng.choice([0, 0, 0, 1, 2, 3]))
    # long runs of transparent lines between two fragments (anything that counts lines to age a group out): one
    # more such line must change nothing
    for K in (1, 2, 7, 8, 9, 15, 16, 17, 31, 32, 33, 63, 64, 65, 127, 128, 129, 254, 255, 256):
        pay, fill = gen.armor(gen.message_bits(rng, rng.choice([5, 8, 21])))
        f1, f2 = gen.fragment(rng, pay, fill, 2, rng.choice([None, 1]))
        for kind in range(2):
            mid = [[gen.valid_sentence(rng), gen.sentence(b'9', 0, 2, 2, 8)][kind] for _ in range(K)]
            bases.append([f1] + mid + [f2])
    for h in bases:
        pos = rng.randrange(len(h) + 1)
        x = rng.choice(transparent_pool) if rng.random() < 0.7 else rng.choice([gen.valid_sentence(rng), gen.mutate(rng, gen.valid_sentence(rng)), gen.random_line(rng)])
        if id(h) in twins: pos, x = 0, twins[id(h)]
        fragment_like = not (b',1,1,' in x)
        xd = 0 if fragment_like else rng.randrange(2)
        s0 = len(cases); cases.append('H')
        ds = [rng.randrange(2) for _ in h]
        if id(h) in twins: xd = 1; ds = [1] * len(h)
        for l, d in zip(h, ds): cases.append(P.L(0, d, l))
        s1 = len(cases); cases.append('H')
        for j, (l, d) in enumerate(zip(h, ds)):
            if j == pos: cases.append(P.L(0, xd, x))
            cases.append(P.L(0, d, l))
        if pos == len(h): cases.append(P.L(0, xd, x))
        index.append((s0, s1, pos, len(h), x))
    # two parsers fed interleaved streams
    inter = []
    for _ in range(P.scale(tier, 150, 2000)):
        a, b = P.random_history(rng, rng.choice([5, 20])), P.random_history(rng, rng.choice([5, 20]))
        inter.append('H')
        ia = ib = 0
        while ia < len(a) or ib < len(b):
            if ib >= len(b) or (ia < len(a) and rng.random() < 0.5): inter.append(P.L(0, 1, a[ia])); ia += 1
            else: inter.append(P.L(1, 1, b[ib])); ib += 1
    inter += explored('hist', tier)
    inter += P.sentence_path_cases(rng, tier)        # same payload under another fill count, one-field variants
    allc = cases + inter
    io = c.run_impl(allc, 'std', 'debug'); mo = c.run_model(allc, 'std', 'asis')
    def strip(x): return c.split_line(x)[0]
    for i, case in enumerate(allc):
        if case.startswith('H'): continue
        n += 1
        if strip(io[i]).startswith('(k c0'): nt.add(case)
        if io[i] != mo[i]:
            # the part of the model C17's theorems rest on: acceptance, Complete / Incomplete, sentence fields,
            # payload — not the content of decoded messages
            pa, pb = c.pruned(strip(io[i])), c.pruned(strip(mo[i]))
            ds = [d for d in c.relevant_diffs(pa, pb, None) if not d[0].endswith('m')] if pa != pb else []
            if ds and allc[i].split(' ')[2] == '1':
                # a disagreement on whether the payload decodes is not C17's business
                j = i
                while not allc[j].startswith('H'): j -= 1
                t = allc[i].split(' '); t[2] = '0'
                hh = allc[j:i] + [' '.join(t)]
                xi, xm = c.run_impl(hh, 'std', 'debug')[-1], c.run_model(hh, 'std', 'asis')[-1]
                if c.pruned(strip(xi)) == c.pruned(strip(xm)): ds = []
            if ds and len(viol) < 20:
                j = i
                while not allc[j].startswith('H'): j -= 1
                viol.append({'batch': 'model-step', 'build': ['std', 'debug'], 'cases': allc[j:i + 1], 'impl': io[i][:3000], 'model': mo[i][:3000],
                             'diffs': [list(x) for x in ds[:10]], 'proj': None})
    meta = 0
    for s0, s1, pos, ln, x in index:
        base = [strip(io[s0 + 1 + j]) for j in range(ln)]
        var = [strip(io[s1 + 1 + j]) for j in range(ln + 1)]
        xo = var[pos]
        # transparent: rejected (decode was off for fragment-like lines, so only form / checksum /
        # sequencing can reject) or an unfragmented sentence
        is_unfrag = xo.startswith('(k c0 c0 (s ') and ' q1 q' in xo[:40] and xo.split()[6] == 'q1'
        if not (xo.startswith('(k c2') or xo.startswith('(k c3') or is_unfrag):
            continue
        meta += 1
        rest = var[:pos] + var[pos + 1:]
        if rest != base and len(viol) < 20:
            k = next(j for j in range(ln) if rest[j] != base[j])
            viol.append({'batch': 'metamorphic', 'build': ['std', 'debug'], 'cases': allc[s1:s1 + 2 + ln],
                         'impl': 'with the extra line at position %d, output %d is %s' % (pos, k, rest[k][:1500]),
                         'model': 'without it: %s' % base[k][:1500], 'diffs': [['meta', rest[k][:200], base[k][:200]]], 'proj': 0,
                         'meta': {'base': allc[s0:s0 + 1 + ln], 'pos': pos, 'k': k}})
    return {'violations': viol, 'evaluations': n, 'nontrivial': nt,
            'batches': {'insert-remove': {'cases': len(cases), 'pairs': len(index), 'metamorphic_pairs_with_transparent_line': meta, 'builds': ['std/debug']},
                        'two-parsers': {'cases': len(inter), 'builds': ['std/debug']}},
            'samples': [{'batch': 'insert-remove', 'case': cases[1][:300]}, {'batch': 'two-parsers', 'case': inter[1][:300]}]}

def replay_c17(rp):
    if rp.get('proj', None) != 0:
        cases = rp['cases']
        io = c.run_impl(cases, 'std', 'debug'); mo = c.run_model(cases, 'std', 'asis')
        a, b = c.pruned(c.split_line(io[-1])[0]), c.pruned(c.split_line(mo[-1])[0])
        print('impl :', a[:1500]); print('model:', b[:1500])
        ds = [d for d in c.relevant_diffs(a, b, None) if not d[0].endswith('m')]
        if ds: print('VIOLATION property=C17 replay=(this file)'); return 1
        return 0
    m = rp['meta']
    var = [c.split_line(x)[0] for x in c.run_impl(rp['cases'], 'std', 'debug')][1:]
    base = [c.split_line(x)[0] for x in c.run_impl(m['base'], 'std', 'debug')][1:]
    rest = var[:m['pos']] + var[m['pos'] + 1:]
    if rest != base:
        print('outputs differ with/without the inserted line'); print('VIOLATION property=C17 replay=(this file)'); return 1
    print('same outputs now'); return 0

# ---------------------------------------------------------------- C20

def rust_debug_unescape(s):
    """inverse of <str as Debug>::fmt for the quoted text `"...."`; returns None if malformed"""
    if len(s) < 2 or s[0] != '"' or s[-1] != '"': return None
    s = s[1:-1]
    out, i = [], 0
    while i < len(s):
        ch = s[i]
        if ch != '\\': out.append(ch); i += 1; continue
        if i + 1 >= len(s): return None
        e = s[i + 1]
        if e == 'n': out.append('\n'); i += 2
        elif e == 'r': out.append('\r'); i += 2
        elif e == 't': out.append('\t'); i += 2
        elif e == '0': out.append('\0'); i += 2
        elif e in '\\"\'': out.append(e); i += 2
        elif e == 'u' and s[i + 2:i + 3] == '{':
            j = s.index('}', i)
            out.append(chr(int(s[i + 3:j], 16))); i = j + 1
        else: return None
    return ''.join(out)

def run_cli(exe, stream):
    p = subprocess.run([exe], input=stream, stdout=subprocess.PIPE, stderr=subprocess.PIPE, timeout=120)
    return p.returncode, p.stdout, p.stderr

CLASS_NOTES = []
def cli_check_one(exe, stream, hx, model_line, harness_line):
    """returns a description of the first deviation or None"""
    rc, out, err = run_cli(exe, stream)
    lines = stream.split(b'\n')
    if lines and lines[-1] == b'': lines.pop()
    mt = c.parse_tree(model_line)
    recs = mt[1]
    if len(recs) != len(lines):
        return 'model produced %d records for %d lines' % (len(recs), len(lines))
    items = harness_line.split(' ')[1:] if harness_line.strip() != 'X' else []
    if len(items) != len(lines):
        return 'library produced %d records for %d lines (crash at line %d?)' % (len(items), len(lines), len(items))
    exp_out, exp_err = [], []
    for line, rec, it in zip(lines, recs, items):
        cls = rec[1][0][1]      # '0' stdout record, '1' stderr record, '2' nothing
        lib = {'o': '0', 'e': '1', 'n': '2'}.get(it[0], '9')
        if lib == '9':
            return 'the library panics on line %r: the tool cannot get past it' % line[:80]
        if cls != lib:
            # which lines complete a message or are rejected is the library's business (other properties
            # decide it against the model); the tool is judged against the library it links
            CLASS_NOTES.append((line[:80], lib, cls))
            cls = lib
        if cls == '0': exp_out.append((line, bytes.fromhex(it[2:])))
        elif cls == '1': exp_err.append((line, bytes.fromhex(it[2:])))
    if rc != 0:
        return 'exit status %d (stderr tail: %r)' % (rc, err[-300:])
    for name, got, exp in (('stdout', out, exp_out), ('stderr', err, exp_err)):
        got_recs = got.split(b'\n')
        if got_recs and got_recs[-1] == b'': got_recs.pop()
        if len(got_recs) != len(exp):
            return '%s has %d records, expected %d' % (name, len(got_recs), len(exp))
        for g, (line, dbg) in zip(got_recs, exp):
            # the property asks for one record per line, in order, containing the decoded message;
            # how the line is echoed is the tool's business: it is checked only when it is the
            # Rust debug quoting of the (lossily decoded) line, which is what the tool prints today
            if name == 'stdout' and dbg not in g:
                return 'stdout record %r does not contain the decoded message %r' % (g[:300], dbg[:300])
            if b'\t' in g:
                # order: when a record echoes a line of the input (in Rust's debug quoting, as the tool does today; line
                # ends and blanks at the end disregarded — how a line is echoed is not the property's business), it
                # must be THIS line.  An echo that matches no line of the input at all is a format this check does
                # not know: no verdict from it.
                echo = g.split(b'\t', 1)[0]
                un = rust_debug_unescape(echo.decode('utf-8', 'replace'))
                if un is not None:
                    norm = lambda t: t.rstrip('\r\n \t')
                    here = norm(line.decode('utf-8', 'replace'))
                    if norm(un) != here and any(norm(l2.decode('utf-8', 'replace')) == norm(un) for l2 in lines):
                        return '%s record echoes %r, expected line %r (records out of order?)' % (name, echo[:200], line[:200])
    return None

def c20(tier, rng, seed):
    exe = c.build_cli()
    streams = P.cli_streams(rng, tier)
    # histories retained by the coverage-guided search, as streams (one line each, newline-terminated)
    ex, cur = explored('hist', tier), None
    exs = []
    for x in ex + ['H']:
        if x.startswith('H'):
            if cur: exs.append(b'\n'.join(cur) + b'\n')
            cur = []
        else:
            hx = x.split(' ')[-1]
            cur.append(bytes.fromhex(hx) if hx != '-' else b'')
    step = max(1, len(exs) // (400 if tier == 'quick' else 4000))
    streams += exs[::step]
    cases = ['X ' + c.hexs(s) for s in streams]
    mo = c.run_model(cases, 'std', 'asis')
    ho = c.run_impl(cases, 'std', 'debug')
    viol, nt = [], set()
    n_lines = 0
    from concurrent.futures import ThreadPoolExecutor
    def one(i):
        try:
            return cli_check_one(exe, streams[i], cases[i], mo[i], ho[i])
        except subprocess.TimeoutExpired:
            return 'the tool did not terminate within 120 s'
        except Exception as e:
            return 'check failed: %r' % e
    with ThreadPoolExecutor(max_workers=c.NCPU) as ex:
        res = list(ex.map(one, range(len(streams))))
    # "no line content affects the handling of any other line", on the tool alone: the stream without the lines
    # that were rejected (as the library linked into the harness classifies them) must give the same records on
    # standard output, byte for byte (a rejected line leaves no trace: C17's theorems, Proofs/TransmitCli.v)
    def is_unfragmented(line):
        j = line.find(b'\\', 1) if line[:1] == b'\\' else -1
        f = line[j + 1:].split(b',')
        return len(f) > 2 and f[1] == b'1' and f[2] == b'1'
    def is_sentence(line):
        j = line.find(b'\\', 1) if line[:1] == b'\\' else -1
        return line[j + 1:j + 2] in (b'!', b'$')
    def without_rejected(i):
        """also without the unfragmented sentences that were delivered (they leave no trace either): what remains
        are the fragments, and the records of the groups they complete must be the same"""
        if res[i] or ho[i].strip() == 'X': return None
        lines = streams[i].split(b'\n')
        if lines and lines[-1] == b'': lines.pop()
        items = ho[i].split(' ')[1:]
        if len(items) != len(lines) or not any(it[0] == 'o' for it in items): return None
        seen = []
        for variant in (0, 1, 2):
            # 0: without the rejected lines; 1: also without the unfragmented sentences that were delivered; 2: without
            # every unfragmented sentence, delivered or not, and every line that is no sentence at all — all fragments
            # stay, also those that were rejected in the full stream (a group must not be lost to the lines between)
            if variant < 2: gone = [it[0] == 'e' or (variant == 1 and it[0] == 'o' and is_unfragmented(l)) for l, it in zip(lines, items)]
            else: gone = [is_unfragmented(l) or not is_sentence(l) for l in lines]
            if not any(gone) or gone in seen: continue
            seen.append(gone)
            kept = b''.join(l + b'\n' for l, g in zip(lines, gone) if not g)
            try:
                rc1, out1, _ = run_cli(exe, streams[i]); rc2, out2, _ = run_cli(exe, kept)
            except subprocess.TimeoutExpired:
                return 'the tool did not terminate within 120 s'
            a, b = out1.split(b'\n'), out2.split(b'\n')
            if a and a[-1] == b'': a.pop()
            if b and b[-1] == b'': b.pop()
            owners = [j for j, it in enumerate(items) if it[0] == 'o']
            if len(owners) != len(a): return False        # already reported by the line-by-line comparison
            a = [r for r, j in zip(a, owners) if not gone[j]]
            if a != b:
                k = next((j for j in range(min(len(a), len(b))) if a[j] != b[j]), min(len(a), len(b)))
                return 'with the %s removed from the stream, the record of another line changes (record %d of the remaining ones): %r / %r' % (
                    ['rejected lines', 'rejected lines and the unfragmented sentences', 'unfragmented sentences and the lines that are no sentences'][variant], k, (a + [b''])[k][:300], (b + [b'(no record)'])[k][:300])
        return False
    with ThreadPoolExecutor(max_workers=c.NCPU) as ex:
        res2 = list(ex.map(without_rejected, range(len(streams))))
    n_meta = sum(1 for r in res2 if r is not None)
    for i, r in enumerate(res2):
        if r: res[i] = r
    for i, r in enumerate(res):
        n_lines += streams[i].count(b'\n') + 1
        if b'!' in streams[i]: nt.add(cases[i])
        if r and len(viol) < 20:
            viol.append({'batch': 'cli', 'build': ['std', 'debug'], 'cases': [cases[i][:200000]], 'impl': r, 'model': mo[i][:2000],
                         'diffs': [['cli', r, '']], 'proj': 0})
    return {'violations': viol, 'evaluations': len(streams), 'nontrivial': nt,
            'batches': {'cli-streams': {'cases': len(streams), 'input_lines': n_lines, 'builds': ['aisparser binary (std/debug)'],
                                        'lines_where_library_and_model_classify_differently': len(CLASS_NOTES),
                                        'streams_rerun_without_their_rejected_lines': n_meta}},
            'samples': [{'batch': 'cli-streams', 'case': cases[min(7, len(cases) - 1)][:300]}]}

def replay_c20(rp):
    exe = c.build_cli()
    case = rp['cases'][0]
    stream = bytes.fromhex(case[2:]) if case[2:] != '-' else b''
    mo = c.run_model([case], 'std', 'asis'); ho = c.run_impl([case], 'std', 'debug')
    r = cli_check_one(exe, stream, case, mo[0], ho[0])
    if not r and ho[0].strip() != 'X':
        lines = stream.split(b'\n')
        if lines and lines[-1] == b'': lines.pop()
        items = ho[0].split(' ')[1:]
        def is_unfragmented(line):
            j = line.find(b'\\', 1) if line[:1] == b'\\' else -1
            f = line[j + 1:].split(b',')
            return len(f) > 2 and f[1] == b'1' and f[2] == b'1'
        if len(items) == len(lines):
            def is_sentence(line):
                j = line.find(b'\\', 1) if line[:1] == b'\\' else -1
                return line[j + 1:j + 2] in (b'!', b'$')
            for variant in (0, 1, 2):
                if variant < 2: gone = [it[0] == 'e' or (variant == 1 and it[0] == 'o' and is_unfragmented(l)) for l, it in zip(lines, items)]
                else: gone = [is_unfragmented(l) or not is_sentence(l) for l in lines]
                kept = b''.join(l + b'\n' for l, g in zip(lines, gone) if not g)
                a = run_cli(exe, stream)[1].split(b'\n'); b = run_cli(exe, kept)[1].split(b'\n')
                if a and a[-1] == b'': a.pop()
                if b and b[-1] == b'': b.pop()
                owners = [j for j, it in enumerate(items) if it[0] == 'o']
                if len(owners) == len(a) and [x for x, j in zip(a, owners) if not gone[j]] != b:
                    r = 'the records of the other lines change when %s are removed from the stream' % ['the rejected lines', 'the rejected lines and the unfragmented sentences', 'the unfragmented sentences and the lines that are no sentences'][variant]
    print(r or 'behaves as the model says')
    if r: print('VIOLATION property=C20 replay=(this file)'); return 1
    return 0

# ---------------------------------------------------------------- C05 (metamorphic part)

def c05(tier, rng, seed):
    """the clause "the decoded message equals the one obtained by sending the same payload unfragmented",
    on the implementation alone: every group is followed by its payload as one sentence (same parser,
    same decode flag); the two decoded messages (or the two failures) must be the same"""
    import random as _r
    cases = P.reassembly_cases(_r.Random('C05-meta-%d' % seed), tier)
    viol, n, nt = [], 0, set()
    for build in ([('std', 'debug')] if tier == 'quick' else P.ALL3):
        io = c.run_impl(cases, *build)
        start = 0
        for i in range(1, len(cases) + 1):
            if i < len(cases) and not cases[i].startswith('H'): continue
            h = list(range(start, i)); start = i
            lines = [j for j in h if not cases[j].startswith('H')]
            if len(lines) < 3: continue
            fin, ref = lines[-2], lines[-1]
            # the reference is the unfragmented form of the group before it (reassembly_cases' first family)
            if b',1,1,' not in bytes.fromhex(cases[ref].split(' ')[-1]): continue
            if cases[fin].split(' ')[2] != cases[ref].split(' ')[2]: continue      # compared under the same decode flag only
            n += 1
            a, b = c.split_line(io[fin])[0], c.split_line(io[ref])[0]
            ma, mb = c.message_of(a), c.message_of(b)
            oa, ob = a.split(' ')[1] if ' ' in a else a, b.split(' ')[1] if ' ' in b else b
            if a.startswith('(k c0'): nt.add(cases[fin])
            if (ma != mb or (a.startswith('(k c0') != b.startswith('(k c0'))) and len(viol) < 20:
                viol.append({'batch': 'fragmented-vs-unfragmented', 'build': list(build), 'cases': [cases[j] for j in h],
                             'impl': 'group: ' + a[:1800], 'model': 'same payload unfragmented (implementation): ' + b[:1800],
                             'diffs': [['meta', (ma or a)[:200], (mb or b)[:200]]], 'proj': 0})
    return {'violations': viol, 'evaluations': n, 'nontrivial': nt,
            'batches': {'fragmented-vs-unfragmented': {'cases': n, 'builds': ['std/debug'] if tier == 'quick' else ['std/debug', 'alloc/debug', 'none/debug'], 'oracle': 'the implementation itself on the unfragmented sentence'}},
            'samples': [{'batch': 'fragmented-vs-unfragmented', 'case': cases[1][:300]}]}

def replay_c05(rp):
    if rp.get('proj', None) != 0:
        return None
    io = c.run_impl(rp['cases'], *rp['build'])
    a, b = c.split_line(io[-2])[0], c.split_line(io[-1])[0]
    print('group       :', a[:1500]); print('unfragmented:', b[:1500])
    if c.message_of(a) != c.message_of(b) or (a.startswith('(k c0') != b.startswith('(k c0')):
        print('VIOLATION property=C05 replay=(this file)'); return 1
    print('same decoded message now'); return 0

SPECIAL = {'C16': c16, 'C19': c19, 'C17': c17, 'C20': c20, 'C05': c05}
ONLY_SPECIAL = {'C16', 'C19', 'C17', 'C20'}
REPLAY = {'C16': replay_three_way, 'C19': replay_three_way, 'C17': replay_c17, 'C20': replay_c20, 'C05': replay_c05}
