"""Coverage-guided exploration of the implementation as it is now (DESIGN.md section 13).

libFuzzer (cargo-fuzz, nightly toolchain, offline) runs three targets built from /repo's current
working tree: `fz_msg` (bytes -> messages::parse), `fz_hist` (a structured history of sentences on
two parsers, harness/src/shape.rs), `fz_unarmor`.  The search keeps one input per newly covered
branch / comparison value, so code that exists only in the tree under test — a special case, a new
fast path, a changed boundary — attracts inputs that reach it.  The retained inputs are printed as
ordinary cases (harness `--dump`) and appended to the property's correspondence batches: the
implementation and the Coq model are compared on them like on any generated case.  The search
decides nothing by itself, and a run that finds nothing new costs only its time budget.

The corpus is cached per source-tree hash under .cache/explore; a different tree (a seeded change,
an edit) starts from the committed seeds plus the corpus of the previous tree."""
import hashlib, os, shutil, subprocess, time
from concurrent.futures import ThreadPoolExecutor
from . import common as c

SRC = os.path.join(c.VERIF, 'explore')
TARGETS = {'msg': 'fz_msg', 'hist': 'fz_hist', 'unarmor': 'fz_unarmor'}
KIND = {'msg': 'm', 'hist': 'h', 'unarmor': 'u'}
MAXLEN = {'msg': 160, 'hist': 700, 'unarmor': 600}
# seconds of search and worker processes per target
BUDGET = {'quick': {'msg': (9, 6), 'hist': (12, 6), 'unarmor': (4, 3)},
          'thorough': {'msg': (90, 6), 'hist': (120, 6), 'unarmor': (30, 3)}}
CAP = {'msg': 6000, 'hist': 5000, 'unarmor': 1500}

def tree_hash():
    h = hashlib.sha1()
    files = [os.path.join(c.REPO, 'Cargo.toml')]
    for root, _, names in os.walk(os.path.join(c.REPO, 'src')):
        files += [os.path.join(root, n) for n in names]
    for f in sorted(files):
        h.update(f[len(c.REPO):].encode()); h.update(open(f, 'rb').read())
    for f in ('Cargo.toml', 'fuzz_targets/fz_msg.rs', 'fuzz_targets/fz_hist.rs', 'fuzz_targets/fz_unarmor.rs'):
        h.update(open(os.path.join(SRC, f), 'rb').read())
    h.update(open(os.path.join(c.HARNESS_DIR, 'src', 'shape.rs'), 'rb').read())
    return h.hexdigest()[:16]

def repo_hash():
    """hash of the crate's sources alone"""
    h = hashlib.sha1()
    files = [os.path.join(c.REPO, 'Cargo.toml')]
    for root, _, names in os.walk(os.path.join(c.REPO, 'src')):
        files += [os.path.join(root, n) for n in names]
    for f in sorted(files):
        h.update(f[len(c.REPO):].encode()); h.update(open(f, 'rb').read())
    return h.hexdigest()[:16]

def changed_tree():
    """True when the crate's sources differ from the tree this framework was last validated on
    (explore/baseline.sha, written by tools/gen_explore_seeds.py).  A changed tree gets a longer search
    and a second set of targets built without an allocator: more search where something is new."""
    f = os.path.join(SRC, 'baseline.sha')
    return not os.path.exists(f) or open(f).read().strip() != repo_hash()

def crate_dir():
    """a copy of the explore crate whose path dependency points at the tree under test"""
    tag = c.harness_dir()[1]
    d = os.path.join(c.CACHE, 'explore-crate' + tag)
    os.makedirs(os.path.join(d, 'fuzz_targets'), exist_ok=True)
    def put(dst, text):
        dst = os.path.join(d, dst)
        if not os.path.exists(dst) or open(dst).read() != text: open(dst, 'w').write(text)
    put('Cargo.toml', open(os.path.join(SRC, 'Cargo.toml')).read().replace('path = "/repo"', 'path = "%s"' % c.REPO))
    put('Cargo.lock', open(os.path.join(SRC, 'Cargo.lock')).read()) if not os.path.exists(os.path.join(d, 'Cargo.lock')) else None
    put('shape.rs', open(os.path.join(c.HARNESS_DIR, 'src', 'shape.rs')).read())
    for f in os.listdir(os.path.join(SRC, 'fuzz_targets')):
        put('fuzz_targets/' + f, open(os.path.join(SRC, 'fuzz_targets', f)).read())
    return d, tag

def build(feat='std'):
    d, tag = crate_dir()
    tdir = os.path.join(c.CACHE, 'explore-target' + ('' if feat == 'std' else '-' + feat + 'feat') + tag)
    with c.Lock('explore-build' + tag):
        cmd = ['cargo', '+nightly', 'fuzz', 'build', '--fuzz-dir', d, '--target-dir', tdir]
        if feat != 'std': cmd += ['--no-default-features'] + (['--features', feat] if feat != 'none' else [])
        rc, log = c.sh(cmd, cwd=d, timeout=1200)
        if rc != 0:
            raise c.BuildError('cargo fuzz build (exploration targets, %s)' % feat, log)
    return os.path.join(tdir, 'x86_64-unknown-linux-gnu', 'release')

def seed_corpus(target, dst):
    """committed seeds (one hex string per line) and the newest cached corpus of another tree"""
    n = 0
    f = os.path.join(SRC, 'seeds', target + '.hex')
    if os.path.exists(f):
        for line in open(f):
            line = line.strip()
            if not line: continue
            b = bytes.fromhex(line) if line != '-' else b''
            open(os.path.join(dst, 'seed-' + hashlib.sha1(b).hexdigest()[:16]), 'wb').write(b); n += 1
    root = os.path.join(c.CACHE, 'explore')
    prev = [os.path.join(root, x, target) for x in os.listdir(root)] if os.path.isdir(root) else []
    prev = [p for p in prev if os.path.isdir(p) and p != dst and os.path.exists(os.path.join(os.path.dirname(p), 'done-quick'))]
    if prev:
        p = max(prev, key=os.path.getmtime)
        for x in os.listdir(p):
            if not os.path.exists(os.path.join(dst, x)):
                try: shutil.copy(os.path.join(p, x), os.path.join(dst, x)); n += 1
                except OSError: pass          # another run may be cleaning that cache up
    return n

def run_target(bindir, target, corpus, secs, forks, log):
    art = corpus + '-artifacts/'
    os.makedirs(art, exist_ok=True)
    cmd = [os.path.join(bindir, TARGETS[target]), corpus, '-max_total_time=%d' % secs, '-max_len=%d' % MAXLEN[target],
           '-use_value_profile=1', '-fork=%d' % forks, '-ignore_crashes=1', '-ignore_timeouts=1', '-ignore_ooms=1',
           '-timeout=5', '-rss_limit_mb=2048', '-artifact_prefix=' + art, '-print_final_stats=0']
    t0 = time.time()
    try:
        p = subprocess.run(cmd, stdout=subprocess.PIPE, stderr=subprocess.STDOUT, timeout=secs * 3 + 120, cwd=os.path.dirname(corpus))
        out = p.stdout.decode('latin-1')
    except subprocess.TimeoutExpired as e:
        out = (e.stdout or b'').decode('latin-1') + '\n(timed out)'
    tail = [l for l in out.split('\n') if l.startswith('#')][-1:]
    log[target] = {'seconds': round(time.time() - t0, 1), 'last_status': tail[0][:160] if tail else out[-200:]}

def minimise(bindir, target, corpus):
    """keep a covering subset when the cached corpus has grown beyond its cap"""
    new = corpus + '-min'
    shutil.rmtree(new, ignore_errors=True); os.makedirs(new)
    subprocess.run([os.path.join(bindir, TARGETS[target]), '-merge=1', '-use_value_profile=1', new, corpus],
                   stdout=subprocess.DEVNULL, stderr=subprocess.DEVNULL, timeout=600)
    if os.listdir(new):
        shutil.rmtree(corpus); os.rename(new, corpus)

def ensure(tier='quick'):
    """run the search for the current tree unless a run of this tier (or a deeper one) is cached;
    returns (directory of the corpora, log)"""
    h = tree_hash()
    root = os.path.join(c.CACHE, 'explore', c.harness_dir()[1].lstrip('-') + h)
    log = {'tree': h}
    with c.Lock('explore-run'):
        marks = ['done-thorough'] if tier != 'quick' else ['done-quick', 'done-thorough']
        if any(os.path.exists(os.path.join(root, m)) for m in marks):
            log['cached'] = True
            return root, log
        bindir = build()
        os.makedirs(root, exist_ok=True)
        for t in TARGETS:
            d = os.path.join(root, t)
            if not os.path.isdir(d):
                os.makedirs(d); log.setdefault('seeded', {})[t] = seed_corpus(t, d)
        budget = dict(BUDGET['quick' if tier == 'quick' else 'thorough'])
        changed = changed_tree()
        log['sources_differ_from_validated_tree'] = changed
        if changed and tier == 'quick':
            budget = {t: (secs * 2, forks) for t, (secs, forks) in budget.items()}
        nb = {}
        def build_none():
            try: nb['dir'] = build('none')
            except Exception as e: nb['error'] = repr(e)[:200]
        with ThreadPoolExecutor(max_workers=4) as ex:
            fs = [ex.submit(run_target, bindir, t, os.path.join(root, t), budget[t][0], budget[t][1], log) for t in TARGETS]
            if changed: fs.append(ex.submit(build_none))     # built while the first search runs
            for f in fs: f.result()
        if changed and 'dir' in nb:
            # the same corpora driven by the coverage of the build without an allocator (its own code paths:
            # nom_noalloc.rs, the heapless conversions)
            sub = {}
            with ThreadPoolExecutor(max_workers=2) as ex:
                list(ex.map(lambda t: run_target(nb['dir'], t, os.path.join(root, t), max(6, budget[t][0] // 3), 7, sub), ('msg', 'hist')))
            log['no_allocator_build'] = sub
        elif changed:
            log['no_allocator_build'] = nb
        for t in TARGETS:
            if len(os.listdir(os.path.join(root, t))) > CAP[t]:
                minimise(bindir, t, os.path.join(root, t))
        open(os.path.join(root, 'done-' + ('quick' if tier == 'quick' else 'thorough')), 'w').write(time.strftime('%Y-%m-%dT%H:%M:%S'))
    return root, log

_CASES = {}
def cases(target, tier='quick'):
    """the retained inputs of one target as case lines (crashing / hanging inputs first)"""
    key = (target, tier)
    if key in _CASES: return _CASES[key]
    root, log = ensure(tier)
    files = []
    art = os.path.join(root, target + '-artifacts')
    if os.path.isdir(art):
        files += sorted(os.path.join(art, x) for x in os.listdir(art))
    d = os.path.join(root, target)
    files += sorted((os.path.join(d, x) for x in os.listdir(d)), key=lambda p: (os.path.getsize(p), p))
    lines = []
    for f in files:
        b = open(f, 'rb').read()
        lines.append('%s %s' % (KIND[target], b.hex() if b else '-'))
    exe = c.build_harness('std', 'debug')
    p = subprocess.run([exe, '--dump'], input=('\n'.join(lines) + '\n').encode(), stdout=subprocess.PIPE, timeout=600)
    out = [l for l in p.stdout.decode('latin-1').split('\n') if l]
    log['inputs_' + target] = len(files)
    _CASES[key] = (out, log)
    return _CASES[key]

def batch(target, tier='quick'):
    return cases(target, tier)[0]
