"""Shared machinery of the checks: building the three artefacts (Coq development, extracted
OCaml driver, Rust harness linked against /repo's working tree), running cases through the
implementation and the model, parsing and diffing canonical token trees, evidence and replays."""
import fcntl, hashlib, json, os, re, subprocess, sys, time
from concurrent.futures import ThreadPoolExecutor

VERIF = os.path.dirname(os.path.dirname(os.path.abspath(__file__)))
REPO = os.environ.get('VERIF_REPO', '/repo')
COQ = os.path.join(VERIF, 'coq')
DRIVER_DIR = os.path.join(VERIF, 'driver')
HARNESS_DIR = os.path.join(VERIF, 'harness')
CACHE = os.path.join(VERIF, '.cache')
WORK = os.path.join(VERIF, 'work')
REPLAYS = os.path.join(VERIF, 'replays')
EVIDENCE = os.path.join(VERIF, 'evidence')
NCPU = 16
ENV = dict(os.environ, CARGO_NET_OFFLINE='true')

ALLOWED_AXIOMS = {
    'ClassicalDedekindReals.sig_forall_dec', 'ClassicalDedekindReals.sig_not_dec',
    'FunctionalExtensionality.functional_extensionality_dep', 'Classical_Prop.classic',
}

class BuildError(Exception):
    def __init__(self, what, log):
        super().__init__(what)
        self.what, self.log = what, log

def sh(cmd, cwd=None, timeout=1800, env=None, input=None):
    p = subprocess.run(cmd, cwd=cwd, env=env or ENV, input=input, stdout=subprocess.PIPE,
                       stderr=subprocess.STDOUT, timeout=timeout)
    return p.returncode, p.stdout.decode('utf-8', 'replace')

class Lock:
    def __init__(self, name):
        os.makedirs(CACHE, exist_ok=True)
        self.path = os.path.join(CACHE, name + '.lock')
    def __enter__(self):
        self.f = open(self.path, 'w')
        fcntl.flock(self.f, fcntl.LOCK_EX)
    def __exit__(self, *a):
        fcntl.flock(self.f, fcntl.LOCK_UN)
        self.f.close()

# ---------------------------------------------------------------- Coq

def coq_files():
    out = []
    for d in ('Model', 'Spec', 'Proofs', 'Properties'):
        p = os.path.join(COQ, d)
        if os.path.isdir(p):
            out += sorted(os.path.join(d, f) for f in os.listdir(p) if f.endswith('.v'))
    return out

def coq_makefile():
    files = coq_files()
    want = open(os.path.join(COQ, '_CoqProject')).read() + '\n'.join(files) + '\n'
    stamp = os.path.join(COQ, '.files.stamp')
    if not os.path.exists(os.path.join(COQ, 'Makefile')) or not os.path.exists(stamp) or open(stamp).read() != want:
        rc, log = sh(['coq_makefile', '-f', '_CoqProject'] + files + ['-o', 'Makefile'], cwd=COQ)
        if rc != 0:
            raise BuildError('coq_makefile', log)
        open(stamp, 'w').write(want)

def coq_make(targets=None, timeout=1500):
    """Full .vo build (never -vos) of the given targets or of everything."""
    with Lock('coq'):
        coq_makefile()
        cmd = ['timeout', str(timeout), 'make', '-j%d' % NCPU] + (targets or [])
        rc, log = sh(cmd, cwd=COQ, timeout=timeout + 30)
        if rc != 0:
            raise BuildError('coq make ' + ' '.join(targets or ['all']), log)
        return log

FORBIDDEN = re.compile(r'\b(Admitted|admit|Axiom|Axioms|Parameter|Parameters|Conjecture|Hypothesis|Variable|Abort)\b'
                       r'|Unset\s+Guard|bypass_check|type-in-type|impredicative-set|Admit\s+Obligations|Unset\s+Universe\s+Checking|Unset\s+Positivity')

def coq_source_audit():
    """No Admitted/admit/Axiom/Parameter/... anywhere in the development (comments stripped).
    `Variable` is allowed only inside a Section (used in Model/Canon.v for the float printer)."""
    bad = []
    for f in coq_files() + ['Extract.v']:
        src = open(os.path.join(COQ, f)).read()
        src = strip_comments(src)
        depth = 0
        for ln, line in enumerate(src.split('\n'), 1):
            if re.match(r'\s*Section\b', line): depth += 1
            if re.match(r'\s*End\b', line) and depth > 0: depth -= 1
            for m in FORBIDDEN.finditer(line):
                if m.group(0) in ('Variable', 'Hypothesis') and depth > 0:
                    continue
                bad.append('%s:%d: %s' % (f, ln, line.strip()))
    return bad

def strip_comments(src):
    out, depth, i = [], 0, 0
    while i < len(src):
        if src.startswith('(*', i): depth += 1; i += 2; continue
        if src.startswith('*)', i) and depth > 0: depth -= 1; i += 2; continue
        if depth == 0: out.append(src[i])
        elif src[i] == '\n': out.append('\n')
        i += 1
    return ''.join(out)

def check_property_file(pid):
    """Build the cone of Properties/<pid>.vo, then recompile the property file itself so that the
    Print Assumptions output belongs to this run.  Returns (theorems, axioms_by_theorem, log)."""
    rel = 'Properties/%s.v' % pid
    coq_make([rel + 'o'])
    with Lock('coq'):
        rc, log = sh(['timeout', '600', 'coqc', '-q', '-Q', '.', 'Ais',
                      '-w', '-notation-overridden,-deprecated-hint-without-locality,-deprecated-instance-without-locality',
                      rel], cwd=COQ, timeout=640)
    if rc != 0:
        raise BuildError('coqc ' + rel, log)
    src = strip_comments(open(os.path.join(COQ, rel)).read())
    theorems = re.findall(r'^\s*Theorem\s+(\w+)', src, re.M)
    printed = re.findall(r'^\s*Print\s+Assumptions\s+(\w+)\s*\.', src, re.M)
    missing = [t for t in theorems if t not in printed]
    if missing:
        raise BuildError('Print Assumptions missing for ' + ', '.join(missing), log)
    # split the output into one block per Print Assumptions, in order
    blocks = re.split(r'(?m)^(?=Closed under the global context|Axioms:)', log)
    blocks = [b for b in blocks if b.startswith('Closed under') or b.startswith('Axioms:')]
    if len(blocks) != len(printed):
        raise BuildError('could not match Print Assumptions output (%d blocks, %d commands)' % (len(blocks), len(printed)), log)
    axioms = {}
    for name, b in zip(printed, blocks):
        if b.startswith('Closed under'):
            axioms[name] = []
        else:
            axioms[name] = re.findall(r'^(\S+)\s*:', b[len('Axioms:'):], re.M)
    return theorems, axioms, log

# ---------------------------------------------------------------- driver (extracted model)

def newest(paths):
    return max((os.path.getmtime(p) for p in paths if os.path.exists(p)), default=0)

def build_driver():
    with Lock('driver'):
        model_vo = [os.path.join(COQ, 'Model', f) for f in os.listdir(os.path.join(COQ, 'Model')) if f.endswith('.v')]
        exe = os.path.join(DRIVER_DIR, 'driver')
        src_time = newest(model_vo + [os.path.join(COQ, 'Extract.v'), os.path.join(DRIVER_DIR, 'driver.ml')])
        if os.path.exists(exe) and os.path.getmtime(exe) >= src_time:
            return exe
        coq_make(['Model/Canon.vo', 'Model/F32Eval.vo', 'Model/NomBits.vo', 'Model/NomBytes.vo'])
        rc, log = sh(['timeout', '600', 'coqc', '-q', '-Q', COQ, 'Ais', os.path.join(COQ, 'Extract.v')], cwd=DRIVER_DIR)
        for junk in ('Extract.vo', 'Extract.glob', 'Extract.vos', 'Extract.vok', '.Extract.aux'):
            try: os.remove(os.path.join(COQ, junk))
            except OSError: pass
        if rc != 0:
            raise BuildError('extraction', log)
        rc, log = sh(['ocamlfind', 'ocamlopt', '-O2', '-w', '-a', 'model.mli', 'model.ml', 'driver.ml', '-o', 'driver'], cwd=DRIVER_DIR)
        if rc != 0:
            raise BuildError('ocamlopt driver', log)
        return exe

# ---------------------------------------------------------------- harness (implementation)

FEATURES = {'std': ['--features', 'std'], 'alloc': ['--features', 'alloc'], 'none': []}

def harness_dir():
    """the harness crate; for a scratch copy of the repository (VERIF_REPO, used only by the seeded
    self-test tooling) a copy of the crate whose path dependency points there"""
    if REPO == '/repo':
        return HARNESS_DIR, ''
    tag = '-' + hashlib.sha1(REPO.encode()).hexdigest()[:8]
    d = os.path.join(CACHE, 'harness' + tag)
    os.makedirs(os.path.join(d, 'src'), exist_ok=True)
    os.makedirs(os.path.join(d, '.cargo'), exist_ok=True)
    for f in ('src/main.rs', 'src/enums.rs', 'src/shape.rs', 'Cargo.lock', '.cargo/config.toml'):
        src = open(os.path.join(HARNESS_DIR, f)).read()
        dst = os.path.join(d, f)
        if not os.path.exists(dst) or open(dst).read() != src: open(dst, 'w').write(src)
    toml = open(os.path.join(HARNESS_DIR, 'Cargo.toml')).read().replace('path = "/repo"', 'path = "%s"' % REPO)
    dst = os.path.join(d, 'Cargo.toml')
    if not os.path.exists(dst) or open(dst).read() != toml: open(dst, 'w').write(toml)
    return d, tag

def build_harness(feat, profile='debug'):
    """cargo rebuilds /repo's working tree (path dependency) on every call."""
    hdir, tag = harness_dir()
    tdir = os.path.join(CACHE, 'target-' + feat + tag)
    with Lock('cargo-' + feat + tag):
        cmd = ['cargo', 'build', '--offline', '--quiet', '--target-dir', tdir] + FEATURES[feat]
        if profile == 'release':
            cmd.append('--release')
        rc, log = sh(cmd, cwd=hdir, timeout=900)
        if rc != 0:
            raise BuildError('cargo build harness (%s, %s)' % (feat, profile), log)
    return os.path.join(tdir, profile, 'ais-verif-harness')

def build_cli():
    tdir = os.path.join(CACHE, 'target-cli' + harness_dir()[1])
    with Lock('cargo-cli' + harness_dir()[1]):
        rc, log = sh(['cargo', 'build', '--offline', '--quiet', '--manifest-path', os.path.join(REPO, 'Cargo.toml'),
                      '--bin', 'aisparser', '--target-dir', tdir], timeout=900)
        if rc != 0:
            raise BuildError('cargo build aisparser', log)
    return os.path.join(tdir, 'debug', 'aisparser')

# ---------------------------------------------------------------- running cases

def hexs(b):
    return bytes(b).hex() if len(b) else '-'

def shard(cases, n):
    """Split a case list into about n shards; a history (from its H line) is never split."""
    if len(cases) < 200 and not any(x.startswith(('A ', 'B ', 'F ')) for x in cases):
        return [cases]
    groups, cur = [], []
    for c in cases:
        if c.startswith('H') and cur:
            groups.append(cur); cur = []
        cur.append(c)
        if not c.startswith(('H', 'L', 'C')):
            groups.append(cur); cur = []
    if cur: groups.append(cur)
    target = (len(cases) + n - 1) // n
    shards, cur = [], []
    for g in groups:
        cur += g
        if len(cur) >= target:
            shards.append(cur); cur = []
    if cur: shards.append(cur)
    return shards

def _run_watched(cmd, data, timeout, stall):
    """one process over the input; (complete output lines, status) with status 'ok', 'abort' (it died),
    'hang' (no further output line for `stall` seconds, or the overall limit hit: killed)"""
    import threading, queue
    p = subprocess.Popen(cmd, stdin=subprocess.PIPE, stdout=subprocess.PIPE, stderr=subprocess.DEVNULL)
    def feed():
        try: p.stdin.write(data); p.stdin.close()
        except OSError: pass
    threading.Thread(target=feed, daemon=True).start()
    q = queue.Queue()
    def read():
        for raw in p.stdout: q.put(raw)
        q.put(None)
    threading.Thread(target=read, daemon=True).start()
    lines, t0, status = [], time.time(), 'ok'
    while True:
        try:
            raw = q.get(timeout=stall)
        except queue.Empty:
            status = 'hang'; break
        if raw is None: break
        if raw.endswith(b'\n'): lines.append(raw[:-1].decode('latin-1'))     # a partial last line is dropped
        if time.time() - t0 > timeout:
            status = 'hang'; break
    if status == 'hang':
        p.kill()
    p.wait()
    return lines, status

HANGS = [0]      # calls of the implementation that did not return, in this process
CONFIRMED = [0]  # ... of which so many were re-run alone with a generous limit before they were believed
FALSE_HANGS = [0]

def run_exe(cmd, cases, timeout=600, stall=None, watch=True):
    """Run one executable over the cases, sharded over the cores.  Returns one output line per
    case; a crash or hang of the process is turned into `(k c8)` (hang) / `(k c7)` (abort) at
    the case where the output stops, and the remaining cases are run in a fresh process.  A hang is
    recognised by the output standing still (`stall` seconds; both executables flush one line per case),
    so a non-terminating call costs seconds, not the overall limit; after three hangs in a shard the rest
    of the shard is not run any more and reported as hung.

    A machine under load can make a call look as if it did not return (a two-byte sweep is 65 536 calls behind
    one output line).  So: shards that hold sweeps get a long limit; the first hangs of a run are *confirmed* —
    the history that leads to the stopping case is run again, alone, with a generous limit — and a hang that
    does not confirm is not a hang: the shard is run again with the generous limit; the shortened limit after a
    hang applies to the implementation only (`watch`), never to the model, whose functions are total."""
    def one(sh_cases):
        outs, rest, hangs, boost = [], sh_cases, 0, 1
        has_sweep = any(x.startswith(('A ', 'B ', 'F ')) for x in sh_cases)
        base = stall or timeout
        if has_sweep: base = max(base, 300)
        while rest:
            if watch and HANGS[0] >= 8:
                # this run has seen enough calls that do not return: the rest is reported as not run (the hangs
                # already recorded decide the verdict; waiting out more of them only costs time)
                outs += ['(k c8)'] * len(rest); break
            data = ('\n'.join(rest) + '\n').encode()
            cur = base * boost
            if watch and HANGS[0] > 0 and boost == 1: cur = min(base, 60 if has_sweep else 12)
            lines, status = _run_watched(cmd, data, max(timeout, cur), cur)
            if status == 'hang' and watch and len(lines) < len(rest) and boost == 1 and CONFIRMED[0] < 2:
                k = len(lines); j = k
                while j > 0 and not rest[j].startswith('H'): j -= 1
                sub = rest[j:k + 1]
                l2, st2 = _run_watched(cmd, ('\n'.join(sub) + '\n').encode(), 900, 300 if has_sweep else max(2 * base, 90))
                if st2 == 'ok' and len(l2) >= len(sub):
                    FALSE_HANGS[0] += 1
                    boost = 4                     # not a hang: the machine is slow; once more, patiently
                    continue
                CONFIRMED[0] += 1
            if status == 'hang' and watch: HANGS[0] += 1
            if len(lines) >= len(rest):
                outs += lines[:len(rest)]
                break
            outs += lines
            outs.append('(k c8)' if status == 'hang' else '(k c7)')     # the case at which the process stopped
            done = len(lines) + 1
            # parser state is lost with the process: re-run the rest of an interrupted history
            # from a fresh parser (the model is not restarted, so later steps may differ; the
            # crash itself is already a violation)
            rest = rest[done:]
            if status == 'hang':
                hangs += 1
                if hangs >= 3:
                    outs += ['(k c8)'] * len(rest); break
        return outs
    shards = shard(cases, NCPU)
    with ThreadPoolExecutor(max_workers=NCPU) as ex:
        res = list(ex.map(one, shards))
    return [l for r in res for l in r]

def run_impl(cases, feat='std', profile='debug', timeout=600):
    # the harness answers every case within milliseconds (a two-byte sweep within a second or two): 45 s of
    # silence is a call that does not return
    return run_exe([build_harness(feat, profile)], cases, timeout, stall=45)

def run_model(cases, feat='std', quirks='asis', timeout=600):
    return run_exe([build_driver(), feat, quirks], cases, timeout, watch=False)

# ---------------------------------------------------------------- token trees

def parse_tree(s):
    """'(k c0 (s q1 ..))' -> ('k', [('c','0'), ('s', [...])]); atoms are (kind, text)."""
    toks = s.replace('(', ' ( ').replace(')', ' ) ').split()
    pos = 0
    def node():
        nonlocal pos
        t = toks[pos]
        if t == '(':
            kind = toks[pos + 1]; pos += 2
            ch = []
            while toks[pos] != ')':
                ch.append(node())
            pos += 1
            return (kind, ch)
        pos += 1
        return (t[0], t[1:])
    out = node()
    return out

def split_line(line):
    """'tree | conv ; state' -> (tree, conv or None, state or None) as strings"""
    state = conv = None
    if ' ; ' in line:
        line, state = line.split(' ; ', 1)
    if ' | ' in line:
        line, conv = line.split(' | ', 1)
    return line, conv, state

def pruned(line):
    """a token line with the *content* of every decoded message removed (its presence is kept):
    what the sequencing / reassembly properties speak about"""
    if line is None or '(v ' not in line:
        return line
    try:
        t = parse_tree(line)
    except Exception:
        return line
    def go(n):
        if isinstance(n[1], str): return n
        if n[0] == 'v': return ('v', [])
        return (n[0], [go(x) for x in n[1]])
    return show(go(t))

def message_of(line):
    """the decoded-message subtree `(v ...)` of a step line as text, or None"""
    i = line.find('(v ')
    if i < 0: return None
    depth = 0
    for j in range(i, len(line)):
        if line[j] == '(': depth += 1
        elif line[j] == ')':
            depth -= 1
            if depth == 0: return line[i:j + 1]
    return None

def diff_trees(a, b, path=''):
    """Differences between two trees: list of (path of kinds down to the differing item, impl, model)."""
    if isinstance(a[1], str) or isinstance(b[1], str):
        if a != b:
            out = [(path + a[0], show(a), show(b))]
            if a[0] == 't' and b[0] == 't' and isinstance(a[1], str) and isinstance(b[1], str) and len(a[1]) != len(b[1]):
                # a text of another length: characters fabricated or lost, which is C14's business as well as C13's
                out.append((path + 't#n', show(a), show(b)))
            return out
        return []
    if a[0] != b[0]:
        return [(path + a[0], show(a), show(b))]
    kind = a[0]
    ca, cb = a[1], b[1]
    if kind in ('n', 'u', 'o', 'l') and len(ca) != len(cb):
        # an absent value where a scaled quantity (float) should be is also C10's business
        isf = kind == 'n' and any(isinstance(x[1], str) and x[0] == 'f' for x in ca + cb)
        # an integer-valued field (time stamp, heading, altitude ...) that the model reports and the implementation
        # does not: a transmitted value is not reported, which is C04's business as well as C11's
        if kind == 'n' and not isf and len(ca) < len(cb) and any(isinstance(x[1], str) and x[0] in 'iz' for x in cb):
            return [(path + 'n#i', show(a), show(b))]
        # a list on which the implementation reports fewer elements than were transmitted: the values of
        # the missing elements are not reported, which is C04's business as well as C14's
        short = kind in ('l', 'o') and len(ca) < len(cb)      # fewer list elements / an optional block missing
        return [(path + kind + ('#f' if isf else '#<' if short else '#'), show(a), show(b))]
    out = []
    if len(ca) != len(cb):
        out.append((path + kind + '#', show(a), show(b)))
    for x, y in zip(ca, cb):
        out += diff_trees(x, y, path + kind)
    return out

def show(t):
    if isinstance(t[1], str):
        return t[0] + t[1]
    return '(' + t[0] + ''.join(' ' + show(c) for c in t[1]) + ')'

# which properties a difference speaks about, from the kinds on its path (innermost last)
def attribute(path):
    last = path[-1]
    props = set()
    if 'r' in path:
        props.add('C16')
        if last in 'e' or path.endswith('ec'):
            props.add('C12')
        return props
    if path.endswith('#f'):
        return {'C11', 'C10'}
    if path.endswith('n#i'):
        return {'C11', 'C04'}
    if path.endswith('t#n'):
        return {'C14'}
    if path.endswith('#<'):
        return {'C14', 'C04'} if 'v' in path else {'C07'}
    if path.endswith('#'):
        k = path[-2]
        return {'n': {'C11'}, 'u': {'C12'}, 'l': {'C14'}, 'o': {'C14'} if 'v' in path else {'C07'},
                'k': {'OUTCOME'}, 's': {'C14'}, 'e': {'C12'}, 'v': {'C09'}}.get(k, {'OTHER'})
    if last == 'y': return {'C09', 'C04'}
    if last == 'c':
        if path.endswith('vc'): return {'C09'}
        if 'e' in path: return {'C12'}
        if path.endswith('kc') or path == 'kc': return {'OUTCOME'}
        return {'OUTCOME'}
    if last in 'ibz':
        if path.startswith('k') and 'v' not in path and 's' not in path: return {'OUTCOME'}   # checksum values
        return {'C04'}
    if last == 'f': return {'C10'}
    if last == 't': return {'C13'}
    if last == 'd': return {'C15'}
    if last == 'q': return {'C07'}
    if last == 'p': return {'C07'}
    if last == 'm': return {'C19'}
    return {'OTHER'}

def relevant_diffs(impl_line, model_line, props):
    """props: set of property ids this check decides, or None for everything.
    Returns the differences attributed to them (outcome and unclassified differences always count)."""
    if impl_line == model_line:
        return []
    try:
        a, b = parse_tree(impl_line), parse_tree(model_line)
    except Exception:
        return [('unparsable', impl_line[:200], model_line[:200])]
    ds = diff_trees(a, b)
    if props is None:
        return ds
    return [d for d in ds if attribute(d[0]) & (props | {'OUTCOME', 'OTHER'})]

# ---------------------------------------------------------------- evidence / replay / verdict

def write_json(path, obj):
    os.makedirs(os.path.dirname(path), exist_ok=True)
    tmp = path + '.tmp'
    with open(tmp, 'w') as f:
        json.dump(obj, f, indent=1)
    os.replace(tmp, path)

def replay_path(pid, obj):
    h = hashlib.sha1(json.dumps(obj, sort_keys=True).encode()).hexdigest()[:12]
    return os.path.join(REPLAYS, '%s-%s.json' % (pid, h))

def known_findings():
    return json.load(open(os.path.join(VERIF, 'known_findings.json')))
