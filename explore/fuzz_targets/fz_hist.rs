#![no_main]
// a history of sentences on two parsers (shape.rs)
use libfuzzer_sys::fuzz_target;
#[path = "../shape.rs"]
mod shape;
fuzz_target!(|data: &[u8]| {
    let mut parsers = [ais::AisParser::new(), ais::AisParser::new()];
    for call in shape::history(data) {
        match parsers[call.parser as usize].parse(&call.line, call.decode) {
            Ok(f) => {
                let _ = format!("{:?}", f).len();
                let o: Option<ais::sentence::AisSentence> = f.into();
                let _ = o.is_some();
            }
            Err(e) => { let _ = format!("{:?}", e).len(); }
        }
    }
});
