#![no_main]
// an unarmored message: the bytes as they are
use libfuzzer_sys::fuzz_target;
fuzz_target!(|data: &[u8]| {
    if let Ok(m) = ais::messages::parse(data) {
        // formatting walks every field (and is what the command-line tool prints)
        let _ = format!("{:?}", m).len();
    }
});
