#![no_main]
use libfuzzer_sys::fuzz_target;
#[path = "../shape.rs"]
mod shape;
fuzz_target!(|data: &[u8]| {
    let (fill, bytes) = shape::unarmor_case(data);
    let _ = ais::messages::unarmor(&bytes, fill);
});
