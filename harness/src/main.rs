// Correspondence harness: runs the implementation in /repo on a cases file and prints one
// canonical token tree per case (grammar: /verif/coq/Model/Canon.v).
mod enums;
mod shape;
use ais::messages::radio_status::{RadioStatus, SubMessage, SyncState};
use ais::messages::navigation::{Accuracy, ManeuverIndicator};
use ais::messages::types::{AssignedMode, Dte, ShipType};
use ais::messages::AisMessage;
use ais::sentence::{AisFragments, AisParser, AisReportType, AisSentence, TalkerId};
use enums::*;
use std::fmt::Write as _;
use std::io::{BufRead, Write};
use std::panic::{catch_unwind, AssertUnwindSafe};

type S = String;

fn hex(kind: char, b: &[u8], o: &mut S) {
    o.push(kind);
    if b.is_empty() {
        o.push('-');
    } else {
        for x in b {
            write!(o, "{:02x}", x).unwrap();
        }
    }
}
fn ti(v: u64, o: &mut S) { write!(o, "i{}", v).unwrap(); }
fn tc(v: u64, o: &mut S) { write!(o, "c{}", v).unwrap(); }
fn tq(v: u64, o: &mut S) { write!(o, "q{}", v).unwrap(); }
fn ty(v: u64, o: &mut S) { write!(o, "y{}", v).unwrap(); }
fn tb(v: bool, o: &mut S) { write!(o, "b{}", v as u8).unwrap(); }
fn tf(v: f32, o: &mut S) { write!(o, "f{}", v.to_bits()).unwrap(); }
fn sp(o: &mut S) { o.push(' '); }
fn open(kind: char, o: &mut S) { o.push('('); o.push(kind); }
fn close(o: &mut S) { o.push(')'); }
fn opt<T>(kind: char, v: &Option<T>, o: &mut S, f: impl Fn(&T, &mut S)) {
    open(kind, o);
    if let Some(x) = v { sp(o); f(x, o); }
    close(o);
}
fn tenum(ix: (u32, Option<u8>), o: &mut S) {
    open('e', o); sp(o); tc(ix.0 as u64, o);
    if let Some(c) = ix.1 { sp(o); tc(c as u64, o); }
    close(o);
}
fn optf(v: &Option<f32>, o: &mut S) { opt('n', v, o, |x, o| tf(*x, o)); }
fn text(s: &str, o: &mut S) { hex('t', s.as_bytes(), o); }
fn accuracy(a: &Accuracy, o: &mut S) { tenum((match a { Accuracy::Unaugmented => 0, Accuracy::Dgps => 1 }, None), o); }
fn dte(a: &Dte, o: &mut S) { tenum((match a { Dte::Ready => 0, Dte::NotReady => 1 }, None), o); }
fn assigned(a: &AssignedMode, o: &mut S) { tenum((match a { AssignedMode::Autonomous => 0, AssignedMode::Assigned => 1 }, None), o); }
fn maneuver(a: &ManeuverIndicator, o: &mut S) {
    tenum(match a { ManeuverIndicator::NoSpecialManeuver => (0, None), ManeuverIndicator::SpecialManeuver => (1, None), ManeuverIndicator::Unknown(c) => (2, Some(*c)) }, o);
}
fn sync(a: &SyncState, o: &mut S) {
    tenum(match a { SyncState::UtcDirect => (0, None), SyncState::UtcIndirect => (1, None), SyncState::BaseStation => (2, None),
        SyncState::NumberOfReceivedStations => (3, None), SyncState::Unknown(c) => (4, Some(*c)) }, o);
}
fn radio(r: &RadioStatus, o: &mut S) {
    open('r', o); sp(o);
    match r {
        RadioStatus::Sotdma(m) => {
            tc(0, o); sp(o); sync(&m.sync_state, o); sp(o); ti(m.slot_timeout as u64, o); sp(o);
            open('s', o); sp(o);
            match &m.sub_message {
                SubMessage::SlotOffset(v) => { tc(0, o); sp(o); ti(*v as u16 as u64, o); }
                SubMessage::UtcHourAndMinute(h, mi) => { tc(1, o); sp(o); ti(*h as u64, o); sp(o); ti(*mi as u64, o); }
                SubMessage::SlotNumber(v) => { tc(2, o); sp(o); ti(*v as u64, o); }
                SubMessage::ReceivedStations(v) => { tc(3, o); sp(o); ti(*v as u64, o); }
            }
            close(o);
        }
        RadioStatus::Itdma(m) => {
            tc(1, o); sp(o); sync(&m.sync_state, o); sp(o); ti(m.slot_increment as u16 as u64, o); sp(o);
            ti(m.num_slots as u64, o); sp(o); tb(m.keep, o);
        }
    }
    close(o);
}
fn shiptype_opt(v: &Option<ShipType>, o: &mut S) { opt('u', v, o, |x, o| tenum(ship_type_index(x), o)); }
fn epfd_opt(v: &Option<ais::messages::types::EpfdType>, o: &mut S) { opt('u', v, o, |x, o| tenum(epfd_type_index(x), o)); }
fn navstatus_opt(v: &Option<ais::messages::position_report::NavigationStatus>, o: &mut S) { opt('u', v, o, |x, o| tenum(nav_status_index(x), o)); }
fn optu<T: Copy + Into<u64>>(kind: char, v: &Option<T>, o: &mut S) { opt(kind, v, o, |x, o| ti((*x).into(), o)); }

// RateOfTurn keeps its i8 private.  Its raw value is read from the `raw: <i8>` field of its Debug output wherever that
// stands in it (a hand-written Debug may print more); when no such field is printed, it is recovered through the public
// API: the code d with `RateOfTurn::parse(d) == Some(r)`.
fn rot_raw(r: &ais::messages::navigation::RateOfTurn) -> i64 {
    let s = format!("{:?}", r);
    if let Some(i) = s.find("raw: ") {
        let t: String = s[i + 5..].chars().take_while(|c| *c == '-' || c.is_ascii_digit()).collect();
        if let Ok(v) = t.parse::<i64>() { return v; }
    }
    for d in 0..=255u8 {
        if ais::messages::navigation::RateOfTurn::parse(d) == Some(*r) { return (d as i8) as i64; }
    }
    9999
}

fn message(m: &AisMessage, o: &mut S) {
    open('v', o); sp(o);
    macro_rules! head { ($idx:expr, $x:expr) => {{ tc($idx, o); sp(o); open('s', o); sp(o); ty($x.message_type as u64, o); sp(o); ti($x.repeat_indicator as u64, o); sp(o); ti($x.mmsi as u64, o); }}; }
    match m {
        AisMessage::PositionReport(x) => {
            head!(0, x); sp(o);
            navstatus_opt(&x.navigation_status, o); sp(o);
            opt('n', &x.rate_of_turn, o, |r, o| write!(o, "z{}", rot_raw(r)).unwrap()); sp(o);
            optf(&x.speed_over_ground, o); sp(o); accuracy(&x.position_accuracy, o); sp(o);
            optf(&x.longitude, o); sp(o); optf(&x.latitude, o); sp(o); optf(&x.course_over_ground, o); sp(o);
            optu('n', &x.true_heading, o); sp(o); ti(x.timestamp as u64, o); sp(o);
            opt('u', &x.maneuver_indicator, o, maneuver); sp(o); tb(x.raim, o); sp(o); radio(&x.radio_status, o);
        }
        AisMessage::BaseStationReport(x) => {
            head!(1, x); sp(o);
            optu('n', &x.year, o); sp(o); optu('n', &x.month, o); sp(o); optu('n', &x.day, o); sp(o); ti(x.hour as u64, o); sp(o);
            optu('n', &x.minute, o); sp(o); optu('n', &x.second, o); sp(o); accuracy(&x.fix_quality, o); sp(o);
            optf(&x.longitude, o); sp(o); optf(&x.latitude, o); sp(o); epfd_opt(&x.epfd_type, o); sp(o); tb(x.raim, o); sp(o); radio(&x.radio_status, o);
        }
        AisMessage::UtcDateResponse(x) => {
            head!(11, x); sp(o);
            optu('n', &x.year, o); sp(o); optu('n', &x.month, o); sp(o); optu('n', &x.day, o); sp(o); ti(x.hour as u64, o); sp(o);
            optu('n', &x.minute, o); sp(o); optu('n', &x.second, o); sp(o); accuracy(&x.fix_quality, o); sp(o);
            optf(&x.longitude, o); sp(o); optf(&x.latitude, o); sp(o); epfd_opt(&x.epfd_type, o); sp(o); tb(x.raim, o); sp(o); radio(&x.radio_status, o);
        }
        AisMessage::BinaryBroadcastMessage(x) => {
            head!(2, x); sp(o); ti(x.dac as u64, o); sp(o); ti(x.fid as u64, o); sp(o); hex('d', &x.data[..], o);
        }
        AisMessage::Interrogation(x) => {
            head!(3, x); sp(o);
            open('l', o);
            for st in x.stations.iter() {
                sp(o); open('s', o); sp(o); ti(st.mmsi as u64, o); sp(o);
                open('l', o);
                for mm in st.messages.iter() {
                    sp(o); open('s', o); sp(o); ti(mm.message_type as u64, o); sp(o); optu('n', &mm.slot_offset, o); close(o);
                }
                close(o); close(o);
            }
            close(o);
        }
        AisMessage::StaticAndVoyageRelatedData(x) => {
            head!(4, x); sp(o);
            ti(x.ais_version as u64, o); sp(o); ti(x.imo_number as u64, o); sp(o); text(x.callsign.as_str(), o); sp(o); text(x.vessel_name.as_str(), o); sp(o);
            shiptype_opt(&x.ship_type, o); sp(o);
            ti(x.dimension_to_bow as u64, o); sp(o); ti(x.dimension_to_stern as u64, o); sp(o); ti(x.dimension_to_port as u64, o); sp(o); ti(x.dimension_to_starboard as u64, o); sp(o);
            epfd_opt(&x.epfd_type, o); sp(o);
            optu('n', &x.eta_month_utc, o); sp(o); optu('n', &x.eta_day_utc, o); sp(o); ti(x.eta_hour_utc as u64, o); sp(o); optu('n', &x.eta_minute_utc, o); sp(o);
            tf(x.draught, o); sp(o); text(x.destination.as_str(), o); sp(o); dte(&x.dte, o);
        }
        AisMessage::DgnssBroadcastBinaryMessage(x) => {
            head!(5, x); sp(o); optf(&x.longitude, o); sp(o); optf(&x.latitude, o); sp(o);
            let p = &x.payload;
            open('s', o); sp(o); ti(p.message_type as u64, o); sp(o); ti(p.station_id as u64, o); sp(o); ti(p.z_count as u64, o); sp(o);
            ti(p.sequence_number as u64, o); sp(o); ti(p.n as u64, o); sp(o); ti(p.health as u64, o); sp(o); hex('d', &p.data[..], o); close(o);
        }
        AisMessage::StandardClassBPositionReport(x) => {
            head!(6, x); sp(o);
            optf(&x.speed_over_ground, o); sp(o); accuracy(&x.position_accuracy, o); sp(o);
            optf(&x.longitude, o); sp(o); optf(&x.latitude, o); sp(o); optf(&x.course_over_ground, o); sp(o);
            optu('n', &x.true_heading, o); sp(o); ti(x.timestamp as u64, o); sp(o);
            tenum((match x.cs_unit { ais::messages::standard_class_b_position_report::CarrierSense::Sotdma => 0, ais::messages::standard_class_b_position_report::CarrierSense::CarrierSense => 1 }, None), o); sp(o);
            tb(x.has_display, o); sp(o); tb(x.has_dsc, o); sp(o); tb(x.whole_band, o); sp(o); tb(x.accepts_message_22, o); sp(o);
            assigned(&x.assigned_mode, o); sp(o); tb(x.raim, o); sp(o); radio(&x.radio_status, o);
        }
        AisMessage::ExtendedClassBPositionReport(x) => {
            head!(7, x); sp(o);
            optf(&x.speed_over_ground, o); sp(o); accuracy(&x.position_accuracy, o); sp(o);
            optf(&x.longitude, o); sp(o); optf(&x.latitude, o); sp(o); optf(&x.course_over_ground, o); sp(o);
            optu('n', &x.true_heading, o); sp(o); ti(x.timestamp as u64, o); sp(o); text(x.name.as_str(), o); sp(o);
            shiptype_opt(&x.type_of_ship_and_cargo, o); sp(o);
            ti(x.dimension_to_bow as u64, o); sp(o); ti(x.dimension_to_stern as u64, o); sp(o); ti(x.dimension_to_port as u64, o); sp(o); ti(x.dimension_to_starboard as u64, o); sp(o);
            epfd_opt(&x.epfd_type, o); sp(o); tb(x.raim, o); sp(o); dte(&x.dte, o); sp(o); assigned(&x.assigned_mode, o);
        }
        AisMessage::DataLinkManagementMessage(x) => {
            head!(8, x); sp(o);
            open('l', o);
            for r in x.reservations.iter() {
                sp(o); open('s', o); sp(o); ti(r.offset as u64, o); sp(o); ti(r.num_slots as u64, o); sp(o); ti(r.timeout as u64, o); sp(o); ti(r.increment as u64, o); close(o);
            }
            close(o);
        }
        AisMessage::AidToNavigationReport(x) => {
            head!(9, x); sp(o);
            opt('u', &x.aid_type, o, |v, o| tenum(navaid_type_index(v), o)); sp(o); text(x.name.as_str(), o); sp(o); accuracy(&x.accuracy, o); sp(o);
            optf(&x.longitude, o); sp(o); optf(&x.latitude, o); sp(o);
            ti(x.dimension_to_bow as u64, o); sp(o); ti(x.dimension_to_stern as u64, o); sp(o); ti(x.dimension_to_port as u64, o); sp(o); ti(x.dimension_to_starboard as u64, o); sp(o);
            epfd_opt(&x.epfd_type, o); sp(o); ti(x.utc_second as u64, o); sp(o); tb(x.off_position, o); sp(o); ti(x.regional_reserved as u64, o); sp(o);
            tb(x.raim, o); sp(o); tb(x.virtual_aid, o); sp(o); tb(x.assigned_mode, o);
        }
        AisMessage::StaticDataReport(x) => {
            use ais::messages::static_data_report::MessagePart;
            head!(10, x); sp(o);
            open('e', o); sp(o);
            match &x.message_part {
                MessagePart::PartA { vessel_name } => { tc(0, o); sp(o); text(vessel_name.as_str(), o); }
                MessagePart::PartB { ship_type, vendor_id, model_serial, unit_model_code, serial_number, callsign,
                    dimension_to_bow, dimension_to_stern, dimension_to_port, dimension_to_starboard } => {
                    tc(1, o); sp(o); shiptype_opt(ship_type, o); sp(o); text(vendor_id.as_str(), o); sp(o); text(model_serial.as_str(), o); sp(o);
                    ti(*unit_model_code as u64, o); sp(o); ti(*serial_number as u64, o); sp(o); text(callsign.as_str(), o); sp(o);
                    ti(*dimension_to_bow as u64, o); sp(o); ti(*dimension_to_stern as u64, o); sp(o); ti(*dimension_to_port as u64, o); sp(o); ti(*dimension_to_starboard as u64, o);
                }
                MessagePart::Unknown(n) => { tc(2, o); sp(o); tc(*n as u64, o); }
            }
            close(o);
        }
        AisMessage::StandardAircraftPositionReport(x) => {
            head!(12, x); sp(o);
            optu('n', &x.altitude, o); sp(o); optf(&x.speed_over_ground, o); sp(o); accuracy(&x.position_accuracy, o); sp(o);
            optf(&x.longitude, o); sp(o); optf(&x.latitude, o); sp(o); optf(&x.course_over_ground, o); sp(o);
            ti(x.timestamp as u64, o); sp(o); dte(&x.dte, o); sp(o); assigned(&x.assigned_mode, o); sp(o); tb(x.raim, o); sp(o); radio(&x.radio_status, o);
        }
        AisMessage::AssignmentModeCommand(x) => {
            head!(13, x); sp(o);
            ti(x.mmsi1 as u64, o); sp(o); ti(x.offset1 as u64, o); sp(o); ti(x.increment1 as u64, o); sp(o);
            optu('o', &x.mmsi2, o); sp(o); optu('o', &x.offset2, o); sp(o); optu('o', &x.increment2, o);
        }
        AisMessage::BinaryAcknowledgeMessage(x) => {
            head!(14, x); sp(o);
            open('l', o);
            for a in x.acks.iter() { sp(o); open('s', o); sp(o); ti(a.mmsi as u64, o); sp(o); ti(a.seq_num as u64, o); close(o); }
            close(o);
        }
        AisMessage::SafetyRelatedAcknowledgment(x) => {
            head!(18, x); sp(o);
            open('l', o);
            for a in x.acks.iter() { sp(o); open('s', o); sp(o); ti(a.mmsi as u64, o); sp(o); ti(a.seq_num as u64, o); close(o); }
            close(o);
        }
        AisMessage::UtcDateInquiry(x) => { head!(15, x); sp(o); ti(x.dest_mmsi as u64, o); }
        AisMessage::AddressedSafetyRelatedMessage(x) => {
            head!(16, x); sp(o); ti(x.seqno as u64, o); sp(o); ti(x.dest_mmsi as u64, o); sp(o); tb(x.retransmit, o); sp(o); text(x.text.as_str(), o);
        }
        AisMessage::SafetyRelatedBroadcastMessage(x) => { head!(17, x); sp(o); text(x.text.as_str(), o); }
        AisMessage::LongRangeAisBroadcastMessage(x) => {
            head!(19, x); sp(o);
            accuracy(&x.position_accuracy, o); sp(o); tb(x.raim, o); sp(o); navstatus_opt(&x.navigation_status, o); sp(o);
            optf(&x.longitude, o); sp(o); optf(&x.latitude, o); sp(o); optf(&x.speed_over_ground, o); sp(o); optf(&x.course_over_ground, o); sp(o);
            tb(x.gnss_position_status, o);
        }
        AisMessage::BinaryAddressedMessage(x) => {
            head!(20, x); sp(o);
            ti(x.seqno as u64, o); sp(o); ti(x.dest_mmsi as u64, o); sp(o); tb(x.retransmit, o); sp(o); ti(x.dac as u64, o); sp(o); ti(x.fid as u64, o); sp(o); hex('d', &x.data[..], o);
        }
    }
    close(o); // struct
    close(o); // variant
}

// sweeps of properties other than C19 hash the lines without the sentence-level message type
static HIDE_M: std::sync::atomic::AtomicBool = std::sync::atomic::AtomicBool::new(false);
fn sentence(s: &AisSentence, o: &mut S) {
    open('s', o); sp(o);
    tq(match s.talker_id { TalkerId::AB => 0, TalkerId::AD => 1, TalkerId::AI => 2, TalkerId::AN => 3, TalkerId::AR => 4, TalkerId::AS => 5,
        TalkerId::AT => 6, TalkerId::AX => 7, TalkerId::BS => 8, TalkerId::SA => 9, TalkerId::Unknown => 10 }, o); sp(o);
    tq(match s.report_type { AisReportType::VDM => 0, AisReportType::VDO => 1, AisReportType::Unknown => 2 }, o); sp(o);
    tq(s.num_fragments as u64, o); sp(o); tq(s.fragment_number as u64, o); sp(o);
    opt('o', &s.message_id, o, |x, o| tq(*x as u64, o)); sp(o);
    opt('o', &s.channel, o, |x, o| tq(*x as u32 as u64, o)); sp(o);
    hex('p', &s.data[..], o); sp(o); tq(s.fill_bit_count as u64, o); sp(o);
    if HIDE_M.load(std::sync::atomic::Ordering::Relaxed) { o.push_str("m_"); } else { write!(o, "m{}", s.message_type).unwrap(); } sp(o);
    opt('o', &s.message, o, message);
    close(o);
}

fn error(e: &ais::errors::Error, o: &mut S) {
    match e {
        ais::errors::Error::Nmea { .. } => { o.push_str("(k c2)"); }
        ais::errors::Error::Checksum { expected, found } => { write!(o, "(k c3 i{} i{})", expected, found).unwrap(); }
        // a variant added by a change of the crate: an error of the general kind (the properties know two kinds)
        #[allow(unreachable_patterns)]
        _ => { o.push_str("(k c2)"); }
    }
}

fn step_tokens(r: &Result<Result<AisFragments, ais::errors::Error>, ()>, o: &mut S) {
    match r {
        Err(()) => o.push_str("(k c9)"),
        Ok(Err(e)) => error(e, o),
        Ok(Ok(AisFragments::Complete(s))) => { o.push_str("(k c0 c0 "); sentence(s, o); close(o); }
        Ok(Ok(AisFragments::Incomplete(s))) => { o.push_str("(k c0 c1 "); sentence(s, o); close(o); }
    }
}

// private parser state through its Debug output:
// AisParser { message_id: Some(1), fragment_number: 1, data: [53, 51] }
fn state_tokens(p: &AisParser, o: &mut S) {
    let d = format!("{:?}", p);
    let parse = || -> Option<(Option<u64>, u64, Vec<u8>)> {
        let a = d.find("message_id: ")? + 12;
        let b = d[a..].find(", fragment_number: ")? + a;
        let id = &d[a..b];
        let id = if id == "None" { None } else { Some(id.strip_prefix("Some(")?.strip_suffix(")")?.parse().ok()?) };
        let c = b + 19;
        let e = d[c..].find(", data: [")? + c;
        let fnum = d[c..e].parse().ok()?;
        let f = e + 9;
        let g = d[f..].find(']')? + f;
        let data: Vec<u8> = if d[f..g].trim().is_empty() { vec![] } else { d[f..g].split(", ").map(|x| x.parse().ok()).collect::<Option<Vec<u8>>>()? };
        Some((id, fnum, data))
    };
    if let Some((id, fnum, data)) = parse() {
        o.push_str(" ; (s ");
        opt('o', &id, o, |x, o| tq(*x, o)); sp(o); tq(fnum, o); sp(o); hex('p', &data, o); close(o);
    }
}

fn hexstr(b: &[u8]) -> String {
    let mut o = String::new();
    for x in b { write!(o, "{:02x}", x).unwrap(); }
    o
}

fn unhex(s: &str) -> Vec<u8> {
    if s == "-" { return vec![]; }
    (0..s.len() / 2).map(|i| u8::from_str_radix(&s[2 * i..2 * i + 2], 16).unwrap()).collect()
}

fn dump() {
    // `--dump`: stdin lines `<h|m|u> <hex of an exploration input>`; prints the calls it denotes as cases
    let stdin = std::io::stdin();
    let stdout = std::io::stdout();
    let mut out = std::io::BufWriter::new(stdout.lock());
    for line in stdin.lock().lines() {
        let line = line.unwrap();
        let f: Vec<&str> = line.split(' ').collect();
        if f.len() < 2 { continue; }
        let bytes = unhex(f[1]);
        match f[0] {
            "h" => {
                let calls = shape::history(&bytes);
                if calls.is_empty() { continue; }
                writeln!(out, "H").unwrap();
                for c in calls { writeln!(out, "L {} {} {}", c.parser, c.decode as u8, shape::hex(&c.line)).unwrap(); }
            }
            "m" => writeln!(out, "M {}", shape::hex(&bytes)).unwrap(),
            "u" => { let (fill, d) = shape::unarmor_case(&bytes); writeln!(out, "U {} {}", fill, shape::hex(&d)).unwrap(); }
            _ => {}
        }
    }
}

fn main() {
    if std::env::args().nth(1).as_deref() == Some("--dump") { return dump(); }
    std::panic::set_hook(Box::new(|_| {}));
    let stdin = std::io::stdin();
    let stdout = std::io::stdout();
    let mut out = std::io::LineWriter::new(stdout.lock());
    let mut parsers: Vec<AisParser> = (0..4).map(|_| AisParser::new()).collect();
    let mut o = String::with_capacity(1 << 16);
    let mut shadow = false;
    let mut fresh = true;
    for line in stdin.lock().lines() {
        let line = line.unwrap();
        let f: Vec<&str> = line.split(' ').collect();
        o.clear();
        match f[0] {
            // `H c`: the shadow parsers 2, 3 mirror every call of this history (needed for the
            // second conversion of `C` steps)
            // a parser can be obtained through `new()` and through `Default::default()`; both are public and must
            // give the same parser.  Which one a history uses is decided by its first line (byte sum + length,
            // odd = `default()`), so that a history replays the same way wherever it stands
            "H" => { fresh = true; shadow = f.len() > 1; o.push('H'); }
            "L" | "C" => {
                let p: usize = f[1].parse().unwrap();
                let decode = f[2] == "1";
                let bytes = unhex(f[3]);
                if fresh {
                    fresh = false;
                    let dflt = (bytes.iter().map(|b| *b as usize).sum::<usize>() + bytes.len()) % 2 == 1;
                    parsers = (0..4).map(|_| if dflt { AisParser::default() } else { AisParser::new() }).collect();
                }
                let r = catch_unwind(AssertUnwindSafe(|| parsers[p].parse(&bytes, decode))).map_err(|_| ());
                step_tokens(&r, &mut o);
                if f[0] == "L" && shadow {
                    let _ = catch_unwind(AssertUnwindSafe(|| parsers[p + 2].parse(&bytes, decode)));
                }
                if f[0] == "C" {
                    // the same call on the shadow parser p+2 gives a second value to convert
                    let r2 = catch_unwind(AssertUnwindSafe(|| parsers[p + 2].parse(&bytes, decode))).map_err(|_| ());
                    o.push_str(" | ");
                    match (r, r2) {
                        (Ok(Ok(a)), Ok(Ok(b))) => {
                            o.push_str("(s ");
                            let x: Option<AisSentence> = a.into();
                            opt('o', &x, &mut o, sentence); sp(&mut o);
                            let y: ais::errors::Result<AisSentence> = b.into();
                            match y { Ok(s) => { o.push_str("(k c0 "); sentence(&s, &mut o); close(&mut o); } Err(e) => error(&e, &mut o) }
                            close(&mut o);
                        }
                        _ => o.push_str("(s)"),
                    }
                }
                state_tokens(&parsers[p], &mut o);
            }
            "U" => {
                let fill: usize = f[1].parse().unwrap();
                let bytes = unhex(f[2]);
                match catch_unwind(|| ais::messages::unarmor(&bytes, fill)) {
                    Err(_) => o.push_str("(k c9)"),
                    Ok(Err(e)) => error(&e, &mut o),
                    Ok(Ok(d)) => { o.push_str("(k c0 "); hex('d', &d[..], &mut o); close(&mut o); }
                }
            }
            "M" => {
                let bytes = unhex(f[1]);
                match catch_unwind(|| ais::messages::parse(&bytes)) {
                    Err(_) => o.push_str("(k c9)"),
                    Ok(Err(e)) => error(&e, &mut o),
                    Ok(Ok(m)) => { o.push_str("(k c0 "); message(&m, &mut o); close(&mut o); }
                }
            }
            "S" => {
                let code: u8 = f[1].parse().unwrap();
                let v = ShipType::parse(code);
                opt('u', &v, &mut o, |x, o| { o.push_str("(s "); tenum(ship_type_index(x), o); sp(o); ti(u8::from(*x) as u64, o); close(o); });
            }
            "X" => {
                // the command-line tool's loop, in process: BufRead::split(b'\n') + parse(line, true)
                let bytes = unhex(f[1]);
                let mut parser = AisParser::new();
                o.push('X');
                let mut segs: Vec<&[u8]> = bytes.split(|b| *b == b'\n').collect();
                if segs.last().map(|s| s.is_empty()).unwrap_or(false) { segs.pop(); }
                for seg in segs {
                    match catch_unwind(AssertUnwindSafe(|| parser.parse(seg, true))) {
                        Err(_) => { o.push_str(" p"); break; }
                        Ok(Err(e)) => { o.push_str(" e:"); o.push_str(&hexstr(format!("{:?}", e).as_bytes())); }
                        Ok(Ok(AisFragments::Complete(s))) => { o.push_str(" o:"); o.push_str(&hexstr(format!("{:?}", s.message).as_bytes())); }
                        Ok(Ok(AisFragments::Incomplete(_))) => o.push_str(" n"),
                    }
                }
            }
            "A" => {
                // two-byte sweep: every value pair at positions p1, p2 of the template line, each on a
                // fresh parser; `fix` recomputes the checksum field of the template; one digest of all
                // 65536 token lines is printed (the orchestrator re-runs a sweep line by line on a mismatch)
                let p1: usize = f[1].parse().unwrap();
                let p2: usize = f[2].parse().unwrap();
                let decode = f[3] == "1";
                let fix = f[4] == "1";
                // flags: 1 = the private state hint is part of the digest, 2 = the sentence-level message type is
                let flags: u32 = f[5].parse().unwrap();
                let mut bytes = unhex(f[6]);
                HIDE_M.store(flags & 2 == 0, std::sync::atomic::Ordering::Relaxed);
                let star = bytes.iter().rposition(|b| *b == b'*');
                // the checksummed body of the template starts behind its tag block, if it has one
                let b0 = if bytes.first() == Some(&b'\\') { bytes[1..].iter().position(|b| *b == b'\\').map(|j| j + 3).unwrap_or(1) } else { 1 };
                let (mut h1, mut h2): (u32, u32) = (2166136261, 0x9747b28c);
                let mut t = String::with_capacity(4096);
                for y in 0..=255u8 {
                    for z in 0..=255u8 {
                        bytes[p1] = y; bytes[p2] = z;
                        if fix {
                            if let Some(s) = star {
                                if s + 2 < bytes.len() && s >= b0 {
                                    let x = bytes[b0..s].iter().fold(0u8, |a, b| a ^ b);
                                    bytes[s + 1] = b"0123456789ABCDEF"[(x >> 4) as usize];
                                    bytes[s + 2] = b"0123456789ABCDEF"[(x & 15) as usize];
                                }
                            }
                        }
                        let mut parser = AisParser::new();
                        let r = catch_unwind(AssertUnwindSafe(|| parser.parse(&bytes, decode))).map_err(|_| ());
                        t.clear();
                        step_tokens(&r, &mut t);
                        if flags & 1 != 0 { state_tokens(&parser, &mut t); }
                        t.push('\n');
                        for b in t.bytes() {
                            h1 = (h1 ^ b as u32).wrapping_mul(16777619);
                            h2 = (h2 ^ b as u32).wrapping_mul(709607);
                        }
                    }
                }
                HIDE_M.store(false, std::sync::atomic::Ordering::Relaxed);
                write!(o, "A {:08x}{:08x}", h1, h2).unwrap();
            }
            "B" => {
                // two-byte sweep of a message payload through messages::parse (digest as for `A`)
                let p1: usize = f[1].parse().unwrap();
                let p2: usize = f[2].parse().unwrap();
                let mut bytes = unhex(f[3]);
                let (mut h1, mut h2): (u32, u32) = (2166136261, 0x9747b28c);
                let mut t = String::with_capacity(4096);
                for y in 0..=255u8 {
                    for z in 0..=255u8 {
                        bytes[p1] = y; bytes[p2] = z;
                        t.clear();
                        match catch_unwind(|| ais::messages::parse(&bytes)) {
                            Err(_) => t.push_str("(k c9)"),
                            Ok(Err(e)) => error(&e, &mut t),
                            Ok(Ok(m)) => { t.push_str("(k c0 "); message(&m, &mut t); close(&mut t); }
                        }
                        t.push('\n');
                        for b in t.bytes() {
                            h1 = (h1 ^ b as u32).wrapping_mul(16777619);
                            h2 = (h2 ^ b as u32).wrapping_mul(709607);
                        }
                    }
                }
                write!(o, "B {:08x}{:08x}", h1, h2).unwrap();
            }
            "F" => {
                // exhaustive range of raw values through the public scaling functions of
                // messages::navigation; one digest of `count` token lines
                let lo: i64 = f[2].parse().unwrap();
                let count: i64 = f[3].parse().unwrap();
                let (mut h1, mut h2): (u32, u32) = (2166136261, 0x9747b28c);
                let mut t = String::with_capacity(64);
                for raw in lo..lo + count {
                    let v = match f[1] {
                        "lon" => ais::messages::navigation::parse_longitude(raw as i32),
                        "lat" => ais::messages::navigation::parse_latitude(raw as i32),
                        "sog" => ais::messages::navigation::parse_speed_over_ground(raw as u16),
                        "cog" => ais::messages::navigation::parse_cog(raw as u16),
                        _ => panic!("bad F case"),
                    };
                    t.clear();
                    optf(&v, &mut t);
                    t.push('\n');
                    for b in t.bytes() {
                        h1 = (h1 ^ b as u32).wrapping_mul(16777619);
                        h2 = (h2 ^ b as u32).wrapping_mul(709607);
                    }
                }
                write!(o, "F {:08x}{:08x}", h1, h2).unwrap();
            }
            "f" => {
                // one raw value through the same functions (expansion of an `F` range)
                let raw: i64 = f[2].parse().unwrap();
                let v = match f[1] {
                    "lon" => ais::messages::navigation::parse_longitude(raw as i32),
                    "lat" => ais::messages::navigation::parse_latitude(raw as i32),
                    "sog" => ais::messages::navigation::parse_speed_over_ground(raw as u16),
                    "cog" => ais::messages::navigation::parse_cog(raw as u16),
                    _ => panic!("bad f case"),
                };
                optf(&v, &mut o);
            }
            "T" => {
                // nom::bits::complete::take itself (the dependency's bit reader, transcribed in Model/NomBits.v)
                let count: usize = f[1].parse().unwrap();
                let off: usize = f[2].parse().unwrap();
                let bytes = unhex(f[3]);
                let r = catch_unwind(|| {
                    let r: nom::IResult<(&[u8], usize), u64> = nom::bits::complete::take(count)((&bytes[..], off));
                    r.map(|((rest, eo), v)| (rest.len(), eo, v)).map_err(|_| ())
                });
                match r {
                    Err(_) => o.push_str("(k c9)"),
                    Ok(Err(())) => o.push_str("(k c2)"),
                    Ok(Ok((rest, eo, v))) => { write!(o, "(k c0 i{} q{} q{})", v, rest, eo).unwrap(); }
                }
            }
            "N" => {
                // the library routines behind the numeric sentence fields (transcribed in Model/NomBytes.v):
                // d = map_res(map_res(digit1, from_utf8), u8::from_str) as in sentence.rs, x = nom hex_u32,
                // s = str::parse::<u8>
                let bytes = unhex(f[2]);
                match f[1] {
                    "d" => {
                        use nom::character::complete::digit1;
                        use nom::combinator::map_res;
                        let r: nom::IResult<&[u8], u8> = map_res(map_res(digit1, std::str::from_utf8), std::str::FromStr::from_str)(&bytes[..]);
                        match r { Ok((rest, v)) => write!(o, "(k c0 i{} q{})", v, rest.len()).unwrap(), Err(_) => o.push_str("(k c2)") }
                    }
                    "x" => {
                        let r: nom::IResult<&[u8], u32> = nom::number::complete::hex_u32(&bytes[..]);
                        match r { Ok((rest, v)) => write!(o, "(k c0 i{} q{})", v, rest.len()).unwrap(), Err(_) => o.push_str("(k c2)") }
                    }
                    _ => {
                        match std::str::from_utf8(&bytes).ok().and_then(|t| t.parse::<u8>().ok()) {
                            Some(v) => write!(o, "(k c0 i{})", v).unwrap(), None => o.push_str("(k c2)") }
                    }
                }
            }
            "" => continue,
            _ => panic!("bad case line"),
        }
        writeln!(out, "{}", o).unwrap();
    }
}
