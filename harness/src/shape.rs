// shape.rs — how an exploration input (a byte string mutated by the coverage-guided search of
// /verif/explore) denotes calls of the crate's public API.  Shared by the fuzz targets (which make
// the calls) and by the harness' `D` mode (which prints the same calls as ordinary cases, so that the
// implementation and the Coq model can then be compared on them).  No dependency on the crate.

pub struct Call {
    pub parser: u8,
    pub decode: bool,
    pub line: Vec<u8>,
}

pub const ARMOR: &[u8; 64] = b"0123456789:;<=>?@ABCDEFGHIJKLMNOPQRSTUVW`abcdefghijklmnopqrstuvw";
pub const MAX_CALLS: usize = 10;

struct Rd<'a> {
    d: &'a [u8],
    i: usize,
}
impl<'a> Rd<'a> {
    fn u8(&mut self) -> Option<u8> {
        let v = self.d.get(self.i).copied();
        if v.is_some() {
            self.i += 1;
        }
        v
    }
    fn or0(&mut self) -> u8 {
        self.u8().unwrap_or(0)
    }
    fn take(&mut self, n: usize) -> &'a [u8] {
        let e = core::cmp::min(self.d.len(), self.i + n);
        let s = &self.d[self.i..e];
        self.i = e;
        s
    }
}

fn dec(out: &mut Vec<u8>, v: u32) {
    out.extend_from_slice(v.to_string().as_bytes());
}

// a count / number byte: mostly small values, sometimes anything up to 255
fn small(b: u8) -> u32 {
    if b & 0x80 != 0 {
        b as u32
    } else {
        (b % 10) as u32
    }
}

fn id_field(out: &mut Vec<u8>, b: u8) {
    match b % 16 {
        0..=3 => {}
        v @ 4..=13 => dec(out, (v - 4) as u32),
        14 => out.extend_from_slice(b"10"),
        _ => out.extend_from_slice(b"255"),
    }
}

fn xor(body: &[u8]) -> u8 {
    body.iter().fold(0u8, |a, &b| a ^ b)
}

// the checksum field in several spellings
fn checksum_field(out: &mut Vec<u8>, cs: u8, fmt: u8) {
    match fmt & 7 {
        0 | 4 | 5 => out.extend_from_slice(format!("{:02X}", cs).as_bytes()),
        1 => out.extend_from_slice(format!("{:02x}", cs).as_bytes()),
        2 => out.extend_from_slice(format!("{:08X}", cs).as_bytes()),
        3 => out.extend_from_slice(format!("{:X}", cs).as_bytes()),
        6 => out.extend_from_slice(format!("{:010X}", cs).as_bytes()),
        _ => out.extend_from_slice(format!("{:02X}5", cs).as_bytes()),
    }
    match (fmt >> 3) & 3 {
        1 => out.push(b'\r'),
        2 => out.extend_from_slice(b"\r\n"),
        3 => out.push(b' '),
        _ => {}
    }
}

// a TAG block chosen by the checksum-format byte: plain, or with a group parameter g:k-n-id
fn tag_block(line: &mut Vec<u8>, sel: u8) {
    let mut t: Vec<u8> = Vec::new();
    match sel >> 5 {
        0 | 1 => t.extend_from_slice(b"s:x,c:1"),
        2 => t.extend_from_slice(format!("g:{}-{}-{}", 1 + (sel & 3), 2 + (sel & 1), (sel as u32 & 31) * 2309).as_bytes()),
        3 => t.extend_from_slice(format!("g:{}-{}-{},n:{},s:r00366,c:1241544035", 1 + (sel & 3), 3, sel as u32 & 31, sel).as_bytes()),
        4 => t.extend_from_slice(format!("n:{},g:1-2-{}", sel, 256 + (sel as u32 & 31)).as_bytes()),
        5 => t.extend_from_slice(format!("c:1696241893,s:2573345,t:{}", sel & 31).as_bytes()),
        6 => t.extend_from_slice(b"g:2-2-7,d:A!B$C"),
        _ => {}
    }
    let cs = xor(&t);
    line.push(b'\\');
    line.extend_from_slice(&t);
    line.extend_from_slice(format!("*{:02X}", cs).as_bytes());
    line.push(b'\\');
}

fn frame(b0: u8, body: &[u8], csfmt: u8) -> Vec<u8> {
    let mut line = Vec::with_capacity(body.len() + 48);
    if b0 & 64 != 0 {
        tag_block(&mut line, csfmt);
    }
    line.push(if b0 & 32 != 0 { b'$' } else { b'!' });
    line.extend_from_slice(body);
    line.push(b'*');
    let mut cs = xor(body);
    if b0 & 16 != 0 {
        cs ^= csfmt | 1; // a checksum that does not match
    }
    checksum_field(&mut line, cs, if b0 & 16 != 0 { 0 } else { csfmt });
    line
}

/// a history of at most MAX_CALLS calls of `AisParser::parse` on two parsers
pub fn history(input: &[u8]) -> Vec<Call> {
    let mut r = Rd { d: input, i: 0 };
    let mut out = Vec::new();
    while out.len() < MAX_CALLS {
        let b0 = match r.u8() {
            Some(b) => b,
            None => break,
        };
        let decode = b0 & 4 != 0;
        let parser = (b0 >> 3) & 1;
        let line = match b0 & 3 {
            0 => {
                // a well-formed sentence from numeric fields
                let (n, k, idb, ch, fl, len, csfmt) = (r.or0(), r.or0(), r.or0(), r.or0(), r.or0(), r.or0(), r.or0());
                let mut body = Vec::new();
                body.extend_from_slice(if b0 & 128 != 0 { b"AIVDO," } else { b"AIVDM," });
                dec(&mut body, small(n));
                body.push(b',');
                dec(&mut body, small(k));
                body.push(b',');
                id_field(&mut body, idb);
                body.push(b',');
                if ch != 0 && ch != b',' && ch != b'*' {
                    body.push(ch);
                }
                body.push(b',');
                for &p in r.take((len % 96) as usize) {
                    body.push(ARMOR[(p % 64) as usize]);
                }
                body.push(b',');
                dec(&mut body, (fl % 8) as u32);
                frame(b0, &body, csfmt)
            }
            1 => {
                // any bytes between the delimiters, checksum appended
                let (len, csfmt) = (r.or0(), r.or0());
                let body = r.take(len as usize).to_vec();
                frame(b0, &body, csfmt)
            }
            2 => {
                // any bytes at all
                let len = r.or0();
                r.take(len as usize).to_vec()
            }
            _ => {
                // a sentence whose fields are short byte strings of their own (digits mostly)
                let csfmt = r.or0();
                let mut body = Vec::new();
                let alen = r.or0() % 8;
                if alen == 7 {
                    body.extend_from_slice(b"AIVDM");
                } else {
                    body.extend_from_slice(r.take(alen as usize));
                }
                for f in 0..6 {
                    body.push(b',');
                    let l = r.or0();
                    let n = (if f == 4 { l % 64 } else { l % 6 }) as usize;
                    for &p in r.take(n) {
                        if l & 0x80 != 0 {
                            body.push(p); // raw
                        } else if f == 4 {
                            body.push(ARMOR[(p % 64) as usize]);
                        } else if f == 3 {
                            body.push(b"AB12\xc3\xa9 ab"[(p % 9) as usize]);
                        } else {
                            body.push(b'0' + p % 10);
                        }
                    }
                }
                frame(b0, &body, csfmt)
            }
        };
        out.push(Call { parser, decode, line });
    }
    out
}

/// (fill count 0..5, armoured bytes) for `messages::unarmor`
pub fn unarmor_case(input: &[u8]) -> (usize, Vec<u8>) {
    if input.is_empty() {
        return (0, Vec::new());
    }
    let b0 = input[0];
    let fill = (b0 % 6) as usize;
    let data: Vec<u8> = if b0 & 0x80 != 0 {
        input[1..].to_vec()
    } else {
        input[1..].iter().map(|&p| ARMOR[(p % 64) as usize]).collect()
    };
    (fill, data)
}

#[allow(dead_code)]
pub fn hex(b: &[u8]) -> String {
    if b.is_empty() {
        return "-".to_string();
    }
    let mut s = String::with_capacity(b.len() * 2);
    for x in b {
        s.push_str(&format!("{:02x}", x));
    }
    s
}
