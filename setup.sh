#!/bin/sh
# Builds the framework from files on disk only (offline): the Coq development (full .vo build),
# the extracted OCaml driver, the Rust harness for the three feature sets, the CLI binary.
set -e
cd "$(dirname "$0")"
export CARGO_NET_OFFLINE=true
python3 - <<'PY'
import sys
sys.path.insert(0, '.')
from vlib import common as c
from concurrent.futures import ThreadPoolExecutor
def coq():
    c.coq_make()
    c.build_driver()
def cargo():
    for feat in ('std', 'alloc', 'none'):
        c.build_harness(feat, 'debug')
    for feat in ('none', 'std', 'alloc'):
        c.build_harness(feat, 'release')
    c.build_cli()
    from vlib import explore
    explore.build()          # the coverage-guided search targets (cargo-fuzz, nightly toolchain)
try:
    with ThreadPoolExecutor(max_workers=2) as ex:
        fs = [ex.submit(coq), ex.submit(cargo)]
        for f in fs: f.result()
except c.BuildError as e:
    print('setup failed:', e.what); print(e.log[-4000:]); sys.exit(1)
print('setup ok')
PY
