(* Property C08 — exactly the well-formed AIVDM/AIVDO sentence shapes are accepted.
   [WellFormed] (Spec/Grammar.v) is the decomposition in the property statement. *)
From Ais Require Import Model.Base Model.Sentence Spec.Grammar Proofs.SentenceLemmas Model.NomBytes Proofs.NomBytesProof Proofs.Reassembly Proofs.Histories Proofs.Strings.
From Coq Require Import String.
Local Open Scope N_scope.

(* "accepted at the sentence level": the line parses and its checksum matches (independent of the
   parser state) *)
Theorem C08_accept_iff_wellformed :
  forall c q line, accepted_at_sentence_level c q line <-> WellFormed c line.
Proof. exact accepted_iff_wellformed. Qed.
Print Assumptions C08_accept_iff_wellformed.

(* the parse returns exactly the fields of the shape *)
Theorem C08_parse_of_shape :
  forall c q line f hex, Shaped c line f hex ->
    parse_nmea_sentence c q line = Ok (body_bytes f, sentence_of_fields q f, checksum_read hex).
Proof. exact shaped_parse_nmea. Qed.
Print Assumptions C08_parse_of_shape.

Theorem C08_shape_of_parse :
  forall c q line raw s ck, parse_nmea_sentence c q line = Ok (raw, s, ck) ->
    exists f hex, Shaped c line f hex /\ raw = body_bytes f /\ s = sentence_of_fields q f /\ ck = checksum_read hex.
Proof. exact parse_nmea_shaped. Qed.
Print Assumptions C08_shape_of_parse.

(* every other line is rejected with an error from every state and never yields a sentence *)
Theorem C08_reject_otherwise :
  forall c q st line d, ~ WellFormed c line ->
    fst (step c q st line d) = st /\ exists e, snd (step c q st line d) = Err e.
Proof. exact step_not_wellformed. Qed.
Print Assumptions C08_reject_otherwise.

Theorem C08_accepted_is_wellformed :
  forall c q st line d fr, snd (step c q st line d) = Ok fr -> WellFormed c line.
Proof. exact step_ok_wellformed. Qed.
Print Assumptions C08_accepted_is_wellformed.

(* the numeric fields through the library routines as they are written (Model/NomBytes.v: Rust core's
   `u8::from_str` behind nom's `digit1`, nom's `hex_u32`): they compute what the grammar above says — the
   decimal value of the digit run when it is at most 255, however many leading zeros, an error otherwise;
   the value of at most the first eight hex digits — so the model's [parse_u8_digit] / [hex_u32] are not an
   idealisation of them.  The harness runs the real routines against these transcriptions (mode N). *)
Theorem C08_from_str_on_digits :
  forall ds, ds <> [] -> forallb is_digit ds = true ->
    from_str_u8 ds = if dec_value ds <=? 255 then Some (dec_value ds) else None.
Proof. exact from_str_u8_digits. Qed.
Print Assumptions C08_from_str_on_digits.

Theorem C08_decimal_field_through_library :
  forall l, parse_u8_digit_lib l = parse_u8_digit l.
Proof. exact parse_u8_digit_lib_eq. Qed.
Print Assumptions C08_decimal_field_through_library.

Theorem C08_checksum_field_through_library :
  forall l, hex_u32_nom l = hex_u32 l.
Proof. exact hex_u32_nom_eq. Qed.
Print Assumptions C08_checksum_field_through_library.

Example C08_nonvacuous_accept :
  accepted_at_sentence_level Std quirks_asis (bytes "\s:2573345,c:1696241893*00\!AIVDM,1,1,,A,E>kb9I99S@0`8@:9ah;0TahI7@@;V4=v:nv;h00003vP100,0*7A").
Proof. unfold accepted_at_sentence_level. do 3 eexists. split; vm_compute; reflexivity. Qed.
Example C08_nonvacuous_reject :
  parse_nmea_sentence Std quirks_asis (bytes "!AIVDM,1,1,,A,15M,6*00") = Err EError.
Proof. vm_compute. reflexivity. Qed.
