(* Property C08 — exactly the well-formed AIVDM/AIVDO sentence shapes are accepted.
   [WellFormed] (Spec/Grammar.v) is the decomposition in the property statement. *)
From Ais Require Import Model.Base Model.Sentence Spec.Grammar Proofs.SentenceLemmas Model.NomBytes Proofs.NomBytesProof Proofs.Reassembly Proofs.Histories Proofs.Strings Proofs.TagBlocks.
From Coq Require Import String.
Local Open Scope N_scope.

(* "accepted at the sentence level": the line parses and its checksum matches (independent of the
   parser state) *)
Theorem C08_accept_iff_wellformed :
  forall c q line, accepted_at_sentence_level c q line <-> WellFormed c line.
Proof. exact accepted_iff_wellformed. Qed.
Print Assumptions C08_accept_iff_wellformed.

(* the parse returns exactly the fields of the shape *)
Theorem C08_parse_of_shape :
  forall c q line f hex, Shaped c line f hex ->
    parse_nmea_sentence c q line = Ok (body_bytes f, sentence_of_fields q f, checksum_read hex).
Proof. exact shaped_parse_nmea. Qed.
Print Assumptions C08_parse_of_shape.

Theorem C08_shape_of_parse :
  forall c q line raw s ck, parse_nmea_sentence c q line = Ok (raw, s, ck) ->
    exists f hex, Shaped c line f hex /\ raw = body_bytes f /\ s = sentence_of_fields q f /\ ck = checksum_read hex.
Proof. exact parse_nmea_shaped. Qed.
Print Assumptions C08_shape_of_parse.

(* every other line is rejected with an error from every state and never yields a sentence *)
Theorem C08_reject_otherwise :
  forall c q st line d, ~ WellFormed c line ->
    fst (step c q st line d) = st /\ exists e, snd (step c q st line d) = Err e.
Proof. exact step_not_wellformed. Qed.
Print Assumptions C08_reject_otherwise.

Theorem C08_accepted_is_wellformed :
  forall c q st line d fr, snd (step c q st line d) = Ok fr -> WellFormed c line.
Proof. exact step_ok_wellformed. Qed.
Print Assumptions C08_accepted_is_wellformed.

(* the numeric fields through the library routines as they are written (Model/NomBytes.v: Rust core's
   `u8::from_str` behind nom's `digit1`, nom's `hex_u32`): they compute what the grammar above says — the
   decimal value of the digit run when it is at most 255, however many leading zeros, an error otherwise;
   the value of at most the first eight hex digits — so the model's [parse_u8_digit] / [hex_u32] are not an
   idealisation of them.  The harness runs the real routines against these transcriptions (mode N). *)
Theorem C08_from_str_on_digits :
  forall ds, ds <> [] -> forallb is_digit ds = true ->
    from_str_u8 ds = if dec_value ds <=? 255 then Some (dec_value ds) else None.
Proof. exact from_str_u8_digits. Qed.
Print Assumptions C08_from_str_on_digits.

Theorem C08_decimal_field_through_library :
  forall l, parse_u8_digit_lib l = parse_u8_digit l.
Proof. exact parse_u8_digit_lib_eq. Qed.
Print Assumptions C08_decimal_field_through_library.

Theorem C08_checksum_field_through_library :
  forall l, hex_u32_nom l = hex_u32 l.
Proof. exact hex_u32_nom_eq. Qed.
Print Assumptions C08_checksum_field_through_library.

(* nothing in a TAG block matters: a line behind a TAG block — a backslash, any bytes but a backslash (parameter codes,
   numbers, the block's own checksum, right or wrong), a backslash — is handled exactly like the line without it:
   same result and same parser state, in every state; and so for whole histories, each line behind a block of its own *)
Theorem C08_tag_block_is_irrelevant :
  forall c q st tb start rest d, tag_block tb -> start = 33 \/ start = 36 ->
    step c q st (tb ++ start :: rest) d = step c q st (start :: rest) d.
Proof. exact step_behind_tag_block. Qed.
Print Assumptions C08_tag_block_is_irrelevant.

Theorem C08_tag_blocks_are_irrelevant_in_histories :
  forall c q h st, Forall (fun '(tb, line, _) => tag_block tb /\ sentence_start line) h ->
    run c q st (tagged h) = run c q st (untagged h).
Proof. exact run_behind_tag_blocks. Qed.
Print Assumptions C08_tag_blocks_are_irrelevant_in_histories.

(* ... and nothing behind the checksum digits: lines of the same shape (same fields, same checksum digits) that differ
   in their TAG block, start delimiter or in what follows the checksum are handled alike in every state *)
Theorem C08_only_the_shape_matters :
  forall c q st line1 line2 f hex d, Shaped c line1 f hex -> Shaped c line2 f hex ->
    step c q st line1 d = step c q st line2 d.
Proof. exact step_of_shape_only. Qed.
Print Assumptions C08_only_the_shape_matters.

(* ... and nothing in front of the sentence is skipped: a line whose first byte is neither a backslash (a TAG block) nor a
   start delimiter is rejected in every state — so on a parser's first call as on any later one — and leaves the state as
   it was: a byte order mark, a blank, a line end or the tail of a torn line in front of a good sentence included *)
Theorem C08_leading_bytes_are_not_skipped :
  forall c q st b rest d, b <> 92 -> b <> 33 -> b <> 36 -> step c q st (b :: rest) d = (st, Err ENmea).
Proof. exact leading_byte_rejected. Qed.
Print Assumptions C08_leading_bytes_are_not_skipped.

Theorem C08_empty_line_is_rejected : forall c q st d, step c q st [] d = (st, Err ENmea).
Proof. exact empty_line_rejected. Qed.
Print Assumptions C08_empty_line_is_rejected.

Example C08_hostile_tag_block : tag_block [92; 99; 58; 45; 49; 42; 48; 48; 92].   (* \c:-1*00\ *)
Proof. exact hostile_block_is_a_tag_block. Qed.

Example C08_nonvacuous_accept :
  accepted_at_sentence_level Std quirks_asis (bytes "\s:2573345,c:1696241893*00\!AIVDM,1,1,,A,E>kb9I99S@0`8@:9ah;0TahI7@@;V4=v:nv;h00003vP100,0*7A").
Proof. unfold accepted_at_sentence_level. do 3 eexists. split; vm_compute; reflexivity. Qed.
Example C08_nonvacuous_reject :
  parse_nmea_sentence Std quirks_asis (bytes "!AIVDM,1,1,,A,15M,6*00") = Err EError.
Proof. vm_compute. reflexivity. Qed.
