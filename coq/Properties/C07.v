(* Property C07 — the sentence reports exactly the transmitted NMEA fields and raw payload. *)
From Ais Require Import Model.Base Model.Sentence Spec.Grammar Proofs.SentenceLemmas Proofs.Reassembly Proofs.Histories Proofs.Strings.
From Coq Require Import String.
Local Open Scope N_scope.

(* an accepted line reports [sentence_of_fields q f] (Spec/Grammar.v: talker and report from the
   address bytes, decimal values of the count / number / id fields, first byte of the channel
   field, the payload bytes, the fill value), its payload replaced by the concatenation with the
   stored fragments when it completes a group, and its decoded message when decoding is on *)
Theorem C07_fields :
  forall c q st line d f hex fr, Shaped c line f hex -> snd (step c q st line d) = Ok fr ->
    let s := sentence_of_fields q f in
    fr = Incomplete s \/
    (exists m, fr = Complete (with_message s m)) \/
    (exists m, fr = Complete (with_message (with_data s (p_data st ++ s_data s)) m)).
Proof. exact step_reports_fields. Qed.
Print Assumptions C07_fields.

(* the ten known talker ids and the two report types, otherwise Unknown *)
Theorem C07_talker_table :
  talker_of 65 66 = AB /\ talker_of 65 68 = AD /\ talker_of 65 73 = AI /\ talker_of 65 78 = AN /\
  talker_of 65 82 = AR /\ talker_of 65 83 = AS /\ talker_of 65 84 = AT /\ talker_of 65 88 = AX /\
  talker_of 66 83 = BS /\ talker_of 83 65 = SA /\
  forall a b, ~ In (a, b) [(65, 66); (65, 68); (65, 73); (65, 78); (65, 82); (65, 83); (65, 84); (65, 88); (66, 83); (83, 65)] ->
              talker_of a b = TalkerUnknown.
Proof.
  repeat split; try reflexivity. intros a b Hn. unfold talker_of.
  destruct (N.eqb_spec a 65) as [->|Ha1]; [|destruct (N.eqb_spec a 66) as [->|Ha2]; [|destruct (N.eqb_spec a 83) as [->|Ha3]]];
    cbn [andb N.eqb Pos.eqb];
    repeat match goal with |- context [?x =? ?y] =>
      destruct (N.eqb_spec x y); [subst; exfalso; apply Hn; cbn; tauto|] end;
    reflexivity.
Qed.
Print Assumptions C07_talker_table.

Theorem C07_report_table :
  report_of 86 68 77 = VDM /\ report_of 86 68 79 = VDO /\
  forall a b c, (a, b, c) <> (86, 68, 77) -> (a, b, c) <> (86, 68, 79) -> report_of a b c = ReportUnknown.
Proof.
  repeat split; try reflexivity. intros a b c H1 H2. unfold report_of.
  destruct (N.eqb_spec a 86), (N.eqb_spec b 68), (N.eqb_spec c 77), (N.eqb_spec c 79); subst; cbn [andb]; try reflexivity; congruence.
Qed.
Print Assumptions C07_report_table.

(* requesting decoding changes nothing but the decoded message *)
Theorem C07_decode_does_not_change_state :
  forall c q st line, fst (step c q st line true) = fst (step c q st line false).
Proof. exact decode_flag_state. Qed.
Print Assumptions C07_decode_does_not_change_state.

Theorem C07_decode_changes_only_the_message :
  forall c q st line fr, snd (step c q st line true) = Ok fr ->
    exists fr0, snd (step c q st line false) = Ok fr0 /\ same_kind fr fr0 /\
                with_message (frag_sentence fr) None = with_message (frag_sentence fr0) None /\
                s_message (frag_sentence fr0) = None.
Proof. exact decode_flag_result. Qed.
Print Assumptions C07_decode_changes_only_the_message.

Theorem C07_no_payload_error_without_decoding :
  forall c q st line e, snd (step c q st line false) = Err e -> snd (step c q st line true) = Err e.
Proof. exact no_decode_no_payload_error. Qed.
Print Assumptions C07_no_payload_error_without_decoding.

Example C07_nonvacuous :
  exists s, snd (step Std quirks_asis p_init (bytes "!AIVDM,1,1,,B,E>kb9O9aS@7PUh10dh19@;0Tah2cWrfP:l?M`00003vP100,0*01") false) = Ok (Complete s)
            /\ s_talker s = AI /\ s_report s = VDM /\ s_channel s = Some 66 /\ s_fill s = 0 /\ s_message s = None.
Proof. eexists. vm_compute. repeat split; reflexivity. Qed.
