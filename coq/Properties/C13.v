(* Property C13 — text fields are the 6-bit ASCII decoding with padding stripped.
   [text_at bs p k] (Spec/Layouts.v) = trim_text (the k characters sixbit_char (sl bs (p + 6 i) 6)). *)
From Ais Require Import Model.Base Model.Enums Model.Fields Model.Messages Spec.Layouts Proofs.Bits Proofs.Conversions.
From Coq Require Import Lia.
Local Open Scope N_scope.

(* the character table: values 0-31 give '@'..'_', 32-63 give ' '..'?' *)
Theorem C13_character_table :
  forall v, v < 64 -> (v < 32 -> sixbit_char v = v + 64) /\ (32 <= v -> sixbit_char v = v).
Proof. exact sixbit_char_table. Qed.
Print Assumptions C13_character_table.

(* where every text field sits and how many characters it has *)
Theorem C13_text_fields :
  forall bs,
    sv_callsign (static_voyage_of bs) = text_at bs 70 7 /\
    sv_vessel_name (static_voyage_of bs) = text_at bs 112 20 /\
    sv_destination (static_voyage_of bs) = text_at bs 302 (Nat.min 120 (length bs - 302) / 6) /\
    eb_name (ext_class_b_of bs) = text_at bs 143 20 /\
    an_name (aid_to_navigation_of bs) = text_at bs 43 20 /\
    as_text (addressed_safety_of bs) = text_at bs 72 ((length bs - 72) / 6) /\
    sb_text (safety_broadcast_of bs) = text_at bs 40 ((length bs - 40) / 6) /\
    (sl bs 38 2 = 0 -> sd_message_part (static_data_of bs) = PartA (text_at bs 40 20)) /\
    (sl bs 38 2 = 1 -> exists s u sn b st p sb,
        sd_message_part (static_data_of bs) = PartB s (text_at bs 48 3) (text_at bs 66 4) u sn (text_at bs 90 7) b st p sb).
Proof.
  intros bs. repeat split.
  - intros H. unfold static_data_of, static_data_part_of; cbn [sd_message_part]. rewrite H. reflexivity.
  - intros H. unfold static_data_of, static_data_part_of; cbn [sd_message_part]. rewrite H. cbn [N.eqb Pos.eqb]. eauto 10.
Qed.
Print Assumptions C13_text_fields.

(* leading spaces, then trailing '@' padding, then trailing spaces are removed — and nothing else:
   the result is a contiguous segment of the decoded characters *)
Theorem C13_trim_is_a_segment :
  forall l, exists lead at_pad sp,
    l = lead ++ trim_text l ++ sp ++ at_pad /\
    forallb is_space lead = true /\ forallb is_at at_pad = true /\ forallb is_space sp = true.
Proof. exact trim_text_segment. Qed.
Print Assumptions C13_trim_is_a_segment.

(* a text with nothing to strip is preserved unchanged (interior '@' and spaces included) *)
Theorem C13_clean_text_is_preserved :
  forall l, match l with [] => True | x :: _ => is_space x = false end ->
            match rev l with [] => True | x :: _ => is_space x = false /\ is_at x = false end ->
            trim_text l = l.
Proof. exact trim_text_fixpoint. Qed.
Print Assumptions C13_clean_text_is_preserved.

(* always valid ASCII, never longer than the field's character count *)
Theorem C13_ascii_and_length :
  forall bs p k, Forall (fun c => 32 <= c < 96) (text_at bs p k) /\ (length (text_at bs p k) <= k)%nat.
Proof. exact text_at_ascii. Qed.
Print Assumptions C13_ascii_and_length.

Example C13_nonvacuous :
  trim_text [32; 32; 83; 70; 64; 79; 65; 75; 32; 32; 64; 64] = [83; 70; 64; 79; 65; 75] /\
  trim_text [32; 83; 70; 32; 64; 64; 32] = [83; 70; 32; 64; 64].
Proof. vm_compute. split; reflexivity. Qed.
