(* placeholder until the theorems are in *)
From Ais Require Import Model.Base.
