(* Property C03 — unarmoring is the exact 6-bit unpacking with fill bits cleared.

   [unarmor_spec] (Spec/Armor.v): if every byte is in the alphabet ('0'-'W' = 0..39,
   '`'-'w' = 40..63) the result is the bytes whose bit stream, MSB first, is the concatenation
   of the 6-bit values padded with zeros to a whole byte, with every bit from position
   6n - fill on forced to zero; otherwise there is no value. *)
From Ais Require Import Model.Base Model.Unarmor Spec.Armor Proofs.Bits Proofs.UnarmorProof Proofs.Strings.
From Coq Require Import String.
Local Open Scope N_scope.

Theorem C03_unarmor_is_unpacking :
  forall c data fill, (fill <= 5)%nat ->
    unarmor c data fill =
    if noalloc c && (MAX_SENTENCE_SIZE_BYTES <? byte_count (List.length data))%nat then Err ENmea
    else match unarmor_spec data fill with Some l => Ok l | None => Err ENmea end.
Proof. exact unarmor_correct. Qed.
Print Assumptions C03_unarmor_is_unpacking.

(* exactly ceil(6n/8) bytes *)
Theorem C03_length :
  forall c data fill out, (fill <= 5)%nat -> unarmor c data fill = Ok out ->
    List.length out = byte_count (List.length data) /\
    (8 * byte_count (List.length data) < 6 * List.length data + 8)%nat /\ (6 * List.length data <= 8 * byte_count (List.length data))%nat.
Proof.
  intros c data fill out Hf H. split; [exact (unarmor_length c data fill out Hf H)|].
  split; [|apply byte_count_enough].
  unfold byte_count. pose proof (Nat.div_mod (List.length data * 6) 8 ltac:(lia)).
  pose proof (Nat.mod_upper_bound (List.length data * 6) 8 ltac:(lia)).
  destruct (Nat.eqb_spec (List.length data * 6 mod 8) 0); lia.
Qed.
Print Assumptions C03_length.

(* a byte outside the alphabet yields an error, never a value *)
Theorem C03_invalid_byte_is_error :
  forall c data fill, (fill <= 5)%nat -> (exists ch, In ch data /\ armor_val ch = None) ->
    unarmor c data fill = Err ENmea.
Proof.
  intros c data fill Hf (ch & Hin & Hch). rewrite (unarmor_correct c data fill Hf).
  destruct (noalloc c && _); [reflexivity|]. unfold unarmor_spec.
  assert (Hv : vals_of data = None).
  { induction data as [|x d IH]; [destruct Hin|]. cbn [vals_of]. destruct Hin as [->|Hin].
    - rewrite Hch. reflexivity.
    - destruct (armor_val x); [|reflexivity]. rewrite (IH Hin). reflexivity. }
  rewrite Hv. reflexivity.
Qed.
Print Assumptions C03_invalid_byte_is_error.

(* the alphabet is exactly the 64 characters of the statement and the map is onto 0..63 *)
Theorem C03_alphabet :
  forall ch, ch < 256 ->
    (armor_val ch <> None <-> (48 <= ch <= 87 \/ 96 <= ch <= 119)) /\
    (forall v, armor_val ch = Some v -> v < 64 /\ (ch <= 87 -> v = ch - 48) /\ (96 <= ch -> v = ch - 56)).
Proof.
  intros ch Hc. unfold armor_val.
  destruct (N.leb_spec 48 ch), (N.leb_spec ch 87); cbn [andb];
  destruct (N.leb_spec 96 ch), (N.leb_spec ch 119); cbn [andb];
  (split; [split; [intros; lia|intros; discriminate || congruence]|intros v [= <-]; lia]) ||
  (split; [split; [intros H'; try lia; congruence|intros; lia]|intros v Hv; discriminate]).
Qed.
Print Assumptions C03_alphabet.

(* non-vacuity: the repository's own vectors *)
Example C03_vectors :
  unarmor Std (bytes "9") 0 = Ok [36] /\ unarmor Std (bytes "9q") 2 = Ok [39; 128] /\
  unarmor Std (bytes "") 3 = Ok [] /\ unarmor Std (bytes "9!") 0 = Err ENmea.
Proof. vm_compute. repeat split; reflexivity. Qed.

(* round trip: every sequence of 6-bit values has an armouring, and unarmoring it gives back exactly
   those bits (fill bits cleared, padded to whole bytes) *)
Definition armor_char (v : N) : N := if v <? 40 then v + 48 else v + 56.

Lemma armor_val_armor_char v : v < 64 -> armor_val (armor_char v) = Some v.
Proof.
  intros Hv. unfold armor_val, armor_char. destruct (N.ltb_spec v 40).
  - destruct (N.leb_spec 48 (v + 48)), (N.leb_spec (v + 48) 87); cbn [andb]; try lia. f_equal. lia.
  - destruct (N.leb_spec 48 (v + 56)), (N.leb_spec (v + 56) 87); cbn [andb]; try lia;
    destruct (N.leb_spec 96 (v + 56)), (N.leb_spec (v + 56) 119); cbn [andb]; try lia; f_equal; lia.
Qed.

Theorem C03_roundtrip :
  forall c vs fill, (fill <= 5)%nat -> Forall (fun v => v < 64) vs ->
    unarmor c (map armor_char vs) fill =
    if noalloc c && (MAX_SENTENCE_SIZE_BYTES <? byte_count (List.length vs))%nat then Err ENmea
    else Ok (bytes_of_bits (unarmor_bits vs fill)).
Proof.
  intros c vs fill Hf Hv. rewrite (unarmor_correct c _ fill Hf). rewrite map_length.
  destruct (noalloc c && _); [reflexivity|]. unfold unarmor_spec.
  assert (E : vals_of (map armor_char vs) = Some vs).
  { induction Hv as [|v r Hv1 Hr IH]; [reflexivity|]. cbn [map vals_of].
    rewrite (armor_val_armor_char v Hv1), IH. reflexivity. }
  rewrite E. reflexivity.
Qed.
Print Assumptions C03_roundtrip.
