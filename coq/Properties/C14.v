(* Property C14 — variable-length messages decode what is present; short payloads are rejected.

   Per type: the exact length threshold (mandatory part), the error below it, and the number of
   reported elements as a function of the number of bits present.  Every field of every layout
   function of Spec/Layouts.v is a slice [sl bs o w] with o + w at most the threshold under which
   the parser fails, so no value is ever built from bits beyond the end.
   Type 15: proved at every length against the positional specification [interrogation_of]
   (which requests and stations are present is a function of the number of bits), with the three
   specification-legal forms as instances. *)
From Ais Require Import Model.Base Model.Enums Model.Fields Model.Messages Model.Unarmor Model.Sentence
  Spec.Layouts Proofs.Bits Proofs.Reads Proofs.Layouts Proofs.Dispatch Proofs.MsgLevel Proofs.Interrogation.
From Coq Require Import Lia.
Local Open Scope N_scope.

Theorem C14_short1 :
  forall c q bs, sl bs 0 6 = 1 -> (length bs < 168)%nat -> parse_bits c q bs = Err ENmea.
Proof. intros c q bs Ht Hl. pose proof (msg_type1 c q bs Ht) as H. unfold msg_fixed in H. destruct (Nat.leb_spec 168 (length bs)); [lia|exact H]. Qed.
Print Assumptions C14_short1.

Theorem C14_short2 :
  forall c q bs, sl bs 0 6 = 2 -> (length bs < 168)%nat -> parse_bits c q bs = Err ENmea.
Proof. intros c q bs Ht Hl. pose proof (msg_type2 c q bs Ht) as H. unfold msg_fixed in H. destruct (Nat.leb_spec 168 (length bs)); [lia|exact H]. Qed.
Print Assumptions C14_short2.

Theorem C14_short3 :
  forall c q bs, sl bs 0 6 = 3 -> (length bs < 168)%nat -> parse_bits c q bs = Err ENmea.
Proof. intros c q bs Ht Hl. pose proof (msg_type3 c q bs Ht) as H. unfold msg_fixed in H. destruct (Nat.leb_spec 168 (length bs)); [lia|exact H]. Qed.
Print Assumptions C14_short3.

Theorem C14_short4 :
  forall c q bs, sl bs 0 6 = 4 -> (length bs < 168)%nat -> parse_bits c q bs = Err ENmea.
Proof. intros c q bs Ht Hl. pose proof (msg_type4 c q bs Ht) as H. unfold msg_fixed in H. destruct (Nat.leb_spec 168 (length bs)); [lia|exact H]. Qed.
Print Assumptions C14_short4.

Theorem C14_short11 :
  forall c q bs, sl bs 0 6 = 11 -> (length bs < 168)%nat -> parse_bits c q bs = Err ENmea.
Proof. intros c q bs Ht Hl. pose proof (msg_type11 c q bs Ht) as H. unfold msg_fixed in H. destruct (Nat.leb_spec 168 (length bs)); [lia|exact H]. Qed.
Print Assumptions C14_short11.

Theorem C14_short10 :
  forall c q bs, sl bs 0 6 = 10 -> (length bs < 72)%nat -> parse_bits c q bs = Err ENmea.
Proof. intros c q bs Ht Hl. pose proof (msg_type10 c q bs Ht) as H. unfold msg_fixed in H. destruct (Nat.leb_spec 72 (length bs)); [lia|exact H]. Qed.
Print Assumptions C14_short10.

Theorem C14_short16 :
  forall c q bs, sl bs 0 6 = 16 -> (length bs < 92)%nat -> parse_bits c q bs = Err ENmea.
Proof. intros c q bs Ht Hl. pose proof (msg_type16 c q bs Ht) as H. unfold msg_fixed in H. destruct (Nat.leb_spec 92 (length bs)); [lia|exact H]. Qed.
Print Assumptions C14_short16.

Theorem C14_short18 :
  forall c q bs, sl bs 0 6 = 18 -> (length bs < 168)%nat -> parse_bits c q bs = Err ENmea.
Proof. intros c q bs Ht Hl. pose proof (msg_type18 c q bs Ht) as H. unfold msg_fixed in H. destruct (Nat.leb_spec 168 (length bs)); [lia|exact H]. Qed.
Print Assumptions C14_short18.

Theorem C14_short19 :
  forall c q bs, sl bs 0 6 = 19 -> (length bs < 312)%nat -> parse_bits c q bs = Err ENmea.
Proof. intros c q bs Ht Hl. pose proof (msg_type19 c q bs Ht) as H. unfold msg_fixed in H. destruct (Nat.leb_spec 312 (length bs)); [lia|exact H]. Qed.
Print Assumptions C14_short19.

Theorem C14_short21 :
  forall c q bs, sl bs 0 6 = 21 -> (length bs < 272)%nat -> parse_bits c q bs = Err ENmea.
Proof. intros c q bs Ht Hl. pose proof (msg_type21 c q bs Ht) as H. unfold msg_fixed in H. destruct (Nat.leb_spec 272 (length bs)); [lia|exact H]. Qed.
Print Assumptions C14_short21.

Theorem C14_short27 :
  forall c q bs, sl bs 0 6 = 27 -> (length bs < 95)%nat -> parse_bits c q bs = Err ENmea.
Proof. intros c q bs Ht Hl. pose proof (msg_type27 c q bs Ht) as H. unfold msg_fixed in H. destruct (Nat.leb_spec 95 (length bs)); [lia|exact H]. Qed.
Print Assumptions C14_short27.

Theorem C14_short6 :
  forall c q bs, sl bs 0 6 = 6 -> (length bs < 88)%nat -> parse_bits c q bs = Err ENmea.
Proof. intros c q bs Ht Hl. pose proof (msg_type6 c q bs Ht) as H. unfold msg_data in H. destruct (Nat.leb_spec 88 (length bs)); [lia|exact H]. Qed.
Print Assumptions C14_short6.

Theorem C14_short8 :
  forall c q bs, sl bs 0 6 = 8 -> (length bs < 56)%nat -> parse_bits c q bs = Err ENmea.
Proof. intros c q bs Ht Hl. pose proof (msg_type8 c q bs Ht) as H. unfold msg_data in H. destruct (Nat.leb_spec 56 (length bs)); [lia|exact H]. Qed.
Print Assumptions C14_short8.

Theorem C14_short17 :
  forall c q bs, sl bs 0 6 = 17 -> (length bs < 120)%nat -> parse_bits c q bs = Err ENmea.
Proof. intros c q bs Ht Hl. pose proof (msg_type17 c q bs Ht) as H. unfold msg_data in H. destruct (Nat.leb_spec 120 (length bs)); [lia|exact H]. Qed.
Print Assumptions C14_short17.

Theorem C14_short7 :
  forall c q bs, sl bs 0 6 = 7 -> (length bs < 40 + 32)%nat -> parse_bits c q bs = Err ENmea.
Proof. intros c q bs Ht Hl. pose proof (msg_type7 c q bs Ht) as H. unfold msg_list in H. destruct (Nat.leb_spec (40 + 32) (length bs)); [lia|exact H]. Qed.
Print Assumptions C14_short7.

Theorem C14_short13 :
  forall c q bs, sl bs 0 6 = 13 -> (length bs < 40 + 32)%nat -> parse_bits c q bs = Err ENmea.
Proof. intros c q bs Ht Hl. pose proof (msg_type13 c q bs Ht) as H. unfold msg_list in H. destruct (Nat.leb_spec (40 + 32) (length bs)); [lia|exact H]. Qed.
Print Assumptions C14_short13.

Theorem C14_short20 :
  forall c q bs, sl bs 0 6 = 20 -> (length bs < 40 + 30)%nat -> parse_bits c q bs = Err ENmea.
Proof. intros c q bs Ht Hl. pose proof (msg_type20 c q bs Ht) as H. unfold msg_list in H. destruct (Nat.leb_spec (40 + 30) (length bs)); [lia|exact H]. Qed.
Print Assumptions C14_short20.

Theorem C14_short12 :
  forall c q bs, sl bs 0 6 = 12 -> (length bs < 72 + 6)%nat -> parse_bits c q bs = Err ENmea.
Proof. intros c q bs Ht Hl. pose proof (msg_type12 c q bs Ht) as H. unfold msg_text in H. destruct (Nat.leb_spec (72 + 6) (length bs)); [lia|exact H]. Qed.
Print Assumptions C14_short12.

Theorem C14_short14 :
  forall c q bs, sl bs 0 6 = 14 -> (length bs < 40 + 6)%nat -> parse_bits c q bs = Err ENmea.
Proof. intros c q bs Ht Hl. pose proof (msg_type14 c q bs Ht) as H. unfold msg_text in H. destruct (Nat.leb_spec (40 + 6) (length bs)); [lia|exact H]. Qed.
Print Assumptions C14_short14.

Theorem C14_short5 :
  forall c q bs, sl bs 0 6 = 5 -> (length bs < 302)%nat -> parse_bits c q bs = Err ENmea.
Proof. intros c q bs Ht Hl. pose proof (msg_type5 c q bs Ht) as H. unfold msg_fixed in H. destruct (Nat.leb_spec 302 (length bs)); [lia|exact H]. Qed.
Print Assumptions C14_short5.

Theorem C14_short15 :
  forall c q bs, sl bs 0 6 = 15 -> (length bs < 76)%nat -> parse_bits c q bs = Err ENmea.
Proof. exact msg_type15_short. Qed.
Print Assumptions C14_short15.

Theorem C14_short24 :
  forall c q bs, sl bs 0 6 = 24 -> (length bs < 40 \/ (40 <= length bs /\ length bs < static_data_min bs))%nat ->
    parse_bits c q bs = Err ENmea.
Proof.
  intros c q bs Ht [Hs|[H40 Hs]]; [exact (msg_type24_short c q bs Ht Hs)|].
  pose proof (msg_type24 c q bs Ht H40) as H. destruct (Nat.leb_spec (static_data_min bs) (length bs)); [lia|exact H].
Qed.
Print Assumptions C14_short24.

(* ---------- what is present is decoded ---------- *)

(* types 7, 13: one acknowledgement per complete 32 bits after the 40-bit head, at most four, at least one *)
Theorem C14_ack_count :
  forall c q bs t, sl bs 0 6 = t -> (t = 7 \/ t = 13) -> (72 <= length bs)%nat ->
    exists m, parse_bits c q bs = Ok m /\
      match m with
      | BinaryAcknowledgeMessage x | SafetyRelatedAcknowledgment x =>
        x = ack_message_of bs /\ length (am_acks x) = Nat.min 4 ((length bs - 40) / 32) /\ (1 <= length (am_acks x) <= 4)%nat
      | _ => False
      end.
Proof.
  intros c q bs t Ht [->| ->] Hl.
  - pose proof (msg_type7 c q bs Ht) as H. unfold msg_list in H. destruct (Nat.leb_spec (40 + 32) (length bs)); [|lia].
    eexists; split; [exact H|]. split; [reflexivity|]. unfold ack_message_of, acks_at; cbn [am_acks]. rewrite items_at_length.
    assert (1 <= (length bs - 40) / 32)%nat by (apply Nat.div_le_lower_bound; lia). lia.
  - pose proof (msg_type13 c q bs Ht) as H. unfold msg_list in H. destruct (Nat.leb_spec (40 + 32) (length bs)); [|lia].
    eexists; split; [exact H|]. split; [reflexivity|]. unfold ack_message_of, acks_at; cbn [am_acks]. rewrite items_at_length.
    assert (1 <= (length bs - 40) / 32)%nat by (apply Nat.div_le_lower_bound; lia). lia.
Qed.
Print Assumptions C14_ack_count.

(* type 20: one reservation per complete 30 bits, at most four, at least one *)
Theorem C14_reservation_count :
  forall c q bs, sl bs 0 6 = 20 -> (70 <= length bs)%nat ->
    parse_bits c q bs = Ok (DataLinkManagementMessage (data_link_of bs)) /\
    length (dl_reservations (data_link_of bs)) = Nat.min 4 ((length bs - 40) / 30) /\
    (1 <= length (dl_reservations (data_link_of bs)) <= 4)%nat.
Proof.
  intros c q bs Ht Hl. pose proof (msg_type20 c q bs Ht) as H. unfold msg_list in H.
  destruct (Nat.leb_spec (40 + 30) (length bs)); [|lia]. split; [exact H|].
  unfold data_link_of, reservations_at; cbn [dl_reservations]. rewrite items_at_length.
  assert (1 <= (length bs - 40) / 30)%nat by (apply Nat.div_le_lower_bound; lia). lia.
Qed.
Print Assumptions C14_reservation_count.

(* type 16: the second station is reported iff all of its 52 bits are present *)
Theorem C14_assignment_stations :
  forall bs, (ac_mmsi2 (assignment_of bs) <> None <-> (144 <= length bs)%nat) /\
             (ac_offset2 (assignment_of bs) <> None <-> (144 <= length bs)%nat) /\
             (ac_increment2 (assignment_of bs) <> None <-> (144 <= length bs)%nat).
Proof.
  intros bs. unfold assignment_of; cbn [ac_mmsi2 ac_offset2 ac_increment2].
  destruct (Nat.leb_spec 144 (length bs)); repeat split; intros; try discriminate; try lia; congruence.
Qed.
Print Assumptions C14_assignment_stations.

(* type 24: part A is accepted with or without its seven spare bits *)
Theorem C14_part_a_without_spare :
  forall c q bs, sl bs 0 6 = 24 -> sl bs 38 2 = 0 -> (160 <= length bs)%nat ->
    parse_bits c q bs = Ok (StaticDataReport (static_data_of bs)) /\
    sd_message_part (static_data_of bs) = PartA (text_at bs 40 20).
Proof.
  intros c q bs Ht Hp Hl. pose proof (msg_type24 c q bs Ht ltac:(lia)) as H. unfold static_data_min in H. rewrite Hp in H.
  cbn [N.eqb] in H. destruct (Nat.leb_spec 160 (length bs)); [|lia]. split; [exact H|].
  unfold static_data_of, static_data_part_of; cbn [sd_message_part]. rewrite Hp. reflexivity.
Qed.
Print Assumptions C14_part_a_without_spare.

Theorem C14_part_b :
  forall c q bs, sl bs 0 6 = 24 -> sl bs 38 2 = 1 -> (168 <= length bs)%nat ->
    parse_bits c q bs = Ok (StaticDataReport (static_data_of bs)).
Proof.
  intros c q bs Ht Hp Hl. pose proof (msg_type24 c q bs Ht ltac:(lia)) as H. unfold static_data_min in H. rewrite Hp in H.
  cbn [N.eqb Pos.eqb] in H. destruct (Nat.leb_spec 168 (length bs)); [exact H|lia].
Qed.
Print Assumptions C14_part_b.

(* type 5: decoded from 302 bits on; the destination has one character per complete 6 bits present
   (at most 20) and the DTE defaults to "not ready" exactly when no bit is left for it *)
Theorem C14_type5_truncated :
  forall c q bs, sl bs 0 6 = 5 -> (302 <= length bs)%nat ->
    parse_bits c q bs = Ok (StaticAndVoyageRelatedData (static_voyage_of bs)) /\
    sv_destination (static_voyage_of bs) = text_at bs 302 (Nat.min 120 (length bs - 302) / 6) /\
    ((length bs <= 302 + 6 * (Nat.min 120 (length bs - 302) / 6))%nat -> sv_dte (static_voyage_of bs) = DteNotReady).
Proof.
  intros c q bs Ht Hl. pose proof (msg_type5 c q bs Ht) as H. unfold msg_fixed in H.
  destruct (Nat.leb_spec 302 (length bs)); [|lia]. split; [exact H|]. split; [reflexivity|].
  intros Hd. unfold static_voyage_of; cbn [sv_dte].
  destruct (Nat.ltb_spec (302 + 6 * (Nat.min 120 (length bs - 302) / 6)) (length bs)); [lia|reflexivity].
Qed.
Print Assumptions C14_type5_truncated.

(* types 12, 14: one character per complete 6 bits of text, any number from one *)
Theorem C14_safety_text_length :
  forall bs, as_text (addressed_safety_of bs) = text_at bs 72 ((length bs - 72) / 6) /\
             sb_text (safety_broadcast_of bs) = text_at bs 40 ((length bs - 40) / 6).
Proof. intros; split; reflexivity. Qed.
Print Assumptions C14_safety_text_length.

(* type 15: the three legal forms *)
Theorem C14_interrogation_one_request :
  forall c q bs, sl bs 0 6 = 15 -> length bs = 88%nat -> parse_bits c q bs = Ok (Interrogation (interrogation_88 bs)).
Proof. exact msg_type15_88. Qed.
Print Assumptions C14_interrogation_one_request.
Theorem C14_interrogation_two_requests :
  forall c q bs, sl bs 0 6 = 15 -> length bs = 112%nat -> parse_bits c q bs = Ok (Interrogation (interrogation_110 bs)).
Proof. exact msg_type15_110. Qed.
Print Assumptions C14_interrogation_two_requests.
Theorem C14_interrogation_two_stations :
  forall c q bs, sl bs 0 6 = 15 -> length bs = 160%nat -> parse_bits c q bs = Ok (Interrogation (interrogation_160 bs)).
Proof. exact msg_type15_160. Qed.
Print Assumptions C14_interrogation_two_stations.

(* type 15 at every length: the decoded message is [interrogation_of], whose optional slot
   offsets, second request and second station are present exactly when enough bits are *)
Theorem C14_interrogation_any_length :
  forall c q bs, sl bs 0 6 = 15 ->
    parse_bits c q bs = match interrogation_of bs with Some (m, _) => Ok (Interrogation m) | None => Err ENmea end.
Proof. exact msg_type15_any. Qed.
Print Assumptions C14_interrogation_any_length.
Theorem C14_interrogation_rejected_lengths :
  forall bs, interrogation_of bs = None <->
    let L := length bs in
    (L < 76 \/ 138 <= L < 148 \/ 154 <= L < 156 \/ 158 <= L < 160 \/ 166 <= L < 168 \/ 178 <= L < 180)%nat.
Proof. exact interrogation_rejected_lengths. Qed.
Print Assumptions C14_interrogation_rejected_lengths.
Theorem C14_interrogation_rejected_bytes :
  forall c q bs k, sl bs 0 6 = 15 -> length bs = (8 * k)%nat ->
    (parse_bits c q bs = Err ENmea <-> (k < 10 \/ k = 18)%nat).
Proof. exact msg_type15_rejected_bytes. Qed.
Print Assumptions C14_interrogation_rejected_bytes.
Theorem C14_interrogation_station_count :
  forall bs m e, interrogation_of bs = Some (m, e) ->
    length (in_stations m) = (if (length bs <? 138)%nat then 1 else 2)%nat.
Proof. exact interrogation_station_count. Qed.
Print Assumptions C14_interrogation_station_count.

Example C14_nonvacuous :
  exists m, msg_parse Std quirks_asis [28; 0; 0; 0; 4; 0; 0; 0; 5; 0; 0; 0; 10] = Ok (BinaryAcknowledgeMessage m) /\ length (am_acks m) = 2%nat.
Proof. eexists. split; vm_compute; reflexivity. Qed.
