(* Property C17 — rejected lines and unfragmented sentences leave no trace in the parser. *)
From Ais Require Import Model.Base Model.Sentence Spec.Grammar Proofs.SentenceLemmas Proofs.Reassembly Proofs.Histories Proofs.Instances Proofs.Strings.
From Coq Require Import String.
Local Open Scope N_scope.

(* one line: rejected for its form or checksum ([sentence_of] = None), for its sequencing
   ([BadSequence]; [OverCapacity] is the no-allocator capacity rejection), or unfragmented
   — whether or not its payload decodes — leaves the state unchanged *)
Theorem C17_no_trace :
  forall c q st line d,
    match sentence_of c q line with
    | None => True
    | Some s => match classify c st s with Unfragmented | BadSequence | OverCapacity => True | _ => False end
    end -> fst (step c q st line d) = st.
Proof. exact step_transparent. Qed.
Print Assumptions C17_no_trace.

(* histories: removing such a line changes nothing in the results of all the other lines *)
Theorem C17_removal :
  forall c q st h1 l d h2,
    let st1 := fst (run c q st h1) in
    fst (step c q st1 l d) = st1 ->
    snd (run c q st (h1 ++ (l, d) :: h2)) = snd (run c q st h1) ++ snd (step c q st1 l d) :: snd (run c q st1 h2)
    /\ snd (run c q st (h1 ++ h2)) = snd (run c q st h1) ++ snd (run c q st1 h2)
    /\ fst (run c q st (h1 ++ (l, d) :: h2)) = fst (run c q st (h1 ++ h2)).
Proof. exact remove_transparent_line. Qed.
Print Assumptions C17_removal.

(* not well-formed lines are transparent from every state *)
Theorem C17_malformed_no_trace :
  forall c q st line d, ~ WellFormed c line -> fst (step c q st line d) = st.
Proof. intros c q st line d H. exact (proj1 (step_not_wellformed c q st line d H)). Qed.
Print Assumptions C17_malformed_no_trace.

(* all such lines at once.  [effective] (Proofs/Instances.v) walks a history and keeps the lines that change
   the parser state together with their results; every line it drops left the state as it found it, which
   is what [C17_no_trace] establishes for rejected lines and unfragmented sentences.  The kept lines, run
   alone, end in the same state and get the same results: *)
Theorem C17_removal_of_all :
  forall c q h st,
    run c q st (fst (effective c q st h)) = (fst (run c q st h), snd (effective c q st h)).
Proof. exact remove_all_transparent. Qed.
Print Assumptions C17_removal_of_all.

(* Distinct parser instances never influence each other.  Two instances are two state values;
   an interleaved history names, for each call, the instance it is made on ([run2],
   Proofs/Instances.v).  Each instance ends in the state, and each of its calls gets the result,
   of the run of its own calls alone: *)
Theorem C17_instances_independent :
  forall c q h s0 s1,
    let '((s0', s1'), os) := run2 c q (s0, s1) h in
    run c q s0 (calls_on false h) = (s0', results_on false h os) /\
    run c q s1 (calls_on true h) = (s1', results_on true h os).
Proof. exact two_parsers_independent. Qed.
Print Assumptions C17_instances_independent.

(* ... so the results of one instance are the same whatever the other is fed, and whatever state
   the other is in *)
Theorem C17_other_instance_is_irrelevant :
  forall c q h h' s0 s1 s1',
    calls_on false h = calls_on false h' ->
    results_on false h (snd (run2 c q (s0, s1) h)) = results_on false h' (snd (run2 c q (s0, s1') h')).
Proof. exact other_parser_is_irrelevant. Qed.
Print Assumptions C17_other_instance_is_irrelevant.

(* The model has no global state because the crate has none (no `static`, no `thread_local!`, no
   interior mutability; `AisParser::parse` takes `&mut self`); that the implementation keeps it
   that way is what the two-parser interleaving runs of the correspondence check, on every run. *)

Example C17_nonvacuous :
  let st := fst (step Std quirks_asis p_init (bytes "!AIVDM,2,1,1,B,53`soB8000010KSOW<0P4eDp4l6000000000000U0p<24t@P05H3S833CDP00000,0*78") true) in
  p_fn st = 1 /\
  fst (step Std quirks_asis st (bytes "!AIVDM,1,1,,B,E>kb9O9aS@7PUh10dh19@;0Tah2cWrfP:l?M`00003vP100,0*01") true) = st /\
  fst (step Std quirks_asis st (bytes "!AIVDM,2,2,7,B,0000000,2*20") true) = st.
Proof. vm_compute. repeat split; reflexivity. Qed.
