(* Property C09 — the decoded variant follows the 6-bit type; unsupported types are errors. *)
From Ais Require Import Model.Base Model.Messages Proofs.Dispatch.
Local Open Scope N_scope.

(* [expected_variant] is the table of the property statement (type value -> kind of message,
   as the index of the variant of `enum AisMessage`); see Proofs/Dispatch.v *)
Theorem C09_variant_follows_type :
  forall c q bytes m, msg_parse c q bytes = Ok m ->
    expected_variant (sl (bits_of_bytes bytes) 0 6) = Some (variant_index m) /\
    type_field m = sl (bits_of_bytes bytes) 0 6.
Proof. intros c q bytes m. exact (dispatch_variant c q (bits_of_bytes bytes) m). Qed.
Print Assumptions C09_variant_follows_type.

Theorem C09_unsupported_is_error :
  forall c q bytes, expected_variant (sl (bits_of_bytes bytes) 0 6) = None -> msg_parse c q bytes = Err ENmea.
Proof. intros c q bytes. exact (dispatch_unsupported c q (bits_of_bytes bytes)). Qed.
Print Assumptions C09_unsupported_is_error.

Theorem C09_empty_is_error : forall c q, msg_parse c q [] = Err ENmea.
Proof. exact dispatch_empty. Qed.
Print Assumptions C09_empty_is_error.

(* exactly the 23 listed type values are supported *)
Theorem C09_supported_set :
  forall t, t < 64 ->
    (expected_variant t <> None <->
     In t [1; 2; 3; 4; 5; 6; 7; 8; 9; 10; 11; 12; 13; 14; 15; 16; 17; 18; 19; 20; 21; 24; 27]).
Proof.
  intros t Ht.
  assert (H : forallb (fun n => let t := N.of_nat n in
            Bool.eqb (match expected_variant t with None => false | Some _ => true end)
                     (existsb (N.eqb t) [1; 2; 3; 4; 5; 6; 7; 8; 9; 10; 11; 12; 13; 14; 15; 16; 17; 18; 19; 20; 21; 24; 27]))
            (seq 0 64) = true) by (vm_compute; reflexivity).
  rewrite forallb_forall in H. specialize (H (N.to_nat t)).
  rewrite N2Nat.id in H. cbv zeta in H.
  assert (Hin : In (N.to_nat t) (seq 0 64)) by (apply in_seq; lia).
  specialize (H Hin). apply Bool.eqb_prop in H.
  split.
  - intros Hn. destruct (expected_variant t); [|congruence].
    symmetry in H. apply existsb_exists in H. destruct H as (x & Hx & Hxe). apply N.eqb_eq in Hxe. subst x. exact Hx.
  - intros Hi. assert (existsb (N.eqb t) [1; 2; 3; 4; 5; 6; 7; 8; 9; 10; 11; 12; 13; 14; 15; 16; 17; 18; 19; 20; 21; 24; 27] = true) as He.
    { apply existsb_exists. exists t. split; [exact Hi|apply N.eqb_refl]. }
    rewrite He in H. destruct (expected_variant t); [discriminate|discriminate].
Qed.
Print Assumptions C09_supported_set.

(* non-vacuity: a real payload (type 4, README) decodes to the variant the table names *)
Example C09_nonvacuous :
  exists m, msg_parse Std quirks_asis [16; 0; 223; 249; 152; 126; 22; 236; 87; 64; 29; 205; 230; 40; 85; 160; 70; 79; 0; 35; 12; 49]%N = Ok m
            /\ variant_index m = 1.
Proof. eexists. split; vm_compute; reflexivity. Qed.
