(* Property C12 — enumerated codes map to the named values, injectively, unknowns preserved.
   All statements are over the complete finite domains (every code of the field's width; 256 for
   the ship type); the proofs are exhaustive case splits checked by the kernel. *)
From Ais Require Import Model.Base Model.Enums Model.Fields Model.Messages Spec.Layouts Spec.Tables.
From Coq Require Import Lia.
Local Open Scope N_scope.

Ltac split_cases n Hn k :=
  lazymatch k with
  | O => exfalso; clear -Hn; lia
  | S ?k' => destruct n as [|n]; [clear Hn; simpl N.of_nat | split_cases n Hn k']
  end.
Ltac by_cases c bound :=
  let n := fresh "n" in let Hn := fresh "Hn" in
  assert (exists n, c = N.of_nat n /\ (n < bound)%nat) as (n & -> & Hn) by (exists (N.to_nat c); lia);
  let b := eval compute in bound in split_cases n Hn b.

(* ---------- each code maps to the value the table names ---------- *)
Theorem C12_nav_status : forall c, c < 16 -> nav_status_parse c = lookup nav_status_table c.
Proof. intros c Hc. by_cases c 16%nat; reflexivity. Qed.
Print Assumptions C12_nav_status.

Theorem C12_maneuver : forall c, c < 4 -> maneuver_parse c = lookup maneuver_table c.
Proof. intros c Hc. by_cases c 4%nat; reflexivity. Qed.
Print Assumptions C12_maneuver.

Theorem C12_epfd : forall c, c < 16 -> epfd_type_parse c = lookup epfd_table c.
Proof. intros c Hc. by_cases c 16%nat; reflexivity. Qed.
Print Assumptions C12_epfd.

Theorem C12_navaid : forall c, c < 32 -> navaid_type_parse c = lookup navaid_table c.
Proof. intros c Hc. by_cases c 32%nat; reflexivity. Qed.
Print Assumptions C12_navaid.

Theorem C12_sync : forall c, c < 4 -> Some (sync_state_parse c) = lookup sync_table c.
Proof. intros c Hc. by_cases c 4%nat; reflexivity. Qed.
Print Assumptions C12_sync.

Theorem C12_ship_type : forall c, c < 256 -> ship_type_parse c = ship_type_spec c.
Proof. intros c Hc. by_cases c 256%nat; reflexivity. Qed.
Print Assumptions C12_ship_type.

(* single-bit enumerations: 0 / 1 *)
Theorem C12_flags :
  forall bs p,
    accuracy_at bs p = (if bit_at bs p then Dgps else Unaugmented) /\
    dte_at bs p = (if bit_at bs p then DteNotReady else DteReady) /\
    assigned_at bs p = (if bit_at bs p then Assigned else Autonomous) /\
    cs_at bs p = (if bit_at bs p then CsCarrierSense else CsSotdma).
Proof. intros; repeat split; reflexivity. Qed.
Print Assumptions C12_flags.

(* static-data part number, 2 bits: 0 part A, 1 part B, 2 and 3 kept as Unknown *)
Theorem C12_part_number :
  forall bs, match static_data_part_of bs with
             | PartA _ => sl bs 38 2 = 0
             | PartB _ _ _ _ _ _ _ _ _ _ => sl bs 38 2 = 1
             | PartUnknown n => n = sl bs 38 2 /\ n <> 0 /\ n <> 1
             end.
Proof.
  intros bs. unfold static_data_part_of.
  destruct (N.eqb_spec (sl bs 38 2) 0) as [E|E]; [exact E|].
  destruct (N.eqb_spec (sl bs 38 2) 1) as [E1|E1]; [exact E1|]. auto.
Qed.
Print Assumptions C12_part_number.

(* ---------- undefined codes, and only those, are absent ---------- *)
Theorem C12_undefined_codes :
  (forall c, c < 16 -> (nav_status_parse c = None <-> c = 15)) /\
  (forall c, c < 4 -> (maneuver_parse c = None <-> c = 0)) /\
  (forall c, c < 16 -> (epfd_type_parse c = None <-> (c = 0 \/ c = 15))) /\
  (forall c, c < 256 -> (ship_type_parse c = None <-> (c = 0 \/ 100 <= c))) /\
  (forall c, c < 32 -> (navaid_type_parse c = None <-> c = 0)).
Proof.
  repeat split; intros.
  - revert H0. by_cases c 16%nat; first [discriminate | intros; reflexivity].
  - subst; reflexivity.
  - revert H0. by_cases c 4%nat; first [discriminate | intros; reflexivity].
  - subst; reflexivity.
  - revert H0. by_cases c 16%nat; first [discriminate | intros; lia].
  - destruct H0 as [-> | ->]; reflexivity.
  - revert H0. by_cases c 256%nat; first [discriminate | intros; lia].
  - destruct H0 as [->|H0]; [reflexivity|]. revert H0. by_cases c 256%nat; intros; first [reflexivity | lia].
  - revert H0. by_cases c 32%nat; first [discriminate | intros; reflexivity].
  - subst; reflexivity.
Qed.
Print Assumptions C12_undefined_codes.

(* ---------- distinct codes map to distinct values; the code is recoverable ---------- *)
Definition nav_status_code (v : nav_status) : N :=
  match nav_status_index v with (i, None) => i | (_, Some c) => c end.
Definition epfd_code (v : epfd_type) : N :=
  match epfd_type_index v with (i, None) => i + 1 | (_, Some c) => c end.
Definition navaid_code (v : navaid_type) : N :=
  match navaid_type_index v with (i, None) => i + 1 | (_, Some c) => c end.
Definition maneuver_code (v : maneuver) : N :=
  match v with NoSpecialManeuver => 1 | SpecialManeuver => 2 | ManeuverUnknown c => c end.
Definition sync_code (v : sync_state) : N :=
  match v with UtcDirect => 0 | UtcIndirect => 1 | BaseStation => 2 | NumberOfReceivedStations => 3 | SyncUnknown c => c end.

Theorem C12_code_recoverable :
  (forall c v, c < 16 -> nav_status_parse c = Some v -> nav_status_code v = c) /\
  (forall c v, c < 4 -> maneuver_parse c = Some v -> maneuver_code v = c) /\
  (forall c v, c < 16 -> epfd_type_parse c = Some v -> epfd_code v = c) /\
  (forall c v, c < 32 -> navaid_type_parse c = Some v -> navaid_code v = c) /\
  (forall c, c < 4 -> sync_code (sync_state_parse c) = c) /\
  (forall c v, c < 256 -> ship_type_parse c = Some v -> ship_type_to_u8 v = c).
Proof.
  repeat split; intros.
  - revert H0. by_cases c 16%nat; try discriminate; intros [= <-]; reflexivity.
  - revert H0. by_cases c 4%nat; try discriminate; intros [= <-]; reflexivity.
  - revert H0. by_cases c 16%nat; try discriminate; intros [= <-]; reflexivity.
  - revert H0. by_cases c 32%nat; try discriminate; intros [= <-]; reflexivity.
  - by_cases c 4%nat; reflexivity.
  - revert H0. by_cases c 256%nat; try discriminate; intros [= <-]; reflexivity.
Qed.
Print Assumptions C12_code_recoverable.

(* hence injectivity: two codes with the same (present) value are the same code *)
Theorem C12_injective :
  (forall a b, a < 16 -> b < 16 -> nav_status_parse a = nav_status_parse b -> nav_status_parse a <> None -> a = b) /\
  (forall a b, a < 16 -> b < 16 -> epfd_type_parse a = epfd_type_parse b -> epfd_type_parse a <> None -> a = b) /\
  (forall a b, a < 32 -> b < 32 -> navaid_type_parse a = navaid_type_parse b -> navaid_type_parse a <> None -> a = b) /\
  (forall a b, a < 256 -> b < 256 -> ship_type_parse a = ship_type_parse b -> ship_type_parse a <> None -> a = b) /\
  (forall a b, a < 4 -> b < 4 -> maneuver_parse a = maneuver_parse b -> maneuver_parse a <> None -> a = b) /\
  (forall a b, a < 4 -> b < 4 -> sync_state_parse a = sync_state_parse b -> a = b).
Proof.
  destruct C12_code_recoverable as (R1 & R2 & R3 & R4 & R5 & R6).
  repeat split; intros a b Ha Hb E.
  - intros Hn. destruct (nav_status_parse a) as [v|] eqn:Ea; [|congruence]. rewrite <- (R1 a v Ha Ea). apply R1; [exact Hb|symmetry; exact E].
  - intros Hn. destruct (epfd_type_parse a) as [v|] eqn:Ea; [|congruence]. rewrite <- (R3 a v Ha Ea). apply R3; [exact Hb|symmetry; exact E].
  - intros Hn. destruct (navaid_type_parse a) as [v|] eqn:Ea; [|congruence]. rewrite <- (R4 a v Ha Ea). apply R4; [exact Hb|symmetry; exact E].
  - intros Hn. destruct (ship_type_parse a) as [v|] eqn:Ea; [|congruence]. rewrite <- (R6 a v Ha Ea). apply R6; [exact Hb|symmetry; exact E].
  - intros Hn. destruct (maneuver_parse a) as [v|] eqn:Ea; [|congruence]. rewrite <- (R2 a v Ha Ea). apply R2; [exact Hb|symmetry; exact E].
  - rewrite <- (R5 a Ha), <- (R5 b Hb), E. reflexivity.
Qed.
Print Assumptions C12_injective.

(* converting a ship type back to its number returns the transmitted code, 1..99 *)
Theorem C12_ship_type_roundtrip :
  forall c, 1 <= c <= 99 -> exists v, ship_type_parse c = Some v /\ ship_type_to_u8 v = c.
Proof.
  intros c Hc. destruct C12_code_recoverable as (_ & _ & _ & _ & _ & R6).
  destruct (ship_type_parse c) as [v|] eqn:E.
  - exists v. split; [reflexivity|]. apply R6; [lia|exact E].
  - exfalso. destruct C12_undefined_codes as (_ & _ & _ & U & _). apply (U c ltac:(lia)) in E. lia.
Qed.
Print Assumptions C12_ship_type_roundtrip.
