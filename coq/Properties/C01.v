(* Property C01 — parsing is total: no panic, abort or hang on any input or history.

   Every Rust operation that can panic (checked arithmetic in debug builds, slice indexing,
   shifts, `unreachable!()`, `assert!`, `unwrap`/`expect`, heapless pushes) is an explicit
   [Panic] result in the model.  The theorems say no Panic is reachable; termination of the model
   is Gallina's (every definition is structurally recursive, no fuel).  Memory safety and
   termination of the *implementation* are sampled by the correspondence runs (catch_unwind +
   watchdog, debug and release builds of the three feature sets), not proved. *)
From Ais Require Import Model.Base Model.Messages Model.Unarmor Model.Sentence
  Proofs.NoPanic Proofs.UnarmorProof Proofs.Total Proofs.Strings.
From Coq Require Import String.
Local Open Scope N_scope.

(* AisParser::parse: any line, any state (hence after any history), decode on/off, any build *)
Theorem C01_parse_never_panics :
  forall c q st line d p, snd (step c q st line d) <> Panic p.
Proof. exact step_no_panic. Qed.
Print Assumptions C01_parse_never_panics.

Theorem C01_history_never_panics :
  forall c q st h, Forall (fun o => forall p, o <> Panic p) (snd (run c q st h)).
Proof. exact run_no_panic. Qed.
Print Assumptions C01_history_never_panics.

(* unarmor with a fill count 0..5 *)
Theorem C01_unarmor_never_panics :
  forall c data fill p, (fill <= 5)%nat -> unarmor c data fill <> Panic p.
Proof. intros c data fill p H. exact (unarmor_no_panic c data fill p H). Qed.
Print Assumptions C01_unarmor_never_panics.

(* messages::parse on any byte string *)
Theorem C01_message_parse_never_panics :
  forall c q bytes p, msg_parse c q bytes <> Panic p.
Proof. exact msg_parse_no_panic. Qed.
Print Assumptions C01_message_parse_never_panics.

(* the command-line loop *)
Theorem C01_cli_never_panics :
  forall q input, Forall (fun r => forall p, r <> RecPanic p) (cli q input).
Proof. exact cli_no_panic. Qed.
Print Assumptions C01_cli_never_panics.

(* the history that crashed the unrepaired tree (D1) is now answered with errors *)
Example C01_nonvacuous_run :
  match snd (run Std quirks_asis p_init [(bytes "!AIVDM,3,1,5,A,1,0*20", false); (bytes "!AIVDM,3,2,5,A,1,0*23", false); (bytes "!AIVDM,3,3,5,A,1,0*22", false); (bytes "!AIVDM,3,2,5,A,1,0*23", false)]) with
  | [Ok (Incomplete _); Ok (Incomplete _); Ok (Complete _); Err ENmea] => True
  | _ => False
  end.
Proof. vm_compute. exact I. Qed.
