(* Property C15 — binary application payloads are passed through bit-exactly. *)
From Ais Require Import Model.Base Model.Enums Model.Fields Model.Messages Spec.Layouts
  Proofs.Bits Proofs.Reads Proofs.Layouts Proofs.Dispatch Proofs.MsgLevel Proofs.UnarmorProof.
From Coq Require Import Lia.
Local Open Scope N_scope.

(* the bytes after a header of k whole bytes, repacked from the bit stream, are the input bytes *)
Theorem C15_passthrough :
  forall bytes k, Forall (fun b => b < 256) bytes ->
    bytes_of_bits (skipn (8 * k) (bits_of_bytes bytes)) = skipn k bytes.
Proof.
  intros bytes k Hb. rewrite skipn_bits_of_bytes. apply bytes_of_bits_of_bytes.
  apply Forall_forall. intros x Hx. rewrite Forall_forall in Hb. apply Hb.
  eapply In_skipn || idtac. revert Hx. clear. revert bytes. induction k as [|k IH]; intros [|b l]; cbn [skipn]; auto.
  intros H. right. apply IH. exact H.
Qed.
Print Assumptions C15_passthrough.

(* type 6: header fields at their positions, data = every byte after the 11 header bytes *)
Theorem C15_type6 :
  forall c q bytes, Forall (fun b => b < 256) bytes -> sl (bits_of_bytes bytes) 0 6 = 6 -> (11 <= length bytes)%nat ->
    noalloc c && (MAX_DATA_SIZE_BYTES <? length bytes - 11)%nat = false ->
    exists m, msg_parse c q bytes = Ok (BinaryAddressedMessage m) /\
              m = binary_addressed_of (bits_of_bytes bytes) /\ ba_data m = skipn 11 bytes /\
              length (ba_data m) = (length bytes - 11)%nat.
Proof.
  intros c q bytes Hb Ht Hl Hc. exists (binary_addressed_of (bits_of_bytes bytes)).
  assert (Hd : ba_data (binary_addressed_of (bits_of_bytes bytes)) = skipn 11 bytes) by (exact (C15_passthrough bytes 11 Hb)).
  split; [|split; [reflexivity|split; [exact Hd|rewrite Hd; apply skipn_length]]].
  pose proof (msg_type6 c q (bits_of_bytes bytes) Ht) as H. unfold msg_data in H.
  rewrite bits_of_bytes_length in H. destruct (Nat.leb_spec 88 (8 * length bytes)); [|lia].
  change (bytes_of_bits (skipn 88 (bits_of_bytes bytes))) with (ba_data (binary_addressed_of (bits_of_bytes bytes))) in H.
  rewrite Hd, skipn_length, Hc in H. exact H.
Qed.
Print Assumptions C15_type6.

Theorem C15_type8 :
  forall c q bytes, Forall (fun b => b < 256) bytes -> sl (bits_of_bytes bytes) 0 6 = 8 -> (7 <= length bytes)%nat ->
    noalloc c && (MAX_DATA_SIZE_BYTES <? length bytes - 7)%nat = false ->
    exists m, msg_parse c q bytes = Ok (BinaryBroadcastMessage m) /\
              m = binary_broadcast_of (bits_of_bytes bytes) /\ bb_data m = skipn 7 bytes /\
              length (bb_data m) = (length bytes - 7)%nat.
Proof.
  intros c q bytes Hb Ht Hl Hc. exists (binary_broadcast_of (bits_of_bytes bytes)).
  assert (Hd : bb_data (binary_broadcast_of (bits_of_bytes bytes)) = skipn 7 bytes) by (exact (C15_passthrough bytes 7 Hb)).
  split; [|split; [reflexivity|split; [exact Hd|rewrite Hd; apply skipn_length]]].
  pose proof (msg_type8 c q (bits_of_bytes bytes) Ht) as H. unfold msg_data in H.
  rewrite bits_of_bytes_length in H. destruct (Nat.leb_spec 56 (8 * length bytes)); [|lia].
  change (bytes_of_bits (skipn 56 (bits_of_bytes bytes))) with (bb_data (binary_broadcast_of (bits_of_bytes bytes))) in H.
  rewrite Hd, skipn_length, Hc in H. exact H.
Qed.
Print Assumptions C15_type8.

(* type 17: 10 bytes of position header, 5 bytes of correction header, then the correction data *)
Theorem C15_type17 :
  forall c q bytes, Forall (fun b => b < 256) bytes -> sl (bits_of_bytes bytes) 0 6 = 17 -> (15 <= length bytes)%nat ->
    noalloc c && (MAX_DATA_SIZE_BYTES <? length bytes - 15)%nat = false ->
    exists m, msg_parse c q bytes = Ok (DgnssBroadcastBinaryMessage m) /\
              m = dgnss_of (bits_of_bytes bytes) /\ cd_data (dg_payload m) = skipn 15 bytes /\
              length (cd_data (dg_payload m)) = (length bytes - 15)%nat.
Proof.
  intros c q bytes Hb Ht Hl Hc. exists (dgnss_of (bits_of_bytes bytes)).
  assert (Hd : cd_data (dg_payload (dgnss_of (bits_of_bytes bytes))) = skipn 15 bytes) by (exact (C15_passthrough bytes 15 Hb)).
  split; [|split; [reflexivity|split; [exact Hd|rewrite Hd; apply skipn_length]]].
  pose proof (msg_type17 c q (bits_of_bytes bytes) Ht) as H. unfold msg_data in H.
  rewrite bits_of_bytes_length in H. destruct (Nat.leb_spec 120 (8 * length bytes)); [|lia].
  change (bytes_of_bits (skipn 120 (bits_of_bytes bytes))) with (cd_data (dg_payload (dgnss_of (bits_of_bytes bytes)))) in H.
  rewrite Hd, skipn_length, Hc in H. exact H.
Qed.
Print Assumptions C15_type17.

(* without an allocator more than 119 data bytes are rejected, never truncated *)
Theorem C15_noalloc_capacity :
  forall q bytes, Forall (fun b => b < 256) bytes -> sl (bits_of_bytes bytes) 0 6 = 8 -> (119 + 7 < length bytes)%nat ->
    msg_parse NoAlloc q bytes = Err ENmea.
Proof.
  intros q bytes Hb Ht Hl.
  pose proof (msg_type8 NoAlloc q (bits_of_bytes bytes) Ht) as H. unfold msg_data in H.
  rewrite bits_of_bytes_length in H. destruct (Nat.leb_spec 56 (8 * length bytes)); [|lia].
  change (skipn 56 (bits_of_bytes bytes)) with (skipn (8 * 7) (bits_of_bytes bytes)) in H.
  rewrite (C15_passthrough bytes 7 Hb), skipn_length in H. cbn [noalloc andb] in H.
  unfold MAX_DATA_SIZE_BYTES in H. destruct (Nat.ltb_spec 119 (length bytes - 7)); [exact H|lia].
Qed.
Print Assumptions C15_noalloc_capacity.

Example C15_nonvacuous :
  exists m, msg_parse Std quirks_asis [32; 0; 0; 0; 4; 0; 60; 1; 2; 3] = Ok (BinaryBroadcastMessage m) /\ bb_data m = [1; 2; 3].
Proof. eexists. split; vm_compute; reflexivity. Qed.
