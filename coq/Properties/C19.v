(* Property C19 — the sentence-level message type equals the payload's 6-bit type.

   KNOWN FINDING (DESIGN.md §5, D7; known_findings.json C19-armored-first-byte): the unchanged
   tree reports the top six bits of the *armoured* first payload character.  The theorems below
   pin the as-is behaviour exactly ([C19_asis_value]), show that it violates the property
   ([C19_refuted], [C19_agree_iff]: it is right for exactly two of the 64 characters, '?' and '@'), and prove
   the property for the model with the finding repaired ([C19_repaired]). *)
From Ais Require Import Model.Base Model.Messages Model.Unarmor Model.Sentence Spec.Grammar
  Proofs.SentenceLemmas Proofs.Reassembly Proofs.Histories Proofs.Dispatch Proofs.EndToEnd Proofs.Strings.
From Coq Require Import String Lia.
Local Open Scope N_scope.

(* what every accepted line reports, as the tree is *)
Theorem C19_asis_value :
  forall c line f hex b rest, Shaped c line f hex -> af_payload f = b :: rest ->
    s_message_type (sentence_of_fields quirks_asis f) = (b / 4) mod 64.
Proof. intros c line f hex b rest _ Hp. unfold sentence_of_fields; cbn [s_message_type]. rewrite Hp. reflexivity. Qed.
Print Assumptions C19_asis_value.

(* ... which equals the character's 6-bit value for exactly two characters of the alphabet, '?' and '@' *)
Theorem C19_agree_iff :
  forall ch v, ch < 256 -> armor_value ch = Some v -> ((ch / 4) mod 64 = v <-> (ch = 63 \/ ch = 64)).
Proof.
  intros ch v Hc Ha.
  assert (H : forallb (fun n => let ch := N.of_nat n in
             match armor_value ch with
             | Some v => Bool.eqb ((ch / 4) mod 64 =? v) ((ch =? 63) || (ch =? 64))
             | None => true
             end) (seq 0 256) = true) by (vm_compute; reflexivity).
  rewrite forallb_forall in H. specialize (H (N.to_nat ch)). rewrite N2Nat.id in H.
  assert (Hin : In (N.to_nat ch) (seq 0 256)) by (apply in_seq; lia).
  specialize (H Hin). cbv zeta in H. rewrite Ha in H. apply Bool.eqb_prop in H.
  split; intros E.
  - apply N.eqb_eq in E. rewrite H in E. apply Bool.orb_prop in E. destruct E as [E|E]; apply N.eqb_eq in E; auto.
  - apply N.eqb_eq. rewrite H. destruct E as [->| ->]; reflexivity.
Qed.
Print Assumptions C19_agree_iff.

(* the finding, on the README sentence: reported 17, the payload (and the decoded message) say 21 *)
Theorem C19_refuted :
  exists line s m,
    snd (step Std quirks_asis p_init line true) = Ok (Complete s) /\
    s_message s = Some m /\ type_field m = 21 /\ s_message_type s = 17.
Proof.
  exists (bytes "!AIVDM,1,1,,B,E>kb9O9aS@7PUh10dh19@;0Tah2cWrfP:l?M`00003vP100,0*01").
  eexists. eexists. split; [vm_compute; reflexivity|]. repeat split; vm_compute; reflexivity.
Qed.
Print Assumptions C19_refuted.

(* with the finding repaired the reported type is the 6-bit value of the first payload character *)
Theorem C19_repaired :
  forall c line f hex b rest v, Shaped c line f hex -> af_payload f = b :: rest -> armor_value b = Some v ->
    s_message_type (sentence_of_fields quirks_off f) = v.
Proof. intros c line f hex b rest v _ Hp Ha. unfold sentence_of_fields; cbn [s_message_type]. rewrite Hp. cbn. rewrite Ha. reflexivity. Qed.
Print Assumptions C19_repaired.

(* ... and therefore agrees with the type field of the decoded message of an unfragmented sentence
   (the sentence layer, unarmoring and the message layer composed: the first six bits of the
   unarmored payload are the value of the first payload character) *)
Theorem C19_repaired_agrees_with_message :
  forall c line f hex st fr m,
    Shaped c line f hex -> xor_fold (body_bytes f) = checksum_read hex ->
    let s := sentence_of_fields quirks_off f in
    has_more s = false -> is_fragment s = false ->
    (2 <= List.length (af_payload f))%nat \/ s_fill s = 0 ->
    snd (step c quirks_off st line true) = Ok fr -> s_message (frag_sentence fr) = Some m ->
    s_message_type (frag_sentence fr) = type_field m.
Proof. exact repaired_type_agrees_with_message. Qed.
Print Assumptions C19_repaired_agrees_with_message.

(* outside the recorded class (e.g. first character '@') the unchanged tree already satisfies the property *)
Theorem C19_outside_known :
  forall c line f hex rest, Shaped c line f hex -> af_payload f = 64 :: rest ->
    armor_value 64 = Some (s_message_type (sentence_of_fields quirks_asis f)).
Proof. intros c line f hex rest _ Hp. unfold sentence_of_fields; cbn [s_message_type]. rewrite Hp. reflexivity. Qed.
Print Assumptions C19_outside_known.
