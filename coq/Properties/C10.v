(* Property C10 — coordinates are sign-extended and scaled exactly; speeds / courses scaled.

   A decoded float is the symbolic [fexpr] recording the f32 operations Rust performs; its value
   is [feval] (Model/F32Eval.v: IEEE-754 binary32, round to nearest even, Flocq).  "Correct to
   single-precision rounding" is read as: relative error at most 2^-22 of the exact quotient
   (the code rounds two or three times; see DESIGN.md §5).  The accuracy theorems are the only
   ones that depend on the standard library's real-number axioms (listed below each). *)
From Coq Require Import ZArith Reals Lia.
From Flocq Require Import Core.Core IEEE754.Binary.
From Ais Require Import Model.Base Model.Enums Model.Fields Model.Messages Model.F32Eval Spec.Layouts
  Proofs.Bits Proofs.Conversions Proofs.FloatBound Proofs.Encode Proofs.RoundTrip Proofs.Coordinates Proofs.CoordinatesAll.
Local Open Scope N_scope.

(* two's complement of the field's own width, including the most negative value *)
Theorem C10_sign_extension :
  forall w n, (0 < w)%nat -> n < 2 ^ N.of_nat w ->
    sext w n = (if (n <? 2 ^ N.of_nat (w - 1))%N then Z.of_N n else (Z.of_N n - 2 ^ Z.of_nat w)%Z) /\
    (- 2 ^ Z.of_nat (w - 1) <= sext w n < 2 ^ Z.of_nat (w - 1))%Z.
Proof. intros w n Hw Hn. split; [apply sext_twos_complement|apply sext_range]; assumption. Qed.
Print Assumptions C10_sign_extension.

Theorem C10_most_negative :
  forall w, (0 < w)%nat -> sext w (2 ^ N.of_nat (w - 1)) = (- 2 ^ Z.of_nat (w - 1))%Z.
Proof. exact sext_min. Qed.
Print Assumptions C10_most_negative.

(* which operations each field goes through: raw/600000 for the 28/27-bit forms, raw/600 for
   type 17, raw/600000*1000 for type 27, raw/10 for speed, course and draught, undivided for
   the SAR speed and the type-27 speed and course *)
Theorem C10_scaling_forms :
  forall bs,
    pr_longitude (position_report_of bs) = parse_longitude (sext 28 (sl bs 61 28)) /\
    pr_latitude (position_report_of bs) = parse_latitude (sext 27 (sl bs 89 27)) /\
    pr_speed_over_ground (position_report_of bs) = parse_speed_over_ground (sl bs 50 10) /\
    pr_course_over_ground (position_report_of bs) = parse_cog (sl bs 116 12) /\
    bs_longitude (base_station_report_of bs) = parse_longitude (sext 28 (sl bs 79 28)) /\
    bs_latitude (base_station_report_of bs) = parse_latitude (sext 27 (sl bs 107 27)) /\
    sar_longitude (sar_position_report_with (sar_radio_of bs) bs) = parse_longitude (sext 28 (sl bs 61 28)) /\
    sar_latitude (sar_position_report_with (sar_radio_of bs) bs) = parse_latitude (sext 27 (sl bs 89 27)) /\
    sar_speed_over_ground (sar_position_report_with (sar_radio_of bs) bs) = parse_speed_over_ground_sar (sl bs 50 10) /\
    dg_longitude (dgnss_of bs) = parse_longitude_min_10 (sext 18 (sl bs 40 18)) /\
    dg_latitude (dgnss_of bs) = parse_latitude_min_10 (sext 17 (sl bs 58 17)) /\
    cb_longitude (class_b_of bs) = parse_longitude (sext 28 (sl bs 57 28)) /\
    cb_latitude (class_b_of bs) = parse_latitude (sext 27 (sl bs 85 27)) /\
    eb_longitude (ext_class_b_of bs) = parse_longitude (sext 28 (sl bs 57 28)) /\
    eb_latitude (ext_class_b_of bs) = parse_latitude (sext 27 (sl bs 85 27)) /\
    an_longitude (aid_to_navigation_of bs) = parse_longitude (sext 28 (sl bs 164 28)) /\
    an_latitude (aid_to_navigation_of bs) = parse_latitude (sext 27 (sl bs 192 27)) /\
    lr_longitude (long_range_of bs) = lr_longitude_conv (sl bs 0 6) (sext 18 (sl bs 44 18)) /\
    lr_latitude (long_range_of bs) = lr_latitude_conv (sl bs 0 6) (sext 17 (sl bs 62 17)) /\
    lr_speed_over_ground (long_range_of bs) = parse_speed_over_ground_62 (sl bs 79 6) /\
    lr_course_over_ground (long_range_of bs) = parse_cog_511 (sl bs 85 9) /\
    sv_draught (static_voyage_of bs) = FDiv (FOfInt (Z.of_N (sl bs 294 8))) 10.
Proof. intros bs. repeat split. Qed.
Print Assumptions C10_scaling_forms.

Theorem C10_conversion_values :
  (forall z, z <> 108600000%Z -> parse_longitude z = Some (FDiv (FOfInt z) 600000)) /\
  (forall z, z <> 54600000%Z -> parse_latitude z = Some (FDiv (FOfInt z) 600000)) /\
  (forall z, z <> 108600%Z -> parse_longitude_min_10 z = Some (FDiv (FOfInt z) 600)) /\
  (forall z, z <> 54600%Z -> parse_latitude_min_10 z = Some (FDiv (FOfInt z) 600)) /\
  (forall d, d <> 1023 -> parse_speed_over_ground d = Some (FDiv (FOfInt (Z.of_N d)) 10)) /\
  (forall d, d <> 3600 -> parse_cog d = Some (FDiv (FOfInt (Z.of_N d)) 10)) /\
  (forall d, d <> 1023 -> parse_speed_over_ground_sar d = Some (FOfInt (Z.of_N d))) /\
  (forall d, d <> 63 -> parse_speed_over_ground_62 d = Some (FOfInt (Z.of_N d))) /\
  (forall d, d <> 511 -> parse_cog_511 d = Some (FOfInt (Z.of_N d))).
Proof.
  repeat split; intros.
  - apply na_longitude; assumption. - apply na_latitude; assumption.
  - apply na_longitude_min_10; assumption. - apply na_latitude_min_10; assumption.
  - apply na_speed; assumption. - apply na_cog; assumption. - apply na_speed_sar; assumption.
  - apply na_speed_62; assumption. - apply na_cog_511; assumption.
Qed.
Print Assumptions C10_conversion_values.

(* accuracy: raw as f32 / k, two roundings, relative error <= 2^-22, for every 32-bit raw value
   (k = 10, 600, 600000 are instances) *)
Theorem C10_division_accuracy :
  forall z k, (Z.abs z <= 2 ^ 31)%Z -> (0 < k < 2 ^ 24)%Z -> z <> 0%Z ->
    (Rabs (Binary.B2R 24 128 (feval (FDiv (FOfInt z) k)) - IZR z / IZR k) <= bpow radix2 (-22) * Rabs (IZR z / IZR k))%R.
Proof. intros z k Hz Hk Hn. exact (div_bound z k Hz Hk Hn). Qed.
Print Assumptions C10_division_accuracy.

Theorem C10_zero_is_exact :
  forall k, (0 < k < 2 ^ 24)%Z -> Binary.B2R 24 128 (feval (FDiv (FOfInt 0) k)) = 0%R.
Proof. intros k Hk. exact (div_zero k Hk). Qed.
Print Assumptions C10_zero_is_exact.

(* type 27: raw / 600000 * 1000 against raw / 600, three roundings *)
Theorem C10_type27_accuracy :
  forall z, (Z.abs z <= 2 ^ 31)%Z -> z <> 0%Z ->
    (Rabs (Binary.B2R 24 128 (feval (FMul (FDiv (FOfInt z) 600000) 1000)) - IZR z / 600) <= bpow radix2 (-22) * Rabs (IZR z / 600))%R.
Proof. intros z Hz Hn. exact (div_mul_bound z Hz Hn). Qed.
Print Assumptions C10_type27_accuracy.

(* undivided quantities: raw as f32 is exact below 2^24 *)
Theorem C10_integer_exact :
  forall z, (Z.abs z < 2 ^ 24)%Z -> Binary.B2R 24 128 (feval (FOfInt z)) = IZR z.
Proof. intros z Hz. exact (proj1 (of_Z_exact z Hz)). Qed.
Print Assumptions C10_integer_exact.

(* through a whole message: any signed longitude / latitude of the field's range (not the not-available code, not
   zero — zero is exact, [C10_zero_is_exact]), encoded in two's complement in a type 1 position report between
   arbitrary neighbours and followed by anything, is reported as an expression whose binary32 value is within
   2^-22 (relative) of raw / 600000: sign extension, layout and rounding analysis composed (Proofs/Coordinates.v) *)
Theorem C10_coordinates_through_type1 :
  forall c q rep mmsi st turn spd acc (lon lat : Z) crs hdg sec man spare raim sync comm post,
    let fs := fields1 rep mmsi st turn spd acc (twos 28 lon) (twos 27 lat) crs hdg sec man spare raim sync comm in
    in_range fs ->
    (- 2 ^ 27 <= lon < 2 ^ 27)%Z -> (- 2 ^ 26 <= lat < 2 ^ 26)%Z ->
    lon <> 108600000%Z -> lat <> 54600000%Z -> lon <> 0%Z -> lat <> 0%Z ->
    exists m elon elat,
      parse_bits c q (enc fs ++ post) = Ok (PositionReport m) /\
      pr_longitude m = Some elon /\ pr_latitude m = Some elat /\
      (Rabs (Binary.B2R 24 128 (feval elon) - IZR lon / 600000) <= bpow radix2 (-22) * Rabs (IZR lon / 600000))%R /\
      (Rabs (Binary.B2R 24 128 (feval elat) - IZR lat / 600000) <= bpow radix2 (-22) * Rabs (IZR lat / 600000))%R.
Proof. exact coordinates_through_type1. Qed.
Print Assumptions C10_coordinates_through_type1.

(* BEGIN generated coordinate theorems (tools/gen_coordinates.py --properties) *)
(* the same for every other type that carries the 28/27-bit form: 2, 3, 4, 11, 18, 19, 21 *)
Theorem C10_coordinates_through_type2 :
  forall c q vrepeat vmmsi vstatus vturn vspeed vaccuracy vcourse vheading vsecond vmaneuver xspare vraim vsync vcomm (lon lat : Z) post,
    let fs := fields2 vrepeat vmmsi vstatus vturn vspeed vaccuracy (twos 28 lon) (twos 27 lat) vcourse vheading vsecond vmaneuver xspare vraim vsync vcomm in
    in_range fs ->
    (- 2 ^ 27 <= lon < 2 ^ 27)%Z -> (- 2 ^ 26 <= lat < 2 ^ 26)%Z ->
    lon <> 108600000%Z -> lat <> 54600000%Z -> lon <> 0%Z -> lat <> 0%Z ->
    exists m elon elat,
      parse_bits c q (enc fs ++ post) = Ok (PositionReport m) /\
      pr_longitude m = Some elon /\ pr_latitude m = Some elat /\
      (Rabs (Binary.B2R 24 128 (feval elon) - IZR lon / 600000) <= bpow radix2 (-22) * Rabs (IZR lon / 600000))%R /\
      (Rabs (Binary.B2R 24 128 (feval elat) - IZR lat / 600000) <= bpow radix2 (-22) * Rabs (IZR lat / 600000))%R.
Proof. exact coordinates_through_type2_all. Qed.
Print Assumptions C10_coordinates_through_type2.


Theorem C10_coordinates_through_type3 :
  forall c q vrepeat vmmsi vstatus vturn vspeed vaccuracy vcourse vheading vsecond vmaneuver xspare vraim vsync vcomm (lon lat : Z) post,
    let fs := fields3 vrepeat vmmsi vstatus vturn vspeed vaccuracy (twos 28 lon) (twos 27 lat) vcourse vheading vsecond vmaneuver xspare vraim vsync vcomm in
    in_range fs ->
    (- 2 ^ 27 <= lon < 2 ^ 27)%Z -> (- 2 ^ 26 <= lat < 2 ^ 26)%Z ->
    lon <> 108600000%Z -> lat <> 54600000%Z -> lon <> 0%Z -> lat <> 0%Z ->
    exists m elon elat,
      parse_bits c q (enc fs ++ post) = Ok (PositionReport m) /\
      pr_longitude m = Some elon /\ pr_latitude m = Some elat /\
      (Rabs (Binary.B2R 24 128 (feval elon) - IZR lon / 600000) <= bpow radix2 (-22) * Rabs (IZR lon / 600000))%R /\
      (Rabs (Binary.B2R 24 128 (feval elat) - IZR lat / 600000) <= bpow radix2 (-22) * Rabs (IZR lat / 600000))%R.
Proof. exact coordinates_through_type3_all. Qed.
Print Assumptions C10_coordinates_through_type3.


Theorem C10_coordinates_through_type4 :
  forall c q vrepeat vmmsi vyear vmonth vday vhour vminute vsecond vaccuracy vepfd xspare vraim vsync vcomm (lon lat : Z) post,
    let fs := fields4 vrepeat vmmsi vyear vmonth vday vhour vminute vsecond vaccuracy (twos 28 lon) (twos 27 lat) vepfd xspare vraim vsync vcomm in
    in_range fs ->
    (- 2 ^ 27 <= lon < 2 ^ 27)%Z -> (- 2 ^ 26 <= lat < 2 ^ 26)%Z ->
    lon <> 108600000%Z -> lat <> 54600000%Z -> lon <> 0%Z -> lat <> 0%Z ->
    exists m elon elat,
      parse_bits c q (enc fs ++ post) = Ok (BaseStationReport m) /\
      bs_longitude m = Some elon /\ bs_latitude m = Some elat /\
      (Rabs (Binary.B2R 24 128 (feval elon) - IZR lon / 600000) <= bpow radix2 (-22) * Rabs (IZR lon / 600000))%R /\
      (Rabs (Binary.B2R 24 128 (feval elat) - IZR lat / 600000) <= bpow radix2 (-22) * Rabs (IZR lat / 600000))%R.
Proof. exact coordinates_through_type4_all. Qed.
Print Assumptions C10_coordinates_through_type4.


Theorem C10_coordinates_through_type11 :
  forall c q vrepeat vmmsi vyear vmonth vday vhour vminute vsecond vaccuracy vepfd xspare vraim vsync vcomm (lon lat : Z) post,
    let fs := fields11 vrepeat vmmsi vyear vmonth vday vhour vminute vsecond vaccuracy (twos 28 lon) (twos 27 lat) vepfd xspare vraim vsync vcomm in
    in_range fs ->
    (- 2 ^ 27 <= lon < 2 ^ 27)%Z -> (- 2 ^ 26 <= lat < 2 ^ 26)%Z ->
    lon <> 108600000%Z -> lat <> 54600000%Z -> lon <> 0%Z -> lat <> 0%Z ->
    exists m elon elat,
      parse_bits c q (enc fs ++ post) = Ok (UtcDateResponse m) /\
      bs_longitude m = Some elon /\ bs_latitude m = Some elat /\
      (Rabs (Binary.B2R 24 128 (feval elon) - IZR lon / 600000) <= bpow radix2 (-22) * Rabs (IZR lon / 600000))%R /\
      (Rabs (Binary.B2R 24 128 (feval elat) - IZR lat / 600000) <= bpow radix2 (-22) * Rabs (IZR lat / 600000))%R.
Proof. exact coordinates_through_type11_all. Qed.
Print Assumptions C10_coordinates_through_type11.


Theorem C10_coordinates_through_type18 :
  forall c q vrepeat vmmsi xreserved vspeed vaccuracy vcourse vheading vsecond xreserved2 vcs vdisplay vdsc vband vmsg22 vassigned vraim vselector vsync vcomm (lon lat : Z) post,
    let fs := fields18 vrepeat vmmsi xreserved vspeed vaccuracy (twos 28 lon) (twos 27 lat) vcourse vheading vsecond xreserved2 vcs vdisplay vdsc vband vmsg22 vassigned vraim vselector vsync vcomm in
    in_range fs ->
    (- 2 ^ 27 <= lon < 2 ^ 27)%Z -> (- 2 ^ 26 <= lat < 2 ^ 26)%Z ->
    lon <> 108600000%Z -> lat <> 54600000%Z -> lon <> 0%Z -> lat <> 0%Z ->
    exists m elon elat,
      parse_bits c q (enc fs ++ post) = Ok (StandardClassBPositionReport m) /\
      cb_longitude m = Some elon /\ cb_latitude m = Some elat /\
      (Rabs (Binary.B2R 24 128 (feval elon) - IZR lon / 600000) <= bpow radix2 (-22) * Rabs (IZR lon / 600000))%R /\
      (Rabs (Binary.B2R 24 128 (feval elat) - IZR lat / 600000) <= bpow radix2 (-22) * Rabs (IZR lat / 600000))%R.
Proof. exact coordinates_through_type18_all. Qed.
Print Assumptions C10_coordinates_through_type18.


Theorem C10_coordinates_through_type19 :
  forall c q vrepeat vmmsi xreserved vspeed vaccuracy vcourse vheading vsecond xreserved2 vname vshiptype vbow vstern vport vstarboard vepfd vraim vdte vassigned xspare (lon lat : Z) post,
    let fs := fields19 vrepeat vmmsi xreserved vspeed vaccuracy (twos 28 lon) (twos 27 lat) vcourse vheading vsecond xreserved2 vname vshiptype vbow vstern vport vstarboard vepfd vraim vdte vassigned xspare in
    in_range fs ->
    (- 2 ^ 27 <= lon < 2 ^ 27)%Z -> (- 2 ^ 26 <= lat < 2 ^ 26)%Z ->
    lon <> 108600000%Z -> lat <> 54600000%Z -> lon <> 0%Z -> lat <> 0%Z ->
    exists m elon elat,
      parse_bits c q (enc fs ++ post) = Ok (ExtendedClassBPositionReport m) /\
      eb_longitude m = Some elon /\ eb_latitude m = Some elat /\
      (Rabs (Binary.B2R 24 128 (feval elon) - IZR lon / 600000) <= bpow radix2 (-22) * Rabs (IZR lon / 600000))%R /\
      (Rabs (Binary.B2R 24 128 (feval elat) - IZR lat / 600000) <= bpow radix2 (-22) * Rabs (IZR lat / 600000))%R.
Proof. exact coordinates_through_type19_all. Qed.
Print Assumptions C10_coordinates_through_type19.


Theorem C10_coordinates_through_type21 :
  forall c q vrepeat vmmsi vaidtype vname vaccuracy vbow vstern vport vstarboard vepfd vsecond voffposition vregional vraim vvirtual vassigned xspare (lon lat : Z) post,
    let fs := fields21 vrepeat vmmsi vaidtype vname vaccuracy (twos 28 lon) (twos 27 lat) vbow vstern vport vstarboard vepfd vsecond voffposition vregional vraim vvirtual vassigned xspare in
    in_range fs ->
    (- 2 ^ 27 <= lon < 2 ^ 27)%Z -> (- 2 ^ 26 <= lat < 2 ^ 26)%Z ->
    lon <> 108600000%Z -> lat <> 54600000%Z -> lon <> 0%Z -> lat <> 0%Z ->
    exists m elon elat,
      parse_bits c q (enc fs ++ post) = Ok (AidToNavigationReport m) /\
      an_longitude m = Some elon /\ an_latitude m = Some elat /\
      (Rabs (Binary.B2R 24 128 (feval elon) - IZR lon / 600000) <= bpow radix2 (-22) * Rabs (IZR lon / 600000))%R /\
      (Rabs (Binary.B2R 24 128 (feval elat) - IZR lat / 600000) <= bpow radix2 (-22) * Rabs (IZR lat / 600000))%R.
Proof. exact coordinates_through_type21_all. Qed.
Print Assumptions C10_coordinates_through_type21.
(* END generated coordinate theorems *)

(* non-vacuity: -73421920 / 600000 evaluates to the bits the implementation prints for the README sentence *)
Example C10_nonvacuous : fbits (FDiv (FOfInt (-73421920)) 600000) = 3270819167%Z.
Proof. vm_compute. reflexivity. Qed.
