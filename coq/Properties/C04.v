(* Property C04 — every fixed-position field decodes to the transmitted value.

   For each supported type the whole decoded message is the ITU layout function of
   Spec/Layouts.v applied to the payload bits: every integer, flag and identifier is the slice
   at its specified offset and width (so it cannot depend on any neighbouring field), and
   [C04_field_roundtrip] says that a value encoded at a position between arbitrary
   neighbours is read back exactly.  Type 15 is proved at every length ([C04_type15]) and for its three specification-legal forms (88, 110, 160 bits). *)
From Ais Require Import Model.Base Model.Enums Model.Fields Model.Messages Model.Unarmor Model.Sentence
  Spec.Layouts Proofs.Bits Proofs.Reads Proofs.Layouts Proofs.Dispatch Proofs.MsgLevel Proofs.Interrogation Model.NomBits Proofs.NomBitsProof.
From Ais Require Import Spec.Grammar Spec.Armor Proofs.EndToEnd Proofs.UnarmorProof.
From Coq Require Import Lia.
Local Open Scope N_scope.

Theorem C04_field_roundtrip :
  forall pre post w v, v < 2 ^ N.of_nat w -> sl (pre ++ bits_of_N w v ++ post) (length pre) w = v.
Proof. exact sl_encoded. Qed.
Print Assumptions C04_field_roundtrip.

Theorem C04_type9_asis :
  forall c bs, sl bs 0 6 = 9 -> (167 <= length bs)%nat ->
  parse_bits c quirks_asis bs = Ok (StandardAircraftPositionReport (sar_position_report_with (sar_radio_asis bs) bs)).
Proof. intros c bs Ht Hl. pose proof (msg_type9_asis c bs Ht) as H. unfold msg_fixed in H. destruct (Nat.leb_spec 167 (length bs)); [exact H|lia]. Qed.
Print Assumptions C04_type9_asis.

Theorem C04_type1 :
  forall c q bs, sl bs 0 6 = 1 -> (168 <= length bs)%nat ->
  parse_bits c q bs = Ok (PositionReport (position_report_of bs)).
Proof. intros c q bs Ht Hl. pose proof (msg_type1 c q bs Ht) as H. unfold msg_fixed in H. destruct (Nat.leb_spec 168 (length bs)); [exact H|lia]. Qed.
Print Assumptions C04_type1.

Theorem C04_type2 :
  forall c q bs, sl bs 0 6 = 2 -> (168 <= length bs)%nat ->
  parse_bits c q bs = Ok (PositionReport (position_report_of bs)).
Proof. intros c q bs Ht Hl. pose proof (msg_type2 c q bs Ht) as H. unfold msg_fixed in H. destruct (Nat.leb_spec 168 (length bs)); [exact H|lia]. Qed.
Print Assumptions C04_type2.

Theorem C04_type3 :
  forall c q bs, sl bs 0 6 = 3 -> (168 <= length bs)%nat ->
  parse_bits c q bs = Ok (PositionReport (position_report_of bs)).
Proof. intros c q bs Ht Hl. pose proof (msg_type3 c q bs Ht) as H. unfold msg_fixed in H. destruct (Nat.leb_spec 168 (length bs)); [exact H|lia]. Qed.
Print Assumptions C04_type3.

Theorem C04_type4 :
  forall c q bs, sl bs 0 6 = 4 -> (168 <= length bs)%nat ->
  parse_bits c q bs = Ok (BaseStationReport (base_station_report_of bs)).
Proof. intros c q bs Ht Hl. pose proof (msg_type4 c q bs Ht) as H. unfold msg_fixed in H. destruct (Nat.leb_spec 168 (length bs)); [exact H|lia]. Qed.
Print Assumptions C04_type4.

Theorem C04_type11 :
  forall c q bs, sl bs 0 6 = 11 -> (168 <= length bs)%nat ->
  parse_bits c q bs = Ok (UtcDateResponse (base_station_report_of bs)).
Proof. intros c q bs Ht Hl. pose proof (msg_type11 c q bs Ht) as H. unfold msg_fixed in H. destruct (Nat.leb_spec 168 (length bs)); [exact H|lia]. Qed.
Print Assumptions C04_type11.

Theorem C04_type10 :
  forall c q bs, sl bs 0 6 = 10 -> (72 <= length bs)%nat ->
  parse_bits c q bs = Ok (UtcDateInquiry (utc_date_inquiry_of bs)).
Proof. intros c q bs Ht Hl. pose proof (msg_type10 c q bs Ht) as H. unfold msg_fixed in H. destruct (Nat.leb_spec 72 (length bs)); [exact H|lia]. Qed.
Print Assumptions C04_type10.

Theorem C04_type16 :
  forall c q bs, sl bs 0 6 = 16 -> (92 <= length bs)%nat ->
  parse_bits c q bs = Ok (AssignmentModeCommand (assignment_of bs)).
Proof. intros c q bs Ht Hl. pose proof (msg_type16 c q bs Ht) as H. unfold msg_fixed in H. destruct (Nat.leb_spec 92 (length bs)); [exact H|lia]. Qed.
Print Assumptions C04_type16.

Theorem C04_type18 :
  forall c q bs, sl bs 0 6 = 18 -> (168 <= length bs)%nat ->
  parse_bits c q bs = Ok (StandardClassBPositionReport (class_b_of bs)).
Proof. intros c q bs Ht Hl. pose proof (msg_type18 c q bs Ht) as H. unfold msg_fixed in H. destruct (Nat.leb_spec 168 (length bs)); [exact H|lia]. Qed.
Print Assumptions C04_type18.

Theorem C04_type19 :
  forall c q bs, sl bs 0 6 = 19 -> (312 <= length bs)%nat ->
  parse_bits c q bs = Ok (ExtendedClassBPositionReport (ext_class_b_of bs)).
Proof. intros c q bs Ht Hl. pose proof (msg_type19 c q bs Ht) as H. unfold msg_fixed in H. destruct (Nat.leb_spec 312 (length bs)); [exact H|lia]. Qed.
Print Assumptions C04_type19.

Theorem C04_type21 :
  forall c q bs, sl bs 0 6 = 21 -> (272 <= length bs)%nat ->
  parse_bits c q bs = Ok (AidToNavigationReport (aid_to_navigation_of bs)).
Proof. intros c q bs Ht Hl. pose proof (msg_type21 c q bs Ht) as H. unfold msg_fixed in H. destruct (Nat.leb_spec 272 (length bs)); [exact H|lia]. Qed.
Print Assumptions C04_type21.

Theorem C04_type27 :
  forall c q bs, sl bs 0 6 = 27 -> (95 <= length bs)%nat ->
  parse_bits c q bs = Ok (LongRangeAisBroadcastMessage (long_range_of bs)).
Proof. intros c q bs Ht Hl. pose proof (msg_type27 c q bs Ht) as H. unfold msg_fixed in H. destruct (Nat.leb_spec 95 (length bs)); [exact H|lia]. Qed.
Print Assumptions C04_type27.

Theorem C04_type6 :
  forall c q bs, sl bs 0 6 = 6 -> (88 <= length bs)%nat ->
  noalloc c && (MAX_DATA_SIZE_BYTES <? length (bytes_of_bits (skipn 88 bs)))%nat = false ->
  parse_bits c q bs = Ok (BinaryAddressedMessage (binary_addressed_of bs)).
Proof. intros c q bs Ht Hl Hc. pose proof (msg_type6 c q bs Ht) as H. unfold msg_data in H. rewrite Hc in H. destruct (Nat.leb_spec 88 (length bs)); [exact H|lia]. Qed.
Print Assumptions C04_type6.

Theorem C04_type8 :
  forall c q bs, sl bs 0 6 = 8 -> (56 <= length bs)%nat ->
  noalloc c && (MAX_DATA_SIZE_BYTES <? length (bytes_of_bits (skipn 56 bs)))%nat = false ->
  parse_bits c q bs = Ok (BinaryBroadcastMessage (binary_broadcast_of bs)).
Proof. intros c q bs Ht Hl Hc. pose proof (msg_type8 c q bs Ht) as H. unfold msg_data in H. rewrite Hc in H. destruct (Nat.leb_spec 56 (length bs)); [exact H|lia]. Qed.
Print Assumptions C04_type8.

Theorem C04_type17 :
  forall c q bs, sl bs 0 6 = 17 -> (120 <= length bs)%nat ->
  noalloc c && (MAX_DATA_SIZE_BYTES <? length (bytes_of_bits (skipn 120 bs)))%nat = false ->
  parse_bits c q bs = Ok (DgnssBroadcastBinaryMessage (dgnss_of bs)).
Proof. intros c q bs Ht Hl Hc. pose proof (msg_type17 c q bs Ht) as H. unfold msg_data in H. rewrite Hc in H. destruct (Nat.leb_spec 120 (length bs)); [exact H|lia]. Qed.
Print Assumptions C04_type17.

Theorem C04_type7 :
  forall c q bs, sl bs 0 6 = 7 -> (40 + 32 <= length bs)%nat ->
  parse_bits c q bs = Ok (BinaryAcknowledgeMessage (ack_message_of bs)).
Proof. intros c q bs Ht Hl. pose proof (msg_type7 c q bs Ht) as H. unfold msg_list in H. destruct (Nat.leb_spec (40 + 32) (length bs)); [exact H|lia]. Qed.
Print Assumptions C04_type7.

Theorem C04_type13 :
  forall c q bs, sl bs 0 6 = 13 -> (40 + 32 <= length bs)%nat ->
  parse_bits c q bs = Ok (SafetyRelatedAcknowledgment (ack_message_of bs)).
Proof. intros c q bs Ht Hl. pose proof (msg_type13 c q bs Ht) as H. unfold msg_list in H. destruct (Nat.leb_spec (40 + 32) (length bs)); [exact H|lia]. Qed.
Print Assumptions C04_type13.

Theorem C04_type20 :
  forall c q bs, sl bs 0 6 = 20 -> (40 + 30 <= length bs)%nat ->
  parse_bits c q bs = Ok (DataLinkManagementMessage (data_link_of bs)).
Proof. intros c q bs Ht Hl. pose proof (msg_type20 c q bs Ht) as H. unfold msg_list in H. destruct (Nat.leb_spec (40 + 30) (length bs)); [exact H|lia]. Qed.
Print Assumptions C04_type20.

Theorem C04_type12 :
  forall c q bs, sl bs 0 6 = 12 -> (72 + 6 <= length bs)%nat ->
  noalloc c && (20 <? (length bs - 72) / 6)%nat = false ->
  parse_bits c q bs = Ok (AddressedSafetyRelatedMessage (addressed_safety_of bs)).
Proof. intros c q bs Ht Hl Hc. pose proof (msg_type12 c q bs Ht) as H. unfold msg_text in H. rewrite Hc in H. destruct (Nat.leb_spec (72 + 6) (length bs)); [exact H|lia]. Qed.
Print Assumptions C04_type12.

Theorem C04_type14 :
  forall c q bs, sl bs 0 6 = 14 -> (40 + 6 <= length bs)%nat ->
  noalloc c && (20 <? (length bs - 40) / 6)%nat = false ->
  parse_bits c q bs = Ok (SafetyRelatedBroadcastMessage (safety_broadcast_of bs)).
Proof. intros c q bs Ht Hl Hc. pose proof (msg_type14 c q bs Ht) as H. unfold msg_text in H. rewrite Hc in H. destruct (Nat.leb_spec (40 + 6) (length bs)); [exact H|lia]. Qed.
Print Assumptions C04_type14.

Theorem C04_type5 :
  forall c q bs, sl bs 0 6 = 5 -> (302 <= length bs)%nat ->
  parse_bits c q bs = Ok (StaticAndVoyageRelatedData (static_voyage_of bs)).
Proof. intros c q bs Ht Hl. pose proof (msg_type5 c q bs Ht) as H. unfold msg_fixed in H. destruct (Nat.leb_spec 302 (length bs)); [exact H|lia]. Qed.
Print Assumptions C04_type5.

Theorem C04_type24 :
  forall c q bs, sl bs 0 6 = 24 -> (40 <= length bs)%nat -> (static_data_min bs <= length bs)%nat ->
  parse_bits c q bs = Ok (StaticDataReport (static_data_of bs)).
Proof. intros c q bs Ht H40 Hl. pose proof (msg_type24 c q bs Ht H40) as H. destruct (Nat.leb_spec (static_data_min bs) (length bs)); [exact H|lia]. Qed.
Print Assumptions C04_type24.

(* below the model's [take]: the byte-and-shift loop of nom 7.1.3 `bits::complete::take`, transcribed in
   Model/NomBits.v, returns exactly the bit slice and moves the Rust cursor (remaining bytes, bit offset)
   the way the model moves its bit position *)
Theorem C04_nom_take_is_slice :
  forall count input off, Forall (fun b => b < 256) input -> (off < 8)%nat ->
    nom_take count input off =
    if (count =? 0)%nat then Ok ((input, off), 0)
    else if (length input * 8 <? count + off)%nat then Err EError
    else Ok ((skipn ((count + off) / 8) input, ((count + off) mod 8)%nat), sl (bits_of_bytes input) off count).
Proof. exact nom_take_correct. Qed.
Print Assumptions C04_nom_take_is_slice.
Theorem C04_nom_take_refines_model :
  forall w all p, Forall (fun b => b < 256) all -> (p <= 8 * length all)%nat ->
    nom_take w (fst (cursor_of all p)) (snd (cursor_of all p)) =
    match take w (bits_of_bytes all) p with
    | Ok (v, p') => Ok (cursor_of all p', v)
    | Err e => Err e
    | Panic s => Panic s
    end.
Proof. exact nom_take_refines_model. Qed.
Print Assumptions C04_nom_take_refines_model.

Theorem C04_type15 :
  forall c q bs, sl bs 0 6 = 15 ->
    parse_bits c q bs = match interrogation_of bs with Some (m, _) => Ok (Interrogation m) | None => Err ENmea end.
Proof. exact msg_type15_any. Qed.
Print Assumptions C04_type15.
Theorem C04_type15_one_request :
  forall c q bs, sl bs 0 6 = 15 -> length bs = 88%nat -> parse_bits c q bs = Ok (Interrogation (interrogation_88 bs)).
Proof. exact msg_type15_88. Qed.
Print Assumptions C04_type15_one_request.
Theorem C04_type15_two_requests :
  forall c q bs, sl bs 0 6 = 15 -> length bs = 112%nat -> parse_bits c q bs = Ok (Interrogation (interrogation_110 bs)).
Proof. exact msg_type15_110. Qed.
Print Assumptions C04_type15_two_requests.
Theorem C04_type15_two_stations :
  forall c q bs, sl bs 0 6 = 15 -> length bs = 160%nat -> parse_bits c q bs = Ok (Interrogation (interrogation_160 bs)).
Proof. exact msg_type15_160. Qed.
Print Assumptions C04_type15_two_stations.

(* end to end: an unfragmented well-formed sentence whose payload is over the alphabet is decoded,
   with decoding on, as messages::parse of the specification bit stream of its payload (Spec/Armor.v);
   together with the per-type theorems above this gives every field of the sentence's message as a
   slice of the 6-bit values transmitted *)
Theorem C04_end_to_end :
  forall c q st line f hex vals,
    Shaped c line f hex -> xor_fold (body_bytes f) = checksum_read hex ->
    let s := sentence_of_fields q f in
    has_more s = false -> is_fragment s = false ->
    vals_of (af_payload f) = Some vals ->
    noalloc c && (MAX_SENTENCE_SIZE_BYTES <? byte_count (length (af_payload f)))%nat = false ->
    step c q st line true =
    (st, match parse_bits c q (unarmor_bits vals (N.to_nat (dec_value (af_fill f)))) with
         | Ok m => Ok (Complete (with_message s (Some m)))
         | Err e => Err e
         | Panic p => Panic p
         end).
Proof. exact unfragmented_decodes_spec_bits. Qed.
Print Assumptions C04_end_to_end.

(* the hypotheses are met by a real message: the type-4 payload of the repo's README sentence *)
Example C04_nonvacuous :
  let bs := bits_of_bytes [16; 0; 223; 249; 152; 126; 22; 236; 87; 64; 29; 205; 230; 40; 85; 160; 70; 79; 0; 35; 12; 49]%N in
  sl bs 0 6 = 4 /\ (168 <= length bs)%nat.
Proof. vm_compute. split; [reflexivity|]. repeat constructor. Qed.
