(* Property C04 — every fixed-position field decodes to the transmitted value.

   For each supported type the whole decoded message is the ITU layout function of
   Spec/Layouts.v applied to the payload bits: every integer, flag and identifier is the slice
   at its specified offset and width (so it cannot depend on any neighbouring field), and
   [C04_field_roundtrip] says that a value encoded at a position between arbitrary
   neighbours is read back exactly.  Type 15 is proved at every length ([C04_type15]) and for its three specification-legal forms (88, 110, 160 bits). *)
From Ais Require Import Model.Base Model.Enums Model.Fields Model.Messages Model.Unarmor Model.Sentence
  Spec.Layouts Proofs.Bits Proofs.Reads Proofs.Layouts Proofs.Dispatch Proofs.MsgLevel Proofs.Interrogation Model.NomBits Proofs.NomBitsProof.
From Ais Require Import Spec.Grammar Spec.Armor Proofs.EndToEnd Proofs.UnarmorProof.
From Ais Require Import Proofs.Encode Proofs.RoundTrip Proofs.RoundTripLists Proofs.RoundTripForms Spec.Transmit Proofs.InOrder Proofs.Transmit Proofs.AirRoundTrip.
From Ais Require Import Proofs.Dressing.
From Coq Require Import Lia.
Local Open Scope N_scope.

Theorem C04_field_roundtrip :
  forall pre post w v, v < 2 ^ N.of_nat w -> sl (pre ++ bits_of_N w v ++ post) (length pre) w = v.
Proof. exact sl_encoded. Qed.
Print Assumptions C04_field_roundtrip.

Theorem C04_type9_asis :
  forall c bs, sl bs 0 6 = 9 -> (167 <= length bs)%nat ->
  parse_bits c quirks_asis bs = Ok (StandardAircraftPositionReport (sar_position_report_with (sar_radio_asis bs) bs)).
Proof. intros c bs Ht Hl. pose proof (msg_type9_asis c bs Ht) as H. unfold msg_fixed in H. destruct (Nat.leb_spec 167 (length bs)); [exact H|lia]. Qed.
Print Assumptions C04_type9_asis.

Theorem C04_type1 :
  forall c q bs, sl bs 0 6 = 1 -> (168 <= length bs)%nat ->
  parse_bits c q bs = Ok (PositionReport (position_report_of bs)).
Proof. intros c q bs Ht Hl. pose proof (msg_type1 c q bs Ht) as H. unfold msg_fixed in H. destruct (Nat.leb_spec 168 (length bs)); [exact H|lia]. Qed.
Print Assumptions C04_type1.

Theorem C04_type2 :
  forall c q bs, sl bs 0 6 = 2 -> (168 <= length bs)%nat ->
  parse_bits c q bs = Ok (PositionReport (position_report_of bs)).
Proof. intros c q bs Ht Hl. pose proof (msg_type2 c q bs Ht) as H. unfold msg_fixed in H. destruct (Nat.leb_spec 168 (length bs)); [exact H|lia]. Qed.
Print Assumptions C04_type2.

Theorem C04_type3 :
  forall c q bs, sl bs 0 6 = 3 -> (168 <= length bs)%nat ->
  parse_bits c q bs = Ok (PositionReport (position_report_of bs)).
Proof. intros c q bs Ht Hl. pose proof (msg_type3 c q bs Ht) as H. unfold msg_fixed in H. destruct (Nat.leb_spec 168 (length bs)); [exact H|lia]. Qed.
Print Assumptions C04_type3.

Theorem C04_type4 :
  forall c q bs, sl bs 0 6 = 4 -> (168 <= length bs)%nat ->
  parse_bits c q bs = Ok (BaseStationReport (base_station_report_of bs)).
Proof. intros c q bs Ht Hl. pose proof (msg_type4 c q bs Ht) as H. unfold msg_fixed in H. destruct (Nat.leb_spec 168 (length bs)); [exact H|lia]. Qed.
Print Assumptions C04_type4.

Theorem C04_type11 :
  forall c q bs, sl bs 0 6 = 11 -> (168 <= length bs)%nat ->
  parse_bits c q bs = Ok (UtcDateResponse (base_station_report_of bs)).
Proof. intros c q bs Ht Hl. pose proof (msg_type11 c q bs Ht) as H. unfold msg_fixed in H. destruct (Nat.leb_spec 168 (length bs)); [exact H|lia]. Qed.
Print Assumptions C04_type11.

Theorem C04_type10 :
  forall c q bs, sl bs 0 6 = 10 -> (72 <= length bs)%nat ->
  parse_bits c q bs = Ok (UtcDateInquiry (utc_date_inquiry_of bs)).
Proof. intros c q bs Ht Hl. pose proof (msg_type10 c q bs Ht) as H. unfold msg_fixed in H. destruct (Nat.leb_spec 72 (length bs)); [exact H|lia]. Qed.
Print Assumptions C04_type10.

Theorem C04_type16 :
  forall c q bs, sl bs 0 6 = 16 -> (92 <= length bs)%nat ->
  parse_bits c q bs = Ok (AssignmentModeCommand (assignment_of bs)).
Proof. intros c q bs Ht Hl. pose proof (msg_type16 c q bs Ht) as H. unfold msg_fixed in H. destruct (Nat.leb_spec 92 (length bs)); [exact H|lia]. Qed.
Print Assumptions C04_type16.

Theorem C04_type18 :
  forall c q bs, sl bs 0 6 = 18 -> (168 <= length bs)%nat ->
  parse_bits c q bs = Ok (StandardClassBPositionReport (class_b_of bs)).
Proof. intros c q bs Ht Hl. pose proof (msg_type18 c q bs Ht) as H. unfold msg_fixed in H. destruct (Nat.leb_spec 168 (length bs)); [exact H|lia]. Qed.
Print Assumptions C04_type18.

Theorem C04_type19 :
  forall c q bs, sl bs 0 6 = 19 -> (312 <= length bs)%nat ->
  parse_bits c q bs = Ok (ExtendedClassBPositionReport (ext_class_b_of bs)).
Proof. intros c q bs Ht Hl. pose proof (msg_type19 c q bs Ht) as H. unfold msg_fixed in H. destruct (Nat.leb_spec 312 (length bs)); [exact H|lia]. Qed.
Print Assumptions C04_type19.

Theorem C04_type21 :
  forall c q bs, sl bs 0 6 = 21 -> (272 <= length bs)%nat ->
  parse_bits c q bs = Ok (AidToNavigationReport (aid_to_navigation_of bs)).
Proof. intros c q bs Ht Hl. pose proof (msg_type21 c q bs Ht) as H. unfold msg_fixed in H. destruct (Nat.leb_spec 272 (length bs)); [exact H|lia]. Qed.
Print Assumptions C04_type21.

Theorem C04_type27 :
  forall c q bs, sl bs 0 6 = 27 -> (95 <= length bs)%nat ->
  parse_bits c q bs = Ok (LongRangeAisBroadcastMessage (long_range_of bs)).
Proof. intros c q bs Ht Hl. pose proof (msg_type27 c q bs Ht) as H. unfold msg_fixed in H. destruct (Nat.leb_spec 95 (length bs)); [exact H|lia]. Qed.
Print Assumptions C04_type27.

Theorem C04_type6 :
  forall c q bs, sl bs 0 6 = 6 -> (88 <= length bs)%nat ->
  noalloc c && (MAX_DATA_SIZE_BYTES <? length (bytes_of_bits (skipn 88 bs)))%nat = false ->
  parse_bits c q bs = Ok (BinaryAddressedMessage (binary_addressed_of bs)).
Proof. intros c q bs Ht Hl Hc. pose proof (msg_type6 c q bs Ht) as H. unfold msg_data in H. rewrite Hc in H. destruct (Nat.leb_spec 88 (length bs)); [exact H|lia]. Qed.
Print Assumptions C04_type6.

Theorem C04_type8 :
  forall c q bs, sl bs 0 6 = 8 -> (56 <= length bs)%nat ->
  noalloc c && (MAX_DATA_SIZE_BYTES <? length (bytes_of_bits (skipn 56 bs)))%nat = false ->
  parse_bits c q bs = Ok (BinaryBroadcastMessage (binary_broadcast_of bs)).
Proof. intros c q bs Ht Hl Hc. pose proof (msg_type8 c q bs Ht) as H. unfold msg_data in H. rewrite Hc in H. destruct (Nat.leb_spec 56 (length bs)); [exact H|lia]. Qed.
Print Assumptions C04_type8.

Theorem C04_type17 :
  forall c q bs, sl bs 0 6 = 17 -> (120 <= length bs)%nat ->
  noalloc c && (MAX_DATA_SIZE_BYTES <? length (bytes_of_bits (skipn 120 bs)))%nat = false ->
  parse_bits c q bs = Ok (DgnssBroadcastBinaryMessage (dgnss_of bs)).
Proof. intros c q bs Ht Hl Hc. pose proof (msg_type17 c q bs Ht) as H. unfold msg_data in H. rewrite Hc in H. destruct (Nat.leb_spec 120 (length bs)); [exact H|lia]. Qed.
Print Assumptions C04_type17.

Theorem C04_type7 :
  forall c q bs, sl bs 0 6 = 7 -> (40 + 32 <= length bs)%nat ->
  parse_bits c q bs = Ok (BinaryAcknowledgeMessage (ack_message_of bs)).
Proof. intros c q bs Ht Hl. pose proof (msg_type7 c q bs Ht) as H. unfold msg_list in H. destruct (Nat.leb_spec (40 + 32) (length bs)); [exact H|lia]. Qed.
Print Assumptions C04_type7.

Theorem C04_type13 :
  forall c q bs, sl bs 0 6 = 13 -> (40 + 32 <= length bs)%nat ->
  parse_bits c q bs = Ok (SafetyRelatedAcknowledgment (ack_message_of bs)).
Proof. intros c q bs Ht Hl. pose proof (msg_type13 c q bs Ht) as H. unfold msg_list in H. destruct (Nat.leb_spec (40 + 32) (length bs)); [exact H|lia]. Qed.
Print Assumptions C04_type13.

Theorem C04_type20 :
  forall c q bs, sl bs 0 6 = 20 -> (40 + 30 <= length bs)%nat ->
  parse_bits c q bs = Ok (DataLinkManagementMessage (data_link_of bs)).
Proof. intros c q bs Ht Hl. pose proof (msg_type20 c q bs Ht) as H. unfold msg_list in H. destruct (Nat.leb_spec (40 + 30) (length bs)); [exact H|lia]. Qed.
Print Assumptions C04_type20.

Theorem C04_type12 :
  forall c q bs, sl bs 0 6 = 12 -> (72 + 6 <= length bs)%nat ->
  noalloc c && (20 <? (length bs - 72) / 6)%nat = false ->
  parse_bits c q bs = Ok (AddressedSafetyRelatedMessage (addressed_safety_of bs)).
Proof. intros c q bs Ht Hl Hc. pose proof (msg_type12 c q bs Ht) as H. unfold msg_text in H. rewrite Hc in H. destruct (Nat.leb_spec (72 + 6) (length bs)); [exact H|lia]. Qed.
Print Assumptions C04_type12.

Theorem C04_type14 :
  forall c q bs, sl bs 0 6 = 14 -> (40 + 6 <= length bs)%nat ->
  noalloc c && (20 <? (length bs - 40) / 6)%nat = false ->
  parse_bits c q bs = Ok (SafetyRelatedBroadcastMessage (safety_broadcast_of bs)).
Proof. intros c q bs Ht Hl Hc. pose proof (msg_type14 c q bs Ht) as H. unfold msg_text in H. rewrite Hc in H. destruct (Nat.leb_spec (40 + 6) (length bs)); [exact H|lia]. Qed.
Print Assumptions C04_type14.

Theorem C04_type5 :
  forall c q bs, sl bs 0 6 = 5 -> (302 <= length bs)%nat ->
  parse_bits c q bs = Ok (StaticAndVoyageRelatedData (static_voyage_of bs)).
Proof. intros c q bs Ht Hl. pose proof (msg_type5 c q bs Ht) as H. unfold msg_fixed in H. destruct (Nat.leb_spec 302 (length bs)); [exact H|lia]. Qed.
Print Assumptions C04_type5.

Theorem C04_type24 :
  forall c q bs, sl bs 0 6 = 24 -> (40 <= length bs)%nat -> (static_data_min bs <= length bs)%nat ->
  parse_bits c q bs = Ok (StaticDataReport (static_data_of bs)).
Proof. intros c q bs Ht H40 Hl. pose proof (msg_type24 c q bs Ht H40) as H. destruct (Nat.leb_spec (static_data_min bs) (length bs)); [exact H|lia]. Qed.
Print Assumptions C04_type24.

(* below the model's [take]: the byte-and-shift loop of nom 7.1.3 `bits::complete::take`, transcribed in
   Model/NomBits.v, returns exactly the bit slice and moves the Rust cursor (remaining bytes, bit offset)
   the way the model moves its bit position *)
Theorem C04_nom_take_is_slice :
  forall count input off, Forall (fun b => b < 256) input -> (off < 8)%nat ->
    nom_take count input off =
    if (count =? 0)%nat then Ok ((input, off), 0)
    else if (length input * 8 <? count + off)%nat then Err EError
    else Ok ((skipn ((count + off) / 8) input, ((count + off) mod 8)%nat), sl (bits_of_bytes input) off count).
Proof. exact nom_take_correct. Qed.
Print Assumptions C04_nom_take_is_slice.
Theorem C04_nom_take_refines_model :
  forall w all p, Forall (fun b => b < 256) all -> (p <= 8 * length all)%nat ->
    nom_take w (fst (cursor_of all p)) (snd (cursor_of all p)) =
    match take w (bits_of_bytes all) p with
    | Ok (v, p') => Ok (cursor_of all p', v)
    | Err e => Err e
    | Panic s => Panic s
    end.
Proof. exact nom_take_refines_model. Qed.
Print Assumptions C04_nom_take_refines_model.

Theorem C04_type15 :
  forall c q bs, sl bs 0 6 = 15 ->
    parse_bits c q bs = match interrogation_of bs with Some (m, _) => Ok (Interrogation m) | None => Err ENmea end.
Proof. exact msg_type15_any. Qed.
Print Assumptions C04_type15.
Theorem C04_type15_one_request :
  forall c q bs, sl bs 0 6 = 15 -> length bs = 88%nat -> parse_bits c q bs = Ok (Interrogation (interrogation_88 bs)).
Proof. exact msg_type15_88. Qed.
Print Assumptions C04_type15_one_request.
Theorem C04_type15_two_requests :
  forall c q bs, sl bs 0 6 = 15 -> length bs = 112%nat -> parse_bits c q bs = Ok (Interrogation (interrogation_110 bs)).
Proof. exact msg_type15_110. Qed.
Print Assumptions C04_type15_two_requests.
Theorem C04_type15_two_stations :
  forall c q bs, sl bs 0 6 = 15 -> length bs = 160%nat -> parse_bits c q bs = Ok (Interrogation (interrogation_160 bs)).
Proof. exact msg_type15_160. Qed.
Print Assumptions C04_type15_two_stations.

(* end to end: an unfragmented well-formed sentence whose payload is over the alphabet is decoded,
   with decoding on, as messages::parse of the specification bit stream of its payload (Spec/Armor.v);
   together with the per-type theorems above this gives every field of the sentence's message as a
   slice of the 6-bit values transmitted *)
Theorem C04_end_to_end :
  forall c q st line f hex vals,
    Shaped c line f hex -> xor_fold (body_bytes f) = checksum_read hex ->
    let s := sentence_of_fields q f in
    has_more s = false -> is_fragment s = false ->
    vals_of (af_payload f) = Some vals ->
    noalloc c && (MAX_SENTENCE_SIZE_BYTES <? byte_count (length (af_payload f)))%nat = false ->
    step c q st line true =
    (st, match parse_bits c q (unarmor_bits vals (N.to_nat (dec_value (af_fill f)))) with
         | Ok m => Ok (Complete (with_message s (Some m)))
         | Err e => Err e
         | Panic p => Panic p
         end).
Proof. exact unfragmented_decodes_spec_bits. Qed.
Print Assumptions C04_end_to_end.

(* the hypotheses are met by a real message: the type-4 payload of the repo's README sentence *)
Example C04_nonvacuous :
  let bs := bits_of_bytes [16; 0; 223; 249; 152; 126; 22; 236; 87; 64; 29; 205; 230; 40; 85; 160; 70; 79; 0; 35; 12; 49]%N in
  sl bs 0 6 = 4 /\ (168 <= length bs)%nat.
Proof. vm_compute. split; [reflexivity|]. repeat constructor. Qed.

(* ---------- round trips for the types that end in a list (Proofs/RoundTripLists.v) ----------
   one to four acknowledgements (types 7, 13) or reservations (type 20) of any in-range values, followed by
   less than one element's worth of further bits (byte padding): exactly the transmitted elements come back *)
Theorem C04_roundtrip_type7 :
  forall c q rep mmsi spare acks post,
    in_range (head_fields 7 rep mmsi spare) -> Forall (fun a => in_range (ack_fields a)) acks ->
    (1 <= length acks <= 4)%nat -> (length post < 32)%nat ->
    parse_bits c q (enc (head_fields 7 rep mmsi spare ++ flat_map ack_fields acks) ++ post) =
    Ok (BinaryAcknowledgeMessage {| am_message_type := 7; am_repeat_indicator := rep; am_mmsi := mmsi; am_acks := map ack_of acks |}).
Proof. exact roundtrip_type7. Qed.
Print Assumptions C04_roundtrip_type7.

Theorem C04_roundtrip_type13 :
  forall c q rep mmsi spare acks post,
    in_range (head_fields 13 rep mmsi spare) -> Forall (fun a => in_range (ack_fields a)) acks ->
    (1 <= length acks <= 4)%nat -> (length post < 32)%nat ->
    parse_bits c q (enc (head_fields 13 rep mmsi spare ++ flat_map ack_fields acks) ++ post) =
    Ok (SafetyRelatedAcknowledgment {| am_message_type := 13; am_repeat_indicator := rep; am_mmsi := mmsi; am_acks := map ack_of acks |}).
Proof. exact roundtrip_type13. Qed.
Print Assumptions C04_roundtrip_type13.

Theorem C04_roundtrip_type20 :
  forall c q rep mmsi spare (rs : list (N * N * N * N)) post,
    in_range (head_fields 20 rep mmsi spare) -> Forall (fun r => in_range (reservation_fields r)) rs ->
    (1 <= length rs <= 4)%nat -> (length post < 30)%nat ->
    parse_bits c q (enc (head_fields 20 rep mmsi spare ++ flat_map reservation_fields rs) ++ post) =
    Ok (DataLinkManagementMessage {| dl_message_type := 20; dl_repeat_indicator := rep; dl_mmsi := mmsi; dl_reservations := map reservation_of rs |}).
Proof. exact roundtrip_type20. Qed.
Print Assumptions C04_roundtrip_type20.

(* ---------- round trips for the types whose layout depends on a selector (Proofs/RoundTripForms.v): type 24 part A
   and part B, type 15 with one station and one request (88 bits) and with two stations (160 bits) ---------- *)
Theorem C04_roundtrip_type24a :
  forall c q rep mmsi name post,
  in_range (fields24a rep mmsi name) ->
  let bs := enc (fields24a rep mmsi name) ++ post in
  parse_bits c q bs = Ok (StaticDataReport
    {| sd_message_type := 24; sd_repeat_indicator := rep; sd_mmsi := mmsi; sd_message_part := PartA (text_at bs 40 20) |}).
Proof. exact roundtrip_type24a. Qed.
Print Assumptions C04_roundtrip_type24a.

Theorem C04_roundtrip_type24b :
  forall c q rep mmsi ship vendor model serial callsign bow stern port starboard spare post,
  in_range (fields24b rep mmsi ship vendor model serial callsign bow stern port starboard spare) ->
  let bs := enc (fields24b rep mmsi ship vendor model serial callsign bow stern port starboard spare) ++ post in
  parse_bits c q bs = Ok (StaticDataReport
    {| sd_message_type := 24; sd_repeat_indicator := rep; sd_mmsi := mmsi;
       sd_message_part := PartB (ship_type_parse ship) (text_at bs 48 3) (text_at bs 66 4) model serial (text_at bs 90 7)
                                bow stern port starboard |}).
Proof. exact roundtrip_type24b. Qed.
Print Assumptions C04_roundtrip_type24b.

Theorem C04_roundtrip_type15_88 :
  forall c q rep mmsi sp mmsi1 t11 o11,
  in_range (fields15_88 rep mmsi sp mmsi1 t11 o11) ->
  parse_bits c q (enc (fields15_88 rep mmsi sp mmsi1 t11 o11)) = Ok (Interrogation
    {| in_message_type := 15; in_repeat_indicator := rep; in_mmsi := mmsi;
       in_stations := [{| is_mmsi := mmsi1; is_messages := [{| im_message_type := t11; im_slot_offset := opt_nz o11 |}] |}] |}).
Proof. exact roundtrip_type15_88. Qed.
Print Assumptions C04_roundtrip_type15_88.

Theorem C04_roundtrip_type15_160 :
  forall c q rep mmsi sp mmsi1 t11 o11 sp2 t12 o12 sp3 mmsi2 t21 o21 sp4,
  in_range (fields15_160 rep mmsi sp mmsi1 t11 o11 sp2 t12 o12 sp3 mmsi2 t21 o21 sp4) ->
  parse_bits c q (enc (fields15_160 rep mmsi sp mmsi1 t11 o11 sp2 t12 o12 sp3 mmsi2 t21 o21 sp4)) = Ok (Interrogation
    {| in_message_type := 15; in_repeat_indicator := rep; in_mmsi := mmsi;
       in_stations :=
         [{| is_mmsi := mmsi1;
             is_messages := if negb (t12 =? 0) || (match opt_nz o12 with Some _ => true | None => false end)
                            then [request t11 o11; request t12 o12] else [request t11 o11] |};
          {| is_mmsi := mmsi2; is_messages := [request t21 o21] |}] |}).
Proof. exact roundtrip_type15_160. Qed.
Print Assumptions C04_roundtrip_type15_160.

(* BEGIN generated round trips *)
(* ---------- round trips from field values (generated by tools/gen_roundtrip.py; proofs in Proofs/RoundTrip.v) ----------
   [enc] writes the fields, each as its w-bit big-endian code, one after the other; [in_range] says that
   every value fits its width; [post] is whatever follows (padding, further bits).  The decoded message
   reports the transmitted values themselves: every integer, flag and identifier field is the variable
   that was encoded, whatever the other variables are. *)
Theorem C04_roundtrip_type1 :
  forall c q vrepeat vmmsi vstatus vturn vspeed vaccuracy vlon vlat vcourse vheading vsecond vmaneuver xspare vraim vsync vcomm post,
  in_range (fields1 vrepeat vmmsi vstatus vturn vspeed vaccuracy vlon vlat vcourse vheading vsecond vmaneuver xspare vraim vsync vcomm) ->
  let bs := enc (fields1 vrepeat vmmsi vstatus vturn vspeed vaccuracy vlon vlat vcourse vheading vsecond vmaneuver xspare vraim vsync vcomm) ++ post in
  parse_bits c q bs = Ok (PositionReport
  ({| pr_message_type := 1; pr_repeat_indicator := vrepeat; pr_mmsi := vmmsi;
     pr_navigation_status := nav_status_parse (vstatus);
     pr_rate_of_turn := rate_of_turn_parse (vturn);
     pr_speed_over_ground := parse_speed_over_ground (vspeed);
     pr_position_accuracy := (if vaccuracy =? 1 then Dgps else Unaugmented);
     pr_longitude := parse_longitude (sext 28 (vlon));
     pr_latitude := parse_latitude (sext 27 (vlat));
     pr_course_over_ground := parse_cog (vcourse);
     pr_true_heading := parse_heading (vheading);
     pr_timestamp := vsecond;
     pr_maneuver_indicator := maneuver_parse (vmaneuver);
     pr_raim := (vraim =? 1);
     pr_radio_status := if 1 =? 3 then itdma_at bs 149 else sotdma_at bs 149 |})).
Proof. exact roundtrip_type1. Qed.
Print Assumptions C04_roundtrip_type1.

Theorem C04_roundtrip_type2 :
  forall c q vrepeat vmmsi vstatus vturn vspeed vaccuracy vlon vlat vcourse vheading vsecond vmaneuver xspare vraim vsync vcomm post,
  in_range (fields2 vrepeat vmmsi vstatus vturn vspeed vaccuracy vlon vlat vcourse vheading vsecond vmaneuver xspare vraim vsync vcomm) ->
  let bs := enc (fields2 vrepeat vmmsi vstatus vturn vspeed vaccuracy vlon vlat vcourse vheading vsecond vmaneuver xspare vraim vsync vcomm) ++ post in
  parse_bits c q bs = Ok (PositionReport
  ({| pr_message_type := 2; pr_repeat_indicator := vrepeat; pr_mmsi := vmmsi;
     pr_navigation_status := nav_status_parse (vstatus);
     pr_rate_of_turn := rate_of_turn_parse (vturn);
     pr_speed_over_ground := parse_speed_over_ground (vspeed);
     pr_position_accuracy := (if vaccuracy =? 1 then Dgps else Unaugmented);
     pr_longitude := parse_longitude (sext 28 (vlon));
     pr_latitude := parse_latitude (sext 27 (vlat));
     pr_course_over_ground := parse_cog (vcourse);
     pr_true_heading := parse_heading (vheading);
     pr_timestamp := vsecond;
     pr_maneuver_indicator := maneuver_parse (vmaneuver);
     pr_raim := (vraim =? 1);
     pr_radio_status := if 2 =? 3 then itdma_at bs 149 else sotdma_at bs 149 |})).
Proof. exact roundtrip_type2. Qed.
Print Assumptions C04_roundtrip_type2.

Theorem C04_roundtrip_type3 :
  forall c q vrepeat vmmsi vstatus vturn vspeed vaccuracy vlon vlat vcourse vheading vsecond vmaneuver xspare vraim vsync vcomm post,
  in_range (fields3 vrepeat vmmsi vstatus vturn vspeed vaccuracy vlon vlat vcourse vheading vsecond vmaneuver xspare vraim vsync vcomm) ->
  let bs := enc (fields3 vrepeat vmmsi vstatus vturn vspeed vaccuracy vlon vlat vcourse vheading vsecond vmaneuver xspare vraim vsync vcomm) ++ post in
  parse_bits c q bs = Ok (PositionReport
  ({| pr_message_type := 3; pr_repeat_indicator := vrepeat; pr_mmsi := vmmsi;
     pr_navigation_status := nav_status_parse (vstatus);
     pr_rate_of_turn := rate_of_turn_parse (vturn);
     pr_speed_over_ground := parse_speed_over_ground (vspeed);
     pr_position_accuracy := (if vaccuracy =? 1 then Dgps else Unaugmented);
     pr_longitude := parse_longitude (sext 28 (vlon));
     pr_latitude := parse_latitude (sext 27 (vlat));
     pr_course_over_ground := parse_cog (vcourse);
     pr_true_heading := parse_heading (vheading);
     pr_timestamp := vsecond;
     pr_maneuver_indicator := maneuver_parse (vmaneuver);
     pr_raim := (vraim =? 1);
     pr_radio_status := if 3 =? 3 then itdma_at bs 149 else sotdma_at bs 149 |})).
Proof. exact roundtrip_type3. Qed.
Print Assumptions C04_roundtrip_type3.

Theorem C04_roundtrip_type4 :
  forall c q vrepeat vmmsi vyear vmonth vday vhour vminute vsecond vaccuracy vlon vlat vepfd xspare vraim vsync vcomm post,
  in_range (fields4 vrepeat vmmsi vyear vmonth vday vhour vminute vsecond vaccuracy vlon vlat vepfd xspare vraim vsync vcomm) ->
  let bs := enc (fields4 vrepeat vmmsi vyear vmonth vday vhour vminute vsecond vaccuracy vlon vlat vepfd xspare vraim vsync vcomm) ++ post in
  parse_bits c q bs = Ok (BaseStationReport
  ({| bs_message_type := 4; bs_repeat_indicator := vrepeat; bs_mmsi := vmmsi;
     bs_year := opt_nz (vyear); bs_month := opt_nz (vmonth); bs_day := opt_nz (vday);
     bs_hour := vhour; bs_minute := minsec_conv (vminute); bs_second := minsec_conv (vsecond);
     bs_fix_quality := (if vaccuracy =? 1 then Dgps else Unaugmented);
     bs_longitude := parse_longitude (sext 28 (vlon));
     bs_latitude := parse_latitude (sext 27 (vlat));
     bs_epfd_type := epfd_type_parse (vepfd);
     bs_raim := (vraim =? 1);
     bs_radio_status := sotdma_at bs 149 |})).
Proof. exact roundtrip_type4. Qed.
Print Assumptions C04_roundtrip_type4.

Theorem C04_roundtrip_type11 :
  forall c q vrepeat vmmsi vyear vmonth vday vhour vminute vsecond vaccuracy vlon vlat vepfd xspare vraim vsync vcomm post,
  in_range (fields11 vrepeat vmmsi vyear vmonth vday vhour vminute vsecond vaccuracy vlon vlat vepfd xspare vraim vsync vcomm) ->
  let bs := enc (fields11 vrepeat vmmsi vyear vmonth vday vhour vminute vsecond vaccuracy vlon vlat vepfd xspare vraim vsync vcomm) ++ post in
  parse_bits c q bs = Ok (UtcDateResponse
  ({| bs_message_type := 11; bs_repeat_indicator := vrepeat; bs_mmsi := vmmsi;
     bs_year := opt_nz (vyear); bs_month := opt_nz (vmonth); bs_day := opt_nz (vday);
     bs_hour := vhour; bs_minute := minsec_conv (vminute); bs_second := minsec_conv (vsecond);
     bs_fix_quality := (if vaccuracy =? 1 then Dgps else Unaugmented);
     bs_longitude := parse_longitude (sext 28 (vlon));
     bs_latitude := parse_latitude (sext 27 (vlat));
     bs_epfd_type := epfd_type_parse (vepfd);
     bs_raim := (vraim =? 1);
     bs_radio_status := sotdma_at bs 149 |})).
Proof. exact roundtrip_type11. Qed.
Print Assumptions C04_roundtrip_type11.

Theorem C04_roundtrip_type5 :
  forall c q vrepeat vmmsi vversion vimo vcallsign vname vshiptype vbow vstern vport vstarboard vepfd vmonth vday vhour vminute vdraught vdestination vdte xspare post,
  in_range (fields5 vrepeat vmmsi vversion vimo vcallsign vname vshiptype vbow vstern vport vstarboard vepfd vmonth vday vhour vminute vdraught vdestination vdte xspare) ->
  let bs := enc (fields5 vrepeat vmmsi vversion vimo vcallsign vname vshiptype vbow vstern vport vstarboard vepfd vmonth vday vhour vminute vdraught vdestination vdte xspare) ++ post in
  parse_bits c q bs = Ok (StaticAndVoyageRelatedData
  (let rem := (length bs - 302)%nat in
  let dest_chars := (Nat.min 120 rem / 6)%nat in
  let after := (302 + 6 * dest_chars)%nat in
  {| sv_message_type := 5; sv_repeat_indicator := vrepeat; sv_mmsi := vmmsi;
     sv_ais_version := vversion; sv_imo_number := vimo;
     sv_callsign := text_at bs 70 7; sv_vessel_name := text_at bs 112 20;
     sv_ship_type := ship_type_parse (vshiptype);
     sv_dimension_to_bow := vbow; sv_dimension_to_stern := vstern;
     sv_dimension_to_port := vport; sv_dimension_to_starboard := vstarboard;
     sv_epfd_type := epfd_type_parse (vepfd);
     sv_eta_month_utc := opt_nz (vmonth); sv_eta_day_utc := opt_nz (vday);
     sv_eta_hour_utc := vhour; sv_eta_minute_utc := minsec_conv (vminute);
     sv_draught := FDiv (FOfInt (Z.of_N (vdraught))) 10;
     sv_destination := text_at bs 302 dest_chars;
     sv_dte := if (after <? length bs)%nat then dte_at bs after else DteNotReady |})).
Proof. exact roundtrip_type5. Qed.
Print Assumptions C04_roundtrip_type5.

Theorem C04_roundtrip_type6 :
  forall c q vrepeat vmmsi vseqno vdest vretransmit xspare vdac vfid post,
  in_range (fields6 vrepeat vmmsi vseqno vdest vretransmit xspare vdac vfid) ->
  noalloc c = false ->
  let bs := enc (fields6 vrepeat vmmsi vseqno vdest vretransmit xspare vdac vfid) ++ post in
  parse_bits c q bs = Ok (BinaryAddressedMessage
  ({| ba_message_type := 6; ba_repeat_indicator := vrepeat; ba_mmsi := vmmsi;
     ba_seqno := vseqno; ba_dest_mmsi := vdest; ba_retransmit := (vretransmit =? 1);
     ba_dac := vdac; ba_fid := vfid;
     ba_data := bytes_of_bits (skipn 88 bs) |})).
Proof. exact roundtrip_type6. Qed.
Print Assumptions C04_roundtrip_type6.

Theorem C04_roundtrip_type8 :
  forall c q vrepeat vmmsi xspare vdac vfid post,
  in_range (fields8 vrepeat vmmsi xspare vdac vfid) ->
  noalloc c = false ->
  let bs := enc (fields8 vrepeat vmmsi xspare vdac vfid) ++ post in
  parse_bits c q bs = Ok (BinaryBroadcastMessage
  ({| bb_message_type := 8; bb_repeat_indicator := vrepeat; bb_mmsi := vmmsi;
     bb_dac := vdac; bb_fid := vfid;
     bb_data := bytes_of_bits (skipn 56 bs) |})).
Proof. exact roundtrip_type8. Qed.
Print Assumptions C04_roundtrip_type8.

Theorem C04_roundtrip_type10 :
  forall c q vrepeat vmmsi xspare vdest xspare2 post,
  in_range (fields10 vrepeat vmmsi xspare vdest xspare2) ->
  let bs := enc (fields10 vrepeat vmmsi xspare vdest xspare2) ++ post in
  parse_bits c q bs = Ok (UtcDateInquiry
  ({| ui_message_type := 10; ui_repeat_indicator := vrepeat; ui_mmsi := vmmsi;
     ui_dest_mmsi := vdest |})).
Proof. exact roundtrip_type10. Qed.
Print Assumptions C04_roundtrip_type10.

Theorem C04_roundtrip_type12 :
  forall c q vrepeat vmmsi vseqno vdest vretransmit xspare vchar1 post,
  in_range (fields12 vrepeat vmmsi vseqno vdest vretransmit xspare vchar1) ->
  noalloc c = false ->
  let bs := enc (fields12 vrepeat vmmsi vseqno vdest vretransmit xspare vchar1) ++ post in
  parse_bits c q bs = Ok (AddressedSafetyRelatedMessage
  ({| as_message_type := 12; as_repeat_indicator := vrepeat; as_mmsi := vmmsi;
     as_seqno := vseqno; as_dest_mmsi := vdest; as_retransmit := (vretransmit =? 1);
     as_text := text_at bs 72 ((length bs - 72) / 6) |})).
Proof. exact roundtrip_type12. Qed.
Print Assumptions C04_roundtrip_type12.

Theorem C04_roundtrip_type14 :
  forall c q vrepeat vmmsi xspare vchar1 post,
  in_range (fields14 vrepeat vmmsi xspare vchar1) ->
  noalloc c = false ->
  let bs := enc (fields14 vrepeat vmmsi xspare vchar1) ++ post in
  parse_bits c q bs = Ok (SafetyRelatedBroadcastMessage
  ({| sb_message_type := 14; sb_repeat_indicator := vrepeat; sb_mmsi := vmmsi;
     sb_text := text_at bs 40 ((length bs - 40) / 6) |})).
Proof. exact roundtrip_type14. Qed.
Print Assumptions C04_roundtrip_type14.

Theorem C04_roundtrip_type16 :
  forall c q vrepeat vmmsi xspare vmmsi1 voffset1 vincrement1 vmmsi2 voffset2 vincrement2 post,
  in_range (fields16 vrepeat vmmsi xspare vmmsi1 voffset1 vincrement1 vmmsi2 voffset2 vincrement2) ->
  let bs := enc (fields16 vrepeat vmmsi xspare vmmsi1 voffset1 vincrement1 vmmsi2 voffset2 vincrement2) ++ post in
  parse_bits c q bs = Ok (AssignmentModeCommand
  (let two := (144 <=? length bs)%nat in
  {| ac_message_type := 16; ac_repeat_indicator := vrepeat; ac_mmsi := vmmsi;
     ac_mmsi1 := vmmsi1; ac_offset1 := voffset1; ac_increment1 := vincrement1;
     ac_mmsi2 := if two then Some (vmmsi2) else None;
     ac_offset2 := if two then Some (voffset2) else None;
     ac_increment2 := if two then Some (vincrement2) else None |})).
Proof. exact roundtrip_type16. Qed.
Print Assumptions C04_roundtrip_type16.

Theorem C04_roundtrip_type17 :
  forall c q vrepeat vmmsi xspare vlon vlat xspare2 vdtype vstation vzcount vseq vn vhealth post,
  in_range (fields17 vrepeat vmmsi xspare vlon vlat xspare2 vdtype vstation vzcount vseq vn vhealth) ->
  noalloc c = false ->
  let bs := enc (fields17 vrepeat vmmsi xspare vlon vlat xspare2 vdtype vstation vzcount vseq vn vhealth) ++ post in
  parse_bits c q bs = Ok (DgnssBroadcastBinaryMessage
  ({| dg_message_type := 17; dg_repeat_indicator := vrepeat; dg_mmsi := vmmsi;
     dg_longitude := parse_longitude_min_10 (sext 18 (vlon));
     dg_latitude := parse_latitude_min_10 (sext 17 (vlat));
     dg_payload :=
       {| cd_message_type := vdtype; cd_station_id := vstation; cd_z_count := vzcount;
          cd_sequence_number := vseq; cd_n := vn; cd_health := vhealth;
          cd_data := bytes_of_bits (skipn 120 bs) |} |})).
Proof. exact roundtrip_type17. Qed.
Print Assumptions C04_roundtrip_type17.

Theorem C04_roundtrip_type18 :
  forall c q vrepeat vmmsi xreserved vspeed vaccuracy vlon vlat vcourse vheading vsecond xreserved2 vcs vdisplay vdsc vband vmsg22 vassigned vraim vselector vsync vcomm post,
  in_range (fields18 vrepeat vmmsi xreserved vspeed vaccuracy vlon vlat vcourse vheading vsecond xreserved2 vcs vdisplay vdsc vband vmsg22 vassigned vraim vselector vsync vcomm) ->
  let bs := enc (fields18 vrepeat vmmsi xreserved vspeed vaccuracy vlon vlat vcourse vheading vsecond xreserved2 vcs vdisplay vdsc vband vmsg22 vassigned vraim vselector vsync vcomm) ++ post in
  parse_bits c q bs = Ok (StandardClassBPositionReport
  ({| cb_message_type := 18; cb_repeat_indicator := vrepeat; cb_mmsi := vmmsi;
     cb_speed_over_ground := parse_speed_over_ground (vspeed);
     cb_position_accuracy := (if vaccuracy =? 1 then Dgps else Unaugmented);
     cb_longitude := parse_longitude (sext 28 (vlon));
     cb_latitude := parse_latitude (sext 27 (vlat));
     cb_course_over_ground := parse_cog (vcourse);
     cb_true_heading := parse_heading (vheading);
     cb_timestamp := vsecond;
     cb_cs_unit := (if vcs =? 1 then CsCarrierSense else CsSotdma);
     cb_has_display := (vdisplay =? 1); cb_has_dsc := (vdsc =? 1); cb_whole_band := (vband =? 1);
     cb_accepts_message_22 := (vmsg22 =? 1);
     cb_assigned_mode := (if vassigned =? 1 then Assigned else Autonomous);
     cb_raim := (vraim =? 1);
     cb_radio_status := if (vselector =? 1) then itdma_at bs 149 else sotdma_at bs 149 |})).
Proof. exact roundtrip_type18. Qed.
Print Assumptions C04_roundtrip_type18.

Theorem C04_roundtrip_type19 :
  forall c q vrepeat vmmsi xreserved vspeed vaccuracy vlon vlat vcourse vheading vsecond xreserved2 vname vshiptype vbow vstern vport vstarboard vepfd vraim vdte vassigned xspare post,
  in_range (fields19 vrepeat vmmsi xreserved vspeed vaccuracy vlon vlat vcourse vheading vsecond xreserved2 vname vshiptype vbow vstern vport vstarboard vepfd vraim vdte vassigned xspare) ->
  let bs := enc (fields19 vrepeat vmmsi xreserved vspeed vaccuracy vlon vlat vcourse vheading vsecond xreserved2 vname vshiptype vbow vstern vport vstarboard vepfd vraim vdte vassigned xspare) ++ post in
  parse_bits c q bs = Ok (ExtendedClassBPositionReport
  ({| eb_message_type := 19; eb_repeat_indicator := vrepeat; eb_mmsi := vmmsi;
     eb_speed_over_ground := parse_speed_over_ground (vspeed);
     eb_position_accuracy := (if vaccuracy =? 1 then Dgps else Unaugmented);
     eb_longitude := parse_longitude (sext 28 (vlon));
     eb_latitude := parse_latitude (sext 27 (vlat));
     eb_course_over_ground := parse_cog (vcourse);
     eb_true_heading := parse_heading (vheading);
     eb_timestamp := vsecond;
     eb_name := text_at bs 143 20;
     eb_type_of_ship_and_cargo := ship_type_parse (vshiptype);
     eb_dimension_to_bow := vbow; eb_dimension_to_stern := vstern;
     eb_dimension_to_port := vport; eb_dimension_to_starboard := vstarboard;
     eb_epfd_type := epfd_type_parse (vepfd);
     eb_raim := (vraim =? 1);
     eb_dte := (if vdte =? 1 then DteNotReady else DteReady);
     eb_assigned_mode := (if vassigned =? 1 then Assigned else Autonomous) |})).
Proof. exact roundtrip_type19. Qed.
Print Assumptions C04_roundtrip_type19.

Theorem C04_roundtrip_type21 :
  forall c q vrepeat vmmsi vaidtype vname vaccuracy vlon vlat vbow vstern vport vstarboard vepfd vsecond voffposition vregional vraim vvirtual vassigned xspare post,
  in_range (fields21 vrepeat vmmsi vaidtype vname vaccuracy vlon vlat vbow vstern vport vstarboard vepfd vsecond voffposition vregional vraim vvirtual vassigned xspare) ->
  let bs := enc (fields21 vrepeat vmmsi vaidtype vname vaccuracy vlon vlat vbow vstern vport vstarboard vepfd vsecond voffposition vregional vraim vvirtual vassigned xspare) ++ post in
  parse_bits c q bs = Ok (AidToNavigationReport
  ({| an_message_type := 21; an_repeat_indicator := vrepeat; an_mmsi := vmmsi;
     an_aid_type := navaid_type_parse (vaidtype);
     an_name := text_at bs 43 20;
     an_accuracy := (if vaccuracy =? 1 then Dgps else Unaugmented);
     an_longitude := parse_longitude (sext 28 (vlon));
     an_latitude := parse_latitude (sext 27 (vlat));
     an_dimension_to_bow := vbow; an_dimension_to_stern := vstern;
     an_dimension_to_port := vport; an_dimension_to_starboard := vstarboard;
     an_epfd_type := epfd_type_parse (vepfd);
     an_utc_second := vsecond;
     an_off_position := (voffposition =? 1);
     an_regional_reserved := vregional;
     an_raim := (vraim =? 1); an_virtual_aid := (vvirtual =? 1); an_assigned_mode := (vassigned =? 1) |})).
Proof. exact roundtrip_type21. Qed.
Print Assumptions C04_roundtrip_type21.

Theorem C04_roundtrip_type27 :
  forall c q vrepeat vmmsi vaccuracy vraim vstatus vlon vlat vspeed vcourse vgnss xspare post,
  in_range (fields27 vrepeat vmmsi vaccuracy vraim vstatus vlon vlat vspeed vcourse vgnss xspare) ->
  let bs := enc (fields27 vrepeat vmmsi vaccuracy vraim vstatus vlon vlat vspeed vcourse vgnss xspare) ++ post in
  parse_bits c q bs = Ok (LongRangeAisBroadcastMessage
  ({| lr_message_type := 27; lr_repeat_indicator := vrepeat; lr_mmsi := vmmsi;
     lr_position_accuracy := (if vaccuracy =? 1 then Dgps else Unaugmented);
     lr_raim := (vraim =? 1);
     lr_navigation_status := nav_status_parse (vstatus);
     lr_longitude := lr_longitude_conv (27) (sext 18 (vlon));
     lr_latitude := lr_latitude_conv (27) (sext 17 (vlat));
     lr_speed_over_ground := parse_speed_over_ground_62 (vspeed);
     lr_course_over_ground := parse_cog_511 (vcourse);
     lr_gnss_position_status := (vgnss =? 1) |})).
Proof. exact roundtrip_type27. Qed.
Print Assumptions C04_roundtrip_type27.


(* from field values over the air to field values: the values are encoded, armoured, cut into 2..255 fragments at any
   character boundaries, framed with sequence id, fill count and checksums, and fed to a parser in any state; the
   last result is Complete and its message carries exactly the values (Proofs/Transmit.v + the round trips above;
   stated here for the three types that need more than one sentence, proved for all fifteen in Proofs/AirRoundTrip.v) *)
Theorem C04_air_roundtrip_type5 :
  forall c q st id chan vrepeat vmmsi vversion vimo vcallsign vname vshiptype vbow vstern vport vstarboard vepfd vmonth vday vhour vminute vdraught vdestination vdte xspare parts ds,
  let bits := enc (fields5 vrepeat vmmsi vversion vimo vcallsign vname vshiptype vbow vstern vport vstarboard vepfd vmonth vday vhour vminute vdraught vdestination vdte xspare) in
  in_range (fields5 vrepeat vmmsi vversion vimo vcallsign vname vshiptype vbow vstern vport vstarboard vepfd vmonth vday vhour vminute vdraught vdestination vdte xspare) ->
  concat parts = armored_payload bits ->
  group_ok c id chan parts (N.of_nat (fill_of bits)) ->
  (2 <= length parts <= 255)%nat -> length ds = length parts -> last ds false = true ->
  noalloc c && (MAX_SENTENCE_SIZE_BYTES <? byte_count (length (armored_payload bits)))%nat = false ->
  exists k, let bs := bits ++ repeat false k in
    last (snd (run c q st (combine (transmit id chan parts (N.of_nat (fill_of bits))) ds))) (Err ENmea) =
    Ok (Complete (with_message
      (with_data (last (group_sentences q (N.of_nat (length parts)) 1 id chan parts (N.of_nat (fill_of bits)))
                       (sentence_of_fields q (frame_fields 0 0 None 0 [] 0))) (armored_payload bits))
      (Some (StaticAndVoyageRelatedData
  (let rem := (length bs - 302)%nat in
  let dest_chars := (Nat.min 120 rem / 6)%nat in
  let after := (302 + 6 * dest_chars)%nat in
  {| sv_message_type := 5; sv_repeat_indicator := vrepeat; sv_mmsi := vmmsi;
     sv_ais_version := vversion; sv_imo_number := vimo;
     sv_callsign := text_at bs 70 7; sv_vessel_name := text_at bs 112 20;
     sv_ship_type := ship_type_parse (vshiptype);
     sv_dimension_to_bow := vbow; sv_dimension_to_stern := vstern;
     sv_dimension_to_port := vport; sv_dimension_to_starboard := vstarboard;
     sv_epfd_type := epfd_type_parse (vepfd);
     sv_eta_month_utc := opt_nz (vmonth); sv_eta_day_utc := opt_nz (vday);
     sv_eta_hour_utc := vhour; sv_eta_minute_utc := minsec_conv (vminute);
     sv_draught := FDiv (FOfInt (Z.of_N (vdraught))) 10;
     sv_destination := text_at bs 302 dest_chars;
     sv_dte := if (after <? length bs)%nat then dte_at bs after else DteNotReady |}))))).
Proof. exact air_roundtrip_type5. Qed.
Print Assumptions C04_air_roundtrip_type5.

Theorem C04_air_roundtrip_type19 :
  forall c q st id chan vrepeat vmmsi xreserved vspeed vaccuracy vlon vlat vcourse vheading vsecond xreserved2 vname vshiptype vbow vstern vport vstarboard vepfd vraim vdte vassigned xspare parts ds,
  let bits := enc (fields19 vrepeat vmmsi xreserved vspeed vaccuracy vlon vlat vcourse vheading vsecond xreserved2 vname vshiptype vbow vstern vport vstarboard vepfd vraim vdte vassigned xspare) in
  in_range (fields19 vrepeat vmmsi xreserved vspeed vaccuracy vlon vlat vcourse vheading vsecond xreserved2 vname vshiptype vbow vstern vport vstarboard vepfd vraim vdte vassigned xspare) ->
  concat parts = armored_payload bits ->
  group_ok c id chan parts (N.of_nat (fill_of bits)) ->
  (2 <= length parts <= 255)%nat -> length ds = length parts -> last ds false = true ->
  noalloc c && (MAX_SENTENCE_SIZE_BYTES <? byte_count (length (armored_payload bits)))%nat = false ->
  exists k, let bs := bits ++ repeat false k in
    last (snd (run c q st (combine (transmit id chan parts (N.of_nat (fill_of bits))) ds))) (Err ENmea) =
    Ok (Complete (with_message
      (with_data (last (group_sentences q (N.of_nat (length parts)) 1 id chan parts (N.of_nat (fill_of bits)))
                       (sentence_of_fields q (frame_fields 0 0 None 0 [] 0))) (armored_payload bits))
      (Some (ExtendedClassBPositionReport
  ({| eb_message_type := 19; eb_repeat_indicator := vrepeat; eb_mmsi := vmmsi;
     eb_speed_over_ground := parse_speed_over_ground (vspeed);
     eb_position_accuracy := (if vaccuracy =? 1 then Dgps else Unaugmented);
     eb_longitude := parse_longitude (sext 28 (vlon));
     eb_latitude := parse_latitude (sext 27 (vlat));
     eb_course_over_ground := parse_cog (vcourse);
     eb_true_heading := parse_heading (vheading);
     eb_timestamp := vsecond;
     eb_name := text_at bs 143 20;
     eb_type_of_ship_and_cargo := ship_type_parse (vshiptype);
     eb_dimension_to_bow := vbow; eb_dimension_to_stern := vstern;
     eb_dimension_to_port := vport; eb_dimension_to_starboard := vstarboard;
     eb_epfd_type := epfd_type_parse (vepfd);
     eb_raim := (vraim =? 1);
     eb_dte := (if vdte =? 1 then DteNotReady else DteReady);
     eb_assigned_mode := (if vassigned =? 1 then Assigned else Autonomous) |}))))).
Proof. exact air_roundtrip_type19. Qed.
Print Assumptions C04_air_roundtrip_type19.

Theorem C04_air_roundtrip_type21 :
  forall c q st id chan vrepeat vmmsi vaidtype vname vaccuracy vlon vlat vbow vstern vport vstarboard vepfd vsecond voffposition vregional vraim vvirtual vassigned xspare parts ds,
  let bits := enc (fields21 vrepeat vmmsi vaidtype vname vaccuracy vlon vlat vbow vstern vport vstarboard vepfd vsecond voffposition vregional vraim vvirtual vassigned xspare) in
  in_range (fields21 vrepeat vmmsi vaidtype vname vaccuracy vlon vlat vbow vstern vport vstarboard vepfd vsecond voffposition vregional vraim vvirtual vassigned xspare) ->
  concat parts = armored_payload bits ->
  group_ok c id chan parts (N.of_nat (fill_of bits)) ->
  (2 <= length parts <= 255)%nat -> length ds = length parts -> last ds false = true ->
  noalloc c && (MAX_SENTENCE_SIZE_BYTES <? byte_count (length (armored_payload bits)))%nat = false ->
  exists k, let bs := bits ++ repeat false k in
    last (snd (run c q st (combine (transmit id chan parts (N.of_nat (fill_of bits))) ds))) (Err ENmea) =
    Ok (Complete (with_message
      (with_data (last (group_sentences q (N.of_nat (length parts)) 1 id chan parts (N.of_nat (fill_of bits)))
                       (sentence_of_fields q (frame_fields 0 0 None 0 [] 0))) (armored_payload bits))
      (Some (AidToNavigationReport
  ({| an_message_type := 21; an_repeat_indicator := vrepeat; an_mmsi := vmmsi;
     an_aid_type := navaid_type_parse (vaidtype);
     an_name := text_at bs 43 20;
     an_accuracy := (if vaccuracy =? 1 then Dgps else Unaugmented);
     an_longitude := parse_longitude (sext 28 (vlon));
     an_latitude := parse_latitude (sext 27 (vlat));
     an_dimension_to_bow := vbow; an_dimension_to_stern := vstern;
     an_dimension_to_port := vport; an_dimension_to_starboard := vstarboard;
     an_epfd_type := epfd_type_parse (vepfd);
     an_utc_second := vsecond;
     an_off_position := (voffposition =? 1);
     an_regional_reserved := vregional;
     an_raim := (vraim =? 1); an_virtual_aid := (vvirtual =? 1); an_assigned_mode := (vassigned =? 1) |}))))).
Proof. exact air_roundtrip_type21. Qed.
Print Assumptions C04_air_roundtrip_type21.
(* END generated round trips *)

(* non-vacuity of the round trips: a concrete assignment is in range, and the encoded payload is the
   one of the repository's own type 18 test vector up to its first 38 bits *)
(* what a message says does not depend on how its sentence is dressed: two unfragmented sentences, accepted at the
   sentence level, with the same payload and the same fill count decode alike — the same message or the same failure —
   whatever their TAG blocks, delimiters, talkers, report types, sequence ids, channels, spellings of the numbers, and
   whatever follows their checksums; and in whatever states the two parsers are ([decoded], Proofs/Dressing.v) *)
Theorem C04_message_depends_on_payload_and_fill_only :
  forall c q st1 st2 line1 line2 f1 f2 hex1 hex2,
    Shaped c line1 f1 hex1 -> Shaped c line2 f2 hex2 ->
    xor_fold (body_bytes f1) = checksum_read hex1 -> xor_fold (body_bytes f2) = checksum_read hex2 ->
    dec_value (af_count f1) = 1 -> dec_value (af_number f1) = 1 ->
    dec_value (af_count f2) = 1 -> dec_value (af_number f2) = 1 ->
    af_payload f1 = af_payload f2 -> dec_value (af_fill f1) = dec_value (af_fill f2) ->
    decoded (snd (step c q st1 line1 true)) = decoded (snd (step c q st2 line2 true)).
Proof. exact message_depends_on_payload_and_fill_only. Qed.
Print Assumptions C04_message_depends_on_payload_and_fill_only.

Example C04_roundtrip_nonvacuous :
  in_range (fields18 0 423302100 15 14 1 53010996 19394016 1772 511 20 0 1 1 1 1 0 0 1 1 3 100) /\
  match parse_bits Std quirks_asis (enc (fields18 0 423302100 15 14 1 53010996 19394016 1772 511 20 0 1 1 1 1 0 0 1 1 3 100)) with
  | Ok (StandardClassBPositionReport r) => cb_mmsi r = 423302100 /\ cb_timestamp r = 20 /\ cb_has_dsc r = true
  | _ => False
  end.
Proof. split; [repeat constructor|vm_compute; repeat split; reflexivity]. Qed.
