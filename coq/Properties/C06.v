(* Property C06 — only a complete in-order group ever produces a multi-fragment message. *)
From Ais Require Import Model.Base Model.Sentence Spec.Grammar Proofs.SentenceLemmas Proofs.Reassembly Proofs.Histories Proofs.Strings.
From Coq Require Import String.
Local Open Scope N_scope.

(* The ghost-instrumented run [grun] (Proofs/Histories.v) carries, next to the parser state, the
   list [g_open] of (history index, sentence) of the fragments accepted into the open group.
   It computes exactly the real run: *)
Theorem C06_ghost_is_faithful :
  forall c q i g h, let '(g', os) := grun c q i g h in (g_st g', map fst os) = run c q (g_st g) h.
Proof. exact grun_erase. Qed.
Print Assumptions C06_ghost_is_faithful.

(* acceptance: a sentence that declares itself fragment k >= 2 of a multi-fragment message is
   accepted only if the group is open (opened by a fragment 1, numbered consecutively, not
   delivered), its last accepted fragment is fragment k-1 and carries the same sequence id *)
Theorem C06_accept_continues_open_group :
  forall c q i g s d f,
    data_fits c s -> Inv i g ->
    snd (handle c q (g_st g) s d) = Ok f ->
    2 <= s_fragment_number s -> (has_more s = true \/ is_fragment s = true) ->
    exists j t pre,
      g_open g = pre ++ [(j, t)] /\
      s_fragment_number t + 1 = s_fragment_number s /\
      s_message_id t = s_message_id s /\
      numbered 1 (s_message_id s) (g_open g) /\
      (j < i)%nat.
Proof. exact accept_needs_open_group. Qed.
Print Assumptions C06_accept_continues_open_group.

(* every history, from the fresh parser: the invariant holds at the end and every Complete result
   of a fragment sentence is a [GoodDelivery]: fragments 1..k of one id, taken from strictly
   increasing history positions ending at the delivering line, each accepted as Incomplete into
   this group and into no other (the group list is emptied on delivery), and the delivered
   payload is their in-order concatenation *)
Theorem C06_every_delivery_is_a_complete_group :
  forall c q h,
    let '(g', os) := grun c q 0 g_init h in
    Inv (List.length h) g' /\
    forall k o dl, nth_error os k = Some (o, dl) -> delivery_ok c q h 0 k o dl.
Proof. intros c q h. exact (grun_deliveries c q 0 g_init h Inv_init). Qed.
Print Assumptions C06_every_delivery_is_a_complete_group.

(* the step-level invariant, for reference *)
Theorem C06_invariant_step :
  forall c q i g s d, data_fits c s -> Inv i g ->
    let '(g', o, dl) := ghandle c q i g s d in
    Inv (S i) g' /\
    match dl with
    | Some l => GoodDelivery i s l o c q d
    | None => forall s', o = Ok (Complete s') -> is_fragment s = false
    end.
Proof. exact ghandle_inv. Qed.
Print Assumptions C06_invariant_step.

(* named consequences.  A "continuation" is a sentence declaring itself fragment k >= 2 of a
   multi-fragment message.  Duplicated, lost-predecessor and reordered fragments: *)
Theorem C06_wrong_number_rejected :
  forall c q st s d, data_fits c s -> is_continuation s -> s_fragment_number s <> p_fn st + 1 ->
    handle c q st s d = (st, Err ENmea).
Proof. exact wrong_number_rejected. Qed.
Print Assumptions C06_wrong_number_rejected.

(* id-mismatched fragments: *)
Theorem C06_wrong_id_rejected :
  forall c q st s d, data_fits c s -> is_continuation s -> s_message_id s <> p_id st ->
    handle c q st s d = (st, Err ENmea).
Proof. exact wrong_id_rejected. Qed.
Print Assumptions C06_wrong_id_rejected.

(* orphaned and stale fragments (no group open: fresh parser, or the group was delivered): *)
Theorem C06_orphan_rejected :
  forall c q st s d, data_fits c s -> is_continuation s -> p_fn st = 0 -> handle c q st s d = (st, Err ENmea).
Proof. exact orphan_rejected. Qed.
Print Assumptions C06_orphan_rejected.

Theorem C06_delivery_closes_group :
  forall c q st s d st' o, data_fits c s -> classify c st s = FinalFragment -> handle c q st s d = (st', o) ->
    p_fn st' = 0 /\ p_data st' = [].
Proof. exact delivery_closes_group. Qed.
Print Assumptions C06_delivery_closes_group.

(* non-vacuity: the two-fragment test vector of the repository delivers, and a stale fragment 2
   afterwards is rejected *)
Example C06_nonvacuous :
  let h := [(bytes "!AIVDM,2,1,1,B,53`soB8000010KSOW<0P4eDp4l6000000000000U0p<24t@P05H3S833CDP00000,0*78", false);
            (bytes "!AIVDM,2,2,1,B,0000000,2*26", false);
            (bytes "!AIVDM,2,2,1,B,0000000,2*26", false)] in
  match snd (run Std quirks_asis p_init h) with
  | [Ok (Incomplete _); Ok (Complete s); Err ENmea] => List.length (s_data s) = 71%nat
  | _ => False
  end.
Proof. vm_compute. reflexivity. Qed.
