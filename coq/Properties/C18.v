(* Property C18 — std, alloc and no-allocator builds are observationally equivalent.

   In the model the std and alloc configurations are the same function (the two Rust builds are
   tied to it, and to each other, by the correspondence runs).  The no-allocator configuration
   returns exactly the std result or rejects with the Nmea error category: it never panics (C01)
   and never returns a different — e.g. truncated — value.  After a capacity rejection inside a
   fragment group the two builds are legitimately in different states until the next group opens;
   the step theorem says precisely which states are possible. *)
From Ais Require Import Model.Base Model.Enums Model.Fields Model.Messages Model.Unarmor Model.Sentence Spec.Layouts
  Proofs.Bits Proofs.Reads Proofs.Layouts Proofs.Dispatch Proofs.MsgLevel Proofs.Total Proofs.UnarmorProof Proofs.Builds.
From Coq Require Import Lia.
Local Open Scope N_scope.

Theorem C18_alloc_is_std :
  (forall q st line d, step Alloc q st line d = step Std q st line d) /\
  (forall data fill, unarmor Alloc data fill = unarmor Std data fill) /\
  (forall q bytes, msg_parse Alloc q bytes = msg_parse Std q bytes).
Proof. repeat split; intros; reflexivity. Qed.
Print Assumptions C18_alloc_is_std.

(* one line, same state: same result and state, or an Nmea rejection *)
Theorem C18_noalloc_step :
  forall q st line d,
    let '(s1, o1) := step NoAlloc q st line d in
    let '(s2, o2) := step Std q st line d in
    (o1 = o2 /\ s1 = s2) \/ (o1 = Err ENmea /\ (s1 = st \/ s1 = s2)).
Proof. exact noalloc_step_refines. Qed.
Print Assumptions C18_noalloc_step.

(* no silent truncation: whatever the no-alloc build accepts is exactly what std accepts *)
Theorem C18_no_truncation :
  forall q st line d f, snd (step NoAlloc q st line d) = Ok f ->
    snd (step Std q st line d) = Ok f /\ fst (step NoAlloc q st line d) = fst (step Std q st line d).
Proof. exact noalloc_ok_is_std_ok. Qed.
Print Assumptions C18_no_truncation.

Theorem C18_noalloc_message :
  forall q bytes, msg_parse NoAlloc q bytes = msg_parse Std q bytes \/ msg_parse NoAlloc q bytes = Err ENmea.
Proof. exact noalloc_msg_refines. Qed.
Print Assumptions C18_noalloc_message.

Theorem C18_noalloc_unarmor :
  forall data fill, (fill <= 5)%nat ->
    unarmor NoAlloc data fill = unarmor Std data fill \/ unarmor NoAlloc data fill = Err ENmea.
Proof. exact noalloc_unarmor_refines. Qed.
Print Assumptions C18_noalloc_unarmor.

(* never a panic, in any configuration *)
Theorem C18_never_panics :
  forall c q st line d p, snd (step c q st line d) <> Panic p.
Proof. exact step_no_panic. Qed.
Print Assumptions C18_never_panics.

(* the capacities: text of more than 20 characters, binary data of more than 119 bytes *)
Theorem C18_text_capacity :
  forall q bs, sl bs 0 6 = 14 -> (40 + 6 <= length bs)%nat ->
    (20 < (length bs - 40) / 6)%nat -> parse_bits NoAlloc q bs = Err ENmea.
Proof.
  intros q bs Ht Hl Hc. pose proof (msg_type14 NoAlloc q bs Ht) as H. unfold msg_text in H.
  destruct (Nat.leb_spec (40 + 6) (length bs)); [|lia]. cbn [noalloc andb] in H.
  destruct (Nat.ltb_spec 20 ((length bs - 40) / 6)); [exact H|lia].
Qed.
Print Assumptions C18_text_capacity.

Theorem C18_text_within_capacity :
  forall q bs, sl bs 0 6 = 14 -> (40 + 6 <= length bs)%nat ->
    ((length bs - 40) / 6 <= 20)%nat -> parse_bits NoAlloc q bs = parse_bits Std q bs.
Proof.
  intros q bs Ht Hl Hc. pose proof (msg_type14 NoAlloc q bs Ht) as H1. pose proof (msg_type14 Std q bs Ht) as H2.
  unfold msg_text in *. destruct (Nat.leb_spec (40 + 6) (length bs)); [|lia]. cbn [noalloc andb] in *.
  destruct (Nat.ltb_spec 20 ((length bs - 40) / 6)); [lia|]. congruence.
Qed.
Print Assumptions C18_text_within_capacity.

Example C18_nonvacuous :
  exists f, snd (step NoAlloc quirks_asis p_init
     [33;65;73;86;68;77;44;49;44;49;44;44;65;44;49;53;77;44;48;42;54;70] false) = Ok f.
Proof. eexists. vm_compute. reflexivity. Qed.
