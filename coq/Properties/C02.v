(* Property C02 — checksum gate: a line with a wrong checksum is never accepted.

   [Shaped c line f hex] (Spec/Grammar.v) says: line = [tag block] ++ ('!'|'$') ++ body ++ '*' ++ hex ++ tail
   where body = body_bytes f contains no '*' — so body is exactly "all bytes strictly between the
   start delimiter and the first following '*'" — and hex is the run of hex digits that follows. *)
From Ais Require Import Model.Base Model.Sentence Spec.Grammar Proofs.SentenceLemmas Proofs.Reassembly Proofs.Histories Proofs.Strings.
From Coq Require Import String.
Local Open Scope N_scope.

(* accepted (Complete or Incomplete), from any parser state, with or without decoding, in any
   build  ==>  the XOR of the body equals the transmitted value *)
Theorem C02_accept_only_if :
  forall c q st line d fr, snd (step c q st line d) = Ok fr ->
    exists f hex, Shaped c line f hex /\ xor_fold (body_bytes f) = checksum_read hex.
Proof. exact step_ok_wellformed. Qed.
Print Assumptions C02_accept_only_if.

(* otherwise well-formed and the two values differ ==> exactly a checksum error carrying the
   transmitted and the computed value, and the parser state is untouched *)
Theorem C02_mismatch :
  forall c q st line d f hex, Shaped c line f hex -> xor_fold (body_bytes f) <> checksum_read hex ->
    step c q st line d = (st, Err (EChecksum (checksum_read hex) (xor_fold (body_bytes f)))).
Proof. exact checksum_mismatch. Qed.
Print Assumptions C02_mismatch.

(* the two values agree ==> never a checksum error *)
Theorem C02_match_no_checksum_error :
  forall c q st line d f hex, Shaped c line f hex -> xor_fold (body_bytes f) = checksum_read hex ->
    forall e g, snd (step c q st line d) <> Err (EChecksum e g).
Proof. intros c q st line d f hex Hs He. exact (proj2 (checksum_match c q st line d f hex Hs He)). Qed.
Print Assumptions C02_match_no_checksum_error.

(* whenever a checksum error is reported its two values are the transmitted and computed ones *)
Theorem C02_error_values :
  forall c q st line d e g, snd (step c q st line d) = Err (EChecksum e g) ->
    exists f hex, Shaped c line f hex /\ e = checksum_read hex /\ g = xor_fold (body_bytes f) /\ e <> g.
Proof. exact checksum_error_values. Qed.
Print Assumptions C02_error_values.

(* single-byte corruption inside the body: the computed value changes, so with the transmitted
   checksum unchanged the corrupted body cannot match it *)
Theorem C02_corruption_changes_xor :
  forall a x y b, x <> y -> xor_fold (a ++ x :: b) <> xor_fold (a ++ y :: b).
Proof. exact xor_single_change. Qed.
Print Assumptions C02_corruption_changes_xor.

(* every single-byte corruption inside the body of an accepted line (any position, any replacement
   byte other than '*'; the tag block, delimiter, checksum text and tail unchanged) is rejected, in
   every parser state, with decoding on or off.  (A replacement by '*' moves the end of the checked
   region; such a line is covered by C02_accept_only_if like any other.) *)
Theorem C02_single_byte_corruption_rejected :
  forall c q st d tb start a x y b hex tail,
    tag_block tb -> start = 33 \/ start = 36 -> hex_run hex tail ->
    no_byte 42 (a ++ x :: b) -> y <> 42 -> x <> y ->
    xor_fold (a ++ x :: b) = checksum_read hex ->
    forall fr, snd (step c q st (tb ++ start :: (a ++ y :: b) ++ 42 :: hex ++ tail) d) <> Ok fr.
Proof. exact corrupted_body_rejected. Qed.
Print Assumptions C02_single_byte_corruption_rejected.

(* non-vacuity: the README sentence is shaped, its checksum matches, and it is accepted *)
Example C02_nonvacuous :
  exists fr, snd (step Std quirks_asis p_init (bytes "!AIVDM,1,1,,B,E>kb9O9aS@7PUh10dh19@;0Tah2cWrfP:l?M`00003vP100,0*01") false) = Ok fr.
Proof. eexists. vm_compute. reflexivity. Qed.
Example C02_refuted_if_corrupted :
  snd (step Std quirks_asis p_init (bytes "!AIVDM,1,1,,B,E>kb9O9aS@7PUh10dh19@;0Tah2cWrfP:l?M`00003vP100,0*8D") false)
  = Err (EChecksum 141 1).
Proof. vm_compute. reflexivity. Qed.
