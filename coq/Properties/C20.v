(* Property C20 — the command-line tool survives any input stream.

   [cli q input] (Model/Sentence.v) is src/bin/aisparser.rs as a function of the bytes on standard
   input: BufRead::split(b'\n'), one AisParser, parse(line, true); Complete -> one stdout record,
   error -> one stderr record, Incomplete -> nothing.  Read errors, a closed stdout, memory and the
   process exit status are runtime behaviour this model does not exhibit; the correspondence runs
   the real binary through pipes for those (C20 partial for the runtime). *)
From Ais Require Import Model.Base Model.Messages Model.Sentence Spec.Grammar Proofs.SentenceLemmas Proofs.Reassembly
  Proofs.Histories Proofs.Total Proofs.CliProof.
From Ais Require Import Spec.Transmit Proofs.Transmit Proofs.TransmitCli.
From Coq Require Import Lia.
Local Open Scope N_scope.

(* every line is processed: exactly one record (stdout, stderr or "nothing") per input line *)
Theorem C20_one_record_per_line :
  forall q input, length (cli q input) = length (split_lines input).
Proof. exact cli_one_record_per_line. Qed.
Print Assumptions C20_one_record_per_line.

(* records appear in input order, each computed from its own line and the parser state left by the
   lines before it *)
Theorem C20_records_in_input_order :
  forall q input i line, nth_error (split_lines input) i = Some line ->
    exists o, nth_error (snd (run Std q p_init (map (fun l => (l, true)) (split_lines input)))) i = Some o /\
              nth_error (cli q input) i = Some (cli_record_of line o).
Proof. exact cli_records_in_order. Qed.
Print Assumptions C20_records_in_input_order.

(* the lines are exactly the newline-separated segments (a final segment without newline included) *)
Theorem C20_lines_are_the_segments :
  forall lines last, (forall ln, In ln lines -> ~ In 10 ln) -> ~ In 10 last ->
    split_lines (flat_map (fun ln => ln ++ [10]) lines ++ last) = lines ++ match last with [] => [] | _ => [last] end.
Proof. exact split_lines_spec. Qed.
Print Assumptions C20_lines_are_the_segments.

(* no line content stops the loop: no record is a crash, whatever the bytes *)
Theorem C20_never_crashes :
  forall q input, Forall (fun r => forall p, r <> RecPanic p) (cli q input).
Proof. exact cli_no_panic. Qed.
Print Assumptions C20_never_crashes.

(* a rejected line does not affect the handling of any other line: it leaves the parser state
   unchanged when the rejection is for form, checksum or sequencing (C17) *)
Theorem C20_rejected_line_is_local :
  forall q st line, ~ WellFormed Std line -> fst (step Std q st line true) = st.
Proof. intros q st line H. exact (proj1 (step_not_wellformed Std q st line true H)). Qed.
Print Assumptions C20_rejected_line_is_local.

(* the tool on a transmitted stream (Spec/Transmit.v: a message bit string armoured, cut into 2..255 fragments
   anywhere, framed with checksums, one sentence per line): nothing is printed for the fragments that are
   waiting, and the last line produces exactly one record — on standard output, carrying the decoding of the
   message bits (or, if they do not decode, that line's error record on standard error) *)
Theorem C20_transmitted_group :
  forall q id chan (bits : list bool) parts,
    List.concat parts = armored_payload bits ->
    group_ok Std id chan parts (N.of_nat (fill_of bits)) ->
    (2 <= List.length parts <= 255)%nat -> chan <> 10 ->
    let lines := transmit id chan parts (N.of_nat (fill_of bits)) in
    exists k,
      cli q (flat_map (fun ln => ln ++ [10]) lines) =
      map (fun _ => RecNone) (removelast lines) ++
      [match parse_bits Std q (bits ++ repeat false k) with
       | Ok m => RecOut (last lines []) (Some m)
       | Err e => RecErr (last lines []) e
       | Panic p => RecPanic p
       end].
Proof. exact cli_on_transmitted_group. Qed.
Print Assumptions C20_transmitted_group.

Example C20_nonvacuous :
  cli quirks_asis [120; 10; 255; 254; 10; 10] = [RecErr [120] ENmea; RecErr [255; 254] ENmea; RecErr [] ENmea].
Proof. vm_compute. reflexivity. Qed.
