(* Property C05 — in-order fragments reassemble to exactly the unfragmented message. *)
From Ais Require Import Model.Base Model.Messages Model.Unarmor Model.Sentence Spec.Grammar Proofs.SentenceLemmas Proofs.Reassembly
  Proofs.Histories Proofs.InOrder Proofs.Strings Spec.Armor Spec.Transmit Proofs.UnarmorProof Proofs.Transmit.
From Coq Require Import String Lia.
Local Open Scope N_scope.

(* n >= 2 lines that pass form and checksum ([sentence_of] = Some s_i), numbered 1..n of n with one
   sequence id (any value or absent; n is any number >= 2, not only <= 9), fed in order to a parser
   in ANY state (fresh, abandoned group, just-delivered group, ...), each with its own decode flag:
   the results are [expected]: Incomplete s_i for i < n, and for the last line what the completed
   sentence — its own fields, payload = concatenation of all fragment payloads — yields; the parser
   ends with no group open.  Without an allocator provided the total payload fits in 384 bytes. *)
Theorem C05_in_order_reassembly :
  forall c q id st (items : list (sentence * bool)) (lines : list (list N * bool)),
    (2 <= List.length items)%nat ->
    numbered_from 1 (N.of_nat (List.length items)) id (map fst items) ->
    Forall2 (fun ld sd => sentence_of c q (fst ld) = Some (fst sd) /\ snd ld = snd sd) lines items ->
    (noalloc c = true -> (total_data (map fst items) <= MAX_SENTENCE_SIZE_BYTES)%nat) ->
    run c q st lines = ({| p_id := id; p_fn := 0; p_data := [] |}, expected c q [] items).
Proof. exact in_order_reassembly. Qed.
Print Assumptions C05_in_order_reassembly.

(* the last result is that of the last fragment's sentence carrying the exact concatenation *)
Theorem C05_delivered_payload :
  forall c q items, items <> [] ->
    exists s d, last items (s, d) = (s, d) /\
      last (expected c q [] items) (Err ENmea) = finish c q (with_data s (flat_map s_data (map fst items))) d.
Proof. intros c q items H. exact (expected_last c q [] items H). Qed.
Print Assumptions C05_delivered_payload.

(* ... and what a completed sentence yields is a function of its payload and fill count only, so the
   decoded message (or payload error) equals that of the same payload sent unfragmented with the
   last fragment's fill count *)
Theorem C05_same_as_unfragmented :
  forall c q s d, s_message s = None ->
    finish c q s d =
    match decoded c q (s_data s) (s_fill s) d with
    | Ok m => Ok (Complete (with_message s m))
    | Err e => Err e
    | Panic p => Panic p
    end.
Proof. exact finish_by_payload. Qed.
Print Assumptions C05_same_as_unfragmented.

(* lines arriving between the fragments that are rejected or unfragmented do not disturb it:
   such a line leaves the state unchanged (C17_no_trace), and a line that leaves the state unchanged
   can be removed without changing any other result *)
Theorem C05_interleaved_line_is_harmless :
  forall c q st h1 l d h2,
    let st1 := fst (run c q st h1) in
    fst (step c q st1 l d) = st1 ->
    snd (run c q st (h1 ++ (l, d) :: h2)) = snd (run c q st h1) ++ snd (step c q st1 l d) :: snd (run c q st1 h2)
    /\ snd (run c q st (h1 ++ h2)) = snd (run c q st h1) ++ snd (run c q st1 h2).
Proof. intros c q st h1 l d h2 st1 H. destruct (remove_transparent_line c q st h1 l d h2 H) as (A & B & _). split; assumption. Qed.
Print Assumptions C05_interleaved_line_is_harmless.

(* Option / Result conversions *)
Theorem C05_conversions :
  forall f, (frag_to_option f = match f with Complete s => Some s | Incomplete _ => None end) /\
            (frag_to_result f = match f with Complete s => Ok s | Incomplete _ => Err ENmea end).
Proof. exact conversions_exact. Qed.
Print Assumptions C05_conversions.

(* Transmit, then receive (Spec/Transmit.v is the transmitting side: armouring, fragmentation, framing with
   checksums).  A message bit string is armoured; its characters are cut into 2..255 non-empty parts at ANY
   boundaries; the parts are framed as "!AIVDM,n,k,id,chan,part,fill*HH", numbered 1..n with one sequence id
   (or none), only the last carrying the fill count.  Fed in order to a parser in ANY state, each line with
   its own decode flag, decoding requested on the last: every result but the last is Incomplete of the
   fragment's own sentence ([receive_group]), and the last is Complete carrying the whole armoured payload
   and the decoding of the message bits followed by zero bits — or that decoding's error. *)
Theorem C05_receive_group :
  forall c q st id chan parts fill (ds : list bool),
    group_ok c id chan parts fill -> (2 <= List.length parts <= 255)%nat -> List.length ds = List.length parts ->
    run c q st (combine (transmit id chan parts fill) ds) =
    ({| p_id := id; p_fn := 0; p_data := [] |},
     expected c q [] (combine (group_sentences q (N.of_nat (List.length parts)) 1 id chan parts fill) ds)).
Proof. exact receive_group. Qed.
Print Assumptions C05_receive_group.

Theorem C05_transmit_receive :
  forall c q st id chan (bits : list bool) parts (ds : list bool),
    List.concat parts = armored_payload bits ->
    group_ok c id chan parts (N.of_nat (fill_of bits)) ->
    (2 <= List.length parts <= 255)%nat -> List.length ds = List.length parts -> last ds false = true ->
    noalloc c && (MAX_SENTENCE_SIZE_BYTES <? byte_count (List.length (armored_payload bits)))%nat = false ->
    let sentences := group_sentences q (N.of_nat (List.length parts)) 1 id chan parts (N.of_nat (fill_of bits)) in
    let s := with_data (last sentences (sentence_of_fields q (frame_fields 0 0 None 0 [] 0))) (armored_payload bits) in
    exists k,
      last (snd (run c q st (combine (transmit id chan parts (N.of_nat (fill_of bits))) ds))) (Err ENmea) =
      match parse_bits c q (bits ++ repeat false k) with
      | Ok m => Ok (Complete (with_message s (Some m)))
      | Err e => Err e
      | Panic p => Panic p
      end.
Proof. exact transmit_receive. Qed.
Print Assumptions C05_transmit_receive.

(* the same message sent unfragmented: the same decoding, and the state untouched *)
Theorem C05_transmit_receive_unfragmented :
  forall c q st id chan (bits : list bool),
    armored_payload bits <> [] ->
    group_ok c id chan [armored_payload bits] (N.of_nat (fill_of bits)) ->
    noalloc c && (MAX_SENTENCE_SIZE_BYTES <? byte_count (List.length (armored_payload bits)))%nat = false ->
    let f := frame_fields 1 1 id chan (armored_payload bits) (N.of_nat (fill_of bits)) in
    exists k,
      step c q st (frame_line f) true =
      (st, match parse_bits c q (bits ++ repeat false k) with
           | Ok m => Ok (Complete (with_message (sentence_of_fields q f) (Some m)))
           | Err e => Err e
           | Panic p => Panic p
           end).
Proof. exact transmit_receive_single. Qed.
Print Assumptions C05_transmit_receive_unfragmented.

(* non-vacuity of the transmitter: the framing of the repository's second test fragment is that very line *)
Example C05_transmitter_nonvacuous :
  frame_line (frame_fields 2 2 (Some 1) 66 (bytes "0000000") 2) = bytes "!AIVDM,2,2,1,B,0000000,2*26" /\
  armored_payload [true; false; false; false; false; true; true] = bytes "QP" /\ fill_of [true; false; false; false; false; true; true] = 5%nat.
Proof. vm_compute. repeat split; reflexivity. Qed.

(* non-vacuity: the repository's two-fragment vector meets the hypotheses and decodes as type 5 *)
Example C05_nonvacuous :
  let l1 := bytes "!AIVDM,2,1,1,B,53`soB8000010KSOW<0P4eDp4l6000000000000U0p<24t@P05H3S833CDP00000,0*78" in
  let l2 := bytes "!AIVDM,2,2,1,B,0000000,2*26" in
  exists s1 s2, sentence_of Std quirks_asis l1 = Some s1 /\ sentence_of Std quirks_asis l2 = Some s2 /\
    numbered_from 1 2 (Some 1) [s1; s2] /\
    match snd (run Std quirks_asis p_init [(l1, true); (l2, true)]) with
    | [Ok (Incomplete _); Ok (Complete s)] => s_data s = (s_data s1 ++ s_data s2)%list /\ s_message s <> None
    | _ => False
    end.
Proof. do 2 eexists. split; [vm_compute; reflexivity|]. split; [vm_compute; reflexivity|]. vm_compute. repeat split; try reflexivity. discriminate. Qed.
