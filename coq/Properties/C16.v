(* Property C16 — communication state is decoded per SOTDMA / ITDMA rules for each type.

   Spec/Layouts.v: [sotdma_at bs p] = sync(2) time-out(3) sub-message(14, read by time-out: 0 slot
   offset, 1 UTC hour(5) and minute, 2/4/6 slot number, 3/5/7 received stations);
   [itdma_at bs p] = sync(2) slot increment(13) slot count(3) keep(1).  The state occupies bits
   149..167 of the 168-bit message.

   KNOWN FINDING (D6, known_findings.json C16-type9-selector): type 9 does not consume its selector
   bit and reads the state from bit 148 as SOTDMA.  [C16_type9_asis] pins that behaviour,
   [C16_type9_refuted] shows it violates the property, [C16_type9_repaired] proves the property for
   the repaired model; all other types are proved for the tree as it is. *)
From Ais Require Import Model.Base Model.Enums Model.Fields Model.Messages Spec.Layouts
  Proofs.Bits Proofs.Reads Proofs.Layouts Proofs.Dispatch Proofs.MsgLevel.
From Coq Require Import Lia.
Local Open Scope N_scope.

Definition radio_of (m : ais_message) : option radio_status :=
  match m with
  | PositionReport x => Some (pr_radio_status x)
  | BaseStationReport x | UtcDateResponse x => Some (bs_radio_status x)
  | StandardAircraftPositionReport x => Some (sar_radio_status x)
  | StandardClassBPositionReport x => Some (cb_radio_status x)
  | _ => None
  end.

(* types 1, 2, 4, 11: SOTDMA at bit 149 *)
Theorem C16_sotdma_types :
  forall c q bs t, sl bs 0 6 = t -> (t = 1 \/ t = 2 \/ t = 4 \/ t = 11) -> (168 <= length bs)%nat ->
    exists m, parse_bits c q bs = Ok m /\ radio_of m = Some (sotdma_at bs 149).
Proof.
  intros c q bs t Ht [->|[->|[->| ->]]] Hl.
  - pose proof (msg_type1 c q bs Ht) as H. unfold msg_fixed in H. destruct (Nat.leb_spec 168 (length bs)); [|lia].
    eexists; split; [exact H|]. cbn [radio_of position_report_of pr_radio_status]. rewrite Ht. reflexivity.
  - pose proof (msg_type2 c q bs Ht) as H. unfold msg_fixed in H. destruct (Nat.leb_spec 168 (length bs)); [|lia].
    eexists; split; [exact H|]. cbn [radio_of position_report_of pr_radio_status]. rewrite Ht. reflexivity.
  - pose proof (msg_type4 c q bs Ht) as H. unfold msg_fixed in H. destruct (Nat.leb_spec 168 (length bs)); [|lia].
    eexists; split; [exact H|]. reflexivity.
  - pose proof (msg_type11 c q bs Ht) as H. unfold msg_fixed in H. destruct (Nat.leb_spec 168 (length bs)); [|lia].
    eexists; split; [exact H|]. reflexivity.
Qed.
Print Assumptions C16_sotdma_types.

(* type 3: ITDMA at bit 149 *)
Theorem C16_itdma_type3 :
  forall c q bs, sl bs 0 6 = 3 -> (168 <= length bs)%nat ->
    exists m, parse_bits c q bs = Ok m /\ radio_of m = Some (itdma_at bs 149).
Proof.
  intros c q bs Ht Hl. pose proof (msg_type3 c q bs Ht) as H. unfold msg_fixed in H.
  destruct (Nat.leb_spec 168 (length bs)); [|lia].
  eexists; split; [exact H|]. cbn [radio_of position_report_of pr_radio_status]. rewrite Ht. reflexivity.
Qed.
Print Assumptions C16_itdma_type3.

(* type 18: the selector bit 148 chooses *)
Theorem C16_type18_selector :
  forall c q bs, sl bs 0 6 = 18 -> (168 <= length bs)%nat ->
    exists m, parse_bits c q bs = Ok m /\
              radio_of m = Some (if bit_at bs 148 then itdma_at bs 149 else sotdma_at bs 149).
Proof.
  intros c q bs Ht Hl. pose proof (msg_type18 c q bs Ht) as H. unfold msg_fixed in H.
  destruct (Nat.leb_spec 168 (length bs)); [|lia]. eexists; split; [exact H|]. reflexivity.
Qed.
Print Assumptions C16_type18_selector.

(* the UTC sub-message: the recommendation has hour(5) minute(7) spare(2); the code reads hour(5),
   skips one bit and reads six: the reported minute is the 7-bit field modulo 64, i.e. the field
   itself for every legal minute *)
Theorem C16_utc_minute :
  forall bs p, (p + 12 <= length bs)%nat -> sl bs (6 + p) 6 = sl bs (5 + p) 7 mod 64.
Proof.
  intros bs p H. replace (6 + p)%nat with ((5 + p) + 1)%nat by lia.
  change 7%nat with (1 + 6)%nat. rewrite (sl_low bs (5 + p) 1 6) by lia. reflexivity.
Qed.
Print Assumptions C16_utc_minute.

(* type 9, the tree as it is *)
Theorem C16_type9_asis :
  forall c bs, sl bs 0 6 = 9 -> (167 <= length bs)%nat ->
    exists m, parse_bits c quirks_asis bs = Ok m /\ radio_of m = Some (sotdma_at bs 148).
Proof.
  intros c bs Ht Hl. pose proof (msg_type9_asis c bs Ht) as H. unfold msg_fixed in H.
  destruct (Nat.leb_spec 167 (length bs)); [|lia]. eexists; split; [exact H|]. reflexivity.
Qed.
Print Assumptions C16_type9_asis.

(* ... which violates the property: selector 0, sync 1 (UTC indirect), time-out 3, sub-message 77
   is reported as sync 0 (UTC direct), time-out 5, 8230 received stations *)
Theorem C16_type9_refuted :
  exists bytes m,
    msg_parse Std quirks_asis bytes = Ok m /\
    radio_of m = Some (Sotdma UtcDirect 5 (ReceivedStations 8230)) /\
    (if bit_at (bits_of_bytes bytes) 148 then itdma_at (bits_of_bytes bytes) 149 else sotdma_at (bits_of_bytes bytes) 149)
    = Sotdma UtcIndirect 3 (ReceivedStations 77).
Proof.
  exists [36; 26; 133; 23; 252; 75; 192; 0; 0; 0; 0; 0; 0; 0; 0; 0; 0; 0; 2; 192; 77]. eexists.
  split; [vm_compute; reflexivity|]. split; vm_compute; reflexivity.
Qed.
Print Assumptions C16_type9_refuted.

(* with the finding repaired type 9 satisfies the property *)
Theorem C16_type9_repaired :
  forall c bs, sl bs 0 6 = 9 -> (168 <= length bs)%nat ->
    exists m, parse_bits c quirks_off bs = Ok m /\
              radio_of m = Some (if bit_at bs 148 then itdma_at bs 149 else sotdma_at bs 149).
Proof.
  intros c bs Ht Hl. pose proof (msg_type9_repaired c bs Ht) as H. unfold msg_fixed in H.
  destruct (Nat.leb_spec 168 (length bs)); [|lia]. eexists; split; [exact H|]. reflexivity.
Qed.
Print Assumptions C16_type9_repaired.

(* sub-message kinds by time-out value, all eight values *)
Theorem C16_submessage_by_timeout :
  forall bs p,
    sub_at 0 bs p = SlotOffset (sl bs p 14) /\
    sub_at 1 bs p = UtcHourAndMinute (sl bs p 5) (sl bs (6 + p) 6) /\
    (forall t, t = 2 \/ t = 4 \/ t = 6 -> sub_at t bs p = SlotNumber (sl bs p 14)) /\
    (forall t, t = 3 \/ t = 5 \/ t = 7 -> sub_at t bs p = ReceivedStations (sl bs p 14)).
Proof.
  intros bs p. repeat split; try reflexivity; intros t [->|[->| ->]]; reflexivity.
Qed.
Print Assumptions C16_submessage_by_timeout.
