(* Property C11 — "not available" codes, and only those, decode to an absent value.
   Each theorem is for every raw value of the field (no width bound is needed: the conversion
   functions are total on N / Z); out-of-range raw values that are not the sentinel are passed
   through — no error path exists in any of these functions. *)
From Ais Require Import Model.Base Model.Enums Model.Fields Model.Messages Spec.Layouts Proofs.Bits Proofs.Conversions.
From Coq Require Import Lia.
Local Open Scope N_scope.

Theorem C11_speed : forall d, (parse_speed_over_ground d = None <-> d = 1023) /\ (d <> 1023 -> parse_speed_over_ground d = Some (FDiv (FOfInt (Z.of_N d)) 10)).
Proof. exact na_speed. Qed.
Print Assumptions C11_speed.
Theorem C11_longitude : forall z, (parse_longitude z = None <-> z = 108600000%Z) /\ (z <> 108600000%Z -> parse_longitude z = Some (FDiv (FOfInt z) 600000)).
Proof. exact na_longitude. Qed.
Print Assumptions C11_longitude.
Theorem C11_latitude : forall z, (parse_latitude z = None <-> z = 54600000%Z) /\ (z <> 54600000%Z -> parse_latitude z = Some (FDiv (FOfInt z) 600000)).
Proof. exact na_latitude. Qed.
Print Assumptions C11_latitude.
(* 18/17-bit forms: type 17 ... *)
Theorem C11_longitude_tenth_minute : forall z, (parse_longitude_min_10 z = None <-> z = 108600%Z) /\ (z <> 108600%Z -> parse_longitude_min_10 z = Some (FDiv (FOfInt z) 600)).
Proof. exact na_longitude_min_10. Qed.
Print Assumptions C11_longitude_tenth_minute.
Theorem C11_latitude_tenth_minute : forall z, (parse_latitude_min_10 z = None <-> z = 54600%Z) /\ (z <> 54600%Z -> parse_latitude_min_10 z = Some (FDiv (FOfInt z) 600)).
Proof. exact na_latitude_min_10. Qed.
Print Assumptions C11_latitude_tenth_minute.
(* ... and type 27 (after the D5 repair), for every value an 18/17-bit two's-complement field can hold *)
Theorem C11_type27_longitude : forall t z, (- 2 ^ 17 <= z < 2 ^ 17)%Z ->
  (lr_longitude_conv t z = None <-> z = 108600%Z) /\
  (z <> 108600%Z -> lr_longitude_conv t z = Some (if t =? 27 then FMul (FDiv (FOfInt z) 600000) 1000 else FDiv (FOfInt z) 600000)).
Proof. exact na_long_range_longitude. Qed.
Print Assumptions C11_type27_longitude.
Theorem C11_type27_latitude : forall t z, (- 2 ^ 16 <= z < 2 ^ 16)%Z ->
  (lr_latitude_conv t z = None <-> z = 54600%Z) /\
  (z <> 54600%Z -> lr_latitude_conv t z = Some (if t =? 27 then FMul (FDiv (FOfInt z) 600000) 1000 else FDiv (FOfInt z) 600000)).
Proof. exact na_long_range_latitude. Qed.
Print Assumptions C11_type27_latitude.
Theorem C11_type27_speed : forall d, (parse_speed_over_ground_62 d = None <-> d = 63) /\ (d <> 63 -> parse_speed_over_ground_62 d = Some (FOfInt (Z.of_N d))).
Proof. exact na_speed_62. Qed.
Print Assumptions C11_type27_speed.
Theorem C11_type27_course : forall d, (parse_cog_511 d = None <-> d = 511) /\ (d <> 511 -> parse_cog_511 d = Some (FOfInt (Z.of_N d))).
Proof. exact na_cog_511. Qed.
Print Assumptions C11_type27_course.
Theorem C11_course : forall d, (parse_cog d = None <-> d = 3600) /\ (d <> 3600 -> parse_cog d = Some (FDiv (FOfInt (Z.of_N d)) 10)).
Proof. exact na_cog. Qed.
Print Assumptions C11_course.
Theorem C11_heading : forall d, (parse_heading d = None <-> d = 511) /\ (d <> 511 -> parse_heading d = Some d).
Proof. exact na_heading. Qed.
Print Assumptions C11_heading.
Theorem C11_rate_of_turn : forall d, d < 256 ->
  (rate_of_turn_parse d = None <-> d = 128) /\ (d <> 128 -> rate_of_turn_parse d = Some (if d <? 128 then Z.of_N d else (Z.of_N d - 256)%Z)).
Proof. exact na_rate_of_turn. Qed.
Print Assumptions C11_rate_of_turn.
Theorem C11_altitude : forall d, (parse_altitude d = None <-> d = 4095) /\ (d <> 4095 -> parse_altitude d = Some d).
Proof. exact na_altitude. Qed.
Print Assumptions C11_altitude.
Theorem C11_sar_speed : forall d, (parse_speed_over_ground_sar d = None <-> d = 1023) /\ (d <> 1023 -> parse_speed_over_ground_sar d = Some (FOfInt (Z.of_N d))).
Proof. exact na_speed_sar. Qed.
Print Assumptions C11_sar_speed.
(* year / month / day 0, interrogation slot offset 0 *)
Theorem C11_zero_means_absent : forall d, (opt_nz d = None <-> d = 0) /\ (d <> 0 -> opt_nz d = Some d).
Proof. exact na_zero. Qed.
Print Assumptions C11_zero_means_absent.
Theorem C11_minute_second : forall d, (minsec_conv d = None <-> d = 60) /\ (d <> 60 -> minsec_conv d = Some d).
Proof. exact na_minsec. Qed.
Print Assumptions C11_minute_second.

(* where each conversion is applied (from the layout functions) *)
Theorem C11_fields :
  forall bs,
    pr_true_heading (position_report_of bs) = parse_heading (sl bs 128 9) /\
    pr_rate_of_turn (position_report_of bs) = rate_of_turn_parse (sl bs 42 8) /\
    bs_year (base_station_report_of bs) = opt_nz (sl bs 38 14) /\
    bs_month (base_station_report_of bs) = opt_nz (sl bs 52 4) /\
    bs_day (base_station_report_of bs) = opt_nz (sl bs 56 5) /\
    bs_minute (base_station_report_of bs) = minsec_conv (sl bs 66 6) /\
    bs_second (base_station_report_of bs) = minsec_conv (sl bs 72 6) /\
    sar_altitude (sar_position_report_with (sar_radio_of bs) bs) = parse_altitude (sl bs 38 12) /\
    cb_true_heading (class_b_of bs) = parse_heading (sl bs 124 9) /\
    eb_true_heading (ext_class_b_of bs) = parse_heading (sl bs 124 9) /\
    sv_eta_month_utc (static_voyage_of bs) = opt_nz (sl bs 274 4) /\
    sv_eta_day_utc (static_voyage_of bs) = opt_nz (sl bs 278 5) /\
    sv_eta_minute_utc (static_voyage_of bs) = minsec_conv (sl bs 288 6).
Proof. intros bs. repeat split. Qed.
Print Assumptions C11_fields.

Example C11_nonvacuous :
  parse_longitude (sext 28 108600000) = None /\ lr_longitude_conv 27 (sext 18 108600) = None /\
  lr_longitude_conv 27 (sext 18 108601) <> None.
Proof. vm_compute. repeat split; discriminate. Qed.
