(* Spec/Transmit.v — the transmitting side, as ITU-R M.1371 / IEC 61162 describe it and as no part of
   the crate implements it: a message's bit string is padded to whole 6-bit characters, armoured,
   cut into fragments at arbitrary character boundaries and framed as numbered sentences with their
   checksums.  Proofs/Transmit.v shows that the parser, from any state, returns to the message. *)
From Ais Require Import Model.Base Model.Sentence Spec.Grammar.
Local Open Scope N_scope.

(* 6-bit value -> armouring character: 0..39 are '0'..'W', 40..63 are '`'..'w' *)
Definition armor_char (v : N) : N := if v <? 40 then v + 48 else v + 56.

(* [n] six-bit groups of a bit list *)
Fixpoint chunk6 (n : nat) (l : list bool) : list N :=
  match n with
  | O => []
  | S n' => N_of_bits (firstn 6 l) :: chunk6 n' (skipn 6 l)
  end.

(* number of fill bits that complete the last character *)
Definition fill_of (bits : list bool) : nat := ((6 - length bits mod 6) mod 6)%nat.
Definition padded6 (bits : list bool) : list bool := bits ++ repeat false (fill_of bits).
Definition sextets_of (bits : list bool) : list N := chunk6 (length (padded6 bits) / 6) (padded6 bits).
(* the armoured payload of a message *)
Definition armored_payload (bits : list bool) : list N := map armor_char (sextets_of bits).

(* decimal and hexadecimal spellings *)
Definition digit_char (d : N) : N := d + 48.
Definition dec_digits (n : N) : list N :=
  if n <? 10 then [digit_char n]
  else if n <? 100 then [digit_char (n / 10); digit_char (n mod 10)]
  else [digit_char (n / 100); digit_char ((n / 10) mod 10); digit_char (n mod 10)].
Definition hex_char (d : N) : N := if d <? 10 then d + 48 else d + 55.
Definition hex2 (v : N) : list N := [hex_char (v / 16); hex_char (v mod 16)].

(* one sentence "!AIVDM,n,k,id,chan,payload,fill*HH" *)
Definition frame_fields (n k : N) (id : option N) (chan : N) (payload : list N) (fill : N) : ais_fields :=
  {| af_t1 := 65; af_t2 := 73; af_r1 := 86; af_r2 := 68; af_r3 := 77;
     af_count := dec_digits n; af_number := dec_digits k;
     af_id := match id with None => [] | Some i => dec_digits i end;
     af_channel := [chan]; af_payload := payload; af_fill := dec_digits fill |}.
Definition frame_line (f : ais_fields) : list N :=
  33 :: body_bytes f ++ 42 :: hex2 (xor_fold (body_bytes f)).

(* the sentences of a payload cut into [parts] (in order); only the last carries the fill count *)
Fixpoint fragment_lines (n : N) (k : nat) (id : option N) (chan : N) (parts : list (list N)) (fill : N) : list (list N) :=
  match parts with
  | [] => []
  | [p] => [frame_line (frame_fields n (N.of_nat k) id chan p fill)]
  | p :: rest => frame_line (frame_fields n (N.of_nat k) id chan p 0) :: fragment_lines n (S k) id chan rest fill
  end.
Definition transmit (id : option N) (chan : N) (parts : list (list N)) (fill : N) : list (list N) :=
  fragment_lines (N.of_nat (length parts)) 1 id chan parts fill.
