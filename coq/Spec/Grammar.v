(* Spec/Grammar.v — the well-formed AIVDM/AIVDO sentence shapes of property C08, as an
   explicit decomposition of the line, and the fields a sentence reports (C07).  Nothing here
   mentions the parser. *)
From Ais Require Import Model.Base Model.Enums Model.Fields Model.Messages Model.Unarmor Model.Sentence.
Local Open Scope N_scope.

(* the comma-separated fields between the start delimiter and the '*' *)
Record ais_fields := {
  af_t1 : N; af_t2 : N;                 (* talker *)
  af_r1 : N; af_r2 : N; af_r3 : N;      (* report type *)
  af_count : list N;                    (* decimal fragment count *)
  af_number : list N;                   (* decimal fragment number *)
  af_id : list N;                       (* decimal sequence id, or empty *)
  af_channel : list N;                  (* channel field, possibly empty *)
  af_payload : list N;                  (* armoured payload, non-empty *)
  af_fill : list N }.                   (* decimal fill-bit count *)

Definition body_bytes (f : ais_fields) : list N :=
  af_t1 f :: af_t2 f :: af_r1 f :: af_r2 f :: af_r3 f :: 44 ::
  af_count f ++ 44 :: af_number f ++ 44 :: af_id f ++ 44 :: af_channel f ++ 44 ::
  af_payload f ++ 44 :: af_fill f.

Definition decimal (ds : list N) : Prop := ds <> [] /\ forallb is_digit ds = true.
Definition no_byte (b : N) (l : list N) : Prop := forall x, In x l -> x <> b.

Definition fields_ok (c : cfg) (f : ais_fields) : Prop :=
  decimal (af_count f) /\ dec_value (af_count f) <= 255 /\
  decimal (af_number f) /\ dec_value (af_number f) <= 255 /\
  (af_id f = [] \/ (decimal (af_id f) /\ dec_value (af_id f) <= 255)) /\
  no_byte 44 (af_channel f) /\
  af_payload f <> [] /\ no_byte 44 (af_payload f) /\
  decimal (af_fill f) /\ dec_value (af_fill f) < 6 /\
  (noalloc c = true -> (length (af_payload f) <= MAX_SENTENCE_SIZE_BYTES)%nat).

(* the sentence that such fields denote *)
Definition sentence_of_fields (q : quirks) (f : ais_fields) : sentence :=
  {| s_talker := talker_of (af_t1 f) (af_t2 f);
     s_report := report_of (af_r1 f) (af_r2 f) (af_r3 f);
     s_num_fragments := dec_value (af_count f);
     s_fragment_number := dec_value (af_number f);
     s_message_id := match af_id f with [] => None | _ :: _ => Some (dec_value (af_id f)) end;
     s_channel := match af_channel f with [] => None | ch :: _ => Some ch end;
     s_data := af_payload f;
     s_fill := dec_value (af_fill f);
     s_message_type :=
       match af_payload f with
       | [] => 0
       | b :: _ => if q19_type_from_armored q then (b / 4) mod 64
                   else match armor_value b with Some v => v | None => (b / 4) mod 64 end
       end;
     s_message := None |}.

(* optional tag block: backslash, anything without a backslash, backslash *)
Definition tag_block (tb : list N) : Prop :=
  tb = [] \/ exists t, tb = 92 :: t ++ [92] /\ no_byte 92 t.

(* the checksum text: a non-empty run of hex digits, of which at most the first eight are read *)
Definition hex_run (hex tail : list N) : Prop :=
  hex <> [] /\ forallb is_hex hex = true /\ match tail with [] => True | x :: _ => is_hex x = false end.
Definition checksum_read (hex : list N) : N := hex_value (firstn 8 hex).

(* the shape of a line, exposing its fields and checksum digits *)
Definition Shaped (c : cfg) (line : list N) (f : ais_fields) (hex : list N) : Prop :=
  exists tb start tail,
    line = tb ++ start :: body_bytes f ++ 42 :: hex ++ tail /\
    tag_block tb /\
    (start = 33 \/ start = 36) /\
    fields_ok c f /\
    no_byte 42 (body_bytes f) /\        (* the '*' after the fields is the first one *)
    hex_run hex tail /\
    checksum_read hex <= 255.

(* C08: a line is accepted at the sentence level exactly when it has this shape and the XOR
   of the bytes between the start delimiter and the '*' equals the transmitted value *)
Definition WellFormed (c : cfg) (line : list N) : Prop :=
  exists f hex, Shaped c line f hex /\ xor_fold (body_bytes f) = checksum_read hex.
