(* Spec/Armor.v — what unarmoring is, independently of the buffer algorithm (property C03):
   the concatenation of the characters' 6-bit values, most significant bit first, with the last
   [fill] of those bits and every bit beyond them (padding to a whole byte) forced to zero. *)
From Ais Require Import Model.Base Model.Unarmor.
Local Open Scope N_scope.

(* '0'..'W' are 0..39, '`'..'w' are 40..63 *)
Definition armor_val (ch : N) : option N :=
  if (48 <=? ch) && (ch <=? 87) then Some (ch - 48)
  else if (96 <=? ch) && (ch <=? 119) then Some (ch - 56)
  else None.

Fixpoint vals_of (data : list N) : option (list N) :=
  match data with
  | [] => Some []
  | ch :: r =>
    match armor_val ch, vals_of r with
    | Some v, Some vs => Some (v :: vs)
    | _, _ => None
    end
  end.

Definition bits6 (v : N) : list bool :=
  [N.testbit v 5; N.testbit v 4; N.testbit v 3; N.testbit v 2; N.testbit v 1; N.testbit v 0].

(* keep the first [k] bits, force the rest to zero *)
Definition clear_from (k : nat) (l : list bool) : list bool :=
  firstn k l ++ repeat false (length l - k).

(* zero padding up to a whole number of bytes *)
Definition pad8 (l : list bool) : list bool := l ++ repeat false ((8 - length l mod 8) mod 8).

Definition unarmor_bits (vals : list N) (fill : nat) : list bool :=
  let bits := flat_map bits6 vals in
  clear_from (length bits - fill) (pad8 bits).

Definition unarmor_spec (data : list N) (fill : nat) : option (list N) :=
  match vals_of data with
  | None => None
  | Some vals => Some (bytes_of_bits (unarmor_bits vals fill))
  end.
