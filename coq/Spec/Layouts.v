(* Spec/Layouts.v — ITU-R M.1371-5 message layouts as data-to-value functions.

   Each [<type>_of bs] is the message that a payload [bs] (bit list, MSB first) of that type
   *denotes* according to the recommendation: every field is the slice [sl bs offset width]
   at its specified absolute bit offset, passed through the field's conversion.  These
   functions mention no parser; the theorems in Proofs/Layouts.v state that the model's
   parsers compute exactly them (and fail exactly when the mandatory part does not fit).
   DESIGN.md Appendix A lists the same offsets in prose. *)
From Ais Require Import Model.Base Model.Enums Model.Fields Model.Messages.
Local Open Scope N_scope.

Definition bit_at (bs : list bool) (p : nat) : bool := nth p bs false.
Definition accuracy_at bs p := if bit_at bs p then Dgps else Unaugmented.
Definition dte_at bs p := if bit_at bs p then DteNotReady else DteReady.
Definition assigned_at bs p := if bit_at bs p then Assigned else Autonomous.
Definition cs_at bs p := if bit_at bs p then CsCarrierSense else CsSotdma.

(* 6-bit ASCII: values 0-31 are '@'..'_', 32-63 are ' '..'?' *)
Definition sixbit_char (v : N) : N := if v <? 32 then v + 64 else v.
Fixpoint chars_at (bs : list bool) (p : nat) (k : nat) : list N :=
  match k with
  | O => []
  | S k' => sixbit_char (sl bs p 6) :: chars_at bs (6 + p) k'
  end.
Definition text_at bs p k := trim_text (chars_at bs p k).

(* ---------- communication state: 19 bits ---------- *)
Definition sub_at (timeout : N) (bs : list bool) (p : nat) : sub_message :=
  if timeout =? 0 then SlotOffset (sl bs p 14)
  else if timeout =? 1 then UtcHourAndMinute (sl bs p 5) (sl bs (6 + p) 6)
  else if (timeout =? 2) || (timeout =? 4) || (timeout =? 6) then SlotNumber (sl bs p 14)
  else ReceivedStations (sl bs p 14).
Definition sotdma_at bs p :=
  Sotdma (sync_state_parse (sl bs p 2)) (sl bs (2 + p) 3) (sub_at (sl bs (2 + p) 3) bs (5 + p)).
Definition itdma_at bs p :=
  Itdma (sync_state_parse (sl bs p 2)) (sl bs (2 + p) 13) (sl bs (15 + p) 3) (bit_at bs (18 + p)).

(* ---------- types 1, 2, 3 (168 bits) ---------- *)
Definition position_report_of (bs : list bool) : position_report :=
  {| pr_message_type := sl bs 0 6; pr_repeat_indicator := sl bs 6 2; pr_mmsi := sl bs 8 30;
     pr_navigation_status := nav_status_parse (sl bs 38 4);
     pr_rate_of_turn := rate_of_turn_parse (sl bs 42 8);
     pr_speed_over_ground := parse_speed_over_ground (sl bs 50 10);
     pr_position_accuracy := accuracy_at bs 60;
     pr_longitude := parse_longitude (sext 28 (sl bs 61 28));
     pr_latitude := parse_latitude (sext 27 (sl bs 89 27));
     pr_course_over_ground := parse_cog (sl bs 116 12);
     pr_true_heading := parse_heading (sl bs 128 9);
     pr_timestamp := sl bs 137 6;
     pr_maneuver_indicator := maneuver_parse (sl bs 143 2);
     pr_raim := bit_at bs 148;
     pr_radio_status := if sl bs 0 6 =? 3 then itdma_at bs 149 else sotdma_at bs 149 |}.

(* ---------- types 4 and 11 (168 bits) ---------- *)
Definition base_station_report_of (bs : list bool) : base_station_report :=
  {| bs_message_type := sl bs 0 6; bs_repeat_indicator := sl bs 6 2; bs_mmsi := sl bs 8 30;
     bs_year := opt_nz (sl bs 38 14); bs_month := opt_nz (sl bs 52 4); bs_day := opt_nz (sl bs 56 5);
     bs_hour := sl bs 61 5; bs_minute := minsec_conv (sl bs 66 6); bs_second := minsec_conv (sl bs 72 6);
     bs_fix_quality := accuracy_at bs 78;
     bs_longitude := parse_longitude (sext 28 (sl bs 79 28));
     bs_latitude := parse_latitude (sext 27 (sl bs 107 27));
     bs_epfd_type := epfd_type_parse (sl bs 134 4);
     bs_raim := bit_at bs 148;
     bs_radio_status := sotdma_at bs 149 |}.

(* ---------- type 5: mandatory part 302 bits; destination and DTE as far as present ---------- *)
Definition static_voyage_of (bs : list bool) : static_voyage :=
  let rem := (length bs - 302)%nat in
  let dest_chars := (Nat.min 120 rem / 6)%nat in
  let after := (302 + 6 * dest_chars)%nat in
  {| sv_message_type := sl bs 0 6; sv_repeat_indicator := sl bs 6 2; sv_mmsi := sl bs 8 30;
     sv_ais_version := sl bs 38 2; sv_imo_number := sl bs 40 30;
     sv_callsign := text_at bs 70 7; sv_vessel_name := text_at bs 112 20;
     sv_ship_type := ship_type_parse (sl bs 232 8);
     sv_dimension_to_bow := sl bs 240 9; sv_dimension_to_stern := sl bs 249 9;
     sv_dimension_to_port := sl bs 258 6; sv_dimension_to_starboard := sl bs 264 6;
     sv_epfd_type := epfd_type_parse (sl bs 270 4);
     sv_eta_month_utc := opt_nz (sl bs 274 4); sv_eta_day_utc := opt_nz (sl bs 278 5);
     sv_eta_hour_utc := sl bs 283 5; sv_eta_minute_utc := minsec_conv (sl bs 288 6);
     sv_draught := FDiv (FOfInt (Z.of_N (sl bs 294 8))) 10;
     sv_destination := text_at bs 302 dest_chars;
     sv_dte := if (after <? length bs)%nat then dte_at bs after else DteNotReady |}.

(* ---------- type 6: header 88 bits, then the application data ---------- *)
Definition binary_addressed_of (bs : list bool) : binary_addressed :=
  {| ba_message_type := sl bs 0 6; ba_repeat_indicator := sl bs 6 2; ba_mmsi := sl bs 8 30;
     ba_seqno := sl bs 38 2; ba_dest_mmsi := sl bs 40 30; ba_retransmit := bit_at bs 70;
     ba_dac := sl bs 72 10; ba_fid := sl bs 82 6;
     ba_data := bytes_of_bits (skipn 88 bs) |}.

(* ---------- types 7 and 13: 40-bit header and one to four 32-bit entries ---------- *)
Definition ack_at bs p := {| ack_mmsi := sl bs p 30; ack_seq_num := sl bs (30 + p) 2 |}.
(* [k] consecutive elements of width [w], the first one at [p] *)
Fixpoint items_at {A} (v : list bool -> nat -> A) (w : nat) (bs : list bool) (p : nat) (k : nat) : list A :=
  match k with O => [] | S k' => v bs p :: items_at v w bs (w + p) k' end.
Definition acks_at := items_at ack_at 32.
Definition ack_message_of (bs : list bool) : ack_message :=
  {| am_message_type := sl bs 0 6; am_repeat_indicator := sl bs 6 2; am_mmsi := sl bs 8 30;
     am_acks := acks_at bs 40 (Nat.min 4 ((length bs - 40) / 32)) |}.

(* ---------- type 8: header 56 bits ---------- *)
Definition binary_broadcast_of (bs : list bool) : binary_broadcast :=
  {| bb_message_type := sl bs 0 6; bb_repeat_indicator := sl bs 6 2; bb_mmsi := sl bs 8 30;
     bb_dac := sl bs 40 10; bb_fid := sl bs 50 6;
     bb_data := bytes_of_bits (skipn 56 bs) |}.

(* ---------- type 9 (168 bits).  [sar_radio_of] is the specification: the selector bit 148
   chooses the 19-bit state at 149; [sar_radio_asis] is what the unchanged tree computes ---------- *)
Definition sar_radio_of bs := if bit_at bs 148 then itdma_at bs 149 else sotdma_at bs 149.
Definition sar_radio_asis bs := sotdma_at bs 148.
Definition sar_position_report_with (radio : radio_status) (bs : list bool) : sar_position_report :=
  {| sar_message_type := sl bs 0 6; sar_repeat_indicator := sl bs 6 2; sar_mmsi := sl bs 8 30;
     sar_altitude := parse_altitude (sl bs 38 12);
     sar_speed_over_ground := parse_speed_over_ground_sar (sl bs 50 10);
     sar_position_accuracy := accuracy_at bs 60;
     sar_longitude := parse_longitude (sext 28 (sl bs 61 28));
     sar_latitude := parse_latitude (sext 27 (sl bs 89 27));
     sar_course_over_ground := parse_cog (sl bs 116 12);
     sar_timestamp := sl bs 128 6;
     sar_dte := dte_at bs 142;
     sar_assigned_mode := assigned_at bs 146;
     sar_raim := bit_at bs 147;
     sar_radio_status := radio |}.

(* ---------- type 10 (72 bits) ---------- *)
Definition utc_date_inquiry_of (bs : list bool) : utc_date_inquiry :=
  {| ui_message_type := sl bs 0 6; ui_repeat_indicator := sl bs 6 2; ui_mmsi := sl bs 8 30;
     ui_dest_mmsi := sl bs 40 30 |}.

(* ---------- types 12 and 14: text of all the remaining whole characters ---------- *)
Definition addressed_safety_of (bs : list bool) : addressed_safety :=
  {| as_message_type := sl bs 0 6; as_repeat_indicator := sl bs 6 2; as_mmsi := sl bs 8 30;
     as_seqno := sl bs 38 2; as_dest_mmsi := sl bs 40 30; as_retransmit := bit_at bs 70;
     as_text := text_at bs 72 ((length bs - 72) / 6) |}.
Definition safety_broadcast_of (bs : list bool) : safety_broadcast :=
  {| sb_message_type := sl bs 0 6; sb_repeat_indicator := sl bs 6 2; sb_mmsi := sl bs 8 30;
     sb_text := text_at bs 40 ((length bs - 40) / 6) |}.

(* ---------- type 16: one station (92 bits) or two (144 bits) ---------- *)
Definition assignment_of (bs : list bool) : assignment_mode_command :=
  let two := (144 <=? length bs)%nat in
  {| ac_message_type := sl bs 0 6; ac_repeat_indicator := sl bs 6 2; ac_mmsi := sl bs 8 30;
     ac_mmsi1 := sl bs 40 30; ac_offset1 := sl bs 70 12; ac_increment1 := sl bs 82 10;
     ac_mmsi2 := if two then Some (sl bs 92 30) else None;
     ac_offset2 := if two then Some (sl bs 122 12) else None;
     ac_increment2 := if two then Some (sl bs 134 10) else None |}.

(* ---------- type 17: 80-bit header, 40-bit correction header, data ---------- *)
Definition dgnss_of (bs : list bool) : dgnss_broadcast :=
  {| dg_message_type := sl bs 0 6; dg_repeat_indicator := sl bs 6 2; dg_mmsi := sl bs 8 30;
     dg_longitude := parse_longitude_min_10 (sext 18 (sl bs 40 18));
     dg_latitude := parse_latitude_min_10 (sext 17 (sl bs 58 17));
     dg_payload :=
       {| cd_message_type := sl bs 80 6; cd_station_id := sl bs 86 10; cd_z_count := sl bs 96 13;
          cd_sequence_number := sl bs 109 3; cd_n := sl bs 112 5; cd_health := sl bs 117 3;
          cd_data := bytes_of_bits (skipn 120 bs) |} |}.

(* ---------- type 18 (168 bits) ---------- *)
Definition class_b_of (bs : list bool) : class_b_position_report :=
  {| cb_message_type := sl bs 0 6; cb_repeat_indicator := sl bs 6 2; cb_mmsi := sl bs 8 30;
     cb_speed_over_ground := parse_speed_over_ground (sl bs 46 10);
     cb_position_accuracy := accuracy_at bs 56;
     cb_longitude := parse_longitude (sext 28 (sl bs 57 28));
     cb_latitude := parse_latitude (sext 27 (sl bs 85 27));
     cb_course_over_ground := parse_cog (sl bs 112 12);
     cb_true_heading := parse_heading (sl bs 124 9);
     cb_timestamp := sl bs 133 6;
     cb_cs_unit := cs_at bs 141;
     cb_has_display := bit_at bs 142; cb_has_dsc := bit_at bs 143; cb_whole_band := bit_at bs 144;
     cb_accepts_message_22 := bit_at bs 145;
     cb_assigned_mode := assigned_at bs 146;
     cb_raim := bit_at bs 147;
     cb_radio_status := if bit_at bs 148 then itdma_at bs 149 else sotdma_at bs 149 |}.

(* ---------- type 19 (312 bits) ---------- *)
Definition ext_class_b_of (bs : list bool) : ext_class_b_position_report :=
  {| eb_message_type := sl bs 0 6; eb_repeat_indicator := sl bs 6 2; eb_mmsi := sl bs 8 30;
     eb_speed_over_ground := parse_speed_over_ground (sl bs 46 10);
     eb_position_accuracy := accuracy_at bs 56;
     eb_longitude := parse_longitude (sext 28 (sl bs 57 28));
     eb_latitude := parse_latitude (sext 27 (sl bs 85 27));
     eb_course_over_ground := parse_cog (sl bs 112 12);
     eb_true_heading := parse_heading (sl bs 124 9);
     eb_timestamp := sl bs 133 6;
     eb_name := text_at bs 143 20;
     eb_type_of_ship_and_cargo := ship_type_parse (sl bs 263 8);
     eb_dimension_to_bow := sl bs 271 9; eb_dimension_to_stern := sl bs 280 9;
     eb_dimension_to_port := sl bs 289 6; eb_dimension_to_starboard := sl bs 295 6;
     eb_epfd_type := epfd_type_parse (sl bs 301 4);
     eb_raim := bit_at bs 305;
     eb_dte := dte_at bs 306;
     eb_assigned_mode := assigned_at bs 307 |}.

(* ---------- type 20: 40-bit header and one to four 30-bit reservations ---------- *)
Definition reservation_at bs p :=
  {| sr_offset := sl bs p 12; sr_num_slots := sl bs (12 + p) 4; sr_timeout := sl bs (16 + p) 3;
     sr_increment := sl bs (19 + p) 11 |}.
Definition reservations_at := items_at reservation_at 30.
Definition data_link_of (bs : list bool) : data_link_management :=
  {| dl_message_type := sl bs 0 6; dl_repeat_indicator := sl bs 6 2; dl_mmsi := sl bs 8 30;
     dl_reservations := reservations_at bs 40 (Nat.min 4 ((length bs - 40) / 30)) |}.

(* ---------- type 21 (272 bits) ---------- *)
Definition aid_to_navigation_of (bs : list bool) : aid_to_navigation :=
  {| an_message_type := sl bs 0 6; an_repeat_indicator := sl bs 6 2; an_mmsi := sl bs 8 30;
     an_aid_type := navaid_type_parse (sl bs 38 5);
     an_name := text_at bs 43 20;
     an_accuracy := accuracy_at bs 163;
     an_longitude := parse_longitude (sext 28 (sl bs 164 28));
     an_latitude := parse_latitude (sext 27 (sl bs 192 27));
     an_dimension_to_bow := sl bs 219 9; an_dimension_to_stern := sl bs 228 9;
     an_dimension_to_port := sl bs 237 6; an_dimension_to_starboard := sl bs 243 6;
     an_epfd_type := epfd_type_parse (sl bs 249 4);
     an_utc_second := sl bs 253 6;
     an_off_position := bit_at bs 259;
     an_regional_reserved := sl bs 260 8;
     an_raim := bit_at bs 268; an_virtual_aid := bit_at bs 269; an_assigned_mode := bit_at bs 270 |}.

(* ---------- type 24: part A (160 bits + up to 7 spare), part B (168 bits), parts 2/3 (40 bits) ---------- *)
Definition static_data_part_of (bs : list bool) : message_part :=
  let part := sl bs 38 2 in
  if part =? 0 then PartA (text_at bs 40 20)
  else if part =? 1 then
    PartB (ship_type_parse (sl bs 40 8)) (text_at bs 48 3) (text_at bs 66 4)
          (sl bs 66 4) (sl bs 70 20) (text_at bs 90 7)
          (sl bs 132 9) (sl bs 141 9) (sl bs 150 6) (sl bs 156 6)
  else PartUnknown part.
Definition static_data_of (bs : list bool) : static_data_report :=
  {| sd_message_type := sl bs 0 6; sd_repeat_indicator := sl bs 6 2; sd_mmsi := sl bs 8 30;
     sd_message_part := static_data_part_of bs |}.

(* ---------- type 27 (95 bits, sent as 96) ---------- *)
Definition long_range_of (bs : list bool) : long_range_broadcast :=
  {| lr_message_type := sl bs 0 6; lr_repeat_indicator := sl bs 6 2; lr_mmsi := sl bs 8 30;
     lr_position_accuracy := accuracy_at bs 38;
     lr_raim := bit_at bs 39;
     lr_navigation_status := nav_status_parse (sl bs 40 4);
     lr_longitude := lr_longitude_conv (sl bs 0 6) (sext 18 (sl bs 44 18));
     lr_latitude := lr_latitude_conv (sl bs 0 6) (sext 17 (sl bs 62 17));
     lr_speed_over_ground := parse_speed_over_ground_62 (sl bs 79 6);
     lr_course_over_ground := parse_cog_511 (sl bs 85 9);
     lr_gnss_position_status := bit_at bs 94 |}.

(* ---------- type 15: the three legal forms (88, 110 and 160 bits; whole bytes: 88, 112, 160) ---------- *)
Definition int_msg_at (bs : list bool) (p : nat) : int_message :=
  {| im_message_type := sl bs p 6; im_slot_offset := opt_nz (sl bs (6 + p) 12) |}.
(* a second request is reported unless it is all zero *)
Definition int_requests2 (bs : list bool) (p1 p2 : nat) : list int_message :=
  if negb (sl bs p2 6 =? 0) || (match opt_nz (sl bs (6 + p2) 12) with Some _ => true | None => false end)
  then [int_msg_at bs p1; int_msg_at bs p2] else [int_msg_at bs p1].

Definition interrogation_head (bs : list bool) (stations : list int_station) : interrogation :=
  {| in_message_type := sl bs 0 6; in_repeat_indicator := sl bs 6 2; in_mmsi := sl bs 8 30; in_stations := stations |}.
(* one station, one request: mmsi 40(30) type 70(6) offset 76(12) *)
Definition interrogation_88 (bs : list bool) : interrogation :=
  interrogation_head bs [{| is_mmsi := sl bs 40 30; is_messages := [int_msg_at bs 70] |}].
(* one station, two requests: ... spare 88(2) type 90(6) offset 96(12) spare 108(2) *)
Definition interrogation_110 (bs : list bool) : interrogation :=
  interrogation_head bs [{| is_mmsi := sl bs 40 30; is_messages := int_requests2 bs 70 90 |}].
(* two stations: ... mmsi2 110(30) type 140(6) offset 146(12) spare 158(2) *)
Definition interrogation_160 (bs : list bool) : interrogation :=
  interrogation_head bs [{| is_mmsi := sl bs 40 30; is_messages := int_requests2 bs 70 90 |};
                         {| is_mmsi := sl bs 110 30; is_messages := [int_msg_at bs 140] |}].

(* ---------- type 15 at every length ----------
   A request is its type and, when 12 more bits are present, a slot offset; a station is its
   identifier, one request and, when 8 more bits are present, two spare bits and a second
   request (reported unless it is all zero); a second station follows two spare bits when 30 more
   bits are present after the first, and is followed by two spare bits.  [L] is the payload
   length in bits; positions are written the way the cursor computes them. *)
Definition int_msg_gen (bs : list bool) (p : nat) : int_message :=
  {| im_message_type := sl bs p 6;
     im_slot_offset := if (12 <=? length bs - (6 + p))%nat then opt_nz (sl bs (6 + p) 12) else None |}.
Definition int_msg_end (L p : nat) : nat := if (12 <=? L - (6 + p))%nat then (12 + (6 + p))%nat else (6 + p)%nat.
Definition int_keep (m : int_message) : bool :=
  negb (im_message_type m =? 0) || (match im_slot_offset m with Some _ => true | None => false end).
Definition int_station_gen (bs : list bool) (p : nat) : int_station :=
  let e1 := int_msg_end (length bs) (30 + p) in
  let m1 := int_msg_gen bs (30 + p)%nat in
  {| is_mmsi := sl bs p 30;
     is_messages := if (8 <=? length bs - e1)%nat
                    then (if int_keep (int_msg_gen bs (2 + e1)) then [m1; int_msg_gen bs (2 + e1)] else [m1])
                    else [m1] |}.
Definition int_station_end (L p : nat) : nat :=
  let e1 := int_msg_end L (30 + p) in
  if (8 <=? L - e1)%nat then int_msg_end L (2 + e1) else e1.
(* the decoded message and the number of bits consumed; None = rejected *)
Definition interrogation_of (bs : list bool) : option (interrogation * nat) :=
  let L := length bs in
  if (L <? 76)%nat then None else
  let e1 := int_station_end L 40 in
  if (30 <=? L - e1)%nat then
    if ((36 + (2 + e1) <=? L) && (2 + int_station_end L (2 + e1) <=? L))%nat
    then Some (interrogation_head bs [int_station_gen bs 40; int_station_gen bs (2 + e1)],
               (2 + int_station_end L (2 + e1))%nat)
    else None
  else Some (interrogation_head bs [int_station_gen bs 40], e1).
