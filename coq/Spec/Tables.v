(* Spec/Tables.v — the enumerated code tables (ITU-R M.1371 as tabulated in the gpsd AIVDM
   reference the crate cites), written as code -> name lists.  Codes that do not appear are
   "undefined" (reported as absent) or unassigned (kept in an Unknown/Reserved value carrying
   the code), as stated per table. *)
From Ais Require Import Model.Base Model.Enums Model.Fields.
Local Open Scope N_scope.

Fixpoint lookup {A} (t : list (N * A)) (c : N) : option A :=
  match t with
  | [] => None
  | (k, v) :: r => if c =? k then Some v else lookup r c
  end.

(* navigational status, 4 bits; 15 = not defined (default) *)
Definition nav_status_table : list (N * nav_status) :=
  [(0, NS_UnderWayUsingEngine); (1, NS_AtAnchor); (2, NS_NotUnderCommand); (3, NS_RestrictedManouverability);
   (4, NS_ConstrainedByDraught); (5, NS_Moored); (6, NS_Aground); (7, NS_EngagedInFishing);
   (8, NS_UnderWaySailing); (9, NS_ReservedForHSC); (10, NS_ReservedForWIG);
   (11, NS_Reserved01); (12, NS_Reserved02); (13, NS_Reserved03); (14, NS_AisSartIsActive)].

(* manoeuvre indicator, 2 bits; 0 = not available; 3 is unassigned *)
Definition maneuver_table : list (N * maneuver) :=
  [(1, NoSpecialManeuver); (2, SpecialManeuver); (3, ManeuverUnknown 3)].

(* electronic position fixing device, 4 bits; 0 and 15 undefined; 9..14 not used *)
Definition epfd_table : list (N * epfd_type) :=
  [(1, EP_Gps); (2, EP_Glonass); (3, EP_CombinedGpsAndGlonass); (4, EP_LoranC); (5, EP_Chayka);
   (6, EP_IntegratedNavigationSystem); (7, EP_Surveyed); (8, EP_Galileo);
   (9, EP_Unknown 9); (10, EP_Unknown 10); (11, EP_Unknown 11); (12, EP_Unknown 12); (13, EP_Unknown 13); (14, EP_Unknown 14)].

(* aid-to-navigation type, 5 bits; 0 = not specified *)
Definition navaid_table : list (N * navaid_type) :=
  [(1, NT_ReferencePoint); (2, NT_Racon); (3, NT_FixedStructureOffShore); (4, NT_Spare);
   (5, NT_LightWithoutSectors); (6, NT_LightWithSectors); (7, NT_LeadingLightFront); (8, NT_LeadingLightRear);
   (9, NT_BeaconCardinalN); (10, NT_BeaconCardinalE); (11, NT_BeaconCardinalS); (12, NT_BeaconCardinalW);
   (13, NT_BeaconPortHand); (14, NT_BeaconStarboardHand); (15, NT_BeaconPreferredChannelPortHand);
   (16, NT_BeaconPreferredChannelStarboardHand); (17, NT_BeaconIsolatedDanger); (18, NT_BeaconSafeWater);
   (19, NT_BeaconSpecialMark); (20, NT_CardinalMarkN); (21, NT_CardinalMarkE); (22, NT_CardinalMarkS);
   (23, NT_CardinalMarkW); (24, NT_PortHandMark); (25, NT_StarboardHandMark); (26, NT_PreferredChannelPortHand);
   (27, NT_PreferredChannelStarboardHand); (28, NT_IsolatedDanger); (29, NT_SafeWater); (30, NT_SpecialMark);
   (31, NT_LightVesselOrLanbyOrRigs)].

(* synchronisation state, 2 bits *)
Definition sync_table : list (N * sync_state) :=
  [(0, UtcDirect); (1, UtcIndirect); (2, BaseStation); (3, NumberOfReceivedStations)].

(* ship and cargo type, 8 bits: 0 not available, 100..255 not in the table; first digit = category,
   second digit for categories 2, 4, 6, 7, 8, 9 = 0 all ships, 1..4 hazardous category A..D,
   5..8 reserved, 9 no additional information (25..29 reserved for wing-in-ground craft) *)
Definition ship_type_spec (c : N) : option ship_type :=
  let d := c mod 10 in
  if c =? 0 then None
  else if c <? 20 then Some (ST_Reserved c)
  else if c <? 30 then
    Some (if d =? 0 then ST_WingInGround else if d =? 1 then ST_WingInGroundHazardousCategoryA
          else if d =? 2 then ST_WingInGroundHazardousCategoryB else if d =? 3 then ST_WingInGroundHazardousCategoryC
          else if d =? 4 then ST_WingInGroundHazardousCategoryD else ST_WingInGroundReserved c)
  else if c <? 40 then
    Some (if d =? 0 then ST_Fishing else if d =? 1 then ST_Towing else if d =? 2 then ST_TowingLarge
          else if d =? 3 then ST_Dredging else if d =? 4 then ST_DivingOps else if d =? 5 then ST_MilitaryOps
          else if d =? 6 then ST_Sailing else if d =? 7 then ST_PleasureCraft else ST_Reserved c)
  else if c <? 50 then
    Some (if d =? 0 then ST_HighSpeedCraft else if d =? 1 then ST_HighSpeedCraftHazardousCategoryA
          else if d =? 2 then ST_HighSpeedCraftHazardousCategoryB else if d =? 3 then ST_HighSpeedCraftHazardousCategoryC
          else if d =? 4 then ST_HighSpeedCraftHazardousCategoryD
          else if d =? 9 then ST_HighSpeedCraftNoAdditionalInformation else ST_HighSpeedCraftReserved c)
  else if c <? 60 then
    Some (if d =? 0 then ST_PilotVessel else if d =? 1 then ST_SearchAndRescueVessel else if d =? 2 then ST_Tug
          else if d =? 3 then ST_PortTender else if d =? 4 then ST_AntiPollutionEquipment
          else if d =? 5 then ST_LawEnforcement else if d =? 8 then ST_MedicalTransport
          else if d =? 9 then ST_NoncombatantShip else ST_SpareLocalVessel c)
  else if c <? 70 then
    Some (if d =? 0 then ST_Passenger else if d =? 1 then ST_PassengerHazardousCategoryA
          else if d =? 2 then ST_PassengerHazardousCategoryB else if d =? 3 then ST_PassengerHazardousCategoryC
          else if d =? 4 then ST_PassengerHazardousCategoryD
          else if d =? 9 then ST_PassengerNoAdditionalInformation else ST_PassengerReserved c)
  else if c <? 80 then
    Some (if d =? 0 then ST_Cargo else if d =? 1 then ST_CargoHazardousCategoryA
          else if d =? 2 then ST_CargoHazardousCategoryB else if d =? 3 then ST_CargoHazardousCategoryC
          else if d =? 4 then ST_CargoHazardousCategoryD
          else if d =? 9 then ST_CargoNoAdditionalInformation else ST_CargoReserved c)
  else if c <? 90 then
    Some (if d =? 0 then ST_Tanker else if d =? 1 then ST_TankerHazardousCategoryA
          else if d =? 2 then ST_TankerHazardousCategoryB else if d =? 3 then ST_TankerHazardousCategoryC
          else if d =? 4 then ST_TankerHazardousCategoryD
          else if d =? 9 then ST_TankerNoAdditionalInformation else ST_TankerReserved c)
  else if c <? 100 then
    Some (if d =? 0 then ST_Other else if d =? 1 then ST_OtherHazardousCategoryA
          else if d =? 2 then ST_OtherHazardousCategoryB else if d =? 3 then ST_OtherHazardousCategoryC
          else if d =? 4 then ST_OtherHazardousCategoryD
          else if d =? 9 then ST_OtherNoAdditionalInformation else ST_OtherReserved c)
  else None.
