(* Proofs/TransmitCli.v — the command-line tool on a transmitted stream: the sentences of one group
   (Spec/Transmit.v), each followed by a newline, produce no record for the fragments that are waiting and
   exactly one stdout record, for the last line, carrying the decoding of the message bits. *)
From Ais Require Import Model.Base Model.Enums Model.Fields Model.Messages Model.Unarmor Model.Sentence
  Spec.Grammar Spec.Armor Spec.Transmit Proofs.SentenceLemmas Proofs.Reassembly Proofs.Histories Proofs.InOrder
  Proofs.UnarmorProof Proofs.Transmit Proofs.CliProof.
From Coq Require Import ZifyBool ZifyNat ZifyN.
Local Open Scope N_scope.

Lemma expected_shape c q D items :
  items <> [] ->
  expected c q D items =
  map (fun it => Ok (Incomplete (fst it))) (removelast items) ++ [last (expected c q D items) (Err ENmea)].
Proof.
  revert D; induction items as [|[s d] items IH]; intros D Hne; [contradiction|].
  destruct items as [|it items]; [reflexivity|].
  change (expected c q D ((s, d) :: it :: items)) with (Ok (Incomplete s) :: expected c q (D ++ s_data s) (it :: items)).
  change (removelast ((s, d) :: it :: items)) with ((s, d) :: removelast (it :: items)).
  cbn [map fst app]. f_equal.
  rewrite (IH (D ++ s_data s)) at 1 by discriminate. f_equal. f_equal.
  symmetry. apply last_cons_ne. apply expected_ne. discriminate.
Qed.

(* no line feed inside a framed sentence *)
Lemma frame_line_no_lf c n k id chan payload fill :
  frame_ok c n k id chan payload fill -> chan <> 10 -> ~ In 10 (frame_line (frame_fields n k id chan payload fill)).
Proof.
  intros Hok Hch.
  destruct (frame_shaped c n k id chan payload fill Hok) as [Hsh _].
  destruct Hsh as (tb & start & tail & _ & _ & _ & Hf & _).
  destruct Hok as [Hn Hk Hid (Hc1 & Hc2 & Hc3) (Hp1 & Hp2) Hfill Hcap].
  destruct (dec_digits_ok n Hn) as [[_ Dn] _]. destruct (dec_digits_ok k Hk) as [[_ Dk] _].
  destruct (dec_digits_ok fill ltac:(lia)) as [[_ Df] _].
  assert (Aid : alphabet (match id with None => [] | Some i => dec_digits i end)).
  { destruct id as [i|]; [|constructor]. destruct (dec_digits_ok i Hid) as [[_ Di] _]. apply digits_alphabet. exact Di. }
  unfold frame_line. generalize (xor_fold (body_bytes (frame_fields n k id chan payload fill))) as x. intros x Hin. cbn [In] in Hin. destruct Hin as [Hin|Hin]; [discriminate Hin|].
  apply in_app_or in Hin. destruct Hin as [Hin|Hin].
  - revert Hin. fold (no_byte 10 (body_bytes (frame_fields n k id chan payload fill))).
    assert (G : no_byte 10 (body_bytes (frame_fields n k id chan payload fill))).
    { unfold body_bytes, frame_fields; cbn [af_t1 af_t2 af_r1 af_r2 af_r3 af_count af_number af_id af_channel af_payload af_fill].
      repeat (first [apply no_byte_cons; [lia|] | apply no_byte_app | apply no_byte_nil]);
        try (apply alphabet_no_byte; [|lia]; first [apply digits_alphabet; first [exact Dn|exact Dk|exact Df] | exact Hp2 | exact Aid]). }
    intros Hin. exact (G 10 Hin eq_refl).
  - cbn [In] in Hin. destruct Hin as [Hin|Hin]; [discriminate Hin|].
    unfold hex2, hex_char in Hin. cbn [In] in Hin.
    destruct Hin as [Hin|[Hin|[]]]; revert Hin;
      [destruct (x / 16 <? 10) eqn:E | destruct (x mod 16 <? 10) eqn:E]; lia.
Qed.

Lemma fragment_lines_no_lf c n k id chan parts fill :
  group_ok c id chan parts fill -> n <= 255 -> (k + length parts <= 256)%nat -> chan <> 10 ->
  forall ln, In ln (fragment_lines n k id chan parts fill) -> ~ In 10 ln.
Proof.
  intros [Hid Hchan Hparts Hfill Hcap] Hn Hk Hch. revert k Hk Hcap.
  induction Hparts as [|p rest [Hp1 Hp2] Hrest IH]; intros k Hk Hcap ln Hin; [contradiction|].
  cbn [length] in Hk.
  assert (Fk : forall fl, fl < 6 -> frame_ok c n (N.of_nat k) id chan p fl).
  { intros fl Hfl. constructor; try assumption; try lia. split; assumption.
    intros Hc. specialize (Hcap Hc). cbn [concat] in Hcap. rewrite app_length in Hcap. lia. }
  assert (Hcr : noalloc c = true -> (length (concat rest) <= MAX_SENTENCE_SIZE_BYTES)%nat).
  { intros Hc. specialize (Hcap Hc). cbn [concat] in Hcap. rewrite app_length in Hcap. lia. }
  destruct rest as [|p2 rest].
  - cbn [fragment_lines In] in Hin. destruct Hin as [<-|[]]. apply (frame_line_no_lf c); [apply Fk; exact Hfill|exact Hch].
  - change (fragment_lines n k id chan (p :: p2 :: rest) fill)
      with (frame_line (frame_fields n (N.of_nat k) id chan p 0) :: fragment_lines n (S k) id chan (p2 :: rest) fill) in Hin.
    destruct Hin as [<-|Hin]; [apply (frame_line_no_lf c); [apply Fk; lia|exact Hch]|].
    apply (IH (S k)); [cbn [length] in *; lia|exact Hcr|exact Hin].
Qed.

Lemma fragment_lines_length n k id chan parts fill : length (fragment_lines n k id chan parts fill) = length parts.
Proof.
  revert k; induction parts as [|p rest IH]; intros k; [reflexivity|].
  destruct rest as [|p2 rest]; [reflexivity|].
  change (fragment_lines n k id chan (p :: p2 :: rest) fill)
    with (frame_line (frame_fields n (N.of_nat k) id chan p 0) :: fragment_lines n (S k) id chan (p2 :: rest) fill).
  cbn [length]. rewrite IH. reflexivity.
Qed.

Lemma map_pair_true (l : list (list N)) : map (fun x => (x, true)) l = combine l (repeat true (length l)).
Proof. induction l as [|x l IH]; [reflexivity|]. cbn [map length repeat combine]. rewrite IH. reflexivity. Qed.

Lemma removelast_combine {A B} (l : list A) (l' : list B) :
  length l = length l' -> removelast (combine l l') = combine (removelast l) (removelast l').
Proof.
  revert l'; induction l as [|x l IH]; intros l' H; destruct l' as [|y l']; cbn [length] in H; try lia; [reflexivity|].
  destruct l as [|x2 l]; destruct l' as [|y2 l']; cbn [length] in H; try lia; [reflexivity|].
  change (combine (x :: x2 :: l) (y :: y2 :: l')) with ((x, y) :: combine (x2 :: l) (y2 :: l')).
  change (removelast ((x, y) :: combine (x2 :: l) (y2 :: l'))) with ((x, y) :: removelast (combine (x2 :: l) (y2 :: l'))).
  rewrite IH by (cbn [length]; lia). reflexivity.
Qed.

Lemma removelast_length_pred {A} (l : list A) : length (removelast l) = pred (length l).
Proof.
  induction l as [|x l IH]; [reflexivity|]. destruct l as [|y l]; [reflexivity|].
  change (removelast (x :: y :: l)) with (x :: removelast (y :: l)). cbn [length] in *. rewrite IH. reflexivity.
Qed.

Lemma app_removelast_last_eq {A} (l : list A) d : l <> [] -> l = removelast l ++ [last l d].
Proof. apply app_removelast_last. Qed.

Lemma combine_app_eq {A B} (a1 a2 : list A) (b1 b2 : list B) :
  length a1 = length b1 -> combine (a1 ++ a2) (b1 ++ b2) = combine a1 b1 ++ combine a2 b2.
Proof.
  revert b1; induction a1 as [|x a1 IH]; intros b1 H; destruct b1 as [|y b1]; cbn [length] in H; try lia; [reflexivity|].
  cbn [app combine]. rewrite IH by lia. reflexivity.
Qed.

(* the tool on the stream of one transmitted group *)
Theorem cli_on_transmitted_group q id chan (bits : list bool) parts :
  concat parts = armored_payload bits ->
  group_ok Std id chan parts (N.of_nat (fill_of bits)) ->
  (2 <= length parts <= 255)%nat -> chan <> 10 ->
  let lines := transmit id chan parts (N.of_nat (fill_of bits)) in
  exists k,
    cli q (flat_map (fun ln => ln ++ [10]) lines) =
    map (fun _ => RecNone) (removelast lines) ++
    [match parse_bits Std q (bits ++ repeat false k) with
     | Ok m => RecOut (last lines []) (Some m)
     | Err e => RecErr (last lines []) e
     | Panic p => RecPanic p
     end].
Proof.
  intros Hcat Hok Hn Hch lines.
  assert (Hll : length lines = length parts) by (unfold lines, transmit; apply fragment_lines_length).
  assert (Hnolf : forall ln, In ln lines -> ~ In 10 ln).
  { unfold lines, transmit. apply (fragment_lines_no_lf Std); [exact Hok|lia|lia|exact Hch]. }
  assert (Hlast : last (repeat true (length parts)) false = true).
  { clear -Hn. destruct (length parts) as [|m]; [lia|]. clear Hn. induction m as [|m IH]; [reflexivity|exact IH]. }
  destruct (transmit_receive Std q p_init id chan bits parts (repeat true (length parts)) Hcat Hok Hn
              (repeat_length _ _) Hlast eq_refl) as (k & Hk).
  exists k.
  pose proof (receive_group Std q p_init id chan parts (N.of_nat (fill_of bits)) (repeat true (length parts)) Hok Hn (repeat_length _ _)) as Hrun.
  fold lines in Hk, Hrun. rewrite Hrun in Hk. cbn [snd] in Hk.
  unfold cli. rewrite <- (app_nil_r (flat_map _ lines)), (split_lines_spec lines [] Hnolf ltac:(intros [])), app_nil_r.
  rewrite map_pair_true, Hll, Hrun. cbv beta iota.
  remember (group_sentences q (N.of_nat (length parts)) 1 id chan parts (N.of_nat (fill_of bits))) as sentences eqn:Es.
  remember (combine sentences (repeat true (length parts))) as items eqn:Ei.
  assert (Hls : length sentences = length parts) by (subst sentences; apply group_sentences_length).
  assert (Hne : items <> []).
  { subst items. destruct sentences; [cbn in Hls; lia|]. destruct (length parts); [lia|]. discriminate. }
  rewrite (expected_shape Std q [] items Hne). rewrite Hk.
  assert (Hlne : lines <> []) by (destruct lines; [cbn in Hll; lia|discriminate]).
  rewrite (app_removelast_last_eq lines [] Hlne) at 1.
  assert (Hrl : length (removelast lines) = length (removelast items)).
  { subst items. rewrite removelast_combine by (rewrite repeat_length; lia).
    rewrite combine_length. rewrite !removelast_length_pred, repeat_length, Hll, Hls. lia. }
  rewrite combine_app_eq by (rewrite map_length; exact Hrl).
  rewrite map_app. f_equal.
  - (* the waiting fragments: nothing is printed *)
    clear -Hrl. revert Hrl. generalize (removelast items) as its. generalize (removelast lines) as ls.
    induction ls as [|l ls IH]; intros its H; destruct its as [|it its]; cbn [length] in H; try lia; [reflexivity|].
    cbn [map combine]. rewrite IH by lia. reflexivity.
  - cbn [combine map cli_record_of].
    destruct (parse_bits Std q (bits ++ repeat false k)) as [m|e|p]; reflexivity.
Qed.
