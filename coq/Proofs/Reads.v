(* Proofs/Reads.v — compositional reasoning about the bit-cursor parsers.

   [reads m w v]: from any cursor position inside the input, [m] succeeds iff [w] more bits
   are present; it then consumes exactly [w] bits and returns [v bs p], a function of the bit
   list and the start position; otherwise it fails with the recoverable error.  Fixed-layout
   parsers are sequences of such readers, so their whole behaviour (result, length threshold,
   error on short input, absence of panics) follows from one derivation. *)
From Ais Require Import Model.Base Model.Enums Model.Fields Model.Messages Spec.Layouts Proofs.Bits.
From Coq Require Import ZifyBool ZifyNat ZifyN.
Local Open Scope N_scope.

Definition reads {A} (m : P A) (w : nat) (v : list bool -> nat -> A) : Prop :=
  forall bs p, (p <= length bs)%nat ->
    if (w + p <=? length bs)%nat then m bs p = Ok (v bs p, (w + p)%nat) else m bs p = Err EError.

Lemma reads_ok {A} (m : P A) w v bs p :
  reads m w v -> (w + p <= length bs)%nat -> m bs p = Ok (v bs p, (w + p)%nat).
Proof.
  intros H Hl. specialize (H bs p ltac:(lia)).
  destruct (Nat.leb_spec (w + p) (length bs)); [exact H|lia].
Qed.

Lemma reads_short {A} (m : P A) w v bs p :
  reads m w v -> (p <= length bs)%nat -> (length bs < w + p)%nat -> m bs p = Err EError.
Proof.
  intros H Hp Hl. specialize (H bs p Hp).
  destruct (Nat.leb_spec (w + p) (length bs)); [lia|exact H].
Qed.

Lemma reads_ext {A} (m : P A) w w' v v' :
  reads m w v -> w = w' -> (forall bs p, v bs p = v' bs p) -> reads m w' v'.
Proof. intros H -> Hv bs p Hp. specialize (H bs p Hp). rewrite <- Hv. exact H. Qed.

Lemma reads_ret {A} (a : A) : reads (ret a) 0 (fun _ _ => a).
Proof.
  intros bs p Hp. cbn [Nat.add]. destruct (Nat.leb_spec p (length bs)); [reflexivity|lia].
Qed.

Lemma reads_take w : reads (take w) w (fun bs p => sl bs p w).
Proof.
  intros bs p Hp. unfold take. destruct (Nat.eqb_spec w 0) as [->|Hw].
  - cbn [Nat.add]. destruct (Nat.leb_spec p (length bs)); [reflexivity|lia].
  - destruct (w + p <=? length bs)%nat; reflexivity.
Qed.

(* sequencing, with a post-condition [Q] on what the first reader returns *)
Lemma reads_bind_Q {A B} (Q : A -> Prop) (m : P A) (f : A -> P B) w1 w2 v1 v2 :
  reads m w1 v1 ->
  (forall bs p, Q (v1 bs p)) ->
  (forall a, Q a -> reads (f a) w2 (v2 a)) ->
  reads (bind m f) (w2 + w1) (fun bs p => v2 (v1 bs p) bs (w1 + p)%nat).
Proof.
  intros Hm HQ Hf bs p Hp. unfold bind.
  destruct (Nat.leb_spec (w1 + p) (length bs)) as [H1|H1].
  - rewrite (reads_ok _ _ _ _ _ Hm H1).
    specialize (Hf _ (HQ bs p) bs (w1 + p)%nat H1).
    replace (w2 + w1 + p)%nat with (w2 + (w1 + p))%nat by lia. exact Hf.
  - rewrite (reads_short _ _ _ _ _ Hm Hp H1).
    destruct (Nat.leb_spec (w2 + w1 + p) (length bs)); [lia|reflexivity].
Qed.

Lemma reads_bind {A B} (m : P A) (f : A -> P B) w1 w2 v1 v2 :
  reads m w1 v1 ->
  (forall a, reads (f a) w2 (v2 a)) ->
  reads (bind m f) (w2 + w1) (fun bs p => v2 (v1 bs p) bs (w1 + p)%nat).
Proof. intros Hm Hf. apply (reads_bind_Q (fun _ => True)); auto. Qed.

(* after a [take w] the continuation only has to work for values below 2^w *)
Lemma reads_bind_take {B} w (f : N -> P B) w2 v2 :
  (forall a, a < 2 ^ N.of_nat w -> reads (f a) w2 (v2 a)) ->
  reads (bind (take w) f) (w2 + w) (fun bs p => v2 (sl bs p w) bs (w + p)%nat).
Proof.
  intros Hf. apply (reads_bind_Q (fun a => a < 2 ^ N.of_nat w) (take w) f w w2 (fun bs p => sl bs p w) v2).
  - apply reads_take.
  - intros; apply sl_lt.
  - exact Hf.
Qed.

Lemma reads_pmap {A B} (g : A -> B) (m : P A) w v :
  reads m w v -> reads (pmap g m) w (fun bs p => g (v bs p)).
Proof.
  intros H bs p Hp. specialize (H bs p Hp). unfold pmap.
  destruct (w + p <=? length bs)%nat; rewrite H; reflexivity.
Qed.

Lemma reads_lift_ok {A} (a : A) : reads (lift (Ok a)) 0 (fun _ _ => a).
Proof. exact (reads_ret a). Qed.

(* ---------- single-bit readers ---------- *)

Lemma sl_1_cases bs p : sl bs p 1 = if bit_at bs p then 1 else 0.
Proof.
  destruct (Nat.ltb_spec p (length bs)) as [H|H].
  - rewrite sl_1 by lia. unfold bit_at. destruct (nth p bs false); reflexivity.
  - unfold sl, bit_at. rewrite skipn_all2 by lia. rewrite nth_overflow by lia. reflexivity.
Qed.

Ltac one_bit conv :=
  intros bs p Hp; unfold bind, lift;
  pose proof (reads_take 1 bs p Hp) as Ht;
  destruct (Nat.leb_spec (1 + p) (length bs)) as [H1|H1]; rewrite Ht; [|reflexivity];
  rewrite sl_1_cases;
  unfold accuracy_at, dte_at, assigned_at, cs_at; destruct (bit_at bs p); reflexivity.

Lemma reads_take_bool : reads take_bool 1 bit_at.
Proof. unfold take_bool. one_bit u8_to_bool. Qed.

Lemma reads_take_accuracy :
  reads take_accuracy 1 accuracy_at.
Proof. unfold take_accuracy. one_bit accuracy_parse. Qed.

Lemma reads_take_dte :
  reads take_dte 1 dte_at.
Proof. unfold take_dte. one_bit dte_from. Qed.

Lemma reads_take_assigned_mode :
  reads take_assigned_mode 1 assigned_at.
Proof. unfold take_assigned_mode. one_bit assigned_mode_parse. Qed.

Lemma reads_take_carrier_sense :
  reads take_carrier_sense 1 cs_at.
Proof. unfold take_carrier_sense. one_bit carrier_sense_parse. Qed.

(* ---------- signed fields ---------- *)

Lemma reads_signed_i32 len :
  (0 < len < 32)%nat -> reads (signed_i32 len) len (fun bs p => sext len (sl bs p len)).
Proof.
  intros Hl. unfold signed_i32.
  destruct (Nat.ltb_spec 32 len); [lia|].
  destruct (Nat.eqb_spec len 0); [lia|]. destruct (Nat.eqb_spec len 32); [lia|]. cbn [orb].
  eapply reads_ext; [eapply reads_bind; [apply reads_take|intros a; apply reads_ret]|lia|reflexivity].
Qed.

(* ---------- dates ---------- *)
Lemma reads_parse_year : reads parse_year 14 (fun bs p => opt_nz (sl bs p 14)).
Proof. apply reads_pmap, reads_take. Qed.
Lemma reads_parse_month : reads parse_month 4 (fun bs p => opt_nz (sl bs p 4)).
Proof. apply reads_pmap, reads_take. Qed.
Lemma reads_parse_day : reads parse_day 5 (fun bs p => opt_nz (sl bs p 5)).
Proof. apply reads_pmap, reads_take. Qed.
Lemma reads_parse_hour : reads parse_hour 5 (fun bs p => sl bs p 5).
Proof. apply reads_take. Qed.
Lemma reads_parse_minsec : reads parse_minsec 6 (fun bs p => minsec_conv (sl bs p 6)).
Proof. apply reads_pmap, reads_take. Qed.

(* ---------- 6-bit text ---------- *)

Lemma reads_take_char : reads take_char 6 (fun bs p => sixbit_char (sl bs p 6)).
Proof.
  intros bs p Hp. unfold take_char. pose proof (reads_take 6 bs p Hp) as Ht.
  destruct (6 + p <=? length bs)%nat; rewrite Ht; [|reflexivity].
  pose proof (sl_lt bs p 6) as Hlt. change (2 ^ N.of_nat 6) with 64 in Hlt.
  unfold sixbit_to_ascii, sixbit_char.
  destruct (N.ltb_spec (sl bs p 6) 32); [reflexivity|].
  destruct (N.ltb_spec (sl bs p 6) 64); [reflexivity|lia].
Qed.

Lemma reads_count_chars k : reads (count_chars k) (6 * k) (fun bs p => chars_at bs p k).
Proof.
  induction k as [|k IH].
  - cbn [count_chars chars_at]. apply reads_ret.
  - cbn [count_chars chars_at].
    eapply reads_ext;
      [eapply reads_bind; [apply reads_take_char|intros c; eapply reads_bind; [apply IH|intros r; apply reads_ret]]
      |lia|reflexivity].
Qed.

Lemma chars_at_bound bs p k : Forall (fun c => 32 <= c < 96) (chars_at bs p k).
Proof.
  revert p; induction k as [|k IH]; intros p; cbn [chars_at]; constructor; [|apply IH].
  pose proof (sl_lt bs p 6) as Hlt. change (2 ^ N.of_nat 6) with 64 in Hlt.
  unfold sixbit_char. destruct (N.ltb_spec (sl bs p 6) 32); lia.
Qed.

Lemma chars_at_length bs p k : length (chars_at bs p k) = k.
Proof. revert p; induction k as [|k IH]; intros p; cbn [chars_at length]; [reflexivity|]. rewrite IH. reflexivity. Qed.

Lemma chars_at_ascii bs p k : forallb (fun b => b <? 128) (chars_at bs p k) = true.
Proof.
  apply forallb_forall. intros c Hc.
  pose proof (chars_at_bound bs p k) as Hb. rewrite Forall_forall in Hb. specialize (Hb c Hc). lia.
Qed.

(* a text field of [size] bits: [size / 6] characters, trimmed; the no-allocator capacity of
   20 characters is never reached by the fixed-width callers (size <= 120) *)
Lemma reads_parse_6bit_ascii' c size :
  noalloc c = false \/ (size / 6 <= 20)%nat ->
  reads (parse_6bit_ascii c size) (6 * (size / 6)) (fun bs p => text_at bs p (size / 6)).
Proof.
  intros Hs. unfold parse_6bit_ascii.
  replace (noalloc c && (MAX_6BIT_ARRAY_BYTES <? size / 6)%nat) with false.
  2:{ unfold MAX_6BIT_ARRAY_BYTES. destruct Hs as [->|Hs]; [reflexivity|].
      destruct (Nat.ltb_spec 20 (size / 6)); [lia|]. destruct (noalloc c); reflexivity. }
  intros bs p Hp. unfold bind.
  pose proof (reads_count_chars (size / 6) bs p Hp) as Hc.
  destruct (6 * (size / 6) + p <=? length bs)%nat; rewrite Hc; [|reflexivity].
  rewrite chars_at_ascii. reflexivity.
Qed.

Lemma reads_parse_6bit_ascii c size :
  (size / 6 <= 20)%nat ->
  reads (parse_6bit_ascii c size) (6 * (size / 6)) (fun bs p => text_at bs p (size / 6)).
Proof. intros H. apply reads_parse_6bit_ascii'. right; exact H. Qed.

(* without an allocator a text of more than 20 characters is rejected, not truncated *)
Lemma parse_6bit_ascii_too_large c size bs p :
  noalloc c = true -> (20 < size / 6)%nat -> parse_6bit_ascii c size bs p = Err EFailure.
Proof.
  intros Hc Hs. unfold parse_6bit_ascii, MAX_6BIT_ARRAY_BYTES. rewrite Hc.
  destruct (Nat.ltb_spec 20 (size / 6)); [reflexivity|lia].
Qed.

(* ---------- absence of panics ---------- *)

Definition nopanic {A} (m : P A) : Prop := forall bs p s, m bs p <> Panic s.

Definition post {A} (m : P A) (Q : A -> Prop) : Prop :=
  forall bs p a p', m bs p = Ok (a, p') -> Q a.

Lemma nopanic_ret {A} (a : A) : nopanic (ret a).
Proof. intros bs p s; discriminate. Qed.

Lemma nopanic_pfail {A} e : nopanic (@pfail A e).
Proof. intros bs p s; discriminate. Qed.

Lemma nopanic_take w : nopanic (take w).
Proof. intros bs p s. unfold take. destruct (w =? 0)%nat; [discriminate|]. destruct (w + p <=? length bs)%nat; discriminate. Qed.

Lemma post_take w : post (take w) (fun a => a < 2 ^ N.of_nat w).
Proof.
  intros bs p a p'. unfold take. destruct (w =? 0)%nat.
  - intros [= <- _]. apply N.neq_0_lt_0, N.pow_nonzero. lia.
  - destruct (w + p <=? length bs)%nat; [|discriminate]. intros [= <- _]. apply sl_lt.
Qed.

Lemma nopanic_bind_Q {A B} (Q : A -> Prop) (m : P A) (f : A -> P B) :
  nopanic m -> post m Q -> (forall a, Q a -> nopanic (f a)) -> nopanic (bind m f).
Proof.
  intros Hm Hp Hf bs p s. unfold bind. destruct (m bs p) as [[a p']|e|s'] eqn:E.
  - apply Hf. eapply Hp; exact E.
  - discriminate.
  - exfalso. exact (Hm _ _ _ E).
Qed.

Lemma nopanic_bind {A B} (m : P A) (f : A -> P B) :
  nopanic m -> (forall a, nopanic (f a)) -> nopanic (bind m f).
Proof. intros Hm Hf. apply (nopanic_bind_Q (fun _ => True)); [exact Hm|intros ? ? ? ? ?; exact I|auto]. Qed.

Lemma nopanic_bind_take {B} w (f : N -> P B) :
  (forall a, a < 2 ^ N.of_nat w -> nopanic (f a)) -> nopanic (bind (take w) f).
Proof. intros Hf. eapply nopanic_bind_Q; [apply nopanic_take|apply post_take|exact Hf]. Qed.

Lemma nopanic_pmap {A B} (g : A -> B) (m : P A) : nopanic m -> nopanic (pmap g m).
Proof. intros H bs p s. unfold pmap. destruct (m bs p) as [[a p']|e|s'] eqn:E; try discriminate. exfalso; exact (H _ _ _ E). Qed.

Lemma nopanic_remaining : nopanic remaining.
Proof. intros bs p s; discriminate. Qed.

Lemma nopanic_of_reads {A} (m : P A) w v : reads m w v -> forall bs p s, (p <= length bs)%nat -> m bs p <> Panic s.
Proof.
  intros H bs p s Hp. specialize (H bs p Hp). destruct (w + p <=? length bs)%nat; rewrite H; discriminate.
Qed.

Ltac one_bit_np :=
  apply nopanic_bind_take; intros a Ha; change (2 ^ N.of_nat 1) with 2 in Ha;
  intros bs p s; unfold lift;
  assert (a = 0 \/ a = 1) as [-> | ->] by lia; discriminate.

Lemma nopanic_take_bool : nopanic take_bool.
Proof. unfold take_bool. one_bit_np. Qed.
Lemma nopanic_take_accuracy : nopanic take_accuracy.
Proof. unfold take_accuracy. one_bit_np. Qed.
Lemma nopanic_take_dte : nopanic take_dte.
Proof. unfold take_dte. one_bit_np. Qed.
Lemma nopanic_take_assigned_mode : nopanic take_assigned_mode.
Proof. unfold take_assigned_mode. one_bit_np. Qed.
Lemma nopanic_take_carrier_sense : nopanic take_carrier_sense.
Proof. unfold take_carrier_sense. one_bit_np. Qed.

Lemma nopanic_signed_i32 len : (0 < len < 32)%nat -> nopanic (signed_i32 len).
Proof.
  intros Hl. unfold signed_i32.
  destruct (Nat.ltb_spec 32 len); [lia|].
  destruct (Nat.eqb_spec len 0); [lia|]. destruct (Nat.eqb_spec len 32); [lia|]. cbn [orb].
  apply nopanic_bind; [apply nopanic_take|intros; apply nopanic_ret].
Qed.

Lemma nopanic_take_char : nopanic take_char.
Proof.
  intros bs p s. unfold take_char. destruct (take 6 bs p) as [[v p']|e|s'] eqn:E; try discriminate.
  - destruct (sixbit_to_ascii v); discriminate.
  - exfalso; exact (nopanic_take _ _ _ _ E).
Qed.

Lemma nopanic_count_chars k : nopanic (count_chars k).
Proof.
  induction k as [|k IH]; cbn [count_chars]; [apply nopanic_ret|].
  apply nopanic_bind; [apply nopanic_take_char|intros c]. apply nopanic_bind; [exact IH|intros; apply nopanic_ret].
Qed.

Lemma nopanic_parse_6bit_ascii c size : nopanic (parse_6bit_ascii c size).
Proof.
  unfold parse_6bit_ascii. destruct (noalloc c && _); [apply nopanic_pfail|].
  apply nopanic_bind; [apply nopanic_count_chars|intros bytes].
  destruct (forallb _ bytes); [apply nopanic_ret|apply nopanic_pfail].
Qed.

(* a look-ahead that the following readers re-read: `let (_, x) = p(data)?` *)
Lemma reads_bind_peek {A B} (m : P A) (f : A -> P B) w v w2 v2 :
  reads m w v -> (forall a, reads (f a) w2 (v2 a)) -> (w <= w2)%nat ->
  reads (bind (peek_p m) f) w2 (fun bs p => v2 (v bs p) bs (0 + p)%nat).
Proof.
  intros Hm Hf Hw bs p Hp. unfold bind, peek_p. cbn [Nat.add].
  destruct (Nat.leb_spec (w2 + p) (length bs)) as [H2|H2].
  - rewrite (reads_ok _ _ _ _ _ Hm) by lia. exact (reads_ok _ _ _ _ _ (Hf _) H2).
  - destruct (Nat.leb_spec (w + p) (length bs)) as [H1|H1].
    + rewrite (reads_ok _ _ _ _ _ Hm H1). exact (reads_short _ _ _ _ _ (Hf _) Hp H2).
    + rewrite (reads_short _ _ _ _ _ Hm Hp H1). reflexivity.
Qed.
