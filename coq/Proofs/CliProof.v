(* Proofs/CliProof.v — C20: the command-line loop (src/bin/aisparser.rs) as a function of the input
   byte stream: every line gets exactly one record, in input order, none of them a crash. *)
From Ais Require Import Model.Base Model.Enums Model.Fields Model.Messages Model.Unarmor Model.Sentence
  Proofs.SentenceLemmas Proofs.Reassembly Proofs.Histories Proofs.Total.
From Coq Require Import ZifyBool ZifyNat ZifyN.
Local Open Scope N_scope.

Lemma run_length c q st h : length (snd (run c q st h)) = length h.
Proof.
  revert st; induction h as [|[l d] h IH]; intros st; cbn [run]; [reflexivity|].
  destruct (step c q st l d) as [st1 o]. specialize (IH st1). destruct (run c q st1 h) as [st2 os].
  cbn [snd length] in *. rewrite IH. reflexivity.
Qed.

(* one record per line *)
Theorem cli_one_record_per_line q input : length (cli q input) = length (split_lines input).
Proof.
  unfold cli. set (lines := split_lines input).
  pose proof (run_length Std q p_init (map (fun l => (l, true)) lines)) as H.
  destruct (run Std q p_init _) as [st outs]. cbn [snd] in H.
  rewrite map_length, combine_length, H, map_length. lia.
Qed.

(* the i-th record is that of the i-th line and the i-th result of the parser run over all lines *)
Theorem cli_records_in_order q input i line :
  nth_error (split_lines input) i = Some line ->
  exists o, nth_error (snd (run Std q p_init (map (fun l => (l, true)) (split_lines input)))) i = Some o /\
            nth_error (cli q input) i = Some (cli_record_of line o).
Proof.
  intros Hl. unfold cli. set (lines := split_lines input) in *.
  pose proof (run_length Std q p_init (map (fun l => (l, true)) lines)) as H.
  destruct (run Std q p_init _) as [st outs]. cbn [snd] in *. rewrite map_length in H.
  assert (Hi : (i < length outs)%nat).
  { rewrite H. apply nth_error_Some. rewrite Hl. discriminate. }
  destruct (nth_error outs i) as [o|] eqn:Ho; [|apply nth_error_None in Ho; lia].
  exists o. split; [reflexivity|].
  rewrite nth_error_map.
  assert (Hc : nth_error (combine lines outs) i = Some (line, o)).
  { clear H Hi. revert outs i Hl Ho. induction lines as [|l ls IH]; intros outs i Hl Ho; [destruct i; discriminate|].
    destruct outs as [|o' os]; [destruct i; discriminate|].
    destruct i as [|i]; cbn [nth_error combine] in *; [congruence|]. apply IH; assumption. }
  rewrite Hc. reflexivity.
Qed.

(* lines are exactly the newline-separated segments *)
Lemma split_lines_aux_spec cur l :
  (forall x, In x cur -> x <> 10) ->
  forall lines, (forall ln, In ln lines -> ~ In 10 ln) ->
  forall last, ~ In 10 last ->
  l = flat_map (fun ln => ln ++ [10]) lines ++ last ->
  split_lines_aux cur l =
  match lines with
  | [] => match rev cur ++ last with [] => [] | x => [x] end
  | ln :: rest => (rev cur ++ ln) :: rest ++ match last with [] => [] | _ => [last] end
  end.
Proof.
  revert cur. induction l as [|x l IH]; intros cur Hcur lines Hlines last Hlast Heq.
  - destruct lines as [|ln rest]; [|destruct ln; discriminate Heq].
    cbn [flat_map app] in Heq. subst last. cbn [split_lines_aux]. rewrite app_nil_r.
    destruct cur as [|n cur]; [reflexivity|]. rewrite rev_append_rev, app_nil_r.
    destruct (rev (n :: cur)) eqn:E; [apply (f_equal (@length N)) in E; rewrite rev_length in E; discriminate|reflexivity].
  - cbn [split_lines_aux]. destruct (N.eqb_spec x 10) as [->|Hx].
    + (* a newline ends the current line *)
      destruct lines as [|ln rest].
      * cbn [flat_map app] in Heq. subst last. exfalso. apply Hlast. left; reflexivity.
      * cbn [flat_map] in Heq. destruct ln as [|y ln].
        -- cbn [app] in Heq. injection Heq as Heq.
           rewrite rev_append_rev, !app_nil_r.
           rewrite (IH [] ltac:(intros ? []) rest ltac:(intros; apply Hlines; right; assumption) last Hlast Heq).
           destruct rest as [|r rs]; cbn [rev app]; [destruct last; reflexivity|reflexivity].
        -- cbn [app] in Heq. injection Heq as Hy _. exfalso. apply (Hlines (y :: ln)); [left; reflexivity|left; congruence].
    + destruct lines as [|ln rest].
      * cbn [flat_map app] in Heq. destruct last as [|y last]; [discriminate|]. injection Heq as -> Heq.
        rewrite (IH (y :: cur) ltac:(intros z [<-|Hz]; [exact Hx|apply Hcur; exact Hz]) [] ltac:(intros ? []) last
                  ltac:(intros Hin; apply Hlast; right; exact Hin) Heq).
        cbn [rev]. rewrite <- app_assoc. reflexivity.
      * cbn [flat_map] in Heq. destruct ln as [|y ln].
        -- cbn [app] in Heq. injection Heq as Hy _. congruence.
        -- cbn [app] in Heq. injection Heq as -> Heq.
           rewrite (IH (y :: cur) ltac:(intros z [<-|Hz]; [exact Hx|apply Hcur; exact Hz]) (ln :: rest)
                     ltac:(intros l0 [<-|Hin]; [intros Hi; apply (Hlines (y :: ln)); [left; reflexivity|right; exact Hi]|apply Hlines; right; exact Hin])
                     last Hlast ltac:(cbn [flat_map]; rewrite <- Heq; reflexivity)).
           cbn [rev]. rewrite <- app_assoc. reflexivity.
Qed.

Theorem split_lines_spec lines last :
  (forall ln, In ln lines -> ~ In 10 ln) -> ~ In 10 last ->
  split_lines (flat_map (fun ln => ln ++ [10]) lines ++ last) = lines ++ match last with [] => [] | _ => [last] end.
Proof.
  intros Hl Hlast. unfold split_lines.
  rewrite (split_lines_aux_spec [] _ ltac:(intros ? []) lines Hl last Hlast eq_refl).
  destruct lines; [destruct last; reflexivity|reflexivity].
Qed.
