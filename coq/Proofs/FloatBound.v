(* Proofs/FloatBound.v — C10, accuracy of the f32 scaling: `raw as f32 / k` (two roundings) and
   `raw as f32 / 600000.0 * 1000.0` (three roundings) are within relative error 2^-22 of the exact
   quotient, for every 32-bit raw value; `raw as f32` is exact below 2^24.  Flocq 4.1, binary32,
   round to nearest even.  These are the only theorems that depend on the standard library's
   real-number axioms. *)
From Coq Require Import ZArith Reals Lia Lra Psatz.
From Flocq Require Import Core.Core IEEE754.BinarySingleNaN IEEE754.Binary IEEE754.Bits.
Require Import Flocq.Prop.Relative.
From Ais Require Import Model.Base Model.Fields Model.F32Eval.
Open Scope R_scope.

#[local] Existing Instance Hprec.

Notation fexp32 := (FLT_exp (3 - 128 - 24) 24).
Notation rnd32 := (round radix2 fexp32 ZnearestE).
Notation u := (/2 * bpow radix2 (-24 + 1)).
Notation R32 := (Binary.B2R 24 128).
Notation fin32 := (Binary.is_finite 24 128).

Lemma rnd32_abs_le_bpow x e : (3 - 128 - 24 <= e)%Z -> (-125 <= e)%Z -> Rabs x <= bpow radix2 e -> Rabs (rnd32 x) <= bpow radix2 e.
Proof.
  intros H1 H2 Hx. apply abs_round_le_generic; auto with typeclass_instances.
  apply generic_format_FLT_bpow; auto with typeclass_instances.
Qed.

Lemma of_Z_correct z : (Z.abs z <= 2 ^ 31)%Z ->
  R32 (f32_of_Z z) = rnd32 (IZR z) /\ fin32 (f32_of_Z z) = true.
Proof.
  intros Hz. unfold f32_of_Z.
  pose proof (Binary.binary_normalize_correct 24 128 Hprec Hmax mode_NE z 0 false) as H.
  assert (F2R (Float radix2 z 0) = IZR z) as HF by (unfold F2R; simpl; ring).
  rewrite HF in H. cbn [round_mode] in H.
  rewrite Rlt_bool_true in H.
  - destruct H as (H1 & H2 & _). split; assumption.
  - apply Rle_lt_trans with (bpow radix2 31).
    + apply rnd32_abs_le_bpow; [lia|lia|]. rewrite <- abs_IZR. change (bpow radix2 31) with (IZR (2^31)). apply IZR_le. exact Hz.
    + apply bpow_lt. lia.
Qed.

Theorem of_Z_exact z : (Z.abs z < 2 ^ 24)%Z -> R32 (f32_of_Z z) = IZR z /\ fin32 (f32_of_Z z) = true.
Proof.
  intros Hz. destruct (of_Z_correct z) as [H1 H2]; [lia|]. split; [|exact H2].
  rewrite H1. apply round_generic; auto with typeclass_instances.
  replace (IZR z) with (F2R (Float radix2 z 0)) by (unfold F2R; simpl; ring).
  apply generic_format_FLT. apply FLT_spec with (Float radix2 z 0); simpl; try reflexivity; lia.
Qed.

Lemma rel_round x : bpow radix2 (-126) <= Rabs x -> exists eps, Rabs eps <= u /\ rnd32 x = x * (1 + eps).
Proof.
  intros H. apply (relative_error_N_FLT_ex radix2 (3 - 128 - 24) 24 Hprec (fun x => negb (Z.even x)) x).
  exact H.
Qed.

(* the quotient after the first two roundings, with its error terms exposed *)
Lemma div_two_roundings (z k : Z) : (Z.abs z <= 2 ^ 31)%Z -> (0 < k < 2 ^ 24)%Z -> z <> 0%Z ->
  exists e1 e2, Rabs e1 <= u /\ Rabs e2 <= u /\
    R32 (f32_div (f32_of_Z z) (f32_of_Z k)) = IZR z * (1 + e1) / IZR k * (1 + e2) /\
    fin32 (f32_div (f32_of_Z z) (f32_of_Z k)) = true /\
    Rabs (R32 (f32_div (f32_of_Z z) (f32_of_Z k))) <= bpow radix2 31 /\
    bpow radix2 (-126) <= Rabs (rnd32 (IZR z) / IZR k).
Proof.
  intros Hz Hk Hnz.
  destruct (of_Z_correct z Hz) as [Hx Hxf].
  destruct (of_Z_exact k) as [Hy Hyf]; [lia|].
  assert (IZR k <> 0) as Hk0 by (apply not_0_IZR; lia).
  assert (0 < IZR k) as Hkpos by (apply IZR_lt; lia).
  assert (1 <= Rabs (IZR z)) as Hz1 by (rewrite <- abs_IZR; apply IZR_le; lia).
  destruct (rel_round (IZR z)) as (e1 & He1 & Hr1).
  { apply Rle_trans with 1; [|exact Hz1]. change 1 with (bpow radix2 0). apply bpow_le. lia. }
  pose proof (Binary.Bdiv_correct 24 128 Hprec Hmax binop_nan_pl32 mode_NE (f32_of_Z z) (f32_of_Z k)) as HD.
  rewrite Hy, Hx in HD. specialize (HD Hk0). cbn [round_mode] in HD.
  set (q := rnd32 (IZR z) / IZR k) in *.
  assert (Rabs q <= bpow radix2 31) as Hq.
  { unfold q. unfold Rdiv. rewrite Rabs_mult, Rabs_inv by exact Hk0. rewrite (Rabs_pos_eq (IZR k)) by lra.
    apply Rle_trans with (Rabs (rnd32 (IZR z)) * 1).
    - apply Rmult_le_compat_l; [apply Rabs_pos|]. rewrite <- Rinv_1. apply Rinv_le_contravar; [lra|]. apply IZR_le. lia.
    - rewrite Rmult_1_r. apply rnd32_abs_le_bpow; [lia|lia|]. rewrite <- abs_IZR. change (bpow radix2 31) with (IZR (2^31)). apply IZR_le. exact Hz. }
  assert (Hrq : Rabs (rnd32 q) <= bpow radix2 31) by (apply rnd32_abs_le_bpow; [lia|lia|exact Hq]).
  rewrite Rlt_bool_true in HD.
  2:{ apply Rle_lt_trans with (bpow radix2 31); [exact Hrq|apply bpow_lt; lia]. }
  destruct HD as (HD & HDf & _).
  assert (bpow radix2 (-126) <= Rabs q) as Hqlow.
  { unfold q. rewrite Hr1. unfold Rdiv. rewrite !Rabs_mult, Rabs_inv by exact Hk0. rewrite (Rabs_pos_eq (IZR k)) by lra.
    assert (/2 <= Rabs (1 + e1)).
    { assert (Rabs e1 <= /2). { eapply Rle_trans; [exact He1|]. simpl. lra. }
      apply Rabs_le_inv in H. rewrite Rabs_pos_eq; lra. }
    assert (/ IZR (2^24) <= / IZR k). { apply Rinv_le_contravar; [lra|]. apply IZR_le. lia. }
    apply Rle_trans with (1 * /2 * / IZR (2 ^ 24)).
    - change (IZR (2^24)) with (bpow radix2 24). rewrite <- bpow_opp. change (/2) with (bpow radix2 (-1)).
      rewrite Rmult_1_l, <- bpow_plus. apply bpow_le. lia.
    - assert (0 < / IZR (2 ^ 24)) as Hp by (apply Rinv_0_lt_compat, IZR_lt; lia).
      assert (1 * / 2 <= Rabs (IZR z) * Rabs (1 + e1)) as Hm by (apply Rmult_le_compat; lra).
      apply Rmult_le_compat; lra. }
  destruct (rel_round q Hqlow) as (e2 & He2 & Hr2).
  exists e1, e2. split; [exact He1|]. split; [exact He2|].
  unfold f32_div. rewrite HD.
  change (round radix2 (SpecFloat.fexp 24 128) ZnearestE q) with (rnd32 q).
  split; [rewrite Hr2; unfold q; rewrite Hr1; reflexivity|].
  split; [rewrite HDf; rewrite Hxf; reflexivity|]. split; [exact Hrq|exact Hqlow].
Qed.

Lemma u_is : u = bpow radix2 (-24).
Proof. change (/2) with (bpow radix2 (-1)). rewrite <- bpow_plus. reflexivity. Qed.

(* raw / k *)
Theorem div_bound (z k : Z) : (Z.abs z <= 2 ^ 31)%Z -> (0 < k < 2 ^ 24)%Z -> z <> 0%Z ->
  Rabs (R32 (f32_div (f32_of_Z z) (f32_of_Z k)) - IZR z / IZR k) <= bpow radix2 (-22) * Rabs (IZR z / IZR k).
Proof.
  intros Hz Hk Hnz.
  destruct (div_two_roundings z k Hz Hk Hnz) as (e1 & e2 & He1 & He2 & Hv & _).
  assert (IZR k <> 0) as Hk0 by (apply not_0_IZR; lia).
  rewrite Hv.
  replace (IZR z * (1 + e1) / IZR k * (1 + e2) - IZR z / IZR k) with (IZR z / IZR k * (e1 + e2 + e1 * e2)) by (field; exact Hk0).
  rewrite Rabs_mult, Rmult_comm. apply Rmult_le_compat_r; [apply Rabs_pos|].
  rewrite u_is in *.
  assert (bpow radix2 (-24) <= / 16777216) as Hb. { simpl. lra. }
  assert (bpow radix2 (-22) = 4 * bpow radix2 (-24)) as H22. { change 4 with (bpow radix2 2). rewrite <- bpow_plus. reflexivity. }
  rewrite H22. pose proof (bpow_gt_0 radix2 (-24)) as Hpos.
  apply Rabs_le_inv in He1, He2. apply Rabs_le. nra.
Qed.

(* zero is exact *)
Theorem div_zero (k : Z) : (0 < k < 2 ^ 24)%Z -> R32 (f32_div (f32_of_Z 0) (f32_of_Z k)) = 0.
Proof.
  intros Hk. destruct (of_Z_exact k) as [Hy Hyf]; [lia|].
  assert (IZR k <> 0) as Hk0 by (apply not_0_IZR; lia).
  pose proof (Binary.Bdiv_correct 24 128 Hprec Hmax binop_nan_pl32 mode_NE (f32_of_Z 0) (f32_of_Z k)) as HD.
  rewrite Hy in HD. specialize (HD Hk0).
  assert (H0 : R32 (f32_of_Z 0) = 0) by (destruct (of_Z_exact 0) as [H _]; [simpl; lia|exact H]).
  rewrite H0 in HD. unfold Rdiv in HD. rewrite Rmult_0_l, round_0 in HD by auto with typeclass_instances.
  rewrite Rabs_R0 in HD. rewrite Rlt_bool_true in HD by (apply bpow_gt_0).
  unfold f32_div. destruct HD as [HD _]. exact HD.
Qed.

(* the type-27 form: raw / 600000 * 1000 against raw / 600 *)
Theorem div_mul_bound (z : Z) : (Z.abs z <= 2 ^ 31)%Z -> z <> 0%Z ->
  Rabs (R32 (f32_mul (f32_div (f32_of_Z z) (f32_of_Z 600000)) (f32_of_Z 1000)) - IZR z / 600)
  <= bpow radix2 (-22) * Rabs (IZR z / 600).
Proof.
  intros Hz Hnz.
  destruct (div_two_roundings z 600000 Hz ltac:(lia) Hnz) as (e1 & e2 & He1 & He2 & Hv & Hfin & Hmag & Hqlow).
  destruct (of_Z_exact 1000) as [Hm Hmf]; [simpl; lia|].
  set (d := f32_div (f32_of_Z z) (f32_of_Z 600000)) in *.
  pose proof (Binary.Bmult_correct 24 128 Hprec Hmax binop_nan_pl32 mode_NE d (f32_of_Z 1000)) as HM.
  rewrite Hm in HM. cbn [round_mode] in HM.
  assert (Hp : Rabs (R32 d * 1000) <= bpow radix2 41).
  { rewrite Rabs_mult. replace (bpow radix2 41) with (bpow radix2 31 * bpow radix2 10) by (rewrite <- bpow_plus; reflexivity).
    apply Rmult_le_compat; try apply Rabs_pos; [exact Hmag|]. rewrite Rabs_pos_eq by lra. simpl. lra. }
  rewrite Rlt_bool_true in HM.
  2:{ apply Rle_lt_trans with (bpow radix2 41); [apply rnd32_abs_le_bpow; [lia|lia|exact Hp]|apply bpow_lt; lia]. }
  destruct HM as (HM & _).
  (* the product is far above the subnormal range *)
  assert (Hdlow : bpow radix2 (-126) <= Rabs (R32 d * 1000)).
  { rewrite Rabs_mult, (Rabs_pos_eq 1000) by lra.
    assert (Hd : bpow radix2 (-127) <= Rabs (R32 d)).
    { rewrite Hv. assert (IZR 600000 <> 0) by (apply not_0_IZR; lia).
      assert (1 <= Rabs (IZR z)) as Hz1 by (rewrite <- abs_IZR; apply IZR_le; lia).
      rewrite u_is in *. assert (bpow radix2 (-24) <= / 16777216) as Hb by (simpl; lra).
      pose proof (bpow_gt_0 radix2 (-24)).
      apply Rabs_le_inv in He1, He2.
      unfold Rdiv. rewrite !Rabs_mult, Rabs_inv by assumption.
      rewrite (Rabs_pos_eq (1 + e1)), (Rabs_pos_eq (1 + e2)), (Rabs_pos_eq (IZR 600000)) by lra.
      apply Rle_trans with (1 * (/2) * / 600000 * (/2)).
      - apply Rle_trans with (bpow radix2 (-24)); [apply bpow_le; lia|]. simpl. lra.
      - assert (0 < / 600000) by lra.
        set (a := Rabs (IZR z)) in *. set (x := 1 + e1). set (y := 1 + e2).
        assert (/2 <= x) by (unfold x; lra). assert (/2 <= y) by (unfold y; lra).
        assert (A1 : /2 <= a * x) by nra.
        assert (A2 : /2 * / 600000 <= a * x * / 600000) by nra.
        nra. }
    apply Rle_trans with (bpow radix2 (-127) * 2); [|apply Rmult_le_compat; try lra; apply bpow_ge_0].
    replace (bpow radix2 (-126)) with (bpow radix2 (-127) * bpow radix2 1) by (rewrite <- bpow_plus; reflexivity).
    simpl. lra. }
  destruct (rel_round _ Hdlow) as (e3 & He3 & Hr3).
  unfold f32_mul. rewrite HM.
  change (round radix2 (SpecFloat.fexp 24 128) ZnearestE (R32 d * 1000)) with (rnd32 (R32 d * 1000)).
  rewrite Hr3, Hv.
  replace (IZR z * (1 + e1) / IZR 600000 * (1 + e2) * 1000 * (1 + e3) - IZR z / 600)
    with (IZR z / 600 * ((1 + e1) * (1 + e2) * (1 + e3) - 1)) by (simpl; field).
  rewrite Rabs_mult, Rmult_comm. apply Rmult_le_compat_r; [apply Rabs_pos|].
  rewrite u_is in *.
  assert (bpow radix2 (-24) <= / 16777216) as Hb. { simpl. lra. }
  assert (bpow radix2 (-22) = 4 * bpow radix2 (-24)) as H22. { change 4 with (bpow radix2 2). rewrite <- bpow_plus. reflexivity. }
  rewrite H22. pose proof (bpow_gt_0 radix2 (-24)) as Hpos.
  apply Rabs_le_inv in He1, He2, He3. apply Rabs_le.
  set (b := bpow radix2 (-24)) in *.
  set (s := e1 + e2 + e1 * e2).
  assert (Hs : - (5 / 2 * b) <= s <= 5 / 2 * b) by (unfold s; nra).
  replace ((1 + e1) * (1 + e2) * (1 + e3) - 1) with (s + e3 + s * e3) by (unfold s; ring).
  assert (Hse : - (b / 2) <= s * e3 <= b / 2) by nra.
  lra.
Qed.
