(* Proofs/NomBytesProof.v — the library routines as written (Model/NomBytes.v) compute the values the
   model of the sentence layer uses (Model/Sentence.v): `u8::from_str` on a digit run is its decimal
   value when that is at most 255 and an error otherwise — however many leading zeros —, and nom's
   `hex_u32` is the value of at most the first eight hex digits. *)
From Ais Require Import Model.Base Model.Sentence Model.NomBytes Proofs.SentenceLemmas.
From Coq Require Import Lia.
Local Open Scope N_scope.

Definition decv (acc : N) (ds : list N) : N := fold_left (fun a d => 10 * a + (d - 48)) ds acc.

Lemma decv_ge acc ds : acc <= decv acc ds.
Proof.
  revert acc; induction ds as [|d ds IH]; intros acc; cbn [decv fold_left]; [lia|].
  fold (decv (10 * acc + (d - 48)) ds). specialize (IH (10 * acc + (d - 48))). lia.
Qed.

Lemma to_digit10_digit c : is_digit c = true -> to_digit10 c = Some (c - 48).
Proof. unfold is_digit, to_digit10. intros ->. reflexivity. Qed.

Lemma fast_is_decv ds acc : forallb is_digit ds = true -> from_str_fast ds acc = Some (decv acc ds).
Proof.
  revert acc; induction ds as [|d ds IH]; intros acc H; cbn [from_str_fast decv fold_left]; [reflexivity|].
  cbn [forallb] in H. apply andb_prop in H. destruct H as [Hd Hr].
  rewrite (to_digit10_digit d Hd). fold (decv (10 * acc + (d - 48)) ds).
  rewrite <- IH by exact Hr. f_equal. lia.
Qed.

Lemma checked_is_decv ds acc :
  forallb is_digit ds = true -> acc <= 255 ->
  from_str_checked ds acc = if decv acc ds <=? 255 then Some (decv acc ds) else None.
Proof.
  revert acc; induction ds as [|d ds IH]; intros acc H Ha; cbn [from_str_checked decv fold_left].
  - destruct (N.leb_spec acc 255); [reflexivity|lia].
  - cbn [forallb] in H. apply andb_prop in H. destruct H as [Hd Hr].
    rewrite (to_digit10_digit d Hd). fold (decv (10 * acc + (d - 48)) ds).
    pose proof (decv_ge (10 * acc + (d - 48)) ds) as Hge.
    destruct (N.leb_spec (acc * 10) 255) as [Hm|Hm].
    + destruct (N.leb_spec (acc * 10 + (d - 48)) 255) as [Hs|Hs].
      * rewrite IH by (assumption || lia). replace (acc * 10 + (d - 48)) with (10 * acc + (d - 48)) by lia. reflexivity.
      * destruct (N.leb_spec (decv (10 * acc + (d - 48)) ds) 255); [lia|reflexivity].
    + destruct (N.leb_spec (decv (10 * acc + (d - 48)) ds) 255); [lia|reflexivity].
Qed.

Lemma decv_dec_value ds : decv 0 ds = dec_value ds.
Proof. reflexivity. Qed.

Lemma two_digits_small ds : forallb is_digit ds = true -> (length ds <= 2)%nat -> dec_value ds <= 99.
Proof.
  intros H Hl. destruct ds as [|a [|b [|c r]]]; cbn [length] in Hl; try lia; unfold dec_value; cbn [fold_left forallb] in *.
  - lia.
  - apply andb_prop in H. destruct H as [Ha _]. unfold is_digit in Ha. lia.
  - apply andb_prop in H. destruct H as [Ha H]. apply andb_prop in H. destruct H as [Hb _]. unfold is_digit in *. lia.
Qed.

(* `u8::from_str` on a non-empty run of ASCII digits *)
Theorem from_str_u8_digits ds :
  ds <> [] -> forallb is_digit ds = true ->
  from_str_u8 ds = if dec_value ds <=? 255 then Some (dec_value ds) else None.
Proof.
  intros Hne H. destruct ds as [|c0 rest]; [congruence|]. unfold from_str_u8.
  assert (Hc : is_digit c0 = true) by (cbn [forallb] in H; apply andb_prop in H; tauto).
  assert (c0 =? 43 = false) as -> by (unfold is_digit in Hc; lia).
  assert (c0 =? 45 = false) as -> by (unfold is_digit in Hc; lia).
  cbn [orb andb]. destruct (Nat.leb_spec (length (c0 :: rest)) 2) as [Hl|Hl].
  - rewrite fast_is_decv by exact H. rewrite decv_dec_value.
    pose proof (two_digits_small _ H Hl). destruct (N.leb_spec (dec_value (c0 :: rest)) 255); [reflexivity|lia].
  - rewrite checked_is_decv by (assumption || lia). rewrite decv_dec_value. reflexivity.
Qed.

(* parse_u8_digit through the library routine = the model's parse_u8_digit *)
Theorem parse_u8_digit_lib_eq l : parse_u8_digit_lib l = parse_u8_digit l.
Proof.
  unfold parse_u8_digit_lib, parse_u8_digit. destruct (span is_digit l) as [ds r] eqn:E.
  destruct (span_spec _ _ _ _ E) as (H1 & H2 & H3).
  destruct ds as [|d ds]; [reflexivity|].
  rewrite from_str_u8_digits by (congruence || exact H2).
  destruct (dec_value (d :: ds) <=? 255); reflexivity.
Qed.

(* ---------- hex_u32 ---------- *)
Definition dig16 (v : N) : N := match to_digit16 v with Some d => d | None => 0 end.
Definition hexv (p : list N) : N := fold_left (fun a d => 16 * a + dig16 d) p 0.

Lemma hex_sum_rev_shift r k : hex_sum_rev r k = 2 ^ (4 * k) * hex_sum_rev r 0.
Proof.
  revert k; induction r as [|v r IH]; intros k; cbn [hex_sum_rev]; [lia|].
  fold (dig16 v). rewrite (IH (k + 1)), (IH (0 + 1)). rewrite !N.shiftl_mul_pow2.
  replace (4 * (k + 1)) with (4 * k + 4) by lia. rewrite N.pow_add_r.
  replace (0 * 4) with 0 by lia. replace (4 * (0 + 1)) with 4 by lia. replace (k * 4) with (4 * k) by lia.
  change (2 ^ 0) with 1. lia.
Qed.

Lemma hexv_app p x : hexv (p ++ [x]) = 16 * hexv p + dig16 x.
Proof. unfold hexv. rewrite fold_left_app. reflexivity. Qed.

Lemma hex_sum_rev_is_hexv p : hex_sum_rev (rev p) 0 = hexv p.
Proof.
  induction p as [|x p IH] using rev_ind; [reflexivity|].
  rewrite rev_app_distr. cbn [rev app hex_sum_rev]. fold (dig16 x).
  rewrite hex_sum_rev_shift, IH, hexv_app, N.shiftl_mul_pow2.
  replace (0 * 4) with 0 by lia. replace (4 * (0 + 1)) with 4 by lia. change (2 ^ 0) with 1. change (2 ^ 4) with 16. lia.
Qed.

Lemma dig16_hex_digit c : is_hex c = true -> dig16 c = hex_digit c.
Proof.
  unfold is_hex, dig16, to_digit16, hex_digit. intros H.
  destruct (N.leb_spec 48 c), (N.leb_spec c 57), (N.leb_spec 97 c), (N.leb_spec c 102), (N.leb_spec 65 c), (N.leb_spec c 70);
    cbn [andb orb] in *; try discriminate; try reflexivity; try lia.
Qed.

Lemma hexv_hex_value p : forallb is_hex p = true -> hexv p = hex_value p.
Proof.
  unfold hexv, hex_value. generalize 0 as acc. induction p as [|x p IH]; intros acc H; cbn [fold_left]; [reflexivity|].
  cbn [forallb] in H. apply andb_prop in H. destruct H as [Hx Hp].
  rewrite (dig16_hex_digit x Hx). apply IH. exact Hp.
Qed.

Lemma forallb_firstn {A} (f : A -> bool) n l : forallb f l = true -> forallb f (firstn n l) = true.
Proof.
  revert l; induction n as [|n IH]; intros l H; [reflexivity|].
  destruct l as [|x l]; [reflexivity|]. cbn [firstn forallb] in *. apply andb_prop in H. destruct H as [-> H]. cbn [andb]. apply IH. exact H.
Qed.

(* nom's hex_u32 as written = the model's hex_u32 *)
Theorem hex_u32_nom_eq l : hex_u32_nom l = hex_u32 l.
Proof.
  unfold hex_u32_nom, hex_u32. destruct (span is_hex l) as [ds r] eqn:E.
  destruct (span_spec _ _ _ _ E) as (H1 & H2 & H3).
  destruct ds as [|d ds]; [reflexivity|].
  destruct (Nat.leb_spec (length (d :: ds)) 8) as [Hl|Hl].
  - rewrite hex_sum_rev_is_hexv, hexv_hex_value by exact H2. reflexivity.
  - rewrite hex_sum_rev_is_hexv, hexv_hex_value; [reflexivity|].
    subst l. rewrite firstn_app. replace (8 - length (d :: ds))%nat with 0%nat by lia.
    rewrite firstn_O, app_nil_r. apply forallb_firstn. exact H2.
Qed.
