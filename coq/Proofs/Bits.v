(* Proofs/Bits.v — facts about bit lists, [N_of_bits] and the slice function [sl]. *)
From Ais Require Import Model.Base.
From Coq Require Import ZifyBool ZifyNat ZifyN.
Local Open Scope N_scope.

Lemma N_of_bits_acc_app a l1 l2 :
  N_of_bits_acc a (l1 ++ l2) = N_of_bits_acc (N_of_bits_acc a l1) l2.
Proof. revert a; induction l1 as [|b l1 IH]; intros a; cbn [app N_of_bits_acc]; [reflexivity|apply IH]. Qed.

Lemma N_of_bits_acc_shift a l :
  N_of_bits_acc a l = a * 2 ^ N.of_nat (length l) + N_of_bits_acc 0 l.
Proof.
  revert a; induction l as [|b l IH]; intros a.
  - cbn [N_of_bits_acc length]. change (N.of_nat 0) with 0. rewrite N.pow_0_r. lia.
  - cbn [N_of_bits_acc length]. rewrite IH, (IH (2 * 0 + b2n b)).
    rewrite Nat2N.inj_succ, N.pow_succ_r'. lia.
Qed.

Lemma N_of_bits_lt l : N_of_bits l < 2 ^ N.of_nat (length l).
Proof.
  unfold N_of_bits. induction l as [|b l IH].
  - cbn. lia.
  - cbn [N_of_bits_acc length]. rewrite N_of_bits_acc_shift.
    rewrite Nat2N.inj_succ, N.pow_succ_r'.
    assert (b2n b <= 1) by (destruct b; cbn; lia).
    replace (2 * 0 + b2n b) with (b2n b) by lia.
    nia.
Qed.

Lemma N_of_bits_app l1 l2 :
  N_of_bits (l1 ++ l2) = N_of_bits l1 * 2 ^ N.of_nat (length l2) + N_of_bits l2.
Proof. unfold N_of_bits. rewrite N_of_bits_acc_app, N_of_bits_acc_shift. reflexivity. Qed.

Lemma sl_lt bs o w : sl bs o w < 2 ^ N.of_nat w.
Proof.
  unfold sl. eapply N.lt_le_trans; [apply N_of_bits_lt|].
  apply N.pow_le_mono_r; [lia|]. rewrite firstn_length. lia.
Qed.

Lemma sl_0 bs o : sl bs o 0 = 0.
Proof. reflexivity. Qed.

Lemma skipn_skipn {A} (a b : nat) (l : list A) : skipn a (skipn b l) = skipn (b + a) l.
Proof.
  revert l; induction b as [|b IH]; intros l; [reflexivity|].
  destruct l as [|x l]; [destruct a; reflexivity|]. cbn [skipn Nat.add]. apply IH.
Qed.

Lemma skipn_nth_cons {A} (d : A) o (l : list A) :
  (o < length l)%nat -> skipn o l = nth o l d :: skipn (S o) l.
Proof.
  revert l; induction o as [|o IH]; intros [|x l] H; cbn [length] in H; try lia; [reflexivity|].
  cbn [skipn nth]. apply IH. lia.
Qed.

Lemma sl_1 bs o : (o < length bs)%nat -> sl bs o 1 = b2n (nth o bs false).
Proof.
  intros H. unfold sl. rewrite (skipn_nth_cons false) by exact H.
  cbn. destruct (nth o bs false); reflexivity.
Qed.

(* a slice of a concatenation that falls inside the middle part *)
Lemma sl_app_mid pre mid post :
  sl (pre ++ mid ++ post) (length pre) (length mid) = N_of_bits mid.
Proof.
  unfold sl. rewrite skipn_app, skipn_all, Nat.sub_diag. cbn [skipn app].
  rewrite firstn_app, firstn_all, Nat.sub_diag. cbn [firstn]. rewrite app_nil_r. reflexivity.
Qed.

(* the w-bit big-endian encoding of a value *)
Fixpoint bits_of_N (w : nat) (v : N) : list bool :=
  match w with
  | O => []
  | S w' => N.testbit v (N.of_nat w') :: bits_of_N w' v
  end.

Lemma bits_of_N_length w v : length (bits_of_N w v) = w.
Proof. induction w as [|w IH]; cbn [bits_of_N length]; [reflexivity|]. rewrite IH. reflexivity. Qed.

Lemma N_of_bits_bits_of_N w v : N_of_bits (bits_of_N w v) = v mod 2 ^ N.of_nat w.
Proof.
  induction w as [|w IH].
  - cbn. rewrite N.mod_1_r. reflexivity.
  - cbn [bits_of_N]. change (N.testbit v (N.of_nat w) :: bits_of_N w v)
      with ([N.testbit v (N.of_nat w)] ++ bits_of_N w v).
    rewrite N_of_bits_app, IH, bits_of_N_length.
    rewrite Nat2N.inj_succ, N.pow_succ_r'.
    replace (N_of_bits [N.testbit v (N.of_nat w)]) with (b2n (N.testbit v (N.of_nat w)))
      by (destruct (N.testbit v (N.of_nat w)); reflexivity).
    rewrite N.testbit_spec' .
    set (k := 2 ^ N.of_nat w). assert (0 < k) by (apply N.neq_0_lt_0, N.pow_nonzero; lia).
    assert (Hb : (v / k) mod 2 < 2) by (apply N.mod_lt; lia).
    rewrite (N.mul_comm 2 k), N.mod_mul_r by lia.
    set (x := (v / k) mod 2) in *. set (y := v mod k).
    destruct (x =? 1) eqn:E; cbn [b2n]; nia.
Qed.

(* round trip: a field encoded between arbitrary neighbours is read back exactly *)
Lemma sl_encoded pre post w v :
  v < 2 ^ N.of_nat w ->
  sl (pre ++ bits_of_N w v ++ post) (length pre) w = v.
Proof.
  intros Hv. rewrite <- (bits_of_N_length w v) at 2.
  rewrite sl_app_mid, N_of_bits_bits_of_N. apply N.mod_small. exact Hv.
Qed.

Lemma byte_bits_length b : length (byte_bits b) = 8%nat.
Proof. reflexivity. Qed.

Lemma bits_of_bytes_length l : length (bits_of_bytes l) = (8 * length l)%nat.
Proof.
  unfold bits_of_bytes. induction l as [|b l IH]; [reflexivity|].
  cbn [flat_map length]. rewrite app_length, IH, byte_bits_length. lia.
Qed.

(* a slice splits into its high and low parts *)
Lemma firstn_add {A} a b (l : list A) : firstn (a + b) l = firstn a l ++ firstn b (skipn a l).
Proof.
  revert l; induction a as [|a IH]; intros l; [reflexivity|].
  destruct l as [|x l]; [cbn; rewrite firstn_nil; reflexivity|]. cbn [Nat.add firstn skipn app]. rewrite IH. reflexivity.
Qed.

Lemma sl_split bs p a w : (p + a + w <= length bs)%nat ->
  sl bs p (a + w) = sl bs p a * 2 ^ N.of_nat w + sl bs (p + a) w.
Proof.
  intros H. unfold sl. rewrite firstn_add, N_of_bits_app, skipn_skipn.
  rewrite firstn_length, !skipn_length. replace (Nat.min w (length bs - (p + a))) with w by lia. reflexivity.
Qed.

Lemma sl_low bs p a w : (p + a + w <= length bs)%nat -> sl bs (p + a) w = sl bs p (a + w) mod 2 ^ N.of_nat w.
Proof.
  intros H. rewrite sl_split by exact H.
  rewrite N.add_comm, N.mod_add by (apply N.pow_nonzero; lia).
  symmetry. apply N.mod_small. apply sl_lt.
Qed.

(* bytes from a byte offset on: the bit stream skipped by whole bytes *)
Lemma skipn_bits_of_bytes k l : skipn (8 * k) (bits_of_bytes l) = bits_of_bytes (skipn k l).
Proof.
  revert l; induction k as [|k IH]; intros l; [reflexivity|].
  destruct l as [|b l]; [reflexivity|].
  replace (8 * S k)%nat with (8 + 8 * k)%nat by lia.
  cbn [bits_of_bytes flat_map skipn]. rewrite <- skipn_skipn.
  change (skipn 8 (byte_bits b ++ flat_map byte_bits l)) with (flat_map byte_bits l). apply IH.
Qed.
