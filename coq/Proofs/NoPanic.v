(* Proofs/NoPanic.v — C01 for the message layer: no [Panic] result is reachable from
   messages::parse, for every byte string, every build configuration and both quirk settings.
   Each `unreachable!()` / `unwrap()` / assert site of the Rust is an explicit Panic branch of
   the model; here each is shown dead. *)
From Ais Require Import Model.Base Model.Enums Model.Fields Model.Messages Spec.Layouts
  Proofs.Bits Proofs.Reads.
From Coq Require Import ZifyBool ZifyNat ZifyN.
Local Open Scope N_scope.

Create HintDb nopanic.
#[export] Hint Resolve nopanic_take nopanic_take_bool nopanic_take_accuracy nopanic_take_dte
  nopanic_take_assigned_mode nopanic_take_carrier_sense nopanic_remaining nopanic_parse_6bit_ascii
  nopanic_ret nopanic_pfail : nopanic.

Lemma nopanic_sub_message t : t < 8 -> nopanic (sub_message_parse t).
Proof.
  intros Ht. unfold sub_message_parse.
  assert (t = 0 \/ t = 1 \/ t = 2 \/ t = 3 \/ t = 4 \/ t = 5 \/ t = 6 \/ t = 7) as Hc by lia.
  destruct Hc as [->|[->|[->|[->|[->|[->|[->| ->]]]]]]]; cbn [N.eqb Pos.eqb orb];
    try (apply nopanic_pmap, nopanic_take).
  unfold utc_hour_and_minute.
  repeat (apply nopanic_bind; [apply nopanic_take|intro]). apply nopanic_ret.
Qed.

Lemma nopanic_sotdma : nopanic sotdma_parse.
Proof.
  unfold sotdma_parse. apply nopanic_bind; [apply nopanic_pmap, nopanic_take|intro].
  apply nopanic_bind_take. intros t Ht. change (2 ^ N.of_nat 3) with 8 in Ht.
  apply nopanic_bind; [apply nopanic_sub_message; exact Ht|intro; apply nopanic_ret].
Qed.

Lemma nopanic_itdma : nopanic itdma_parse.
Proof.
  unfold itdma_parse. apply nopanic_bind; [apply nopanic_pmap, nopanic_take|intro].
  apply nopanic_bind; [apply nopanic_take|intro]. apply nopanic_bind; [apply nopanic_take|intro].
  apply nopanic_bind; [apply nopanic_take_bool|intro; apply nopanic_ret].
Qed.

Lemma nopanic_parse_radio t : nopanic (parse_radio t).
Proof.
  unfold parse_radio. destruct (_ || _); [apply nopanic_sotdma|].
  destruct (t =? 3); [apply nopanic_itdma|apply nopanic_pfail].
Qed.

Lemma nopanic_cs_radio : nopanic parse_cs_radio.
Proof.
  unfold parse_cs_radio. apply nopanic_bind_take. intros a Ha. change (2 ^ N.of_nat 1) with 2 in Ha.
  assert (a = 0 \/ a = 1) as [-> | ->] by lia; cbn [N.eqb Pos.eqb]; [apply nopanic_sotdma|apply nopanic_itdma].
Qed.

Lemma nopanic_sar_radio q t : nopanic (parse_sar_radio q t).
Proof.
  unfold parse_sar_radio. destruct (q16_type9_no_selector q); [apply nopanic_parse_radio|].
  apply nopanic_bind; [apply nopanic_take|intro a]. destruct (a =? 0); [apply nopanic_sotdma|apply nopanic_itdma].
Qed.

Lemma nopanic_lift_ok {A} (a : A) : nopanic (lift (Ok a)).
Proof. intros bs p s; discriminate. Qed.

Lemma nopanic_rest_bytes : nopanic rest_bytes.
Proof. intros bs p s; discriminate. Qed.

Lemma nopanic_owned_data c : nopanic (owned_data c).
Proof.
  unfold owned_data. apply nopanic_bind; [apply nopanic_rest_bytes|intro d].
  destruct (_ && _); [apply nopanic_pfail|apply nopanic_ret].
Qed.

Lemma nopanic_peek {A} (m : P A) : nopanic m -> nopanic (peek_p m).
Proof. intros H bs p s. unfold peek_p. destruct (m bs p) as [[a p']|e|s'] eqn:E; try discriminate. exfalso; exact (H _ _ _ E). Qed.

Lemma nopanic_many_loop {A} (f : P A) min fuel count : nopanic f -> nopanic (many_loop f min fuel count).
Proof.
  intros Hf. revert count; induction fuel as [|fuel IH]; intros count; cbn [many_loop]; [apply nopanic_ret|].
  intros bs p s. destruct (f bs p) as [[v p']|e|s'] eqn:E.
  - destruct (_ =? _)%nat; [discriminate|].
    destruct (many_loop f min fuel (S count) bs p') as [[r p'']|e|s'] eqn:E2; try discriminate.
    exfalso; exact (IH _ _ _ _ E2).
  - destruct e; try discriminate. destruct (_ <? _)%nat; discriminate.
  - exfalso; exact (Hf _ _ _ E).
Qed.

Lemma nopanic_many_m_n {A} (f : P A) min max : nopanic f -> nopanic (many_m_n min max f).
Proof. intros Hf. unfold many_m_n. destruct (_ <? _)%nat; [apply nopanic_pfail|apply nopanic_many_loop; exact Hf]. Qed.

#[export] Hint Resolve nopanic_sotdma nopanic_itdma nopanic_parse_radio nopanic_cs_radio nopanic_sar_radio
  nopanic_owned_data nopanic_rest_bytes : nopanic.

Ltac np :=
  lazymatch goal with
  | |- nopanic (ret _) => apply nopanic_ret
  | |- nopanic (pfail _) => apply nopanic_pfail
  | |- nopanic (lift (Ok _)) => apply nopanic_lift_ok
  | |- nopanic (bind _ _) => apply nopanic_bind; [np | intro; np]
  | |- nopanic (pmap _ _) => apply nopanic_pmap; np
  | |- nopanic (peek_p _) => apply nopanic_peek; np
  | |- nopanic (signed_i32 _) => apply nopanic_signed_i32; lia
  | |- nopanic (many_m_n _ _ _) => apply nopanic_many_m_n; np
  | |- nopanic (if ?b then _ else _) => destruct b; np
  | |- nopanic (match ?x with Some _ => _ | None => _ end) => destruct x; np
  | |- nopanic _ => solve [eauto with nopanic nocore]
  end.

Lemma nopanic_position_report : nopanic parse_position_report.
Proof. unfold parse_position_report. np. Qed.
Lemma nopanic_base_station_report : nopanic parse_base_station_report.
Proof. unfold parse_base_station_report, parse_year, parse_month, parse_day, parse_hour, parse_minsec. np. Qed.
Lemma nopanic_static_voyage c : nopanic (parse_static_voyage c).
Proof. unfold parse_static_voyage, parse_month, parse_day, parse_hour, parse_minsec. np. Qed.
Lemma nopanic_binary_addressed c : nopanic (parse_binary_addressed c).
Proof. unfold parse_binary_addressed. np. Qed.
Lemma nopanic_acknowledgement : nopanic parse_acknowledgement.
Proof. unfold parse_acknowledgement. np. Qed.
#[export] Hint Resolve nopanic_acknowledgement : nopanic.
Lemma nopanic_ack_message : nopanic parse_ack_message.
Proof. unfold parse_ack_message. np. Qed.
Lemma nopanic_binary_broadcast c : nopanic (parse_binary_broadcast c).
Proof. unfold parse_binary_broadcast. np. Qed.
Lemma nopanic_sar q : nopanic (parse_sar_position_report q).
Proof. unfold parse_sar_position_report. np. Qed.
Lemma nopanic_utc_date_inquiry : nopanic parse_utc_date_inquiry.
Proof. unfold parse_utc_date_inquiry. np. Qed.
Lemma nopanic_addressed_safety c : nopanic (parse_addressed_safety c).
Proof. unfold parse_addressed_safety. np. Qed.
Lemma nopanic_safety_broadcast c : nopanic (parse_safety_broadcast c).
Proof. unfold parse_safety_broadcast. np. Qed.

(* type 15: the `push(..).unwrap()` sites — at most two pushes into capacity 3 / 2 *)
Lemma push_unwrap_ok {A} c cap (l : list A) x : (length l < cap)%nat -> push_unwrap c cap l x = Ok (l ++ [x]).
Proof. intros H. unfold push_unwrap. destruct (Nat.leb_spec cap (length l)); [lia|]. rewrite Bool.andb_false_r. reflexivity. Qed.

Lemma nopanic_int_message : nopanic parse_int_message.
Proof. unfold parse_int_message. np. Qed.
#[export] Hint Resolve nopanic_int_message : nopanic.

Lemma post_lift_ok {A} (a : A) : post (lift (Ok a)) (fun x => x = a).
Proof. intros bs p x p' [= <- _]. reflexivity. Qed.

Lemma nopanic_push {A} c cap (l : list A) x : (length l < cap)%nat -> nopanic (lift (push_unwrap c cap l x)).
Proof. intros H. rewrite push_unwrap_ok by exact H. apply nopanic_lift_ok. Qed.

Lemma nopanic_int_station c : nopanic (parse_int_station c).
Proof.
  unfold parse_int_station.
  apply nopanic_bind; [np|intro mmsi]. apply nopanic_bind; [np|intro m1].
  rewrite push_unwrap_ok by (cbn; lia). cbn [app].
  apply (nopanic_bind_Q (fun ms => ms = [m1])); [apply nopanic_lift_ok|apply post_lift_ok|intros ms ->].
  apply nopanic_bind; [np|intro rem].
  apply nopanic_bind; [|intro; np].
  destruct (8 <=? rem)%nat; [|np].
  apply nopanic_bind; [np|intro]. apply nopanic_bind; [np|intro m2].
  destruct (_ || _); [apply nopanic_push; cbn; lia|np].
Qed.
#[export] Hint Resolve nopanic_int_station : nopanic.

Lemma nopanic_interrogation c : nopanic (parse_interrogation c).
Proof.
  unfold parse_interrogation.
  apply nopanic_bind; [np|intro]. apply nopanic_bind; [np|intro]. apply nopanic_bind; [np|intro].
  apply nopanic_bind; [np|intro]. apply nopanic_bind; [np|intro st1].
  rewrite push_unwrap_ok by (cbn; lia). cbn [app].
  apply (nopanic_bind_Q (fun ss => ss = [st1])); [apply nopanic_lift_ok|apply post_lift_ok|intros ss ->].
  apply nopanic_bind; [np|intro rem].
  apply nopanic_bind; [|intro; np].
  destruct (30 <=? rem)%nat; [|np].
  apply nopanic_bind; [np|intro]. apply nopanic_bind; [np|intro st2].
  apply nopanic_bind; [apply nopanic_push; cbn; lia|intro]. np.
Qed.

Lemma nopanic_assignment : nopanic parse_assignment_mode_command.
Proof. unfold parse_assignment_mode_command. np. Qed.
Lemma nopanic_correction_data c : nopanic (parse_correction_data c).
Proof. unfold parse_correction_data. np. Qed.
#[export] Hint Resolve nopanic_correction_data : nopanic.
Lemma nopanic_dgnss c : nopanic (parse_dgnss_broadcast c).
Proof. unfold parse_dgnss_broadcast. np. Qed.
Lemma nopanic_class_b : nopanic parse_class_b_position_report.
Proof. unfold parse_class_b_position_report. np. Qed.
Lemma nopanic_ext_class_b c : nopanic (parse_ext_class_b_position_report c).
Proof. unfold parse_ext_class_b_position_report. np. Qed.
Lemma nopanic_slot_reservation : nopanic parse_slot_reservation.
Proof. unfold parse_slot_reservation. np. Qed.
#[export] Hint Resolve nopanic_slot_reservation : nopanic.
Lemma nopanic_data_link : nopanic parse_data_link_management.
Proof. unfold parse_data_link_management. np. Qed.
Lemma nopanic_aid c : nopanic (parse_aid_to_navigation c).
Proof. unfold parse_aid_to_navigation. np. Qed.

Lemma nopanic_message_part c : nopanic (parse_message_part c).
Proof.
  unfold parse_message_part. apply nopanic_bind_take. intros a Ha. change (2 ^ N.of_nat 2) with 4 in Ha.
  assert (a = 0 \/ a = 1 \/ a = 2 \/ a = 3) as [->|[->|[->| ->]]] by lia; cbn [N.eqb Pos.eqb orb]; np.
Qed.
#[export] Hint Resolve nopanic_message_part : nopanic.
Lemma nopanic_static_data c : nopanic (parse_static_data_report c).
Proof. unfold parse_static_data_report. np. Qed.
Lemma nopanic_long_range : nopanic parse_long_range_broadcast.
Proof. unfold parse_long_range_broadcast. np. Qed.

Lemma run_variant_no_panic {A} bs (k : A -> ais_message) (m : P A) s :
  nopanic m -> run_variant bs k m <> Panic s.
Proof.
  intros H. unfold run_variant, run_bits. destruct (m bs 0%nat) as [[x p]|e|s'] eqn:E; cbn [rmap to_nmea]; try discriminate.
  exfalso; exact (H _ _ _ E).
Qed.

Theorem parse_bits_no_panic c q bs s : parse_bits c q bs <> Panic s.
Proof.
  unfold parse_bits. destruct (run_bits message_type_bits bs) as [t|e|s'] eqn:E; [|discriminate|].
  - repeat match goal with |- context [if ?b then _ else _] => destruct b end;
      try discriminate; apply run_variant_no_panic;
      first [ apply nopanic_position_report | apply nopanic_base_station_report | apply nopanic_static_voyage
            | apply nopanic_ack_message | apply nopanic_binary_addressed | apply nopanic_binary_broadcast
            | apply nopanic_sar | apply nopanic_utc_date_inquiry | apply nopanic_addressed_safety
            | apply nopanic_safety_broadcast | apply nopanic_interrogation | apply nopanic_assignment
            | apply nopanic_dgnss | apply nopanic_class_b | apply nopanic_ext_class_b | apply nopanic_data_link
            | apply nopanic_aid | apply nopanic_static_data | apply nopanic_long_range ].
  - exfalso. unfold run_bits, message_type_bits in E.
    destruct (take 6 bs 0%nat) as [[a p]|e|s''] eqn:E2; try discriminate. exact (nopanic_take _ _ _ _ E2).
Qed.

Theorem msg_parse_no_panic c q bytes s : msg_parse c q bytes <> Panic s.
Proof. apply parse_bits_no_panic. Qed.
