(* Proofs/Builds.v — C18: the three build configurations.  Std and Alloc are the same function in
   the model (the two Rust builds are tied by the correspondence).  The no-allocator build either
   gives exactly the Std result or rejects with the Nmea error category; it never panics (C01) and
   never returns a different value (no silent truncation). *)
From Ais Require Import Model.Base Model.Enums Model.Fields Model.Messages Model.Unarmor Model.Sentence
  Spec.Grammar Spec.Armor Proofs.SentenceLemmas Proofs.Reassembly Proofs.Histories Proofs.UnarmorProof.
From Coq Require Import ZifyBool ZifyNat ZifyN.
Local Open Scope N_scope.

(* ---------- std = alloc ---------- *)
Theorem alloc_is_std_step q st line d : step Alloc q st line d = step Std q st line d.
Proof. reflexivity. Qed.
Theorem alloc_is_std_unarmor data fill : unarmor Alloc data fill = unarmor Std data fill.
Proof. reflexivity. Qed.
Theorem alloc_is_std_msg q bytes : msg_parse Alloc q bytes = msg_parse Std q bytes.
Proof. reflexivity. Qed.

(* ---------- bit parsers: the no-alloc variant equals the std one or fails ---------- *)
Definition pref {A} (m1 m2 : P A) : Prop := forall bs p, m1 bs p = m2 bs p \/ m1 bs p = Err EFailure.

Lemma pref_refl {A} (m : P A) : pref m m.
Proof. intros bs p; left; reflexivity. Qed.

Lemma pref_bind {A B} (m1 m2 : P A) (f1 f2 : A -> P B) :
  pref m1 m2 -> (forall a, pref (f1 a) (f2 a)) -> pref (bind m1 f1) (bind m2 f2).
Proof.
  intros Hm Hf bs p. unfold bind. destruct (Hm bs p) as [-> | ->]; [|right; reflexivity].
  destruct (m2 bs p) as [[a p']|e|s]; [apply Hf|left; reflexivity|left; reflexivity].
Qed.

Lemma pref_text size : pref (parse_6bit_ascii NoAlloc size) (parse_6bit_ascii Std size).
Proof.
  intros bs p. unfold parse_6bit_ascii. cbn [noalloc andb].
  destruct (MAX_6BIT_ARRAY_BYTES <? size / 6)%nat; [right; reflexivity|left; reflexivity].
Qed.

Lemma pref_owned_data : pref (owned_data NoAlloc) (owned_data Std).
Proof.
  intros bs p. unfold owned_data, bind, rest_bytes. cbn [noalloc andb].
  destruct (MAX_DATA_SIZE_BYTES <? _)%nat; [right; reflexivity|left; reflexivity].
Qed.

Lemma pref_peek {A} (m1 m2 : P A) : pref m1 m2 -> pref (peek_p m1) (peek_p m2).
Proof. intros H bs p. unfold peek_p. destruct (H bs p) as [-> | ->]; [left|right]; reflexivity. Qed.

Lemma push_unwrap_same {A} cap (l : list A) x : (length l < cap)%nat -> push_unwrap NoAlloc cap l x = push_unwrap Std cap l x.
Proof. intros H. unfold push_unwrap. cbn [noalloc andb]. destruct (Nat.leb_spec cap (length l)); [lia|reflexivity]. Qed.

Ltac pr :=
  lazymatch goal with
  | |- pref (bind _ _) (bind _ _) => apply pref_bind; [pr | intro; pr]
  | |- pref (parse_6bit_ascii NoAlloc _) (parse_6bit_ascii Std _) => apply pref_text
  | |- pref (owned_data NoAlloc) (owned_data Std) => apply pref_owned_data
  | |- pref (peek_p _) (peek_p _) => apply pref_peek; pr
  | |- pref (if ?b then _ else _) (if ?b then _ else _) => destruct b; pr
  | |- pref ?m ?m => apply pref_refl
  | |- pref _ _ => first [apply pref_refl | fail "pref: no rule"]
  end.

Lemma pref_static_voyage : pref (parse_static_voyage NoAlloc) (parse_static_voyage Std).
Proof. unfold parse_static_voyage. pr. Qed.
Lemma pref_binary_addressed : pref (parse_binary_addressed NoAlloc) (parse_binary_addressed Std).
Proof. unfold parse_binary_addressed. pr. Qed.
Lemma pref_binary_broadcast : pref (parse_binary_broadcast NoAlloc) (parse_binary_broadcast Std).
Proof. unfold parse_binary_broadcast. pr. Qed.
Lemma pref_addressed_safety : pref (parse_addressed_safety NoAlloc) (parse_addressed_safety Std).
Proof. unfold parse_addressed_safety. pr. Qed.
Lemma pref_safety_broadcast : pref (parse_safety_broadcast NoAlloc) (parse_safety_broadcast Std).
Proof. unfold parse_safety_broadcast. pr. Qed.
Lemma pref_dgnss : pref (parse_dgnss_broadcast NoAlloc) (parse_dgnss_broadcast Std).
Proof. unfold parse_dgnss_broadcast, parse_correction_data. pr. Qed.
Lemma pref_ext_class_b : pref (parse_ext_class_b_position_report NoAlloc) (parse_ext_class_b_position_report Std).
Proof. unfold parse_ext_class_b_position_report. pr. Qed.
Lemma pref_aid : pref (parse_aid_to_navigation NoAlloc) (parse_aid_to_navigation Std).
Proof. unfold parse_aid_to_navigation. pr. Qed.
Lemma pref_static_data : pref (parse_static_data_report NoAlloc) (parse_static_data_report Std).
Proof. unfold parse_static_data_report, parse_message_part. pr. Qed.

(* type 15: the heapless pushes stay within capacity, so the two builds are the same function *)
Lemma interrogation_same : forall bs p, parse_interrogation NoAlloc bs p = parse_interrogation Std bs p.
Proof. intros bs p. reflexivity. Qed.

Lemma run_variant_pref {A} bs (k : A -> ais_message) (m1 m2 : P A) :
  pref m1 m2 -> run_variant bs k m1 = run_variant bs k m2 \/ run_variant bs k m1 = Err ENmea.
Proof. intros H. unfold run_variant, run_bits. destruct (H bs 0%nat) as [-> | ->]; [left|right]; reflexivity. Qed.

(* messages::parse: the no-alloc build returns the Std result or the Nmea error *)
Theorem noalloc_msg_refines q bytes :
  msg_parse NoAlloc q bytes = msg_parse Std q bytes \/ msg_parse NoAlloc q bytes = Err ENmea.
Proof.
  unfold msg_parse, parse_bits. destruct (run_bits message_type_bits (bits_of_bytes bytes)) as [t|e|s]; [|left; reflexivity|left; reflexivity].
  repeat match goal with |- context [if ?b then _ else _] => destruct b end;
    try (left; reflexivity);
    first [ apply run_variant_pref; first [apply pref_static_voyage | apply pref_binary_addressed | apply pref_binary_broadcast
              | apply pref_addressed_safety | apply pref_safety_broadcast | apply pref_dgnss | apply pref_ext_class_b
              | apply pref_aid | apply pref_static_data]
          | left; unfold run_variant, run_bits; rewrite interrogation_same; reflexivity ].
Qed.

(* unarmor: the same, unless the output would exceed 384 bytes *)
Theorem noalloc_unarmor_refines data fill : (fill <= 5)%nat ->
  unarmor NoAlloc data fill = unarmor Std data fill \/ unarmor NoAlloc data fill = Err ENmea.
Proof.
  intros Hf. rewrite (unarmor_correct NoAlloc data fill Hf), (unarmor_correct Std data fill Hf).
  cbn [noalloc andb]. destruct (_ <? _)%nat; [right; reflexivity|left; reflexivity].
Qed.

(* the sentence layer: the same, unless the payload field exceeds 384 bytes *)
Theorem noalloc_sentence_refines q line :
  parse_nmea_sentence NoAlloc q line = parse_nmea_sentence Std q line \/
  (exists e, parse_nmea_sentence NoAlloc q line = Err e).
Proof.
  destruct (parse_nmea_sentence Std q line) as [[[raw s] ck]|e|p] eqn:E.
  - destruct (parse_nmea_shaped _ _ _ _ _ _ E) as (f & hex & Hsh & -> & -> & ->).
    destruct Hsh as (tb & start & tail & Hl & Htb & Hd & Hok & Hns & Hrun & Hr).
    destruct (Nat.leb_spec (length (af_payload f)) MAX_SENTENCE_SIZE_BYTES) as [Hc|Hc].
    + left. apply shaped_parse_nmea. exists tb, start, tail.
      destruct Hok as (A1 & A2 & A3 & A4 & A5 & A6 & A7 & A8 & A9 & A10 & _).
      refine (conj Hl (conj Htb (conj Hd (conj _ (conj Hns (conj Hrun Hr)))))).
      refine (conj A1 (conj A2 (conj A3 (conj A4 (conj A5 (conj A6 (conj A7 (conj A8 (conj A9 (conj A10 _)))))))))).
      intros _. exact Hc.
    + right. destruct (parse_nmea_sentence NoAlloc q line) as [[[raw' s'] ck']|e'|p'] eqn:E'; [|eauto|].
      * exfalso. destruct (parse_nmea_facts _ _ _ _ _ _ E') as (Hfit & _).
        destruct (parse_nmea_shaped _ _ _ _ _ _ E') as (f' & hex' & Hsh' & _ & Hs' & _).
        pose proof (shaped_parse_nmea Std q line f' hex') as Hp.
        assert (Shaped Std line f' hex') as Hs2.
        { destruct Hsh' as (tb' & st' & tl' & X1 & X2 & X3 & X4 & X5 & X6 & X7). exists tb', st', tl'.
          destruct X4 as (B1 & B2 & B3 & B4 & B5 & B6 & B7 & B8 & B9 & B10 & _).
          refine (conj X1 (conj X2 (conj X3 (conj _ (conj X5 (conj X6 X7)))))).
          refine (conj B1 (conj B2 (conj B3 (conj B4 (conj B5 (conj B6 (conj B7 (conj B8 (conj B9 (conj B10 _)))))))))).
          intros Hx; discriminate Hx. }
        rewrite (Hp Hs2) in E.
        assert (Hpay : af_payload f' = af_payload f).
        { change (s_data (sentence_of_fields q f') = s_data (sentence_of_fields q f)). congruence. }
        specialize (Hfit eq_refl). rewrite Hs' in Hfit. cbn [sentence_of_fields s_data] in Hfit.
        rewrite Hpay in Hfit. lia.
      * exfalso. exact (parse_nmea_no_panic _ _ _ _ E').
  - right. destruct (parse_nmea_sentence NoAlloc q line) as [[[raw' s'] ck']|e'|p'] eqn:E'; [|eauto|].
    + exfalso. destruct (parse_nmea_shaped _ _ _ _ _ _ E') as (f' & hex' & Hsh' & _).
      assert (Shaped Std line f' hex') as Hs2.
      { destruct Hsh' as (tb' & st' & tl' & X1 & X2 & X3 & X4 & X5 & X6 & X7). exists tb', st', tl'.
        destruct X4 as (B1 & B2 & B3 & B4 & B5 & B6 & B7 & B8 & B9 & B10 & _).
        refine (conj X1 (conj X2 (conj X3 (conj _ (conj X5 (conj X6 X7)))))).
        refine (conj B1 (conj B2 (conj B3 (conj B4 (conj B5 (conj B6 (conj B7 (conj B8 (conj B9 (conj B10 _)))))))))).
        intros Hx; discriminate Hx. }
      rewrite (shaped_parse_nmea Std q line f' hex' Hs2) in E. discriminate.
    + exfalso. exact (parse_nmea_no_panic _ _ _ _ E').
  - exfalso. exact (parse_nmea_no_panic _ _ _ _ E).
Qed.

Lemma finish_refines q s d : s_fill s < 6 ->
  finish NoAlloc q s d = finish Std q s d \/ finish NoAlloc q s d = Err ENmea.
Proof.
  intros Hf. unfold finish. destruct d; [|left; reflexivity].
  destruct (noalloc_unarmor_refines (s_data s) (N.to_nat (s_fill s)) ltac:(lia)) as [-> | ->]; [|right; reflexivity].
  destruct (to_nmea (unarmor Std _ _)) as [u|e|p]; [|left; reflexivity|left; reflexivity].
  destruct (noalloc_msg_refines q u) as [-> | ->]; [left|right]; reflexivity.
Qed.

(* one line, both builds started in the same state: the no-alloc build gives the same result and the
   same next state, or rejects with the Nmea error — then its state is unchanged (capacity rejection
   before the line was taken into a group) or equal to the Std state (the group was consumed by
   both).  In particular every Ok result of the no-alloc build is exactly the Std result. *)
Lemma cap_ok_std st s : cap_ok Std st s = true.
Proof. reflexivity. Qed.

Theorem noalloc_step_refines q st line d :
  let '(s1, o1) := step NoAlloc q st line d in
  let '(s2, o2) := step Std q st line d in
  (o1 = o2 /\ s1 = s2) \/ (o1 = Err ENmea /\ (s1 = st \/ s1 = s2)).
Proof.
  rewrite !step_spec.
  destruct (noalloc_sentence_refines q line) as [Heq | (e & He)].
  2:{ rewrite He. destruct (parse_nmea_sentence Std q line) as [[[raw s] ck]|e'|p]; try (left; split; reflexivity).
      - destruct (ck =? xor_fold raw).
        + destruct (handle Std q st s d) as [s2 o2]. right. split; [reflexivity|left; reflexivity].
        + right. split; [reflexivity|left; reflexivity].
      - right. split; [reflexivity|left; reflexivity]. }
  destruct (parse_nmea_sentence Std q line) as [[[raw s] ck]|e|p] eqn:E; rewrite Heq; try (left; split; reflexivity).
  destruct (ck =? xor_fold raw); [|left; split; reflexivity].
  destruct (parse_nmea_facts _ _ _ _ _ _ Heq) as (Hfit & _ & Hfill & _).
  rewrite (handle_spec NoAlloc q st s d Hfit).
  rewrite (handle_spec Std q st s d) by (intros Hc; discriminate Hc).
  unfold classify. rewrite !cap_ok_std. cbn [negb].
  destruct (has_more s).
  - destruct (s_fragment_number s =? 1); [left; split; reflexivity|].
    destruct (seq_ok st s); cbn [negb]; [|left; split; reflexivity].
    destruct (cap_ok NoAlloc st s); cbn [negb]; [left; split; reflexivity|].
    right. split; [reflexivity|left; reflexivity].
  - destruct (is_fragment s).
    + destruct (seq_ok st s); cbn [negb]; [|left; split; reflexivity].
      destruct (cap_ok NoAlloc st s); cbn [negb].
      * destruct (finish_refines q (with_data s (p_data st ++ s_data s)) d Hfill) as [-> | ->];
          [left; split; reflexivity|right; split; [reflexivity|right; reflexivity]].
      * right. split; [reflexivity|left; reflexivity].
    + destruct (finish_refines q s d Hfill) as [-> | ->];
        [left; split; reflexivity|right; split; [reflexivity|left; reflexivity]].
Qed.

(* hence: no silent truncation — an accepted line of the no-alloc build is accepted with exactly the
   same sentence, payload and message by the std build *)
Theorem noalloc_ok_is_std_ok q st line d f :
  snd (step NoAlloc q st line d) = Ok f -> snd (step Std q st line d) = Ok f /\ fst (step NoAlloc q st line d) = fst (step Std q st line d).
Proof.
  pose proof (noalloc_step_refines q st line d) as H.
  destruct (step NoAlloc q st line d) as [s1 o1]. destruct (step Std q st line d) as [s2 o2]. cbn [fst snd].
  intros Ho. destruct H as [[-> ->]|[-> _]]; [auto|discriminate].
Qed.
