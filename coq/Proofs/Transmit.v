(* Proofs/Transmit.v — transmit, then receive: a message bit string that is armoured, fragmented
   anywhere and framed (Spec/Transmit.v) is returned by the parser, from any state, as the decoding
   of that bit string followed by zero bits.  Sentence grammar, checksum, reassembly, unarmoring and
   the message layer composed (C02, C03, C05, C07, C08 -> C04). *)
From Ais Require Import Model.Base Model.Enums Model.Fields Model.Messages Model.Unarmor Model.Sentence
  Spec.Grammar Spec.Armor Spec.Transmit Proofs.Bits Proofs.SentenceLemmas Proofs.Reassembly Proofs.Histories
  Proofs.InOrder Proofs.UnarmorProof Proofs.EndToEnd.
From Coq Require Import ZifyBool ZifyNat ZifyN.
Local Open Scope N_scope.

(* ---------- armouring ---------- *)
Lemma armor_val_char v : v < 64 -> armor_val (armor_char v) = Some v.
Proof.
  intros Hv. unfold armor_char, armor_val. destruct (N.ltb_spec v 40).
  - replace ((48 <=? v + 48) && (v + 48 <=? 87)) with true by lia. f_equal. lia.
  - replace ((48 <=? v + 56) && (v + 56 <=? 87)) with false by lia.
    replace ((96 <=? v + 56) && (v + 56 <=? 119)) with true by lia. f_equal. lia.
Qed.

Lemma armor_char_range v : v < 64 -> 48 <= armor_char v <= 119.
Proof. intros Hv. unfold armor_char. destruct (N.ltb_spec v 40); lia. Qed.

Lemma vals_of_armored vs : Forall (fun v => v < 64) vs -> vals_of (map armor_char vs) = Some vs.
Proof.
  induction 1 as [|v vs Hv _ IH]; [reflexivity|].
  cbn [map vals_of]. rewrite (armor_val_char v Hv), IH. reflexivity.
Qed.

Lemma N_of_bits_le6 l : (length l <= 6)%nat -> N_of_bits l < 64.
Proof.
  intros Hl. pose proof (N_of_bits_lt l) as H.
  assert (2 ^ N.of_nat (length l) <= 2 ^ 6) by (apply N.pow_le_mono_r; lia).
  change (2 ^ 6) with 64 in *. lia.
Qed.

Lemma chunk6_lt n l : Forall (fun v => v < 64) (chunk6 n l).
Proof.
  revert l; induction n as [|n IH]; intros l; cbn [chunk6]; constructor; [|apply IH].
  apply N_of_bits_le6. rewrite firstn_length. lia.
Qed.

Lemma chunk6_length n l : length (chunk6 n l) = n.
Proof. revert l; induction n as [|n IH]; intros l; cbn [chunk6 length]; [reflexivity|]. rewrite IH. reflexivity. Qed.

Lemma bits6_of_sextet b5 b4 b3 b2 b1 b0 : bits6 (N_of_bits [b5; b4; b3; b2; b1; b0]) = [b5; b4; b3; b2; b1; b0].
Proof. destruct b5, b4, b3, b2, b1, b0; reflexivity. Qed.

Lemma chunk6_bits n l : length l = (6 * n)%nat -> flat_map bits6 (chunk6 n l) = l.
Proof.
  revert l; induction n as [|n IH]; intros l Hl.
  - destruct l; [reflexivity|cbn in Hl; lia].
  - destruct l as [|b5 [|b4 [|b3 [|b2 [|b1 [|b0 r]]]]]]; cbn [length] in Hl; try lia.
    cbn [chunk6 firstn skipn flat_map]. rewrite bits6_of_sextet, (IH r) by lia. reflexivity.
Qed.

Lemma padded6_length (bits : list bool) : exists n, length (padded6 bits) = (6 * n)%nat.
Proof.
  unfold padded6, fill_of. rewrite app_length, repeat_length. set (L := length bits).
  pose proof (Nat.div_mod L 6 ltac:(lia)) as H. pose proof (Nat.mod_upper_bound L 6 ltac:(lia)) as Hm.
  destruct (Nat.eq_dec (L mod 6) 0) as [E|E].
  - exists (L / 6)%nat. rewrite E. cbn [Nat.sub]. rewrite Nat.mod_same by lia. lia.
  - exists (L / 6 + 1)%nat. rewrite (Nat.mod_small (6 - L mod 6) 6) by lia. lia.
Qed.

Lemma fill_of_le5 (bits : list bool) : (fill_of bits <= 5)%nat.
Proof. unfold fill_of. pose proof (Nat.mod_upper_bound (6 - length bits mod 6) 6 ltac:(lia)). lia. Qed.

Lemma sextets_bits (bits : list bool) : flat_map bits6 (sextets_of bits) = padded6 bits.
Proof.
  unfold sextets_of. destruct (padded6_length bits) as (n & Hn). rewrite Hn.
  replace (6 * n / 6)%nat with n by (rewrite Nat.mul_comm, Nat.div_mul; lia). apply chunk6_bits. exact Hn.
Qed.

(* what the receiver's specification bit stream is: the message bits followed by zeros *)
Lemma unarmor_bits_transmitted (bits : list bool) :
  exists k, unarmor_bits (sextets_of bits) (fill_of bits) = bits ++ repeat false k.
Proof.
  unfold unarmor_bits. rewrite sextets_bits.
  assert (Hl : (length (padded6 bits) - fill_of bits = length bits)%nat)
    by (unfold padded6; rewrite app_length, repeat_length; lia).
  rewrite Hl. unfold clear_from, pad8.
  exists (length (padded6 bits ++ repeat false ((8 - length (padded6 bits) mod 8) mod 8)) - length bits)%nat.
  f_equal. unfold padded6. rewrite <- app_assoc. rewrite firstn_app, Nat.sub_diag, firstn_O, app_nil_r.
  apply firstn_all.
Qed.

Lemma payload_vals (bits : list bool) : vals_of (armored_payload bits) = Some (sextets_of bits).
Proof. apply vals_of_armored. apply chunk6_lt. Qed.

Lemma payload_length (bits : list bool) : length (armored_payload bits) = (length (padded6 bits) / 6)%nat.
Proof. unfold armored_payload, sextets_of. rewrite map_length, chunk6_length. reflexivity. Qed.

(* ---------- framing ---------- *)
Lemma sweep256 (f : N -> bool) :
  forallb f (map N.of_nat (seq 0 256)) = true -> forall n, n < 256 -> f n = true.
Proof.
  intros H n Hn. rewrite forallb_forall in H. apply H.
  rewrite <- (N2Nat.id n). apply in_map. apply in_seq. lia.
Qed.

Lemma dec_digits_ok n : n <= 255 -> decimal (dec_digits n) /\ dec_value (dec_digits n) = n.
Proof.
  intros Hn.
  assert (S : forall m, m < 256 ->
    (negb (match dec_digits m with [] => true | _ => false end) && forallb is_digit (dec_digits m) && (dec_value (dec_digits m) =? m)) = true)
    by (apply sweep256; vm_compute; reflexivity).
  specialize (S n ltac:(lia)). apply andb_prop in S. destruct S as [S S3]. apply andb_prop in S. destruct S as [S1 S2].
  split; [split|]; [|exact S2|lia].
  destruct (dec_digits n); [discriminate|congruence].
Qed.

Lemma hex2_ok v : v < 256 -> hex_run (hex2 v) [] /\ checksum_read (hex2 v) = v.
Proof.
  intros Hv.
  assert (S : forall m, m < 256 -> (forallb is_hex (hex2 m) && (checksum_read (hex2 m) =? m)) = true)
    by (apply sweep256; vm_compute; reflexivity).
  specialize (S v Hv). apply andb_prop in S. destruct S as [S1 S2].
  split; [|lia]. unfold hex_run. split; [discriminate|]. split; [exact S1|exact I].
Qed.

Lemma lxor_lt_256 a b : a < 256 -> b < 256 -> N.lxor a b < 256.
Proof.
  intros Ha Hb. destruct (N.eq_dec (N.lxor a b) 0) as [E|E]; [rewrite E; lia|].
  change 256 with (2 ^ 8). apply N.log2_lt_pow2; [lia|].
  pose proof (N.log2_lxor a b) as H.
  assert (La : N.log2 a < 8) by (destruct (N.eq_dec a 0) as [->|]; [cbn; lia|apply N.log2_lt_pow2; [lia|exact Ha]]).
  assert (Lb : N.log2 b < 8) by (destruct (N.eq_dec b 0) as [->|]; [cbn; lia|apply N.log2_lt_pow2; [lia|exact Hb]]).
  lia.
Qed.

Lemma xor_fold_lt_256 l : Forall (fun x => x < 256) l -> xor_fold l < 256.
Proof.
  induction 1 as [|x l Hx _ IH]; [cbn; lia|]. rewrite xor_fold_cons. apply lxor_lt_256; assumption.
Qed.

Definition alphabet (l : list N) : Prop := Forall (fun ch => 48 <= ch <= 119) l.

Lemma alphabet_armored (bits : list bool) : alphabet (armored_payload bits).
Proof.
  unfold alphabet, armored_payload. apply Forall_map. eapply Forall_impl; [|apply (chunk6_lt _ (padded6 bits))].
  intros v Hv. apply armor_char_range. exact Hv.
Qed.

Lemma alphabet_no_byte b l : alphabet l -> (b < 48 \/ 119 < b) -> no_byte b l.
Proof. intros Ha Hb x Hx. unfold alphabet in Ha. rewrite Forall_forall in Ha. specialize (Ha x Hx). lia. Qed.

Lemma digits_alphabet ds : forallb is_digit ds = true -> alphabet ds.
Proof.
  intros H. unfold alphabet. rewrite Forall_forall. intros x Hx. rewrite forallb_forall in H.
  specialize (H x Hx). unfold is_digit in H. lia.
Qed.

Lemma no_byte_app b l1 l2 : no_byte b l1 -> no_byte b l2 -> no_byte b (l1 ++ l2).
Proof. intros H1 H2 x Hx. apply in_app_or in Hx. destruct Hx; [apply H1|apply H2]; assumption. Qed.
Lemma no_byte_cons b x l : x <> b -> no_byte b l -> no_byte b (x :: l).
Proof. intros H1 H2 y [<-|Hy]; [exact H1|apply H2; exact Hy]. Qed.
Lemma no_byte_nil b : no_byte b []. Proof. intros x []. Qed.

(* the conditions under which a framed sentence is well formed *)
Record frame_ok (c : cfg) (n k : N) (id : option N) (chan : N) (payload : list N) (fill : N) : Prop := {
  fo_n : n <= 255; fo_k : k <= 255;
  fo_id : match id with None => True | Some i => i <= 255 end;
  fo_chan : chan <> 44 /\ chan <> 42 /\ chan < 256;
  fo_payload : payload <> [] /\ alphabet payload;
  fo_fill : fill < 6;
  fo_cap : noalloc c = true -> (length payload <= MAX_SENTENCE_SIZE_BYTES)%nat }.

Lemma frame_shaped c n k id chan payload fill :
  frame_ok c n k id chan payload fill ->
  let f := frame_fields n k id chan payload fill in
  Shaped c (frame_line f) f (hex2 (xor_fold (body_bytes f))) /\
  xor_fold (body_bytes f) = checksum_read (hex2 (xor_fold (body_bytes f))).
Proof.
  intros [Hn Hk Hid (Hc1 & Hc2 & Hc3) (Hp1 & Hp2) Hfill Hcap] f.
  destruct (dec_digits_ok n Hn) as [Dn Vn]. destruct (dec_digits_ok k Hk) as [Dk Vk].
  destruct (dec_digits_ok fill ltac:(lia)) as [Df Vf].
  assert (Did : af_id f = [] \/ (decimal (af_id f) /\ dec_value (af_id f) <= 255)).
  { unfold f, frame_fields; cbn [af_id]. destruct id as [i|]; [right|left; reflexivity].
    destruct (dec_digits_ok i Hid) as [Di Vi]. split; [exact Di|lia]. }
  assert (Aid : alphabet (af_id f)).
  { destruct Did as [->|[[_ Hd] _]]; [constructor|apply digits_alphabet; exact Hd]. }
  assert (Hbytes : Forall (fun x => x < 256) (body_bytes f)).
  { unfold body_bytes, f, frame_fields; cbn [af_t1 af_t2 af_r1 af_r2 af_r3 af_count af_number af_id af_channel af_payload af_fill].
    assert (W : forall l, alphabet l -> Forall (fun x => x < 256) l)
      by (intros l Hl; eapply Forall_impl; [|exact Hl]; cbn; intros; lia).
    repeat (first [apply Forall_cons; [lia|] | apply Forall_app; split | apply Forall_nil]);
      try (apply W; first [apply digits_alphabet; first [apply Dn|apply Dk|apply Df] | exact Hp2 | exact Aid]).
    all: try (constructor; [exact Hc3|constructor]). }
  pose proof (xor_fold_lt_256 _ Hbytes) as Hx.
  destruct (hex2_ok _ Hx) as [Hrun Hread].
  split; [|symmetry; exact Hread].
  exists [], 33, []. refine (conj _ (conj _ (conj _ (conj _ (conj _ (conj _ _)))))).
  - unfold frame_line. rewrite app_nil_r. reflexivity.
  - left. reflexivity.
  - left. reflexivity.
  - unfold fields_ok, f, frame_fields; cbn [af_count af_number af_id af_channel af_payload af_fill].
    refine (conj Dn (conj _ (conj Dk (conj _ (conj Did (conj _ (conj Hp1 (conj _ (conj Df (conj _ Hcap)))))))))); try lia.
    + apply no_byte_cons; [exact Hc1|apply no_byte_nil].
    + apply alphabet_no_byte; [exact Hp2|lia].
  - unfold body_bytes, f, frame_fields; cbn [af_t1 af_t2 af_r1 af_r2 af_r3 af_count af_number af_id af_channel af_payload af_fill].
    repeat (first [apply no_byte_cons; [lia|] | apply no_byte_app | apply no_byte_nil]);
      try (apply alphabet_no_byte; [|lia]; first [apply digits_alphabet; first [apply Dn|apply Dk|apply Df] | exact Hp2 | exact Aid]).
    all: try (apply no_byte_cons; [exact Hc2|apply no_byte_nil]).
  - exact Hrun.
  - rewrite Hread. lia.
Qed.

(* ---------- the sentences of a group ---------- *)
Lemma sentence_of_frame c q n k id chan payload fill :
  frame_ok c n k id chan payload fill ->
  let f := frame_fields n k id chan payload fill in
  sentence_of c q (frame_line f) = Some (sentence_of_fields q f).
Proof.
  intros Hok f. destruct (frame_shaped c n k id chan payload fill Hok) as [Hsh Hsum]. fold f in Hsh, Hsum.
  unfold sentence_of. rewrite (shaped_parse_nmea c q _ f _ Hsh). rewrite <- Hsum, N.eqb_refl. reflexivity.
Qed.

Fixpoint group_sentences (q : quirks) (n : N) (k : nat) (id : option N) (chan : N) (parts : list (list N)) (fill : N) : list sentence :=
  match parts with
  | [] => []
  | [p] => [sentence_of_fields q (frame_fields n (N.of_nat k) id chan p fill)]
  | p :: rest => sentence_of_fields q (frame_fields n (N.of_nat k) id chan p 0) :: group_sentences q n (S k) id chan rest fill
  end.

Record group_ok (c : cfg) (id : option N) (chan : N) (parts : list (list N)) (fill : N) : Prop := {
  go_id : match id with None => True | Some i => i <= 255 end;
  go_chan : chan <> 44 /\ chan <> 42 /\ chan < 256;
  go_parts : Forall (fun p => p <> [] /\ alphabet p) parts;
  go_fill : fill < 6;
  go_cap : noalloc c = true -> (length (concat parts) <= MAX_SENTENCE_SIZE_BYTES)%nat }.

Lemma group_lines_parse c q n k id chan parts fill (ds : list bool) :
  group_ok c id chan parts fill -> n <= 255 -> (k + length parts <= 256)%nat -> length ds = length parts ->
  Forall2 (fun ld sd => sentence_of c q (fst ld) = Some (fst sd) /\ snd ld = snd sd)
          (combine (fragment_lines n k id chan parts fill) ds)
          (combine (group_sentences q n k id chan parts fill) ds).
Proof.
  intros [Hid Hchan Hparts Hfill Hcap] Hn. revert k ds Hcap.
  induction Hparts as [|p rest [Hp1 Hp2] Hrest IH]; intros k ds Hcap Hk Hds.
  - cbn. constructor.
  - destruct ds as [|d ds]; [cbn in Hds; lia|]. cbn [length] in Hds, Hk.
    assert (Hcp : noalloc c = true -> (length p <= MAX_SENTENCE_SIZE_BYTES)%nat).
    { intros Hc. specialize (Hcap Hc). cbn [concat] in Hcap. rewrite app_length in Hcap. lia. }
    assert (Hcr : noalloc c = true -> (length (concat rest) <= MAX_SENTENCE_SIZE_BYTES)%nat).
    { intros Hc. specialize (Hcap Hc). cbn [concat] in Hcap. rewrite app_length in Hcap. lia. }
    assert (Fk : forall fl, fl < 6 -> frame_ok c n (N.of_nat k) id chan p fl).
    { intros fl Hfl. constructor; try assumption; try lia. split; assumption. }
    destruct rest as [|p2 rest].
    + cbn [fragment_lines group_sentences combine]. constructor; [|destruct ds; constructor].
      cbn [fst snd]. split; [apply sentence_of_frame; apply Fk; exact Hfill|reflexivity].
    + change (fragment_lines n k id chan (p :: p2 :: rest) fill)
        with (frame_line (frame_fields n (N.of_nat k) id chan p 0) :: fragment_lines n (S k) id chan (p2 :: rest) fill).
      change (group_sentences q n k id chan (p :: p2 :: rest) fill)
        with (sentence_of_fields q (frame_fields n (N.of_nat k) id chan p 0) :: group_sentences q n (S k) id chan (p2 :: rest) fill).
      cbn [combine]. constructor.
      * cbn [fst snd]. split; [apply sentence_of_frame; apply Fk; lia|reflexivity].
      * apply IH; [exact Hcr|lia|lia].
Qed.

Lemma dec_digits_nonempty n : dec_digits n <> [].
Proof. unfold dec_digits. destruct (n <? 10); [discriminate|]. destruct (n <? 100); discriminate. Qed.

Lemma group_numbered q n k id chan parts fill :
  match id with None => True | Some i => i <= 255 end -> n <= 255 -> (k + length parts <= 256)%nat ->
  numbered_from k n id (group_sentences q n k id chan parts fill).
Proof.
  intros Hid Hn. revert k. induction parts as [|p rest IH]; intros k Hk; [exact I|].
  cbn [length] in Hk.
  assert (E : forall fl, let s := sentence_of_fields q (frame_fields n (N.of_nat k) id chan p fl) in
              s_fragment_number s = N.of_nat k /\ s_num_fragments s = n /\ s_message_id s = id).
  { intros fl. cbn [sentence_of_fields frame_fields s_fragment_number s_num_fragments s_message_id af_number af_count af_id].
    split; [apply dec_digits_ok; lia|]. split; [apply dec_digits_ok; lia|].
    destruct id as [i|]; [|reflexivity]. pose proof (dec_digits_nonempty i) as Hne.
    destruct (dec_digits i) eqn:Ed; [congruence|]. rewrite <- Ed. f_equal. apply dec_digits_ok. exact Hid. }
  destruct rest as [|p2 rest].
  - cbn [group_sentences numbered_from]. destruct (E fill) as (A & B & C). auto.
  - change (group_sentences q n k id chan (p :: p2 :: rest) fill)
      with (sentence_of_fields q (frame_fields n (N.of_nat k) id chan p 0) :: group_sentences q n (S k) id chan (p2 :: rest) fill).
    cbn [numbered_from]. destruct (E 0) as (A & B & C). repeat split; try assumption. apply IH. cbn [length] in *. lia.
Qed.

Lemma group_sentences_length q n k id chan parts fill : length (group_sentences q n k id chan parts fill) = length parts.
Proof.
  revert k; induction parts as [|p rest IH]; intros k; [reflexivity|].
  destruct rest as [|p2 rest]; [reflexivity|].
  change (group_sentences q n k id chan (p :: p2 :: rest) fill)
    with (sentence_of_fields q (frame_fields n (N.of_nat k) id chan p 0) :: group_sentences q n (S k) id chan (p2 :: rest) fill).
  cbn [length]. rewrite IH. reflexivity.
Qed.

Lemma group_data q n k id chan parts fill : flat_map s_data (group_sentences q n k id chan parts fill) = concat parts.
Proof.
  revert k; induction parts as [|p rest IH]; intros k; [reflexivity|].
  destruct rest as [|p2 rest].
  - cbn [group_sentences flat_map concat sentence_of_fields frame_fields s_data af_payload]. reflexivity.
  - change (group_sentences q n k id chan (p :: p2 :: rest) fill)
      with (sentence_of_fields q (frame_fields n (N.of_nat k) id chan p 0) :: group_sentences q n (S k) id chan (p2 :: rest) fill).
    cbn [flat_map]. rewrite IH. reflexivity.
Qed.

Lemma map_fst_combine_eq {A B} (l : list A) (l' : list B) : (length l <= length l')%nat -> map fst (combine l l') = l.
Proof.
  revert l'; induction l as [|a l IH]; intros l' H; [reflexivity|].
  destruct l' as [|b l']; [cbn in H; lia|]. cbn [combine map fst length] in *. rewrite IH by lia. reflexivity.
Qed.

(* reception of a group: every fragment but the last answers Incomplete with its own sentence, the
   last one answers what the completed sentence yields; from any parser state *)
Theorem receive_group c q st id chan parts fill (ds : list bool) :
  group_ok c id chan parts fill -> (2 <= length parts <= 255)%nat -> length ds = length parts ->
  run c q st (combine (transmit id chan parts fill) ds) =
  ({| p_id := id; p_fn := 0; p_data := [] |},
   expected c q [] (combine (group_sentences q (N.of_nat (length parts)) 1 id chan parts fill) ds)).
Proof.
  intros Hok Hn Hds. set (n := N.of_nat (length parts)).
  assert (Hlen : length (combine (group_sentences q n 1 id chan parts fill) ds) = length parts)
    by (rewrite combine_length, group_sentences_length; lia).
  assert (Hmap : map fst (combine (group_sentences q n 1 id chan parts fill) ds) = group_sentences q n 1 id chan parts fill).
  { apply map_fst_combine_eq. rewrite group_sentences_length. lia. }
  apply in_order_reassembly.
  - rewrite Hlen. lia.
  - rewrite Hlen, Hmap. apply group_numbered; [exact (go_id _ _ _ _ _ Hok)|unfold n; lia|lia].
  - apply group_lines_parse; [exact Hok|unfold n; lia|lia|exact Hds].
  - intros Hc. rewrite Hmap. unfold total_data. rewrite group_data. exact (go_cap _ _ _ _ _ Hok Hc).
Qed.

(* ---------- decoding what was transmitted ---------- *)
Lemma finish_transmitted c q s (bits : list bool) :
  s_data s = armored_payload bits -> s_fill s = N.of_nat (fill_of bits) ->
  noalloc c && (MAX_SENTENCE_SIZE_BYTES <? byte_count (length (armored_payload bits)))%nat = false ->
  exists k,
    finish c q s true =
    match parse_bits c q (bits ++ repeat false k) with
    | Ok m => Ok (Complete (with_message s (Some m)))
    | Err e => Err e
    | Panic p => Panic p
    end.
Proof.
  intros Hd Hf Hcap. destruct (unarmor_bits_transmitted bits) as (k & Hk). exists k.
  unfold finish. rewrite Hd, Hf, Nat2N.id.
  rewrite (unarmor_correct c _ _ (fill_of_le5 bits)), Hcap.
  unfold unarmor_spec. rewrite payload_vals. cbn [to_nmea]. unfold msg_parse.
  destruct (unarmor_bits_length (sextets_of bits) (fill_of bits)) as (j & Hj).
  rewrite (bits_of_bytes_of_bits j _ Hj), Hk. reflexivity.
Qed.

Lemma last_indep_default {A} (x : A) l d d' : last (x :: l) d = last (x :: l) d'.
Proof. revert x; induction l as [|y l IH]; intros x; [reflexivity|]. change (last (x :: y :: l) d) with (last (y :: l) d). change (last (x :: y :: l) d') with (last (y :: l) d'). apply IH. Qed.

Lemma last_combine {A B} (l : list A) (l' : list B) a b :
  length l = length l' -> last (combine l l') (a, b) = (last l a, last l' b).
Proof.
  revert l'; induction l as [|x l IH]; intros l' H; destruct l' as [|y l']; cbn [length] in H; try lia; [reflexivity|].
  destruct l as [|x2 l]; destruct l' as [|y2 l']; cbn [length] in H; try lia; [reflexivity|].
  change (combine (x :: x2 :: l) (y :: y2 :: l')) with ((x, y) :: combine (x2 :: l) (y2 :: l')).
  change (last ((x, y) :: combine (x2 :: l) (y2 :: l')) (a, b)) with (last (combine (x2 :: l) (y2 :: l')) (a, b)).
  rewrite IH by (cbn [length]; lia). reflexivity.
Qed.

Lemma group_last_fill q n k id chan parts fill dflt :
  parts <> [] -> fill <= 255 -> s_fill (last (group_sentences q n k id chan parts fill) dflt) = fill.
Proof.
  intros Hne Hf. revert k. induction parts as [|p rest IH]; intros k; [contradiction|].
  destruct rest as [|p2 rest].
  - cbn [group_sentences last sentence_of_fields frame_fields s_fill af_fill]. apply dec_digits_ok. exact Hf.
  - change (group_sentences q n k id chan (p :: p2 :: rest) fill)
      with (sentence_of_fields q (frame_fields n (N.of_nat k) id chan p 0) :: group_sentences q n (S k) id chan (p2 :: rest) fill).
    assert (Hg : group_sentences q n (S k) id chan (p2 :: rest) fill <> []).
    { intros E. apply (f_equal (@length _)) in E. rewrite group_sentences_length in E. cbn in E. lia. }
    destruct (group_sentences q n (S k) id chan (p2 :: rest) fill) as [|g gs] eqn:Eg; [contradiction|].
    change (last (sentence_of_fields q (frame_fields n (N.of_nat k) id chan p 0) :: g :: gs) dflt) with (last (g :: gs) dflt).
    rewrite <- Eg. apply IH. discriminate.
Qed.

(* Transmit, then receive.  A message bit string [bits] is armoured; its characters are cut into
   [parts] anywhere (each part non-empty, 2 to 255 parts); the parts are framed as the sentences
   "!AIVDM,n,k,id,chan,part,fill*HH" numbered 1..n with one sequence id, only the last carrying the
   fill count, each with its XOR checksum.  Fed to a parser in ANY state, with decoding requested
   on the last line: the last result is Complete, its payload is the whole armoured payload, and its
   message is the decoding of [bits] followed by zero bits (or the same payload error). *)
Theorem transmit_receive c q st id chan (bits : list bool) parts (ds : list bool) :
  concat parts = armored_payload bits ->
  group_ok c id chan parts (N.of_nat (fill_of bits)) ->
  (2 <= length parts <= 255)%nat -> length ds = length parts -> last ds false = true ->
  noalloc c && (MAX_SENTENCE_SIZE_BYTES <? byte_count (length (armored_payload bits)))%nat = false ->
  let sentences := group_sentences q (N.of_nat (length parts)) 1 id chan parts (N.of_nat (fill_of bits)) in
  let s := with_data (last sentences (sentence_of_fields q (frame_fields 0 0 None 0 [] 0))) (armored_payload bits) in
  exists k,
    last (snd (run c q st (combine (transmit id chan parts (N.of_nat (fill_of bits))) ds))) (Err ENmea) =
    match parse_bits c q (bits ++ repeat false k) with
    | Ok m => Ok (Complete (with_message s (Some m)))
    | Err e => Err e
    | Panic p => Panic p
    end.
Proof.
  intros Hcat Hok Hn Hds Hlast Hcap sentences s.
  rewrite (receive_group c q st id chan parts _ ds Hok Hn Hds). cbn [snd]. fold sentences.
  set (items := combine sentences ds).
  assert (Hls : length sentences = length parts) by apply group_sentences_length.
  assert (Hne : items <> []).
  { unfold items. destruct sentences; [cbn in Hls; lia|]. destruct ds; [cbn in Hds; lia|]. discriminate. }
  destruct (expected_last c q [] items Hne) as (sl & dl & Hl & He). rewrite He.
  assert (Hmap : map fst items = sentences) by (apply map_fst_combine_eq; lia).
  rewrite Hmap. unfold sentences at 1. rewrite group_data, Hcat. cbn [app].
  unfold items in Hl. rewrite last_combine in Hl by lia. injection Hl as Hsl Hdl.
  assert (Edl : dl = true).
  { rewrite <- Hdl. destruct ds as [|d ds]; [cbn in Hds; lia|]. rewrite <- Hlast. apply last_indep_default. }
  subst dl.
  assert (Hpne : parts <> []) by (destruct parts; [cbn in Hn; lia|discriminate]).
  pose proof (fill_of_le5 bits) as Hf5.
  assert (Hfill : s_fill sl = N.of_nat (fill_of bits)).
  { rewrite <- Hsl. unfold sentences. apply group_last_fill; [exact Hpne|lia]. }
  destruct (finish_transmitted c q (with_data sl (armored_payload bits)) bits) as (k & Hk);
    [reflexivity|exact Hfill|exact Hcap|].
  exists k. rewrite Hk. unfold s.
  replace (last sentences (sentence_of_fields q (frame_fields 0 0 None 0 [] 0))) with sl; [reflexivity|].
  rewrite <- Hsl. destruct sentences as [|a r]; [cbn in Hls; lia|]. apply last_indep_default.
Qed.

(* the same for a message that fits one sentence ("1,1"): the state is left as it was *)
Theorem transmit_receive_single c q st id chan (bits : list bool) :
  armored_payload bits <> [] ->
  group_ok c id chan [armored_payload bits] (N.of_nat (fill_of bits)) ->
  noalloc c && (MAX_SENTENCE_SIZE_BYTES <? byte_count (length (armored_payload bits)))%nat = false ->
  let f := frame_fields 1 1 id chan (armored_payload bits) (N.of_nat (fill_of bits)) in
  exists k,
    step c q st (frame_line f) true =
    (st, match parse_bits c q (bits ++ repeat false k) with
         | Ok m => Ok (Complete (with_message (sentence_of_fields q f) (Some m)))
         | Err e => Err e
         | Panic p => Panic p
         end).
Proof.
  intros Hne [Hid Hchan Hparts Hfill Hcapp] Hcap f.
  assert (Hok : frame_ok c 1 1 id chan (armored_payload bits) (N.of_nat (fill_of bits))).
  { constructor; try assumption; try lia.
    - split; [exact Hne|apply alphabet_armored].
    - intros Hc. specialize (Hcapp Hc). cbn [concat] in Hcapp. rewrite app_nil_r in Hcapp. exact Hcapp. }
  destruct (frame_shaped c 1 1 id chan _ _ Hok) as [Hsh Hsum]. fold f in Hsh, Hsum.
  destruct (checksum_match c q st _ true f _ Hsh Hsum) as [Hstep _]. rewrite Hstep.
  set (s := sentence_of_fields q f).
  assert (Hm : has_more s = false) by reflexivity.
  assert (Hfr : is_fragment s = false) by reflexivity.
  unfold handle. rewrite Hm, Hfr.
  pose proof (fill_of_le5 bits) as Hf5.
  destruct (finish_transmitted c q s bits) as (k & Hk); [reflexivity| |exact Hcap|].
  - unfold s, f. cbn [sentence_of_fields frame_fields s_fill af_fill]. apply dec_digits_ok. lia.
  - exists k. rewrite Hk. reflexivity.
Qed.
