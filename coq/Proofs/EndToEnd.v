(* Proofs/EndToEnd.v — the layers composed: sentence -> unarmor -> message.  The first six bits of
   the unarmored payload are the 6-bit value of the first payload character, so the decoded
   message's type field is that value (C19, last clause); and an unfragmented well-formed sentence
   decodes to the layout function applied to the specification bit stream. *)
From Ais Require Import Model.Base Model.Enums Model.Fields Model.Messages Model.Unarmor Model.Sentence
  Spec.Grammar Spec.Armor Spec.Layouts Proofs.Bits Proofs.SentenceLemmas Proofs.Reassembly Proofs.Histories
  Proofs.UnarmorProof Proofs.Dispatch Proofs.Layouts Proofs.MsgLevel.
From Coq Require Import ZifyBool ZifyNat ZifyN.
Local Open Scope N_scope.

Lemma byte_bits_of_bits b7 b6 b5 b4 b3 b2 b1 b0 :
  byte_bits (N_of_bits [b7; b6; b5; b4; b3; b2; b1; b0]) = [b7; b6; b5; b4; b3; b2; b1; b0].
Proof. destruct b7, b6, b5, b4, b3, b2, b1, b0; reflexivity. Qed.

(* repacking a whole number of bytes and unpacking again is the identity *)
Lemma bits_of_bytes_of_bits : forall k bs, length bs = (8 * k)%nat -> bits_of_bytes (bytes_of_bits bs) = bs.
Proof.
  assert (G : forall k bs f, length bs = (8 * k)%nat -> (k <= f)%nat -> bits_of_bytes (pack8 f bs) = bs).
  { induction k as [|k IH]; intros bs f Hl Hf.
    - destruct bs; [destruct f; reflexivity|cbn in Hl; lia].
    - destruct f as [|f]; [lia|].
      destruct bs as [|a0 [|a1 [|a2 [|a3 [|a4 [|a5 [|a6 [|a7 r]]]]]]]]; cbn [length] in Hl; try lia.
      cbn [pack8 bits_of_bytes flat_map]. rewrite byte_bits_of_bits.
      change (flat_map byte_bits (pack8 f r)) with (bits_of_bytes (pack8 f r)).
      rewrite (IH r f); [reflexivity|lia|lia]. }
  intros k bs Hl. unfold bytes_of_bits. apply (G k); [exact Hl|lia].
Qed.

Lemma N_of_bits6 v : v < 64 -> N_of_bits (bits6 v) = v.
Proof.
  intros Hv.
  assert (S : forall x y, x < 64 -> y < 64 -> (N_of_bits (bits6 x) =? x) = true) by (apply sweep2; vm_compute; reflexivity).
  apply N.eqb_eq. exact (S v 0 Hv ltac:(lia)).
Qed.

Lemma unarmor_bits_length vals fill : exists k, length (unarmor_bits vals fill) = (8 * k)%nat.
Proof.
  unfold unarmor_bits. rewrite clear_from_length. unfold pad8. rewrite app_length, repeat_length.
  set (n := length (flat_map bits6 vals)).
  exists ((n + (8 - n mod 8) mod 8) / 8)%nat.
  pose proof (Nat.div_mod n 8 ltac:(lia)) as H. pose proof (Nat.mod_upper_bound n 8 ltac:(lia)) as Hm.
  assert (Hz : ((n + (8 - n mod 8) mod 8) mod 8 = 0)%nat).
  { destruct (Nat.eq_dec (n mod 8) 0) as [E|E].
    - rewrite E. cbn [Nat.sub]. rewrite Nat.mod_same by lia. rewrite Nat.add_0_r. exact E.
    - rewrite (Nat.mod_small (8 - n mod 8) 8) by lia.
      replace (n + (8 - n mod 8))%nat with (8 * (n / 8 + 1))%nat by lia.
      rewrite Nat.mul_comm. apply Nat.mod_mul. lia. }
  pose proof (Nat.div_mod (n + (8 - n mod 8) mod 8) 8 ltac:(lia)) as H2. lia.
Qed.

Lemma firstn_clear_from j k (l : list bool) : (j <= k)%nat -> (j <= length l)%nat -> firstn j (clear_from k l) = firstn j l.
Proof.
  intros Hjk Hjl. unfold clear_from. rewrite firstn_app, firstn_firstn, firstn_length.
  replace (Nat.min j k) with j by lia.
  replace (j - Nat.min k (length l))%nat with 0%nat by lia. cbn [firstn]. apply app_nil_r.
Qed.

(* the first sextet of the unarmored bit stream is the first character's value *)
Theorem unarmor_first_sextet c data fill out v vs :
  (fill <= 5)%nat -> vals_of data = Some (v :: vs) -> (vs <> [] \/ fill = 0%nat) ->
  unarmor c data fill = Ok out -> sl (bits_of_bytes out) 0 6 = v.
Proof.
  intros Hf Hv Hlen Hu. rewrite (unarmor_correct c data fill Hf) in Hu.
  destruct (noalloc c && _); [discriminate|]. unfold unarmor_spec in Hu. rewrite Hv in Hu. injection Hu as <-.
  destruct (unarmor_bits_length (v :: vs) fill) as (k & Hk).
  rewrite (bits_of_bytes_of_bits k _ Hk).
  pose proof (vals_of_lt _ _ Hv) as Hlt. inversion Hlt as [|? ? Hv64 _]; subst.
  unfold unarmor_bits, sl. cbn [skipn flat_map].
  set (bits := bits6 v ++ flat_map bits6 vs).
  assert (Hb : (6 <= length bits - fill)%nat).
  { subst bits. rewrite app_length, bits6_length, flat_bits6_length.
    destruct Hlen as [Hne| ->]; [destruct vs; [contradiction|cbn [length]; lia]|lia]. }
  rewrite firstn_clear_from; [|lia|unfold pad8; rewrite app_length; lia].
  unfold pad8. subst bits. rewrite <- app_assoc.
  rewrite firstn_app, bits6_length. replace (6 - 6)%nat with 0%nat by lia. rewrite firstn_O, app_nil_r.
  rewrite firstn_all2 by (rewrite bits6_length; lia). apply N_of_bits6. exact Hv64.
Qed.

(* C19, last clause, for the model with the finding repaired: an unfragmented sentence that
   decodes reports, at the sentence level, the type field of its decoded message *)
Theorem repaired_type_agrees_with_message c line f hex st fr m :
  Shaped c line f hex -> xor_fold (body_bytes f) = checksum_read hex ->
  let s := sentence_of_fields quirks_off f in
  has_more s = false -> is_fragment s = false ->
  (2 <= length (af_payload f))%nat \/ s_fill s = 0 ->
  snd (step c quirks_off st line true) = Ok fr -> s_message (frag_sentence fr) = Some m ->
  s_message_type (frag_sentence fr) = type_field m.
Proof.
  intros Hsh Hsum s Hm Hfr Hlen Hok Hmsg.
  destruct (checksum_match c quirks_off st line true f hex Hsh Hsum) as [Hstep _].
  rewrite Hstep in Hok. fold s in Hok. unfold handle in Hok. rewrite Hm, Hfr in Hok. cbn [snd] in Hok.
  unfold finish in Hok.
  destruct (unarmor c (s_data s) (N.to_nat (s_fill s))) as [u|e|p] eqn:Hu; cbn [to_nmea] in Hok; try discriminate.
  destruct (msg_parse c quirks_off u) as [m'|e|p] eqn:Hp; try discriminate.
  injection Hok as <-. cbn [frag_sentence with_message s_message s_message_type] in *. injection Hmsg as ->.
  destruct (dispatch_variant c quirks_off (bits_of_bytes u) m Hp) as [_ Ht]. rewrite Ht.
  destruct Hsh as (tb & start & tail & _ & _ & _ & Hokf & _).
  destruct Hokf as (_ & _ & _ & _ & _ & _ & Hpay & _ & _ & Hfill & _).
  (* the payload's characters are all in the alphabet because unarmoring succeeded *)
  assert (Hf5 : (N.to_nat (s_fill s) <= 5)%nat) by (unfold s, sentence_of_fields; cbn [s_fill]; lia).
  pose proof Hu as Hu2. rewrite (unarmor_correct c _ _ Hf5) in Hu2.
  destruct (noalloc c && _); [discriminate|]. unfold unarmor_spec in Hu2.
  destruct (vals_of (s_data s)) as [vals|] eqn:Hv; [|discriminate].
  unfold s, sentence_of_fields in Hv |- *; cbn [s_data s_message_type] in Hv |- *.
  destruct (af_payload f) as [|b rest] eqn:Epay; [contradiction|].
  cbn [vals_of] in Hv. destruct (armor_val b) as [v|] eqn:Hb; [|discriminate].
  destruct (vals_of rest) as [vs|] eqn:Hvs; [|discriminate]. injection Hv as <-.
  cbn [q19_type_from_armored quirks_off]. rewrite armor_value_val, Hb.
  symmetry. apply (unarmor_first_sextet c (b :: rest) (N.to_nat (s_fill s)) u v vs Hf5).
  - cbn [vals_of]. rewrite Hb, Hvs. reflexivity.
  - destruct Hlen as [Hl|Hl].
    + left. intros ->. pose proof (vals_of_length _ _ Hvs) as Hlv. cbn [length] in Hl, Hlv. lia.
    + right. unfold s, sentence_of_fields in Hl |- *; cbn [s_fill] in Hl |- *. lia.
  - unfold s, sentence_of_fields in Hu; cbn [s_data s_fill] in Hu. rewrite Epay in Hu. exact Hu.
Qed.

(* an unfragmented well-formed sentence over the alphabet: what the parser answers with decoding on
   is messages::parse of the *specification* bit stream of its payload (6-bit values concatenated,
   fill and padding cleared) — sentence layer, unarmoring and message layer composed *)
Theorem unfragmented_decodes_spec_bits c q st line f hex vals :
  Shaped c line f hex -> xor_fold (body_bytes f) = checksum_read hex ->
  let s := sentence_of_fields q f in
  has_more s = false -> is_fragment s = false ->
  vals_of (af_payload f) = Some vals ->
  noalloc c && (MAX_SENTENCE_SIZE_BYTES <? byte_count (length (af_payload f)))%nat = false ->
  step c q st line true =
  (st, match parse_bits c q (unarmor_bits vals (N.to_nat (dec_value (af_fill f)))) with
       | Ok m => Ok (Complete (with_message s (Some m)))
       | Err e => Err e
       | Panic p => Panic p
       end).
Proof.
  intros Hsh Hsum s Hm Hfr Hv Hcap.
  destruct (checksum_match c q st line true f hex Hsh Hsum) as [Hstep _].
  rewrite Hstep. fold s. unfold handle. rewrite Hm, Hfr. f_equal.
  unfold finish.
  destruct Hsh as (tb & start & tail & _ & _ & _ & Hokf & _).
  destruct Hokf as (_ & _ & _ & _ & _ & _ & _ & _ & _ & Hfill & _).
  assert (Hf5 : (N.to_nat (s_fill s) <= 5)%nat) by (unfold s, sentence_of_fields; cbn [s_fill]; lia).
  rewrite (unarmor_correct c _ _ Hf5).
  unfold s at 1 2, sentence_of_fields; cbn [s_data s_fill].
  rewrite Hcap. unfold unarmor_spec. rewrite Hv. cbn [to_nmea].
  unfold msg_parse.
  destruct (unarmor_bits_length vals (N.to_nat (dec_value (af_fill f)))) as (k & Hk).
  change (s_fill s) with (dec_value (af_fill f)).
  rewrite (bits_of_bytes_of_bits k _ Hk). reflexivity.
Qed.
