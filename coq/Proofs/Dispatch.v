(* Proofs/Dispatch.v — messages::parse: the variant and the message's own type field are
   determined by the first six bits; unsupported types are errors (property C09). *)
From Ais Require Import Model.Base Model.Enums Model.Fields Model.Messages Spec.Layouts
  Proofs.Bits Proofs.Reads.
From Coq Require Import ZifyBool ZifyNat ZifyN.
Local Open Scope N_scope.

(* index of the variant in the declaration order of `enum AisMessage` *)
Definition variant_index (m : ais_message) : N :=
  match m with
  | PositionReport _ => 0 | BaseStationReport _ => 1 | BinaryBroadcastMessage _ => 2
  | Interrogation _ => 3 | StaticAndVoyageRelatedData _ => 4 | DgnssBroadcastBinaryMessage _ => 5
  | StandardClassBPositionReport _ => 6 | ExtendedClassBPositionReport _ => 7
  | DataLinkManagementMessage _ => 8 | AidToNavigationReport _ => 9 | StaticDataReport _ => 10
  | UtcDateResponse _ => 11 | StandardAircraftPositionReport _ => 12 | AssignmentModeCommand _ => 13
  | BinaryAcknowledgeMessage _ => 14 | UtcDateInquiry _ => 15 | AddressedSafetyRelatedMessage _ => 16
  | SafetyRelatedBroadcastMessage _ => 17 | SafetyRelatedAcknowledgment _ => 18
  | LongRangeAisBroadcastMessage _ => 19 | BinaryAddressedMessage _ => 20
  end.

Definition type_field (m : ais_message) : N :=
  match m with
  | PositionReport x => pr_message_type x | BaseStationReport x => bs_message_type x
  | BinaryBroadcastMessage x => bb_message_type x | Interrogation x => in_message_type x
  | StaticAndVoyageRelatedData x => sv_message_type x | DgnssBroadcastBinaryMessage x => dg_message_type x
  | StandardClassBPositionReport x => cb_message_type x | ExtendedClassBPositionReport x => eb_message_type x
  | DataLinkManagementMessage x => dl_message_type x | AidToNavigationReport x => an_message_type x
  | StaticDataReport x => sd_message_type x | UtcDateResponse x => bs_message_type x
  | StandardAircraftPositionReport x => sar_message_type x | AssignmentModeCommand x => ac_message_type x
  | BinaryAcknowledgeMessage x => am_message_type x | UtcDateInquiry x => ui_message_type x
  | AddressedSafetyRelatedMessage x => as_message_type x | SafetyRelatedBroadcastMessage x => sb_message_type x
  | SafetyRelatedAcknowledgment x => am_message_type x | LongRangeAisBroadcastMessage x => lr_message_type x
  | BinaryAddressedMessage x => ba_message_type x
  end.

(* the table in the statement of C09: type value -> kind of message *)
Definition expected_variant (t : N) : option N :=
  match t with
  | 1 | 2 | 3 => Some 0       (* position report *)
  | 4 => Some 1               (* base station *)
  | 5 => Some 4               (* static and voyage data *)
  | 6 => Some 20              (* binary addressed *)
  | 7 => Some 14              (* binary acknowledge *)
  | 8 => Some 2               (* binary broadcast *)
  | 9 => Some 12              (* SAR aircraft position *)
  | 10 => Some 15             (* UTC inquiry *)
  | 11 => Some 11             (* UTC response *)
  | 12 => Some 16             (* addressed safety *)
  | 13 => Some 18             (* safety acknowledge *)
  | 14 => Some 17             (* safety broadcast *)
  | 15 => Some 3              (* interrogation *)
  | 16 => Some 13             (* assignment command *)
  | 17 => Some 5              (* DGNSS broadcast *)
  | 18 => Some 6              (* class B standard *)
  | 19 => Some 7              (* class B extended *)
  | 20 => Some 8              (* data link management *)
  | 21 => Some 9              (* aid to navigation *)
  | 24 => Some 10             (* static data report *)
  | 27 => Some 19             (* long-range broadcast *)
  | _ => None
  end.

(* ---------- every parser reports the six bits it read first ---------- *)
Lemma post_ret {A} (a : A) (Q : A -> Prop) : Q a -> post (ret a) Q.
Proof. intros H bs p a' p' [= <- _]. exact H. Qed.
Lemma post_pfail {A} e (Q : A -> Prop) : post (pfail e) Q.
Proof. intros bs p a p'; discriminate. Qed.
Lemma post_ppanic {A} s (Q : A -> Prop) : post (ppanic s) Q.
Proof. intros bs p a p'; discriminate. Qed.
Lemma post_bind {A B} (m : P A) (f : A -> P B) (Q : B -> Prop) :
  (forall a, post (f a) Q) -> post (bind m f) Q.
Proof.
  intros H bs p b p'. unfold bind. destruct (m bs p) as [[a p1]|e|s]; try discriminate.
  apply H.
Qed.

Definition starts_with_type {A} (m : P A) (proj : A -> N) : Prop :=
  forall bs r p', m bs 0%nat = Ok (r, p') -> proj r = sl bs 0 6.

Lemma starts_with_type_intro {A} (f : N -> P A) (proj : A -> N) :
  (forall a, post (f a) (fun r => proj r = a)) -> starts_with_type (bind (take 6) f) proj.
Proof.
  intros H bs r p'. unfold bind, take. cbn [Nat.eqb Nat.add].
  destruct (6 <=? length bs)%nat; [|discriminate]. intros E. exact (H _ _ _ _ _ E).
Qed.

Ltac post_tac :=
  repeat first
    [ apply post_ret; reflexivity
    | apply post_pfail
    | apply post_bind; intro
    | match goal with |- post (if ?b then _ else _) _ => destruct b end ].

Ltac swt := apply starts_with_type_intro; intro; post_tac.

Lemma swt_position_report : starts_with_type parse_position_report pr_message_type.
Proof. unfold parse_position_report. swt. Qed.
Lemma swt_base_station_report : starts_with_type parse_base_station_report bs_message_type.
Proof. unfold parse_base_station_report. swt. Qed.
Lemma swt_static_voyage c : starts_with_type (parse_static_voyage c) sv_message_type.
Proof. unfold parse_static_voyage. swt. Qed.
Lemma swt_binary_addressed c : starts_with_type (parse_binary_addressed c) ba_message_type.
Proof. unfold parse_binary_addressed. swt. Qed.
Lemma swt_ack_message : starts_with_type parse_ack_message am_message_type.
Proof. unfold parse_ack_message. swt. Qed.
Lemma swt_binary_broadcast c : starts_with_type (parse_binary_broadcast c) bb_message_type.
Proof. unfold parse_binary_broadcast. swt. Qed.
Lemma swt_sar q : starts_with_type (parse_sar_position_report q) sar_message_type.
Proof. unfold parse_sar_position_report. swt. Qed.
Lemma swt_utc_date_inquiry : starts_with_type parse_utc_date_inquiry ui_message_type.
Proof. unfold parse_utc_date_inquiry. swt. Qed.
Lemma swt_addressed_safety c : starts_with_type (parse_addressed_safety c) as_message_type.
Proof. unfold parse_addressed_safety. swt. Qed.
Lemma swt_safety_broadcast c : starts_with_type (parse_safety_broadcast c) sb_message_type.
Proof. unfold parse_safety_broadcast. swt. Qed.
Lemma swt_interrogation c : starts_with_type (parse_interrogation c) in_message_type.
Proof. unfold parse_interrogation. swt. Qed.
Lemma swt_assignment : starts_with_type parse_assignment_mode_command ac_message_type.
Proof. unfold parse_assignment_mode_command. swt. Qed.
Lemma swt_dgnss c : starts_with_type (parse_dgnss_broadcast c) dg_message_type.
Proof. unfold parse_dgnss_broadcast. swt. Qed.
Lemma swt_class_b : starts_with_type parse_class_b_position_report cb_message_type.
Proof. unfold parse_class_b_position_report. swt. Qed.
Lemma swt_ext_class_b c : starts_with_type (parse_ext_class_b_position_report c) eb_message_type.
Proof. unfold parse_ext_class_b_position_report. swt. Qed.
Lemma swt_data_link : starts_with_type parse_data_link_management dl_message_type.
Proof. unfold parse_data_link_management. swt. Qed.
Lemma swt_aid c : starts_with_type (parse_aid_to_navigation c) an_message_type.
Proof. unfold parse_aid_to_navigation. swt. Qed.
Lemma swt_static_data c : starts_with_type (parse_static_data_report c) sd_message_type.
Proof. unfold parse_static_data_report. swt. Qed.
Lemma swt_long_range : starts_with_type parse_long_range_broadcast lr_message_type.
Proof. unfold parse_long_range_broadcast. swt. Qed.

Lemma run_variant_ok {A} bs (k : A -> ais_message) (p : P A) m :
  run_variant bs k p = Ok m -> exists x p', p bs 0%nat = Ok (x, p') /\ m = k x.
Proof.
  unfold run_variant, run_bits. destruct (p bs 0%nat) as [[x p']|e|s]; cbn [rmap to_nmea].
  - intros [= <-]. eauto.
  - destruct e; discriminate.
  - discriminate.
Qed.

Ltac eval_conds H :=
  cbn [N.leb N.eqb N.compare Pos.compare Pos.compare_cont Pos.eqb andb orb negb] in H.

Theorem dispatch_variant c q bs m :
  parse_bits c q bs = Ok m ->
  expected_variant (sl bs 0 6) = Some (variant_index m) /\ type_field m = sl bs 0 6.
Proof.
  unfold parse_bits, run_bits, message_type_bits, take. cbn [Nat.eqb Nat.add].
  destruct (6 <=? length bs)%nat; [|discriminate].
  pose proof (sl_lt bs 0 6) as Hlt. change (2 ^ N.of_nat 6) with 64 in Hlt.
  assert (Hc : exists n, sl bs 0 6 = N.of_nat n /\ (n < 64)%nat) by (exists (N.to_nat (sl bs 0 6)); lia).
  destruct Hc as (n & Hn & Hn64).
  intros H.
  do 64 (destruct n as [|n]; [simpl N.of_nat in Hn; rewrite Hn in H; eval_conds H;
    first [ discriminate H
          | apply run_variant_ok in H; destruct H as (x & p' & Hp & ->); cbn [variant_index type_field];
            split; [rewrite Hn; reflexivity|];
            first [ exact (swt_position_report _ _ _ Hp) | exact (swt_base_station_report _ _ _ Hp)
                  | exact (swt_static_voyage _ _ _ _ Hp) | exact (swt_binary_addressed _ _ _ _ Hp)
                  | exact (swt_ack_message _ _ _ Hp) | exact (swt_binary_broadcast _ _ _ _ Hp)
                  | exact (swt_sar _ _ _ _ Hp) | exact (swt_utc_date_inquiry _ _ _ Hp)
                  | exact (swt_addressed_safety _ _ _ _ Hp) | exact (swt_safety_broadcast _ _ _ _ Hp)
                  | exact (swt_interrogation _ _ _ _ Hp) | exact (swt_assignment _ _ _ Hp)
                  | exact (swt_dgnss _ _ _ _ Hp) | exact (swt_class_b _ _ _ Hp)
                  | exact (swt_ext_class_b _ _ _ _ Hp) | exact (swt_data_link _ _ _ Hp)
                  | exact (swt_aid _ _ _ _ Hp) | exact (swt_static_data _ _ _ _ Hp)
                  | exact (swt_long_range _ _ _ Hp) ] ] |]).
  lia.
Qed.

Theorem dispatch_unsupported c q bs :
  expected_variant (sl bs 0 6) = None -> parse_bits c q bs = Err ENmea.
Proof.
  unfold parse_bits, run_bits, message_type_bits, take. cbn [Nat.eqb Nat.add].
  destruct (6 <=? length bs)%nat; [|reflexivity].
  pose proof (sl_lt bs 0 6) as Hlt. change (2 ^ N.of_nat 6) with 64 in Hlt.
  assert (Hc : exists n, sl bs 0 6 = N.of_nat n /\ (n < 64)%nat) by (exists (N.to_nat (sl bs 0 6)); lia).
  destruct Hc as (n & Hn & Hn64). intros H.
  do 64 (destruct n as [|n]; [simpl N.of_nat in Hn; rewrite Hn in H |- *;
     first [discriminate H | cbn [N.leb N.eqb N.compare Pos.compare Pos.compare_cont Pos.eqb andb orb negb]; reflexivity] |]).
  lia.
Qed.

Theorem dispatch_empty c q : parse_bits c q [] = Err ENmea.
Proof. reflexivity. Qed.
