(* Proofs/Reassembly.v — the AisParser state machine: transparency of rejected and
   unfragmented lines (C17), the open-group invariant and the delivery theorem (C06), and
   in-order reassembly (C05).  Everything is proved for the sentence-level function [handle]
   (what AisParser::parse does once a line is parsed and its checksum verified) and lifted to
   [step] and to whole histories [run]. *)
From Ais Require Import Model.Base Model.Enums Model.Fields Model.Messages Model.Unarmor Model.Sentence.
From Coq Require Import ZifyBool ZifyNat ZifyN.
Local Open Scope N_scope.

(* ---------- verify_and_extend ---------- *)
Definition seq_ok (st : pstate) (s : sentence) : bool :=
  opt_eqb (p_id st) (s_message_id s) && (s_fragment_number s =? p_fn st + 1).
Definition cap_ok (c : cfg) (st : pstate) (s : sentence) : bool :=
  negb (noalloc c && (MAX_SENTENCE_SIZE_BYTES <? length (p_data st) + length (s_data s))%nat).
Definition extended (st : pstate) (s : sentence) : pstate :=
  {| p_id := p_id st; p_fn := s_fragment_number s; p_data := p_data st ++ s_data s |}.

Lemma verify_spec c st s :
  verify_and_extend c st s =
  if seq_ok st s && cap_ok c st s then (extended st s, Ok tt) else (st, Err ENmea).
Proof.
  unfold verify_and_extend, seq_ok, cap_ok, extended.
  destruct (opt_eqb (p_id st) (s_message_id s)); cbn [negb andb]; [|reflexivity].
  destruct (s_fragment_number s =? p_fn st + 1); cbn [negb andb]; [|reflexivity].
  destruct (noalloc c && _); reflexivity.
Qed.

Lemma opt_eqb_refl o : opt_eqb o o = true.
Proof. destruct o; cbn; [apply N.eqb_refl|reflexivity]. Qed.

Lemma opt_eqb_eq a b : opt_eqb a b = true <-> a = b.
Proof.
  destruct a, b; cbn; split; intros H; try discriminate; try reflexivity.
  - apply N.eqb_eq in H. subst; reflexivity.
  - injection H as ->. apply N.eqb_refl.
Qed.

(* the payload field of a parsed sentence respects the no-allocator capacity *)
Definition data_fits (c : cfg) (s : sentence) : Prop :=
  noalloc c = true -> (length (s_data s) <= MAX_SENTENCE_SIZE_BYTES)%nat.

(* ---------- classification of what a sentence does to the parser ---------- *)
Inductive sclass :=
| Unfragmented      (* not waiting for more, num_fragments = 1 *)
| FirstFragment     (* more to come, fragment number 1: opens a group *)
| Continuation      (* more to come, fragment number <> 1, accepted *)
| FinalFragment     (* last of a group, accepted: delivers *)
| BadSequence       (* id or number does not continue the open group *)
| OverCapacity.     (* no-allocator build only: accumulated payload would exceed 384 bytes *)

Definition classify (c : cfg) (st : pstate) (s : sentence) : sclass :=
  if has_more s then
    if s_fragment_number s =? 1 then FirstFragment
    else if negb (seq_ok st s) then BadSequence
    else if negb (cap_ok c st s) then OverCapacity
    else Continuation
  else if is_fragment s then
    if negb (seq_ok st s) then BadSequence
    else if negb (cap_ok c st s) then OverCapacity
    else FinalFragment
  else Unfragmented.

Definition opened (s : sentence) : pstate := {| p_id := s_message_id s; p_fn := 1; p_data := s_data s |}.
Definition closed (st : pstate) : pstate := {| p_id := p_id st; p_fn := 0; p_data := [] |}.

(* what [handle] does, case by case *)
Lemma handle_spec c q st s d :
  data_fits c s ->
  handle c q st s d =
  match classify c st s with
  | Unfragmented => (st, finish c q s d)
  | FirstFragment => (opened s, Ok (Incomplete s))
  | Continuation => (extended st s, Ok (Incomplete s))
  | FinalFragment => (closed st, finish c q (with_data s (p_data st ++ s_data s)) d)
  | BadSequence => (st, Err ENmea)
  | OverCapacity => (st, Err ENmea)
  end.
Proof.
  intros Hfit. unfold handle, classify.
  destruct (has_more s) eqn:Hm.
  - destruct (s_fragment_number s =? 1) eqn:H1.
    + rewrite verify_spec. unfold seq_ok, cap_ok. cbn [p_id p_fn p_data].
      rewrite opt_eqb_refl. apply N.eqb_eq in H1. rewrite H1. cbn [N.add N.eqb Pos.eqb andb app length Nat.add].
      replace (noalloc c && (MAX_SENTENCE_SIZE_BYTES <? length (s_data s))%nat) with false.
      2:{ destruct (noalloc c) eqn:Hc; [|reflexivity]. unfold data_fits in Hfit. rewrite Hc in Hfit. specialize (Hfit eq_refl).
          destruct (Nat.ltb_spec MAX_SENTENCE_SIZE_BYTES (length (s_data s))); [lia|reflexivity]. }
      cbn [negb]. unfold extended, opened. cbn [p_id p_fn p_data app]. rewrite H1. reflexivity.
    + rewrite verify_spec. destruct (seq_ok st s); cbn [negb andb]; [|reflexivity].
      destruct (cap_ok c st s); reflexivity.
  - destruct (is_fragment s) eqn:Hf; [|reflexivity].
    rewrite verify_spec. destruct (seq_ok st s); cbn [negb andb]; [|reflexivity].
    destruct (cap_ok c st s); cbn [negb]; [|reflexivity].
    unfold extended, closed. cbn [p_id p_fn p_data]. reflexivity.
Qed.

(* ---------- C17: no trace ---------- *)
Lemma handle_transparent c q st s d :
  data_fits c s ->
  match classify c st s with Unfragmented | BadSequence | OverCapacity => True | _ => False end ->
  fst (handle c q st s d) = st.
Proof. intros Hfit Hc. rewrite handle_spec by exact Hfit. destruct (classify c st s); try contradiction; reflexivity. Qed.

(* ---------- ghost-instrumented machine: which accepted fragments form the open group ---------- *)
Record gstate := { g_st : pstate; g_open : list (nat * sentence) }.
Definition g_init := {| g_st := p_init; g_open := [] |}.

(* a delivery: the indices and sentences of the fragments the delivered payload was built from *)
Definition delivery := list (nat * sentence).

Definition ghandle (c : cfg) (q : quirks) (i : nat) (g : gstate) (s : sentence) (d : bool)
  : gstate * res frag * option delivery :=
  let '(st', o) := handle c q (g_st g) s d in
  match classify c (g_st g) s with
  | FirstFragment => ({| g_st := st'; g_open := [(i, s)] |}, o, None)
  | Continuation => ({| g_st := st'; g_open := g_open g ++ [(i, s)] |}, o, None)
  | FinalFragment => ({| g_st := st'; g_open := [] |}, o, Some (g_open g ++ [(i, s)]))
  | _ => ({| g_st := st'; g_open := g_open g |}, o, None)
  end.

Lemma ghandle_erase c q i g s d :
  let '(g', o, _) := ghandle c q i g s d in (g_st g', o) = handle c q (g_st g) s d.
Proof. unfold ghandle. destruct (handle c q (g_st g) s d) as [st' o]. destruct (classify c (g_st g) s); reflexivity. Qed.

(* the open-group invariant *)
Fixpoint numbered (from : N) (id : option N) (l : list (nat * sentence)) : Prop :=
  match l with
  | [] => True
  | (_, s) :: r => s_fragment_number s = from /\ s_message_id s = id /\ has_more s = true /\ numbered (from + 1) id r
  end.

Fixpoint increasing (lo : nat) (l : list (nat * sentence)) : Prop :=
  match l with
  | [] => True
  | (i, _) :: r => (lo <= i)%nat /\ increasing (S i) r
  end.

Definition payload_of (l : list (nat * sentence)) : list N := flat_map (fun x => s_data (snd x)) l.

Record Inv (bound : nat) (g : gstate) : Prop := {
  inv_fn : p_fn (g_st g) = N.of_nat (length (g_open g));
  inv_data : p_data (g_st g) = payload_of (g_open g);
  inv_numbered : numbered 1 (p_id (g_st g)) (g_open g);
  inv_increasing : increasing 0 (g_open g);
  inv_bound : Forall (fun x => (fst x < bound)%nat) (g_open g) }.

Lemma Inv_init : Inv 0 g_init.
Proof. constructor; cbn; auto. Qed.

Lemma numbered_app from id l x :
  numbered from id (l ++ [x]) <->
  numbered from id l /\ s_fragment_number (snd x) = from + N.of_nat (length l) /\ s_message_id (snd x) = id /\ has_more (snd x) = true.
Proof.
  revert from; induction l as [|[j t] l IH]; intros from; cbn [app numbered length].
  - destruct x as [i s]. cbn [snd numbered]. change (N.of_nat 0) with 0. rewrite N.add_0_r. tauto.
  - rewrite IH. rewrite Nat2N.inj_succ. replace (from + 1 + N.of_nat (length l)) with (from + N.succ (N.of_nat (length l))) by lia. tauto.
Qed.

Lemma increasing_app lo l i s :
  increasing lo l -> Forall (fun x => (fst x < i)%nat) l -> (lo <= i)%nat -> increasing lo (l ++ [(i, s)]).
Proof.
  revert lo; induction l as [|[j t] l IH]; intros lo Hinc Hb Hlo; cbn [app increasing] in *.
  - auto.
  - destruct Hinc as [H1 H2]. inversion Hb as [|? ? Hj Hb']; subst. cbn [fst] in Hj.
    split; [exact H1|]. apply IH; [exact H2|exact Hb'|lia].
Qed.

Lemma increasing_weaken lo lo' l : (lo' <= lo)%nat -> increasing lo l -> increasing lo' l.
Proof. destruct l as [|[j t] l]; cbn; [auto|]. intros H [H1 H2]. split; [lia|exact H2]. Qed.

Lemma payload_of_app l x : payload_of (l ++ [x]) = payload_of l ++ s_data (snd x).
Proof. unfold payload_of. rewrite flat_map_app. cbn [flat_map]. rewrite app_nil_r. reflexivity. Qed.

Lemma Forall_lt_weaken (l : list (nat * sentence)) a b :
  (a <= b)%nat -> Forall (fun x => (fst x < a)%nat) l -> Forall (fun x => (fst x < b)%nat) l.
Proof. intros Hab H. eapply Forall_impl; [|exact H]. cbn. intros x Hx. lia. Qed.

(* a delivered group is fragments 1..k of one id, in increasing history order, the last one
   being the line that delivers, and the delivered payload is their concatenation *)
Record GoodDelivery (i : nat) (s : sentence) (dl : delivery) (o : res frag) (c : cfg) (q : quirks) (d : bool) : Prop := {
  gd_last : exists pre, dl = pre ++ [(i, s)] /\ numbered 1 (s_message_id s) pre /\
                        s_fragment_number s = N.of_nat (length dl);
  gd_order : increasing 0 dl;
  gd_result : o = finish c q (with_data s (payload_of dl)) d }.

Theorem ghandle_inv c q i g s d :
  data_fits c s -> Inv i g ->
  let '(g', o, dl) := ghandle c q i g s d in
  Inv (S i) g' /\
  match dl with
  | Some l => GoodDelivery i s l o c q d
  | None => forall s', o = Ok (Complete s') -> is_fragment s = false
  end.
Proof.
  intros Hfit [Hfn Hdata Hnum Hinc Hb]. unfold ghandle.
  rewrite (handle_spec c q (g_st g) s d Hfit).
  destruct (classify c (g_st g) s) eqn:Hc.
  - (* Unfragmented *)
    split.
    + constructor; cbn [g_st g_open]; auto. apply (Forall_lt_weaken _ i); [lia|exact Hb].
    + intros s' _. unfold classify in Hc. destruct (has_more s).
      * destruct (s_fragment_number s =? 1); [discriminate|]. destruct (negb _); [discriminate|]. destruct (negb _); discriminate.
      * destruct (is_fragment s); [|reflexivity]. destruct (negb _); [discriminate|]. destruct (negb _); discriminate.
  - (* FirstFragment *)
    assert (Hk : has_more s = true /\ s_fragment_number s = 1).
    { unfold classify in Hc. destruct (has_more s); [|destruct (is_fragment s); [destruct (negb _); [discriminate|destruct (negb _); discriminate]|discriminate]].
      destruct (N.eqb_spec (s_fragment_number s) 1); [auto|]. destruct (negb _); [discriminate|]. destruct (negb _); discriminate. }
    destruct Hk as [Hm H1]. split; [|intros s'; discriminate].
    constructor; cbn [g_st g_open opened p_fn p_data p_id length payload_of flat_map snd numbered increasing].
    + reflexivity.
    + rewrite app_nil_r. reflexivity.
    + auto.
    + split; [lia|exact I].
    + constructor; [cbn; lia|constructor].
  - (* Continuation *)
    assert (Hk : has_more s = true /\ seq_ok (g_st g) s = true).
    { unfold classify in Hc. destruct (has_more s); [|destruct (is_fragment s); [destruct (negb _); [discriminate|destruct (negb _); discriminate]|discriminate]].
      destruct (s_fragment_number s =? 1); [discriminate|]. destruct (seq_ok (g_st g) s); [auto|discriminate]. }
    destruct Hk as [Hm Hs]. unfold seq_ok in Hs. apply andb_prop in Hs. destruct Hs as [Hid Hk].
    apply opt_eqb_eq in Hid. apply N.eqb_eq in Hk.
    split; [|intros s'; discriminate].
    constructor; cbn [g_st g_open extended p_fn p_data p_id].
    + rewrite app_length. cbn [length]. rewrite Hk, Hfn. lia.
    + rewrite payload_of_app, Hdata. reflexivity.
    + apply numbered_app. cbn [snd]. repeat split; auto. rewrite Hk, Hfn. lia.
    + apply increasing_app; [exact Hinc|exact Hb|lia].
    + apply Forall_app. split; [apply (Forall_lt_weaken _ i); [lia|exact Hb]|constructor; [cbn; lia|constructor]].
  - (* FinalFragment *)
    assert (Hk : seq_ok (g_st g) s = true).
    { unfold classify in Hc. destruct (has_more s).
      - destruct (s_fragment_number s =? 1); [discriminate|]. destruct (negb _); [discriminate|]. destruct (negb _); discriminate.
      - destruct (is_fragment s); [|discriminate]. destruct (seq_ok (g_st g) s); [reflexivity|discriminate]. }
    unfold seq_ok in Hk. apply andb_prop in Hk. destruct Hk as [Hid Hk].
    apply opt_eqb_eq in Hid. apply N.eqb_eq in Hk.
    split.
    + constructor; cbn [g_st g_open closed p_fn p_data p_id length payload_of flat_map numbered increasing]; auto.
    + constructor.
      * exists (g_open g). split; [reflexivity|]. split; [rewrite <- Hid; exact Hnum|].
        rewrite app_length. cbn [length]. rewrite Hk, Hfn. lia.
      * apply increasing_app; [exact Hinc|exact Hb|lia].
      * rewrite payload_of_app, <- Hdata. reflexivity.
  - (* BadSequence *)
    split; [|intros s'; discriminate].
    constructor; cbn [g_st g_open]; auto. apply (Forall_lt_weaken _ i); [lia|exact Hb].
  - (* OverCapacity *)
    split; [|intros s'; discriminate].
    constructor; cbn [g_st g_open]; auto. apply (Forall_lt_weaken _ i); [lia|exact Hb].
Qed.

(* C06, acceptance: a fragment k >= 2 is accepted only in direct continuation of an open group *)
Theorem accept_needs_open_group c q i g s d f :
  data_fits c s -> Inv i g ->
  snd (handle c q (g_st g) s d) = Ok f ->
  2 <= s_fragment_number s -> (has_more s = true \/ is_fragment s = true) ->
  exists j t pre,
    g_open g = pre ++ [(j, t)] /\                         (* a group is open, its last accepted fragment is t *)
    s_fragment_number t + 1 = s_fragment_number s /\       (* ... which is fragment k-1 *)
    s_message_id t = s_message_id s /\                     (* ... of the same sequence id *)
    numbered 1 (s_message_id s) (g_open g) /\              (* ... in a group opened by a fragment 1 *)
    (j < i)%nat.
Proof.
  intros Hfit [Hfn Hdata Hnum Hinc Hb] Hok Hk Hfrag.
  rewrite (handle_spec c q (g_st g) s d Hfit) in Hok.
  assert (Hs : seq_ok (g_st g) s = true).
  { unfold classify in Hok. destruct (has_more s).
    - destruct (N.eqb_spec (s_fragment_number s) 1); [lia|].
      destruct (seq_ok (g_st g) s); [reflexivity|discriminate].
    - destruct Hfrag as [Hf|Hf]; [discriminate|]. rewrite Hf in Hok.
      destruct (seq_ok (g_st g) s); [reflexivity|discriminate]. }
  unfold seq_ok in Hs. apply andb_prop in Hs. destruct Hs as [Hid Hn].
  apply opt_eqb_eq in Hid. apply N.eqb_eq in Hn.
  assert (Hne : g_open g <> []).
  { intros E. rewrite E in Hfn. cbn in Hfn. lia. }
  destruct (exists_last Hne) as (pre & [j t] & Hop).
  exists j, t, pre. split; [exact Hop|].
  rewrite Hop in Hnum. apply numbered_app in Hnum. cbn [snd] in Hnum. destruct Hnum as (Hn1 & Hft & Hit & Hmt).
  rewrite Hop, app_length in Hfn. cbn [length] in Hfn.
  repeat split.
  - lia.
  - congruence.
  - rewrite Hop, <- Hid. apply numbered_app. cbn [snd]. auto.
  - rewrite Hop in Hb. apply Forall_app in Hb. destruct Hb as [_ Hb]. inversion Hb; subst. cbn in *. lia.
Qed.

(* ---------- lifting to lines and histories ---------- *)

(* the sentence a line parses to, if it passes form and checksum *)
Definition sentence_of (c : cfg) (q : quirks) (line : list N) : option sentence :=
  match parse_nmea_sentence c q line with
  | Ok (raw, s, ck) => if ck =? xor_fold raw then Some s else None
  | _ => None
  end.

Lemma step_spec c q st line d :
  step c q st line d =
  match parse_nmea_sentence c q line with
  | Err _ => (st, Err ENmea)
  | Panic p => (st, Panic p)
  | Ok (raw, s, ck) =>
    if ck =? xor_fold raw then handle c q st s d else (st, Err (EChecksum ck (xor_fold raw)))
  end.
Proof.
  unfold step. destruct (parse_nmea_sentence c q line) as [[[raw s] ck]|e|p]; try reflexivity.
  destruct (ck =? xor_fold raw); reflexivity.
Qed.

Lemma step_rejected_form c q st line d :
  sentence_of c q line = None -> fst (step c q st line d) = st.
Proof.
  unfold sentence_of. rewrite step_spec.
  destruct (parse_nmea_sentence c q line) as [[[raw s] ck]|e|p]; try reflexivity.
  destruct (ck =? xor_fold raw); [discriminate|reflexivity].
Qed.

Lemma run_app c q st h1 h2 :
  run c q st (h1 ++ h2) =
  let '(st1, o1) := run c q st h1 in
  let '(st2, o2) := run c q st1 h2 in (st2, o1 ++ o2).
Proof.
  revert st; induction h1 as [|[l d] h1 IH]; intros st; cbn [app run].
  - destruct (run c q st h2); reflexivity.
  - destruct (step c q st l d) as [st1 o]. rewrite IH.
    destruct (run c q st1 h1) as [st2 os]. destruct (run c q st2 h2) as [st3 os2]. reflexivity.
Qed.

(* C17: removing a line that leaves the state unchanged changes nothing in the other results *)
Theorem remove_transparent_line c q st h1 l d h2 :
  let st1 := fst (run c q st h1) in
  fst (step c q st1 l d) = st1 ->
  snd (run c q st (h1 ++ (l, d) :: h2)) =
  snd (run c q st h1) ++ snd (step c q st1 l d) :: snd (run c q st1 h2)
  /\ snd (run c q st (h1 ++ h2)) = snd (run c q st h1) ++ snd (run c q st1 h2)
  /\ fst (run c q st (h1 ++ (l, d) :: h2)) = fst (run c q st (h1 ++ h2)).
Proof.
  cbv zeta. intros Htr. rewrite !run_app. cbn [run].
  destruct (run c q st h1) as [st1 o1]. cbn [fst snd] in *.
  destruct (step c q st1 l d) as [st1' o]. cbn [fst snd] in Htr. subst st1'.
  destruct (run c q st1 h2) as [st2 o2]. cbn [fst snd]. auto.
Qed.

(* ---------- named consequences: what never continues a group ---------- *)
Definition is_continuation (s : sentence) : Prop :=
  2 <= s_fragment_number s /\ (has_more s = true \/ is_fragment s = true).

Lemma continuation_needs_seq c q st s d f :
  data_fits c s -> is_continuation s -> snd (handle c q st s d) = Ok f -> seq_ok st s = true.
Proof.
  intros Hfit [Hk Hfr] Hok. rewrite (handle_spec c q st s d Hfit) in Hok. unfold classify in Hok.
  destruct (has_more s).
  - destruct (N.eqb_spec (s_fragment_number s) 1); [lia|]. destruct (seq_ok st s); [reflexivity|discriminate].
  - destruct Hfr as [Hf|Hf]; [discriminate|]. rewrite Hf in Hok. destruct (seq_ok st s); [reflexivity|discriminate].
Qed.

(* a duplicate of the fragment just accepted, a fragment further ahead (loss) or behind (reordering) *)
Theorem wrong_number_rejected c q st s d :
  data_fits c s -> is_continuation s -> s_fragment_number s <> p_fn st + 1 ->
  handle c q st s d = (st, Err ENmea).
Proof.
  intros Hfit [Hk Hfr] Hne. rewrite (handle_spec c q st s d Hfit). unfold classify, seq_ok.
  destruct (N.eqb_spec (s_fragment_number s) (p_fn st + 1)); [contradiction|]. rewrite Bool.andb_false_r. cbn [negb].
  destruct (has_more s).
  - destruct (N.eqb_spec (s_fragment_number s) 1); [lia|reflexivity].
  - destruct Hfr as [Hf|Hf]; [discriminate|]. rewrite Hf. reflexivity.
Qed.

(* a fragment of another sequence id *)
Theorem wrong_id_rejected c q st s d :
  data_fits c s -> is_continuation s -> s_message_id s <> p_id st ->
  handle c q st s d = (st, Err ENmea).
Proof.
  intros Hfit [Hk Hfr] Hne. rewrite (handle_spec c q st s d Hfit). unfold classify, seq_ok.
  destruct (opt_eqb (p_id st) (s_message_id s)) eqn:E; [apply opt_eqb_eq in E; congruence|]. cbn [andb negb].
  destruct (has_more s).
  - destruct (N.eqb_spec (s_fragment_number s) 1); [lia|reflexivity].
  - destruct Hfr as [Hf|Hf]; [discriminate|]. rewrite Hf. reflexivity.
Qed.

(* an orphan: no group is open (fresh parser, or the group was just delivered) *)
Theorem orphan_rejected c q st s d :
  data_fits c s -> is_continuation s -> p_fn st = 0 -> handle c q st s d = (st, Err ENmea).
Proof. intros Hfit Hc H0. apply wrong_number_rejected; auto. destruct Hc as [Hk _]. rewrite H0. lia. Qed.

(* delivering a group leaves no group open, whatever the payload decodes to *)
Theorem delivery_closes_group c q st s d st' o :
  data_fits c s -> classify c st s = FinalFragment -> handle c q st s d = (st', o) -> p_fn st' = 0 /\ p_data st' = [].
Proof.
  intros Hfit Hc H. rewrite (handle_spec c q st s d Hfit), Hc in H. injection H as <- _. split; reflexivity.
Qed.
