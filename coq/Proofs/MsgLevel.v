(* Proofs/MsgLevel.v — the layout theorems lifted to messages::parse (dispatch included). *)
From Ais Require Import Model.Base Model.Enums Model.Fields Model.Messages Spec.Layouts
  Proofs.Bits Proofs.Reads Proofs.Layouts Proofs.Dispatch.
From Coq Require Import ZifyBool ZifyNat ZifyN.
Local Open Scope N_scope.

Lemma parse_bits_short c q bs : (length bs < 6)%nat -> parse_bits c q bs = Err ENmea.
Proof.
  intros H. unfold parse_bits, run_bits, message_type_bits, take. cbn [Nat.eqb Nat.add].
  destruct (Nat.leb_spec 6 (length bs)); [lia|reflexivity].
Qed.

Ltac dispatch_to Ht :=
  unfold parse_bits, run_bits at 1, message_type_bits, take; cbn [Nat.eqb Nat.add];
  match goal with |- context [(6 <=? length ?bs)%nat] => destruct (Nat.leb_spec 6 (length bs)); [|lia] end;
  rewrite Ht; cbn [N.leb N.eqb N.compare Pos.compare Pos.compare_cont Pos.eqb andb orb negb].

(* a fixed-layout type: decoded as the layout function iff the mandatory part fits *)
Definition msg_fixed {A} (c : cfg) (q : quirks) (L : nat) (K : A -> ais_message) (V : list bool -> A) (bs : list bool) : Prop :=
  if (L <=? length bs)%nat then parse_bits c q bs = Ok (K (V bs)) else parse_bits c q bs = Err ENmea.

Lemma run_variant_layout {A} bs (K : A -> ais_message) (m : P A) L V :
  layout m L V bs ->
  if (L <=? length bs)%nat then run_variant bs K m = Ok (K (V bs)) else run_variant bs K m = Err ENmea.
Proof.
  unfold layout, run_variant, run_bits. destruct (L <=? length bs)%nat; intros ->; reflexivity.
Qed.


Theorem msg_type1 c q bs : sl bs 0 6 = 1 -> msg_fixed c q 168 PositionReport position_report_of bs.
Proof.
  intros Ht. unfold msg_fixed.
  destruct (Nat.leb_spec 6 (length bs)) as [H6|H6].
  - pose proof (run_variant_layout bs PositionReport _ _ _ (layout_position_report bs (or_introl Ht))) as Hr.
    destruct (168 <=? length bs)%nat; (dispatch_to Ht; exact Hr).
  - destruct (Nat.leb_spec 168 (length bs)); [lia|]. apply parse_bits_short; lia.
Qed.

Theorem msg_type2 c q bs : sl bs 0 6 = 2 -> msg_fixed c q 168 PositionReport position_report_of bs.
Proof.
  intros Ht. unfold msg_fixed.
  destruct (Nat.leb_spec 6 (length bs)) as [H6|H6].
  - pose proof (run_variant_layout bs PositionReport _ _ _ (layout_position_report bs (or_intror (or_introl Ht)))) as Hr.
    destruct (168 <=? length bs)%nat; (dispatch_to Ht; exact Hr).
  - destruct (Nat.leb_spec 168 (length bs)); [lia|]. apply parse_bits_short; lia.
Qed.

Theorem msg_type3 c q bs : sl bs 0 6 = 3 -> msg_fixed c q 168 PositionReport position_report_of bs.
Proof.
  intros Ht. unfold msg_fixed.
  destruct (Nat.leb_spec 6 (length bs)) as [H6|H6].
  - pose proof (run_variant_layout bs PositionReport _ _ _ (layout_position_report bs (or_intror (or_intror Ht)))) as Hr.
    destruct (168 <=? length bs)%nat; (dispatch_to Ht; exact Hr).
  - destruct (Nat.leb_spec 168 (length bs)); [lia|]. apply parse_bits_short; lia.
Qed.

Theorem msg_type4 c q bs : sl bs 0 6 = 4 -> msg_fixed c q 168 BaseStationReport base_station_report_of bs.
Proof.
  intros Ht. unfold msg_fixed.
  destruct (Nat.leb_spec 6 (length bs)) as [H6|H6].
  - pose proof (run_variant_layout bs BaseStationReport _ _ _ (layout_base_station_report bs (or_introl Ht))) as Hr.
    destruct (168 <=? length bs)%nat; (dispatch_to Ht; exact Hr).
  - destruct (Nat.leb_spec 168 (length bs)); [lia|]. apply parse_bits_short; lia.
Qed.

Theorem msg_type11 c q bs : sl bs 0 6 = 11 -> msg_fixed c q 168 UtcDateResponse base_station_report_of bs.
Proof.
  intros Ht. unfold msg_fixed.
  destruct (Nat.leb_spec 6 (length bs)) as [H6|H6].
  - pose proof (run_variant_layout bs UtcDateResponse _ _ _ (layout_base_station_report bs (or_intror Ht))) as Hr.
    destruct (168 <=? length bs)%nat; (dispatch_to Ht; exact Hr).
  - destruct (Nat.leb_spec 168 (length bs)); [lia|]. apply parse_bits_short; lia.
Qed.

Theorem msg_type10 c q bs : sl bs 0 6 = 10 -> msg_fixed c q 72 UtcDateInquiry utc_date_inquiry_of bs.
Proof.
  intros Ht. unfold msg_fixed.
  destruct (Nat.leb_spec 6 (length bs)) as [H6|H6].
  - pose proof (run_variant_layout bs UtcDateInquiry _ _ _ (layout_utc_date_inquiry bs)) as Hr.
    destruct (72 <=? length bs)%nat; (dispatch_to Ht; exact Hr).
  - destruct (Nat.leb_spec 72 (length bs)); [lia|]. apply parse_bits_short; lia.
Qed.

Theorem msg_type18 c q bs : sl bs 0 6 = 18 -> msg_fixed c q 168 StandardClassBPositionReport class_b_of bs.
Proof.
  intros Ht. unfold msg_fixed.
  destruct (Nat.leb_spec 6 (length bs)) as [H6|H6].
  - pose proof (run_variant_layout bs StandardClassBPositionReport _ _ _ (layout_class_b bs)) as Hr.
    destruct (168 <=? length bs)%nat; (dispatch_to Ht; exact Hr).
  - destruct (Nat.leb_spec 168 (length bs)); [lia|]. apply parse_bits_short; lia.
Qed.

Theorem msg_type19 c q bs : sl bs 0 6 = 19 -> msg_fixed c q 312 ExtendedClassBPositionReport ext_class_b_of bs.
Proof.
  intros Ht. unfold msg_fixed.
  destruct (Nat.leb_spec 6 (length bs)) as [H6|H6].
  - pose proof (run_variant_layout bs ExtendedClassBPositionReport _ _ _ (layout_ext_class_b c bs)) as Hr.
    destruct (312 <=? length bs)%nat; (dispatch_to Ht; exact Hr).
  - destruct (Nat.leb_spec 312 (length bs)); [lia|]. apply parse_bits_short; lia.
Qed.

Theorem msg_type21 c q bs : sl bs 0 6 = 21 -> msg_fixed c q 272 AidToNavigationReport aid_to_navigation_of bs.
Proof.
  intros Ht. unfold msg_fixed.
  destruct (Nat.leb_spec 6 (length bs)) as [H6|H6].
  - pose proof (run_variant_layout bs AidToNavigationReport _ _ _ (layout_aid_to_navigation c bs)) as Hr.
    destruct (272 <=? length bs)%nat; (dispatch_to Ht; exact Hr).
  - destruct (Nat.leb_spec 272 (length bs)); [lia|]. apply parse_bits_short; lia.
Qed.

Theorem msg_type27 c q bs : sl bs 0 6 = 27 -> msg_fixed c q 95 LongRangeAisBroadcastMessage long_range_of bs.
Proof.
  intros Ht. unfold msg_fixed.
  destruct (Nat.leb_spec 6 (length bs)) as [H6|H6].
  - pose proof (run_variant_layout bs LongRangeAisBroadcastMessage _ _ _ (layout_long_range bs)) as Hr.
    destruct (95 <=? length bs)%nat; (dispatch_to Ht; exact Hr).
  - destruct (Nat.leb_spec 95 (length bs)); [lia|]. apply parse_bits_short; lia.
Qed.

(* ---------- type 9: as the tree is / repaired ---------- *)
Theorem msg_type9_asis c bs : sl bs 0 6 = 9 ->
  msg_fixed c quirks_asis 167 StandardAircraftPositionReport (fun bs => sar_position_report_with (sar_radio_asis bs) bs) bs.
Proof.
  intros Ht. unfold msg_fixed.
  destruct (Nat.leb_spec 6 (length bs)) as [H6|H6].
  - pose proof (run_variant_layout bs StandardAircraftPositionReport _ _ _ (layout_sar_asis bs Ht)) as Hr.
    destruct (167 <=? length bs)%nat; (dispatch_to Ht; exact Hr).
  - destruct (Nat.leb_spec 167 (length bs)); [lia|]. apply parse_bits_short; lia.
Qed.

Theorem msg_type9_repaired c bs : sl bs 0 6 = 9 ->
  msg_fixed c quirks_off 168 StandardAircraftPositionReport (fun bs => sar_position_report_with (sar_radio_of bs) bs) bs.
Proof.
  intros Ht. unfold msg_fixed.
  destruct (Nat.leb_spec 6 (length bs)) as [H6|H6].
  - pose proof (run_variant_layout bs StandardAircraftPositionReport _ _ _ (layout_sar_repaired bs)) as Hr.
    destruct (168 <=? length bs)%nat; (dispatch_to Ht; exact Hr).
  - destruct (Nat.leb_spec 168 (length bs)); [lia|]. apply parse_bits_short; lia.
Qed.

(* ---------- binary types: header, then every remaining byte ---------- *)
Definition msg_data {A} (c : cfg) (q : quirks) (H : nat) (K : A -> ais_message) (V : list bool -> A) (bs : list bool) : Prop :=
  if (H <=? length bs)%nat then
    if noalloc c && (MAX_DATA_SIZE_BYTES <? length (bytes_of_bits (skipn H bs)))%nat
    then parse_bits c q bs = Err ENmea
    else parse_bits c q bs = Ok (K (V bs))
  else parse_bits c q bs = Err ENmea.

Lemma run_variant_data {A} c bs (K : A -> ais_message) (m : P A) H V :
  data_layout c m H V bs ->
  if (H <=? length bs)%nat then
    if noalloc c && (MAX_DATA_SIZE_BYTES <? length (bytes_of_bits (skipn H bs)))%nat
    then run_variant bs K m = Err ENmea
    else run_variant bs K m = Ok (K (V bs))
  else run_variant bs K m = Err ENmea.
Proof.
  unfold data_layout, run_variant, run_bits. destruct (H <=? length bs)%nat; [destruct (noalloc c && _)|]; intros ->; reflexivity.
Qed.


Theorem msg_type6 c q bs : sl bs 0 6 = 6 -> msg_data c q 88 BinaryAddressedMessage binary_addressed_of bs.
Proof.
  intros Ht. unfold msg_data.
  destruct (Nat.leb_spec 6 (length bs)) as [H6|H6].
  - pose proof (run_variant_data c bs BinaryAddressedMessage _ _ _ (layout_binary_addressed c bs)) as Hr.
    destruct (88 <=? length bs)%nat; [destruct (noalloc c && _)|]; (dispatch_to Ht; exact Hr).
  - destruct (Nat.leb_spec 88 (length bs)); [lia|]. apply parse_bits_short; lia.
Qed.

Theorem msg_type8 c q bs : sl bs 0 6 = 8 -> msg_data c q 56 BinaryBroadcastMessage binary_broadcast_of bs.
Proof.
  intros Ht. unfold msg_data.
  destruct (Nat.leb_spec 6 (length bs)) as [H6|H6].
  - pose proof (run_variant_data c bs BinaryBroadcastMessage _ _ _ (layout_binary_broadcast c bs)) as Hr.
    destruct (56 <=? length bs)%nat; [destruct (noalloc c && _)|]; (dispatch_to Ht; exact Hr).
  - destruct (Nat.leb_spec 56 (length bs)); [lia|]. apply parse_bits_short; lia.
Qed.

Theorem msg_type17 c q bs : sl bs 0 6 = 17 -> msg_data c q 120 DgnssBroadcastBinaryMessage dgnss_of bs.
Proof.
  intros Ht. unfold msg_data.
  destruct (Nat.leb_spec 6 (length bs)) as [H6|H6].
  - pose proof (run_variant_data c bs DgnssBroadcastBinaryMessage _ _ _ (layout_dgnss c bs)) as Hr.
    destruct (120 <=? length bs)%nat; [destruct (noalloc c && _)|]; (dispatch_to Ht; exact Hr).
  - destruct (Nat.leb_spec 120 (length bs)); [lia|]. apply parse_bits_short; lia.
Qed.

(* ---------- list types: 40-bit header, one to four complete entries ---------- *)
Definition msg_list {A} (c : cfg) (q : quirks) (H w : nat) (K : A -> ais_message) (V : list bool -> A) (bs : list bool) : Prop :=
  if (H + w <=? length bs)%nat then parse_bits c q bs = Ok (K (V bs)) else parse_bits c q bs = Err ENmea.

Lemma run_variant_list {A} bs (K : A -> ais_message) (m : P A) H w V :
  list_layout m H w V bs ->
  if (H + w <=? length bs)%nat then run_variant bs K m = Ok (K (V bs)) else run_variant bs K m = Err ENmea.
Proof.
  unfold list_layout, run_variant, run_bits. destruct (H + w <=? length bs)%nat; intros ->; reflexivity.
Qed.


Theorem msg_type7 c q bs : sl bs 0 6 = 7 -> msg_list c q 40 32 BinaryAcknowledgeMessage ack_message_of bs.
Proof.
  intros Ht. unfold msg_list.
  destruct (Nat.leb_spec 6 (length bs)) as [H6|H6].
  - pose proof (run_variant_list bs BinaryAcknowledgeMessage _ _ _ _ (layout_ack_message bs)) as Hr.
    destruct (40 + 32 <=? length bs)%nat; (dispatch_to Ht; exact Hr).
  - destruct (Nat.leb_spec (40 + 32) (length bs)); [lia|]. apply parse_bits_short; lia.
Qed.

Theorem msg_type13 c q bs : sl bs 0 6 = 13 -> msg_list c q 40 32 SafetyRelatedAcknowledgment ack_message_of bs.
Proof.
  intros Ht. unfold msg_list.
  destruct (Nat.leb_spec 6 (length bs)) as [H6|H6].
  - pose proof (run_variant_list bs SafetyRelatedAcknowledgment _ _ _ _ (layout_ack_message bs)) as Hr.
    destruct (40 + 32 <=? length bs)%nat; (dispatch_to Ht; exact Hr).
  - destruct (Nat.leb_spec (40 + 32) (length bs)); [lia|]. apply parse_bits_short; lia.
Qed.

Theorem msg_type20 c q bs : sl bs 0 6 = 20 -> msg_list c q 40 30 DataLinkManagementMessage data_link_of bs.
Proof.
  intros Ht. unfold msg_list.
  destruct (Nat.leb_spec 6 (length bs)) as [H6|H6].
  - pose proof (run_variant_list bs DataLinkManagementMessage _ _ _ _ (layout_data_link bs)) as Hr.
    destruct (40 + 30 <=? length bs)%nat; (dispatch_to Ht; exact Hr).
  - destruct (Nat.leb_spec (40 + 30) (length bs)); [lia|]. apply parse_bits_short; lia.
Qed.

(* ---------- safety texts ---------- *)
Definition msg_text {A} (c : cfg) (q : quirks) (H : nat) (K : A -> ais_message) (V : list bool -> A) (bs : list bool) : Prop :=
  if (H + 6 <=? length bs)%nat then
    if noalloc c && (20 <? (length bs - H) / 6)%nat
    then parse_bits c q bs = Err ENmea
    else parse_bits c q bs = Ok (K (V bs))
  else parse_bits c q bs = Err ENmea.

Lemma run_variant_text {A} c bs (K : A -> ais_message) (m : P A) H V :
  text_layout c m H V bs ->
  if (H + 6 <=? length bs)%nat then
    if noalloc c && (20 <? (length bs - H) / 6)%nat
    then run_variant bs K m = Err ENmea
    else run_variant bs K m = Ok (K (V bs))
  else run_variant bs K m = Err ENmea.
Proof.
  unfold text_layout, run_variant, run_bits. destruct (H + 6 <=? length bs)%nat; [destruct (noalloc c && _)|]; intros ->; reflexivity.
Qed.


Theorem msg_type12 c q bs : sl bs 0 6 = 12 -> msg_text c q 72 AddressedSafetyRelatedMessage addressed_safety_of bs.
Proof.
  intros Ht. unfold msg_text.
  destruct (Nat.leb_spec 6 (length bs)) as [H6|H6].
  - pose proof (run_variant_text c bs AddressedSafetyRelatedMessage _ _ _ (layout_addressed_safety c bs)) as Hr.
    destruct (72 + 6 <=? length bs)%nat; [destruct (noalloc c && _)|]; (dispatch_to Ht; exact Hr).
  - destruct (Nat.leb_spec (72 + 6) (length bs)); [lia|]. apply parse_bits_short; lia.
Qed.

Theorem msg_type14 c q bs : sl bs 0 6 = 14 -> msg_text c q 40 SafetyRelatedBroadcastMessage safety_broadcast_of bs.
Proof.
  intros Ht. unfold msg_text.
  destruct (Nat.leb_spec 6 (length bs)) as [H6|H6].
  - pose proof (run_variant_text c bs SafetyRelatedBroadcastMessage _ _ _ (layout_safety_broadcast c bs)) as Hr.
    destruct (40 + 6 <=? length bs)%nat; [destruct (noalloc c && _)|]; (dispatch_to Ht; exact Hr).
  - destruct (Nat.leb_spec (40 + 6) (length bs)); [lia|]. apply parse_bits_short; lia.
Qed.

(* ---------- type 16 ---------- *)
Theorem msg_type16 c q bs : sl bs 0 6 = 16 -> msg_fixed c q 92 AssignmentModeCommand assignment_of bs.
Proof.
  intros Ht. unfold msg_fixed.
  destruct (Nat.leb_spec 6 (length bs)) as [H6|H6].
  - pose proof (layout_assignment bs) as Hl.
    destruct (92 <=? length bs)%nat; dispatch_to Ht; unfold run_variant, run_bits; rewrite Hl; reflexivity.
  - destruct (Nat.leb_spec 92 (length bs)); [lia|]. apply parse_bits_short; lia.
Qed.


(* ---------- type 5 ---------- *)
Theorem msg_type5 c q bs : sl bs 0 6 = 5 -> msg_fixed c q 302 StaticAndVoyageRelatedData static_voyage_of bs.
Proof.
  intros Ht. unfold msg_fixed.
  destruct (Nat.leb_spec 6 (length bs)) as [H6|H6].
  - pose proof (layout_static_voyage c bs) as Hl.
    destruct (302 <=? length bs)%nat; dispatch_to Ht; unfold run_variant, run_bits.
    + destruct Hl as (e & -> & _). reflexivity.
    + rewrite Hl. reflexivity.
  - destruct (Nat.leb_spec 302 (length bs)); [lia|]. apply parse_bits_short; lia.
Qed.

(* ---------- type 24: part A needs 160 bits, part B 168, parts 2 and 3 only the 40-bit head ---------- *)
Definition static_data_min (bs : list bool) : nat :=
  if sl bs 38 2 =? 0 then 160%nat else if sl bs 38 2 =? 1 then 168%nat else 40%nat.

Theorem msg_type24 c q bs : sl bs 0 6 = 24 -> (40 <= length bs)%nat ->
  if (static_data_min bs <=? length bs)%nat
  then parse_bits c q bs = Ok (StaticDataReport (static_data_of bs))
  else parse_bits c q bs = Err ENmea.
Proof.
  intros Ht H40. pose proof (layout_static_data c bs) as Hl.
  destruct (Nat.leb_spec 40 (length bs)); [|lia]. unfold static_data_min.
  destruct (sl bs 38 2 =? 0).
  - destruct (160 <=? length bs)%nat; dispatch_to Ht; unfold run_variant, run_bits; rewrite Hl; reflexivity.
  - destruct (sl bs 38 2 =? 1).
    + destruct (168 <=? length bs)%nat; dispatch_to Ht; unfold run_variant, run_bits; rewrite Hl; reflexivity.
    + destruct (Nat.leb_spec 40 (length bs)); [|lia]. dispatch_to Ht; unfold run_variant, run_bits; rewrite Hl; reflexivity.
Qed.

Theorem msg_type24_short c q bs : sl bs 0 6 = 24 -> (length bs < 40)%nat -> parse_bits c q bs = Err ENmea.
Proof.
  intros Ht Hs. destruct (Nat.leb_spec 6 (length bs)) as [H6|H6]; [|apply parse_bits_short; lia].
  pose proof (layout_static_data c bs) as Hl. destruct (Nat.leb_spec 40 (length bs)); [lia|].
  dispatch_to Ht; unfold run_variant, run_bits; rewrite Hl; reflexivity.
Qed.

(* ---------- type 15: the three legal forms and the mandatory part ---------- *)
Theorem msg_type15_88 c q bs : sl bs 0 6 = 15 -> length bs = 88%nat ->
  parse_bits c q bs = Ok (Interrogation (interrogation_88 bs)).
Proof. intros Ht Hl. dispatch_to Ht. unfold run_variant, run_bits. rewrite (layout_interrogation_88 c bs Hl). reflexivity. Qed.
Theorem msg_type15_110 c q bs : sl bs 0 6 = 15 -> length bs = 112%nat ->
  parse_bits c q bs = Ok (Interrogation (interrogation_110 bs)).
Proof. intros Ht Hl. dispatch_to Ht. unfold run_variant, run_bits. rewrite (layout_interrogation_110 c bs Hl). reflexivity. Qed.
Theorem msg_type15_160 c q bs : sl bs 0 6 = 15 -> length bs = 160%nat ->
  parse_bits c q bs = Ok (Interrogation (interrogation_160 bs)).
Proof. intros Ht Hl. dispatch_to Ht. unfold run_variant, run_bits. rewrite (layout_interrogation_160 c bs Hl). reflexivity. Qed.
Theorem msg_type15_short c q bs : sl bs 0 6 = 15 -> (length bs < 76)%nat -> parse_bits c q bs = Err ENmea.
Proof.
  intros Ht Hs. destruct (Nat.leb_spec 6 (length bs)) as [H6|H6]; [|apply parse_bits_short; lia].
  dispatch_to Ht. unfold run_variant, run_bits. rewrite (layout_interrogation_short c bs Hs). reflexivity.
Qed.
