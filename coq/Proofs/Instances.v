(* Proofs/Instances.v — two parser instances fed interleaved lines behave as each would alone. *)
From Ais Require Import Model.Base Model.Sentence.
Local Open Scope N_scope.

(* an interleaved history: each call names the parser it is made on (false = first, true = second) *)
Definition call := (bool * list N * bool)%type.

Definition step2 (c : cfg) (q : quirks) (sts : pstate * pstate) (k : call) : (pstate * pstate) * res frag :=
  let '(w, line, d) := k in
  if w then let '(s', o) := step c q (snd sts) line d in ((fst sts, s'), o)
  else let '(s', o) := step c q (fst sts) line d in ((s', snd sts), o).

Fixpoint run2 (c : cfg) (q : quirks) (sts : pstate * pstate) (h : list call) : (pstate * pstate) * list (res frag) :=
  match h with
  | [] => (sts, [])
  | k :: h' =>
    let '(sts1, o) := step2 c q sts k in
    let '(sts2, os) := run2 c q sts1 h' in
    (sts2, o :: os)
  end.

(* the calls made on parser [w], and the results those calls got *)
Fixpoint calls_on (w : bool) (h : list call) : list (list N * bool) :=
  match h with
  | [] => []
  | (w', line, d) :: h' => if Bool.eqb w' w then (line, d) :: calls_on w h' else calls_on w h'
  end.
Fixpoint results_on {A} (w : bool) (h : list call) (os : list A) : list A :=
  match h, os with
  | (w', _, _) :: h', o :: os' => if Bool.eqb w' w then o :: results_on w h' os' else results_on w h' os'
  | _, _ => []
  end.

Theorem two_parsers_independent :
  forall c q h s0 s1,
    let '((s0', s1'), os) := run2 c q (s0, s1) h in
    run c q s0 (calls_on false h) = (s0', results_on false h os) /\
    run c q s1 (calls_on true h) = (s1', results_on true h os).
Proof.
  intros c q h. induction h as [|[[w line] d] h IH]; intros s0 s1.
  - cbn. split; reflexivity.
  - cbn [run2 step2 fst snd]. destruct w.
    + destruct (step c q s1 line d) as [s1a o] eqn:E.
      specialize (IH s0 s1a). destruct (run2 c q (s0, s1a) h) as [[s0' s1'] os].
      destruct IH as [IH0 IH1]. cbn [calls_on results_on Bool.eqb]. split.
      * exact IH0.
      * cbn [run]. rewrite E, IH1. reflexivity.
    + destruct (step c q s0 line d) as [s0a o] eqn:E.
      specialize (IH s0a s1). destruct (run2 c q (s0a, s1) h) as [[s0' s1'] os].
      destruct IH as [IH0 IH1]. cbn [calls_on results_on Bool.eqb]. split.
      * cbn [run]. rewrite E, IH0. reflexivity.
      * exact IH1.
Qed.

(* consequence: what one parser returns never depends on the lines given to the other *)
Corollary other_parser_is_irrelevant :
  forall c q h h' s0 s1 s1',
    calls_on false h = calls_on false h' ->
    results_on false h (snd (run2 c q (s0, s1) h)) = results_on false h' (snd (run2 c q (s0, s1') h')).
Proof.
  intros c q h h' s0 s1 s1' E.
  pose proof (two_parsers_independent c q h s0 s1) as A.
  pose proof (two_parsers_independent c q h' s0 s1') as B.
  destruct (run2 c q (s0, s1) h) as [[a0 a1] os]. destruct (run2 c q (s0, s1') h') as [[b0 b1] os'].
  destruct A as [A _]. destruct B as [B _]. rewrite E in A. rewrite A in B. cbn [snd]. congruence.
Qed.

(* ---------- removing every transparent line at once ----------
   A line is transparent at its place in a history when it leaves the parser state as it found it
   (C17_no_trace says which lines are: rejected ones and unfragmented sentences).  The sub-history of the
   other lines, run alone, ends in the same state and gives those lines the same results. *)
Definition pstate_eqb (a b : pstate) : bool :=
  opt_eqb (p_id a) (p_id b) && (p_fn a =? p_fn b) && list_eqb (p_data a) (p_data b).

Lemma list_eqb_eq a b : list_eqb a b = true -> a = b.
Proof.
  revert b; induction a as [|x a IH]; intros [|y b] H; cbn [list_eqb] in H; try discriminate; [reflexivity|].
  apply andb_prop in H. destruct H as [H1 H2]. apply N.eqb_eq in H1. subst y. f_equal. apply IH. exact H2.
Qed.

Lemma pstate_eqb_eq a b : pstate_eqb a b = true -> a = b.
Proof.
  unfold pstate_eqb. intros H. apply andb_prop in H. destruct H as [H H3]. apply andb_prop in H. destruct H as [H1 H2].
  destruct a as [ia fa da], b as [ib fb db]. cbn [p_id p_fn p_data] in *.
  apply N.eqb_eq in H2. apply list_eqb_eq in H3. subst.
  destruct ia as [x|], ib as [y|]; cbn [opt_eqb] in H1; try discriminate; [|reflexivity].
  apply N.eqb_eq in H1. subst. reflexivity.
Qed.

(* the lines that do change the state, and the results they got, along one run *)
Fixpoint effective (c : cfg) (q : quirks) (st : pstate) (h : list (list N * bool)) : list (list N * bool) * list (res frag) :=
  match h with
  | [] => ([], [])
  | (line, d) :: h' =>
    let '(st1, o) := step c q st line d in
    let '(ls, os) := effective c q st1 h' in
    if pstate_eqb st1 st then (ls, os) else ((line, d) :: ls, o :: os)
  end.

Theorem remove_all_transparent c q h st :
  run c q st (fst (effective c q st h)) = (fst (run c q st h), snd (effective c q st h)).
Proof.
  revert st; induction h as [|[line d] h IH]; intros st; [reflexivity|].
  cbn [effective run]. destruct (step c q st line d) as [st1 o] eqn:E.
  specialize (IH st1). destruct (effective c q st1 h) as [ls os]. destruct (run c q st1 h) as [st2 os2] eqn:R.
  cbn [fst snd] in *. destruct (pstate_eqb st1 st) eqn:Q.
  - apply pstate_eqb_eq in Q. subst st1. cbn [fst snd]. exact IH.
  - cbn [fst snd run]. rewrite E, IH. reflexivity.
Qed.
