(* Proofs/Instances.v — two parser instances fed interleaved lines behave as each would alone. *)
From Ais Require Import Model.Base Model.Sentence.
Local Open Scope N_scope.

(* an interleaved history: each call names the parser it is made on (false = first, true = second) *)
Definition call := (bool * list N * bool)%type.

Definition step2 (c : cfg) (q : quirks) (sts : pstate * pstate) (k : call) : (pstate * pstate) * res frag :=
  let '(w, line, d) := k in
  if w then let '(s', o) := step c q (snd sts) line d in ((fst sts, s'), o)
  else let '(s', o) := step c q (fst sts) line d in ((s', snd sts), o).

Fixpoint run2 (c : cfg) (q : quirks) (sts : pstate * pstate) (h : list call) : (pstate * pstate) * list (res frag) :=
  match h with
  | [] => (sts, [])
  | k :: h' =>
    let '(sts1, o) := step2 c q sts k in
    let '(sts2, os) := run2 c q sts1 h' in
    (sts2, o :: os)
  end.

(* the calls made on parser [w], and the results those calls got *)
Fixpoint calls_on (w : bool) (h : list call) : list (list N * bool) :=
  match h with
  | [] => []
  | (w', line, d) :: h' => if Bool.eqb w' w then (line, d) :: calls_on w h' else calls_on w h'
  end.
Fixpoint results_on {A} (w : bool) (h : list call) (os : list A) : list A :=
  match h, os with
  | (w', _, _) :: h', o :: os' => if Bool.eqb w' w then o :: results_on w h' os' else results_on w h' os'
  | _, _ => []
  end.

Theorem two_parsers_independent :
  forall c q h s0 s1,
    let '((s0', s1'), os) := run2 c q (s0, s1) h in
    run c q s0 (calls_on false h) = (s0', results_on false h os) /\
    run c q s1 (calls_on true h) = (s1', results_on true h os).
Proof.
  intros c q h. induction h as [|[[w line] d] h IH]; intros s0 s1.
  - cbn. split; reflexivity.
  - cbn [run2 step2 fst snd]. destruct w.
    + destruct (step c q s1 line d) as [s1a o] eqn:E.
      specialize (IH s0 s1a). destruct (run2 c q (s0, s1a) h) as [[s0' s1'] os].
      destruct IH as [IH0 IH1]. cbn [calls_on results_on Bool.eqb]. split.
      * exact IH0.
      * cbn [run]. rewrite E, IH1. reflexivity.
    + destruct (step c q s0 line d) as [s0a o] eqn:E.
      specialize (IH s0a s1). destruct (run2 c q (s0a, s1) h) as [[s0' s1'] os].
      destruct IH as [IH0 IH1]. cbn [calls_on results_on Bool.eqb]. split.
      * cbn [run]. rewrite E, IH0. reflexivity.
      * exact IH1.
Qed.

(* consequence: what one parser returns never depends on the lines given to the other *)
Corollary other_parser_is_irrelevant :
  forall c q h h' s0 s1 s1',
    calls_on false h = calls_on false h' ->
    results_on false h (snd (run2 c q (s0, s1) h)) = results_on false h' (snd (run2 c q (s0, s1') h')).
Proof.
  intros c q h h' s0 s1 s1' E.
  pose proof (two_parsers_independent c q h s0 s1) as A.
  pose proof (two_parsers_independent c q h' s0 s1') as B.
  destruct (run2 c q (s0, s1) h) as [[a0 a1] os]. destruct (run2 c q (s0, s1') h') as [[b0 b1] os'].
  destruct A as [A _]. destruct B as [B _]. rewrite E in A. rewrite A in B. cbn [snd]. congruence.
Qed.
