(* Proofs/Strings.v — byte strings from string literals, for the examples. *)
From Coq Require Import String Ascii NArith List.
Definition bytes (s : string) : list N := map N_of_ascii (list_ascii_of_string s).
