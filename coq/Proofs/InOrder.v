(* Proofs/InOrder.v — C05: fragments 1..n of one group, presented in order to a parser in any
   state, reassemble to exactly the unfragmented message. *)
From Ais Require Import Model.Base Model.Enums Model.Fields Model.Messages Model.Unarmor Model.Sentence
  Spec.Grammar Proofs.SentenceLemmas Proofs.Reassembly Proofs.Histories.
From Coq Require Import ZifyBool ZifyNat ZifyN.
Local Open Scope N_scope.

(* fragments numbered k, k+1, ... of n, all with sequence id [id] *)
Fixpoint numbered_from (k : nat) (n : N) (id : option N) (ss : list sentence) : Prop :=
  match ss with
  | [] => True
  | s :: r => s_fragment_number s = N.of_nat k /\ s_num_fragments s = n /\ s_message_id s = id /\
              numbered_from (S k) n id r
  end.

(* what the parser must answer: Incomplete with each fragment's own sentence, and for the last one
   whatever the completed sentence (payload = concatenation) yields *)
Fixpoint expected (c : cfg) (q : quirks) (D : list N) (items : list (sentence * bool)) : list (res frag) :=
  match items with
  | [] => []
  | (s, d) :: r =>
    match r with
    | [] => [finish c q (with_data s (D ++ s_data s)) d]
    | _ => Ok (Incomplete s) :: expected c q (D ++ s_data s) r
    end
  end.

Definition total_data (ss : list sentence) : nat := length (flat_map s_data ss).

Lemma total_data_cons s r : total_data (s :: r) = (length (s_data s) + total_data r)%nat.
Proof. unfold total_data. cbn [flat_map]. apply app_length. Qed.

Lemma feed_from c q id n :
  forall (items : list (sentence * bool)) (lines : list (list N * bool)) k D,
    (1 <= k)%nat -> (k + length items = n)%nat -> items <> [] ->
    numbered_from (S k) (N.of_nat n) id (map fst items) ->
    Forall2 (fun ld sd => sentence_of c q (fst ld) = Some (fst sd) /\ snd ld = snd sd) lines items ->
    (noalloc c = true -> (length D + total_data (map fst items) <= MAX_SENTENCE_SIZE_BYTES)%nat) ->
    run c q {| p_id := id; p_fn := N.of_nat k; p_data := D |} lines =
    ({| p_id := id; p_fn := 0; p_data := [] |}, expected c q D items).
Proof.
  induction items as [|[s d] items IH]; intros lines k D Hk Hlen Hne Hnum HF Hcap; [contradiction|].
  revert Hlen. inversion HF as [|[l dl] sd lines' items' [Hs Hd] HF']; subst. intros Hlen. cbn [fst snd] in *. subst dl.
  cbn [map fst numbered_from] in Hnum. destruct Hnum as (Hfn & Hnn & Hid & Hrest).
  cbn [run]. rewrite sentence_of_step, Hs.
  pose proof (sentence_of_fits _ _ _ _ Hs) as Hfit.
  rewrite (handle_spec c q _ s d Hfit). unfold classify.
  assert (Hseq : seq_ok {| p_id := id; p_fn := N.of_nat k; p_data := D |} s = true).
  { unfold seq_ok. cbn [p_id p_fn]. rewrite Hid, opt_eqb_refl, Hfn. cbn [andb]. apply N.eqb_eq. lia. }
  assert (Hcapok : cap_ok c {| p_id := id; p_fn := N.of_nat k; p_data := D |} s = true).
  { unfold cap_ok. cbn [p_data]. destruct (noalloc c) eqn:Hc; [|reflexivity]. cbn [andb].
    specialize (Hcap eq_refl). cbn [map fst] in Hcap. rewrite total_data_cons in Hcap.
    destruct (Nat.ltb_spec MAX_SENTENCE_SIZE_BYTES (length D + length (s_data s))); [lia|reflexivity]. }
  rewrite Hseq, Hcapok. cbn [negb].
  destruct items as [|it items].
  - (* the last fragment *)
    cbn [length] in Hlen.
    assert (Hm : has_more s = false).
    { unfold has_more. rewrite Hfn, Hnn. apply N.ltb_ge. lia. }
    assert (Hf : is_fragment s = true).
    { unfold is_fragment. rewrite Hnn. destruct (N.eqb_spec (N.of_nat n) 1); [lia|reflexivity]. }
    rewrite Hm, Hf. inversion HF'; subst. cbn [run expected closed p_id p_data]. reflexivity.
  - (* a middle fragment *)
    cbn [length] in Hlen.
    assert (Hm : has_more s = true).
    { unfold has_more. rewrite Hfn, Hnn. apply N.ltb_lt. lia. }
    assert (H1 : (s_fragment_number s =? 1) = false).
    { rewrite Hfn. apply N.eqb_neq. lia. }
    rewrite Hm, H1.
    unfold extended. cbn [p_id p_data]. rewrite Hfn.
    specialize (IH lines' (S k) (D ++ s_data s) ltac:(lia) ltac:(cbn [length]; lia) ltac:(discriminate) Hrest HF').
    rewrite IH.
    + cbn [expected]. destruct it. reflexivity.
    + intros Hc. specialize (Hcap Hc). change (map fst ((s, d) :: it :: items)) with (s :: map fst (it :: items)) in Hcap.
      rewrite total_data_cons in Hcap. rewrite app_length. lia.
Qed.

(* the whole group, from any state *)
Theorem in_order_reassembly c q id st (items : list (sentence * bool)) (lines : list (list N * bool)) :
  (2 <= length items)%nat ->
  numbered_from 1 (N.of_nat (length items)) id (map fst items) ->
  Forall2 (fun ld sd => sentence_of c q (fst ld) = Some (fst sd) /\ snd ld = snd sd) lines items ->
  (noalloc c = true -> (total_data (map fst items) <= MAX_SENTENCE_SIZE_BYTES)%nat) ->
  run c q st lines = ({| p_id := id; p_fn := 0; p_data := [] |}, expected c q [] items).
Proof.
  intros Hn Hnum HF Hcap.
  destruct items as [|[s d] items]; [cbn in Hn; lia|].
  inversion HF as [|[l dl] sd lines' items' [Hs Hd] HF']; subst. cbn [fst snd] in *. subst dl.
  cbn [map fst numbered_from] in Hnum. destruct Hnum as (Hfn & Hnn & Hid & Hrest).
  cbn [run]. rewrite sentence_of_step, Hs.
  pose proof (sentence_of_fits _ _ _ _ Hs) as Hfit.
  rewrite (handle_spec c q _ s d Hfit). unfold classify.
  cbn [length] in *.
  assert (Hm : has_more s = true).
  { unfold has_more. rewrite Hfn, Hnn. apply N.ltb_lt. lia. }
  rewrite Hm, Hfn. cbn [N.of_nat Pos.of_succ_nat N.eqb Pos.eqb].
  unfold opened. rewrite Hid.
  assert (Hne : items <> []) by (destruct items; [cbn in Hn; lia|discriminate]).
  pose proof (feed_from c q id (S (length items)) items lines' 1 (s_data s) ltac:(lia) ltac:(lia) Hne Hrest HF') as Hfeed.
  change (N.of_nat 1) with 1 in Hfeed. rewrite Hfeed.
  - cbn [expected app]. destruct items; [contradiction|reflexivity].
  - intros Hc. specialize (Hcap Hc). change (map fst ((s, d) :: items)) with (s :: map fst items) in Hcap.
    rewrite total_data_cons in Hcap. lia.
Qed.

(* the delivered payload is the concatenation of all the fragment payloads *)
Lemma last_cons_ne {A} (x : A) l d : l <> [] -> last (x :: l) d = last l d.
Proof. destruct l; [contradiction|reflexivity]. Qed.

Lemma expected_ne c q D items : items <> [] -> expected c q D items <> [].
Proof. destruct items as [|[s d] [|it r]]; [contradiction|discriminate|discriminate]. Qed.

Lemma expected_last c q D items :
  items <> [] ->
  exists s d, last items (s, d) = (s, d) /\
    last (expected c q D items) (Err ENmea) = finish c q (with_data s (D ++ flat_map s_data (map fst items))) d.
Proof.
  revert D; induction items as [|[s d] items IH]; intros D Hne; [contradiction|].
  destruct items as [|it items].
  - exists s, d. cbn. rewrite app_nil_r. auto.
  - destruct (IH (D ++ s_data s) ltac:(discriminate)) as (s' & d' & Hl & He).
    exists s', d'. split.
    + rewrite last_cons_ne by discriminate. exact Hl.
    + change (expected c q D ((s, d) :: it :: items)) with (Ok (Incomplete s) :: expected c q (D ++ s_data s) (it :: items)).
      rewrite last_cons_ne by (apply expected_ne; discriminate).
      rewrite He. change (map fst ((s, d) :: it :: items)) with (s :: map fst (it :: items)).
      cbn [flat_map]. rewrite <- app_assoc. reflexivity.
Qed.

(* what a completed sentence yields depends on its payload and fill count only: the decoded message
   of the reassembled group is the one of the same payload sent unfragmented *)
Definition decoded (c : cfg) (q : quirks) (data : list N) (fill : N) (d : bool) : res (option ais_message) :=
  if d then
    match to_nmea (unarmor c data (N.to_nat fill)) with
    | Ok u => match msg_parse c q u with Ok m => Ok (Some m) | Err e => Err e | Panic p => Panic p end
    | Err e => Err e
    | Panic p => Panic p
    end
  else Ok None.

Theorem finish_by_payload c q s d :
  s_message s = None ->
  finish c q s d =
  match decoded c q (s_data s) (s_fill s) d with
  | Ok m => Ok (Complete (with_message s m))
  | Err e => Err e
  | Panic p => Panic p
  end.
Proof.
  intros Hm. unfold finish, decoded. destruct d.
  - destruct (to_nmea _) as [u|e|p]; try reflexivity. destruct (msg_parse c q u); reflexivity.
  - destruct s; cbn in *; subst; reflexivity.
Qed.

(* conversions *)
Theorem conversions_exact f :
  (frag_to_option f = match f with Complete s => Some s | Incomplete _ => None end) /\
  (frag_to_result f = match f with Complete s => Ok s | Incomplete _ => Err ENmea end).
Proof. destruct f; split; reflexivity. Qed.
