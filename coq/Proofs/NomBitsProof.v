(* Proofs/NomBitsProof.v — nom's byte-and-shift `take` returns exactly the bit slice the model's
   [take] returns, and moves the cursor the same way.

   Rust cursor (input, bit_offset), bit_offset < 8   ~   model cursor (bs, p) with
   bs = bits_of_bytes all_bytes, input = skipn (p / 8) all_bytes, bit_offset = p mod 8. *)
From Ais Require Import Model.Base Model.NomBits Proofs.Bits.
From Coq Require Import ZifyBool ZifyNat ZifyN.
Local Open Scope N_scope.

(* ---------- facts about one byte (finite sweeps, lifted) ---------- *)
Definition byte_facts (b : N) : bool :=
  forallb (fun off =>
    (* the masked value: ((b << off) as u8) >> off  =  the low 8 - off bits  =  the bits from off on *)
    (N.shiftr (N.shiftl b (N.of_nat off) mod 256) (N.of_nat off) =? N_of_bits (skipn off (byte_bits b))) &&
    forallb (fun r =>
      N.shiftr (N_of_bits (skipn off (byte_bits b))) (N.of_nat (8 - off - r)) =? N_of_bits (firstn r (skipn off (byte_bits b))))
      (seq 0 (8 - off)))
    (seq 0 8).

Lemma all_bytes_facts : forallb byte_facts (map N.of_nat (seq 0 256)) = true.
Proof. vm_compute. reflexivity. Qed.

Lemma byte_facts_of b : b < 256 -> byte_facts b = true.
Proof.
  intros Hb. pose proof all_bytes_facts as H. rewrite forallb_forall in H. apply H.
  apply in_map_iff. exists (N.to_nat b). split; [lia|]. apply in_seq. lia.
Qed.

Lemma byte_bits_full b : b < 256 -> N_of_bits (byte_bits b) = b.
Proof.
  intros Hb.
  assert (H : forallb (fun x => N_of_bits (byte_bits x) =? x) (map N.of_nat (seq 0 256)) = true) by (vm_compute; reflexivity).
  rewrite forallb_forall in H. specialize (H b). rewrite N.eqb_eq in H. apply H.
  apply in_map_iff. exists (N.to_nat b). split; [lia|]. apply in_seq. lia.
Qed.

Lemma masked_value b off : b < 256 -> (off < 8)%nat ->
  (if (off =? 0)%nat then b else N.shiftr (N.shiftl b (N.of_nat off) mod 256) (N.of_nat off)) = N_of_bits (skipn off (byte_bits b)).
Proof.
  intros Hb Ho. destruct (Nat.eqb_spec off 0) as [->|Hn].
  - cbn [skipn]. symmetry. apply byte_bits_full. exact Hb.
  - pose proof (byte_facts_of b Hb) as F. unfold byte_facts in F. rewrite forallb_forall in F.
    specialize (F off ltac:(apply in_seq; lia)). apply andb_prop in F. destruct F as [F _].
    apply N.eqb_eq in F. exact F.
Qed.

Lemma partial_value b off r : b < 256 -> (off < 8)%nat -> (r < 8 - off)%nat ->
  N.shiftr (N_of_bits (skipn off (byte_bits b))) (N.of_nat (8 - off - r)) = N_of_bits (firstn r (skipn off (byte_bits b))).
Proof.
  intros Hb Ho Hr. pose proof (byte_facts_of b Hb) as F. unfold byte_facts in F. rewrite forallb_forall in F.
  specialize (F off ltac:(apply in_seq; lia)). apply andb_prop in F. destruct F as [_ F].
  rewrite forallb_forall in F. specialize (F r ltac:(apply in_seq; lia)). apply N.eqb_eq in F. exact F.
Qed.

(* ---------- the loop ---------- *)
Lemma skipn_app_le {A} n (l1 l2 : list A) : (n <= length l1)%nat -> skipn n (l1 ++ l2) = skipn n l1 ++ l2.
Proof. intros H. rewrite skipn_app. replace (n - length l1)%nat with 0%nat by lia. reflexivity. Qed.

Lemma firstn_app_ge {A} n (l1 l2 : list A) : (length l1 <= n)%nat -> firstn n (l1 ++ l2) = l1 ++ firstn (n - length l1) l2.
Proof. intros H. rewrite firstn_app. rewrite firstn_all2 by lia. reflexivity. Qed.

Lemma firstn_app_lt {A} n (l1 l2 : list A) : (n <= length l1)%nat -> firstn n (l1 ++ l2) = firstn n l1.
Proof. intros H. rewrite firstn_app. replace (n - length l1)%nat with 0%nat by lia. cbn [firstn]. apply app_nil_r. Qed.

Lemma loop_correct bytes : Forall (fun b => b < 256) bytes ->
  forall off rem acc, (off < 8)%nat -> (rem = 0 -> off = 0)%nat -> (rem + off <= 8 * length bytes)%nat ->
    nom_take_loop bytes off rem acc =
    (acc + N_of_bits (firstn rem (skipn off (bits_of_bytes bytes))), ((rem + off) mod 8)%nat).
Proof.
  induction 1 as [|b rest Hb Hrest IH]; intros off rem acc Ho Hz Hl.
  - cbn [length] in Hl. assert (rem = 0%nat) by lia. subst rem. rewrite (Hz eq_refl).
    cbn. rewrite N.add_0_r. reflexivity.
  - cbn [nom_take_loop]. destruct (Nat.eqb_spec rem 0) as [->|Hr].
    + rewrite (Hz eq_refl). cbn [firstn]. cbn. rewrite N.add_0_r. reflexivity.
    + rewrite (masked_value b off Hb Ho).
      cbn [bits_of_bytes flat_map]. fold (bits_of_bytes rest).
      pose proof (byte_bits_length b) as Lb.
      rewrite (skipn_app_le off (byte_bits b) (bits_of_bytes rest)) by lia.
      destruct (Nat.ltb_spec rem (8 - off)) as [Hlt|Hge].
      * rewrite (partial_value b off rem Hb Ho Hlt).
        rewrite firstn_app_lt by (rewrite skipn_length; lia).
        f_equal. rewrite Nat.mod_small by lia. reflexivity.
      * cbn [length] in Hl.
        rewrite (IH 0%nat (rem - (8 - off))%nat _ ltac:(lia) ltac:(lia) ltac:(lia)).
        cbn [skipn].
        rewrite firstn_app_ge by (rewrite skipn_length; lia).
        rewrite skipn_length, Lb.
        rewrite N_of_bits_app. rewrite firstn_length.
        rewrite bits_of_bytes_length.
        replace (Nat.min (rem - (8 - off)) (8 * length rest)) with (rem - (8 - off))%nat by lia.
        rewrite N.shiftl_mul_pow2. f_equal; [lia|].
        replace (rem - (8 - off) + 0)%nat with (rem + off - 8)%nat by lia.
        replace (rem + off)%nat with ((rem + off - 8) + 1 * 8)%nat at 2 by lia.
        rewrite Nat.mod_add by lia. reflexivity.
Qed.

Lemma Forall_firstn {A} (P : A -> Prop) n l : Forall P l -> Forall P (firstn n l).
Proof. intros H. revert n. induction H; intros [|n]; cbn [firstn]; constructor; auto. Qed.

Lemma firstn_firstn_bits k w l : (w <= 8 * k)%nat -> firstn w (bits_of_bytes (firstn k l)) = firstn w (bits_of_bytes l).
Proof.
  intros H. rewrite <- (firstn_skipn k l) at 2. unfold bits_of_bytes at 2. rewrite flat_map_app.
  fold (bits_of_bytes (firstn k l)). destruct (Nat.le_gt_cases k (length l)) as [Hk|Hk].
  - rewrite firstn_app_lt; [reflexivity|]. rewrite bits_of_bytes_length, firstn_length. lia.
  - rewrite (skipn_all2 l) by lia. cbn [flat_map]. rewrite app_nil_r. reflexivity.
Qed.

(* nom's take on a Rust cursor, in terms of the bit list of the remaining input *)
Theorem nom_take_correct count input off :
  Forall (fun b => b < 256) input -> (off < 8)%nat ->
  nom_take count input off =
  if (count =? 0)%nat then Ok ((input, off), 0)
  else if (length input * 8 <? count + off)%nat then Err EError
  else Ok ((skipn ((count + off) / 8) input, ((count + off) mod 8)%nat), sl (bits_of_bytes input) off count).
Proof.
  intros Hb Ho. unfold nom_take. destruct (Nat.eqb_spec count 0) as [Hc|Hc]; [reflexivity|].
  destruct (Nat.ltb_spec (length input * 8) (count + off)) as [Hs|Hs]; [reflexivity|].
  set (cnt := ((count + off) / 8)%nat).
  pose proof (Nat.div_mod (count + off) 8 ltac:(lia)) as Hdm. fold cnt in Hdm.
  pose proof (Nat.mod_upper_bound (count + off) 8 ltac:(lia)) as Hm.
  assert (Hlen : (count + off <= 8 * length (firstn (cnt + 1) input))%nat).
  { rewrite firstn_length. lia. }
  rewrite (loop_correct (firstn (cnt + 1) input) (Forall_firstn _ _ _ Hb) off count 0 Ho ltac:(lia) ltac:(lia)).
  rewrite N.add_0_l. unfold sl.
  assert (E : firstn count (skipn off (bits_of_bytes (firstn (cnt + 1) input))) = firstn count (skipn off (bits_of_bytes input))).
  { rewrite <- (firstn_skipn (cnt + 1) input) at 2. unfold bits_of_bytes at 2. rewrite flat_map_app.
    fold (bits_of_bytes (firstn (cnt + 1) input)). fold (bits_of_bytes (skipn (cnt + 1) input)).
    rewrite skipn_app_le by (rewrite bits_of_bytes_length; lia).
    rewrite firstn_app_lt; [reflexivity|]. rewrite skipn_length, bits_of_bytes_length. lia. }
  rewrite E. reflexivity.
Qed.

(* ---------- refinement: the Rust cursor against the model's bit position ---------- *)
Definition cursor_of (all : list N) (p : nat) : list N * nat := (skipn (p / 8) all, (p mod 8)%nat).

Theorem nom_take_refines_model w all p :
  Forall (fun b => b < 256) all -> (p <= 8 * length all)%nat ->
  nom_take w (fst (cursor_of all p)) (snd (cursor_of all p)) =
  match take w (bits_of_bytes all) p with
  | Ok (v, p') => Ok (cursor_of all p', v)
  | Err e => Err e
  | Panic s => Panic s
  end.
Proof.
  intros Hb Hp. unfold cursor_of. cbn [fst snd].
  pose proof (Nat.div_mod p 8 ltac:(lia)) as Hdm.
  pose proof (Nat.mod_upper_bound p 8 ltac:(lia)) as Hm.
  set (k := (p / 8)%nat) in *. set (o := (p mod 8)%nat) in *.
  assert (Hbk : Forall (fun b => b < 256) (skipn k all)).
  { rewrite <- (firstn_skipn k all) in Hb. apply Forall_app in Hb. exact (proj2 Hb). }
  rewrite (nom_take_correct w (skipn k all) o Hbk Hm).
  unfold take. destruct (Nat.eqb_spec w 0) as [->|Hw].
  - reflexivity.
  - rewrite skipn_length, bits_of_bytes_length.
    destruct (Nat.ltb_spec ((length all - k) * 8) (w + o)) as [Hs|Hs];
    destruct (Nat.leb_spec (w + p) (8 * length all)) as [Hl|Hl]; try lia; [reflexivity|].
    f_equal. f_equal.
    + f_equal.
      * rewrite skipn_skipn. f_equal.
        replace (w + p)%nat with ((w + o) + k * 8)%nat by lia. rewrite Nat.div_add by lia. lia.
      * replace (w + p)%nat with ((w + o) + k * 8)%nat by lia. rewrite Nat.mod_add by lia. reflexivity.
    + unfold sl. rewrite <- skipn_bits_of_bytes. rewrite skipn_skipn. do 3 f_equal. lia.
Qed.
