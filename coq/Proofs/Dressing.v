(* Proofs/Dressing.v — what a message says does not depend on how its sentence is dressed: two unfragmented
   sentences, accepted at the sentence level, with the same payload and the same fill count decode alike — same
   message or same failure — whatever their TAG blocks, delimiters, talkers, report types, sequence ids, channels,
   spellings of the numbers, and whatever follows their checksums; and in whatever states the parsers are. *)
From Ais Require Import Model.Base Model.Messages Model.Unarmor Model.Sentence Spec.Grammar Proofs.SentenceLemmas.
Local Open Scope N_scope.

Definition decoded (r : res frag) : res (option ais_message) :=
  match r with
  | Ok (Complete s) => Ok (s_message s)
  | Ok (Incomplete _) => Ok None
  | Err e => Err e
  | Panic p => Panic p
  end.

Lemma step_unfragmented c q st line f hex d :
  Shaped c line f hex -> xor_fold (body_bytes f) = checksum_read hex ->
  dec_value (af_count f) = 1 -> dec_value (af_number f) = 1 ->
  step c q st line d = (st, finish c q (sentence_of_fields q f) d).
Proof.
  intros Hs Hx Hc Hn. unfold step. rewrite (shaped_parse_nmea c q line f hex Hs).
  rewrite Hx, N.eqb_refl. cbn [negb].
  unfold handle, has_more, is_fragment. cbn [sentence_of_fields s_fragment_number s_num_fragments].
  rewrite Hc, Hn. reflexivity.
Qed.

Lemma decoded_finish c q s :
  decoded (finish c q s true) =
  match to_nmea (unarmor c (s_data s) (N.to_nat (s_fill s))) with
  | Ok unarmored => match msg_parse c q unarmored with Ok m => Ok (Some m) | Err e => Err e | Panic p => Panic p end
  | Err e => Err e
  | Panic p => Panic p
  end.
Proof.
  unfold finish. destruct (to_nmea _) as [u|e|p]; [|reflexivity|reflexivity].
  destruct (msg_parse c q u) as [m|e|p]; reflexivity.
Qed.

Theorem message_depends_on_payload_and_fill_only c q st1 st2 line1 line2 f1 f2 hex1 hex2 :
  Shaped c line1 f1 hex1 -> Shaped c line2 f2 hex2 ->
  xor_fold (body_bytes f1) = checksum_read hex1 -> xor_fold (body_bytes f2) = checksum_read hex2 ->
  dec_value (af_count f1) = 1 -> dec_value (af_number f1) = 1 ->
  dec_value (af_count f2) = 1 -> dec_value (af_number f2) = 1 ->
  af_payload f1 = af_payload f2 -> dec_value (af_fill f1) = dec_value (af_fill f2) ->
  decoded (snd (step c q st1 line1 true)) = decoded (snd (step c q st2 line2 true)).
Proof.
  intros S1 S2 X1 X2 C1 N1 C2 N2 Hp Hf.
  rewrite (step_unfragmented c q st1 line1 f1 hex1 true S1 X1 C1 N1).
  rewrite (step_unfragmented c q st2 line2 f2 hex2 true S2 X2 C2 N2).
  cbn [snd]. rewrite !decoded_finish. cbn [sentence_of_fields s_data s_fill]. rewrite Hp, Hf. reflexivity.
Qed.
