(* Proofs/TagBlocks.v — nothing in a TAG block matters: a line behind a TAG block (a backslash, any bytes but a
   backslash, a backslash) is handled exactly like the line without it — same result, same parser state — whatever
   the block says (parameter codes, numbers, its own checksum, right or wrong), after any history.  Also: swapping
   one TAG block for another, line by line, changes nothing in a whole history. *)
From Ais Require Import Model.Base Model.Sentence Spec.Grammar Proofs.SentenceLemmas.
Local Open Scope N_scope.

Lemma parse_behind_tag_block c q tb start rest :
  tag_block tb -> start = 33 \/ start = 36 ->
  parse_nmea_sentence c q (tb ++ start :: rest) = parse_nmea_sentence c q (start :: rest).
Proof.
  intros Htb Hs. unfold parse_nmea_sentence.
  assert (Hne : start <> 92) by (destruct Hs as [-> | ->]; discriminate).
  rewrite (skip_tag_block_complete tb start rest Htb Hne).
  pose proof (skip_tag_block_complete [] start rest (or_introl eq_refl) Hne) as H0. cbn [app] in H0. rewrite H0. reflexivity.
Qed.

Theorem step_behind_tag_block c q st tb start rest d :
  tag_block tb -> start = 33 \/ start = 36 ->
  step c q st (tb ++ start :: rest) d = step c q st (start :: rest) d.
Proof.
  intros Htb Hs. unfold step. rewrite (parse_behind_tag_block c q tb start rest Htb Hs). reflexivity.
Qed.

(* a history whose lines all start with '!' or '$', each put behind a TAG block of its own *)
Fixpoint tagged (h : list (list N * list N * bool)) : list (list N * bool) :=
  match h with
  | [] => []
  | (tb, line, d) :: h' => (tb ++ line, d) :: tagged h'
  end.
Fixpoint untagged (h : list (list N * list N * bool)) : list (list N * bool) :=
  match h with
  | [] => []
  | (_, line, d) :: h' => (line, d) :: untagged h'
  end.
Definition sentence_start (line : list N) : Prop :=
  match line with x :: _ => x = 33 \/ x = 36 | [] => False end.

Theorem run_behind_tag_blocks c q h : forall st,
  Forall (fun '(tb, line, _) => tag_block tb /\ sentence_start line) h ->
  run c q st (tagged h) = run c q st (untagged h).
Proof.
  induction h as [|[[tb line] d] h IH]; intros st Hall; [reflexivity|].
  inversion Hall as [|x0 l0 Hhd Hrest]; subst. cbn beta iota in Hhd. destruct Hhd as [Htb Hst].
  cbn [tagged untagged run].
  destruct line as [|x rest]; [destruct Hst|]. cbn [sentence_start] in Hst.
  rewrite (step_behind_tag_block c q st tb x rest d Htb Hst).
  destruct (step c q st (x :: rest) d) as [st1 o]. rewrite (IH st1 Hrest). reflexivity.
Qed.

(* non-vacuity: a block with a hostile time stamp and a wrong checksum of its own is a TAG block *)
Example hostile_block_is_a_tag_block : tag_block [92; 99; 58; 45; 49; 42; 48; 48; 92].   (* \c:-1*00\ *)
Proof. right. exists [99; 58; 45; 49; 42; 48; 48]. split; [reflexivity|]. intros x Hx. cbn [In] in Hx. repeat (destruct Hx as [<- | Hx]; [discriminate|]). destruct Hx. Qed.

(* ... and nothing behind the checksum digits: two lines of the same shape — same fields, same checksum digits —
   which differ in their TAG block, their start delimiter or in what follows the checksum (a carriage return, a
   logger's time stamp, further fields) are handled alike in every state *)
Theorem step_of_shape_only c q st line1 line2 f hex d :
  Shaped c line1 f hex -> Shaped c line2 f hex -> step c q st line1 d = step c q st line2 d.
Proof.
  intros H1 H2. unfold step.
  rewrite (shaped_parse_nmea c q line1 f hex H1), (shaped_parse_nmea c q line2 f hex H2). reflexivity.
Qed.

(* ... and nothing in front of the sentence is skipped: a line whose first byte is neither a backslash (a TAG block)
   nor a start delimiter is rejected in every state, which it leaves as it was — a byte order mark, a blank, a line
   end or the tail of a torn line in front of a perfectly good sentence included *)
Theorem leading_byte_rejected c q st b rest d :
  b <> 92 -> b <> 33 -> b <> 36 -> step c q st (b :: rest) d = (st, Err ENmea).
Proof.
  intros H92 H33 H36. unfold step, parse_nmea_sentence, skip_tag_block.
  destruct (N.eqb_spec b 92) as [E|_]; [contradiction|].
  destruct (N.eqb_spec b 33) as [E|_]; [contradiction|].
  destruct (N.eqb_spec b 36) as [E|_]; [contradiction|].
  reflexivity.
Qed.

Theorem empty_line_rejected c q st d : step c q st [] d = (st, Err ENmea).
Proof. reflexivity. Qed.
