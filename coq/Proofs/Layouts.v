(* Proofs/Layouts.v — the master layout theorems: every model parser computes exactly the
   ITU layout function of Spec/Layouts.v, succeeds exactly when the mandatory part fits, and
   fails with a recoverable error otherwise.  Properties C04, C09–C16 are projections. *)
From Ais Require Import Model.Base Model.Enums Model.Fields Model.Messages Spec.Layouts
  Proofs.Bits Proofs.Reads.
From Coq Require Import ZifyBool ZifyNat ZifyN.
Local Open Scope N_scope.

(* the behaviour of a whole-message parser started at bit 0 *)
Definition layout {A} (m : P A) (L : nat) (V : list bool -> A) (bs : list bool) : Prop :=
  if (L <=? length bs)%nat then m bs 0%nat = Ok (V bs, L) else m bs 0%nat = Err EError.

Lemma layout_of_reads {A} (m : P A) L v V :
  reads m L v -> (forall bs, v bs 0%nat = V bs) -> forall bs, layout m L V bs.
Proof.
  intros H HV bs. unfold layout. specialize (H bs 0%nat ltac:(lia)).
  rewrite Nat.add_0_r in H. rewrite <- HV. exact H.
Qed.

(* a parser whose continuation depends on the value of its first field *)
Lemma first_field {B} w (f : N -> P B) w2 (V : list bool -> B) bs :
  w <> 0%nat ->
  (forall a, a = sl bs 0 w -> exists v2, reads (f a) w2 v2 /\ v2 bs w = V bs) ->
  layout (bind (take w) f) (w2 + w) V bs.
Proof.
  intros Hw Hf. unfold layout, bind.
  pose proof (reads_take w bs 0%nat ltac:(lia)) as Ht. rewrite Nat.add_0_r in Ht.
  destruct (Nat.leb_spec w (length bs)) as [H1|H1]; rewrite Ht.
  - destruct (Hf _ eq_refl) as (v2 & Hr & Hv).
    specialize (Hr bs w H1). rewrite Hv in Hr. exact Hr.
  - destruct (Nat.leb_spec (w2 + w) (length bs)); [lia|reflexivity].
Qed.

Create HintDb reads.
#[export] Hint Resolve reads_take reads_take_bool reads_take_accuracy reads_take_dte
  reads_take_assigned_mode reads_take_carrier_sense reads_parse_year reads_parse_month
  reads_parse_day reads_parse_hour reads_parse_minsec : reads.

(* ---------- communication state ---------- *)

Lemma reads_sub_message t : t < 8 -> reads (sub_message_parse t) 14 (sub_at t).
Proof.
  intros Ht.
  assert (t = 0 \/ t = 1 \/ t = 2 \/ t = 3 \/ t = 4 \/ t = 5 \/ t = 6 \/ t = 7) as Hc by lia.
  unfold sub_message_parse, sub_at.
  destruct Hc as [->|[->|[->|[->|[->|[->|[->| ->]]]]]]]; cbn [N.eqb Pos.eqb orb];
    try (apply reads_pmap, reads_take).
  unfold utc_hour_and_minute.
  eapply reads_ext;
    [eapply reads_bind; [apply reads_take|intros h];
     eapply reads_bind; [apply reads_take|intros x];
     eapply reads_bind; [apply reads_take|intros mi];
     eapply reads_bind; [apply reads_take|intros y]; apply reads_ret
    |reflexivity|reflexivity].
Qed.

Lemma reads_sotdma : reads sotdma_parse 19 sotdma_at.
Proof.
  unfold sotdma_parse.
  eapply reads_ext;
    [eapply reads_bind; [apply reads_pmap, reads_take|intros sync];
     eapply reads_bind_take; intros t Ht; change (2 ^ N.of_nat 3) with 8 in Ht;
     eapply reads_bind; [apply (reads_sub_message t Ht)|intros sub]; apply reads_ret
    |reflexivity|reflexivity].
Qed.

Lemma reads_itdma : reads itdma_parse 19 itdma_at.
Proof.
  unfold itdma_parse.
  eapply reads_ext;
    [eapply reads_bind; [apply reads_pmap, reads_take|intros sync];
     eapply reads_bind; [apply reads_take|intros incr];
     eapply reads_bind; [apply reads_take|intros slots];
     eapply reads_bind; [apply reads_take_bool|intros keep]; apply reads_ret
    |reflexivity|reflexivity].
Qed.
#[export] Hint Resolve reads_sotdma reads_itdma : reads.

(* ---------- the derivation tactic ---------- *)
Ltac rd :=
  lazymatch goal with
  | |- reads (ret _) _ _ => apply reads_ret
  | |- reads (bind _ _) _ _ => eapply reads_bind; [rd | intro; rd]
  | |- reads (pmap _ _) _ _ => eapply reads_pmap; rd
  | |- reads (signed_i32 _) _ _ => apply reads_signed_i32; lia
  | |- reads (parse_6bit_ascii _ _) _ _ => apply reads_parse_6bit_ascii; cbn; lia
  | |- reads _ _ _ => solve [eauto with reads nocore]
  end.

Ltac rdx := eapply reads_ext; [rd | reflexivity | intros; reflexivity].
Ltac by_reads := eapply layout_of_reads; [rdx | intros; reflexivity].

(* ---------- type 10 ---------- *)
Theorem layout_utc_date_inquiry bs : layout parse_utc_date_inquiry 72 utc_date_inquiry_of bs.
Proof. revert bs. unfold parse_utc_date_inquiry. by_reads. Qed.

(* ---------- types 1-3 ---------- *)
Theorem layout_position_report bs :
  sl bs 0 6 = 1 \/ sl bs 0 6 = 2 \/ sl bs 0 6 = 3 ->
  layout parse_position_report 168 position_report_of bs.
Proof.
  intros Ht. unfold parse_position_report. apply (first_field 6 _ 162); [lia|].
  intros a Ha. unfold position_report_of. rewrite <- Ha.
  destruct Ht as [Ht|[Ht|Ht]]; rewrite Ht in Ha; subst a; eexists; (split; [rdx|reflexivity]).
Qed.

(* ---------- types 4 and 11 ---------- *)
Theorem layout_base_station_report bs :
  sl bs 0 6 = 4 \/ sl bs 0 6 = 11 ->
  layout parse_base_station_report 168 base_station_report_of bs.
Proof.
  intros Ht. unfold parse_base_station_report. apply (first_field 6 _ 162); [lia|].
  intros a Ha. unfold base_station_report_of. rewrite <- Ha.
  destruct Ht as [Ht|Ht]; rewrite Ht in Ha; subst a; eexists; (split; [rdx|reflexivity]).
Qed.

(* ---------- type 9: as the tree is, and with the finding repaired ---------- *)
Theorem layout_sar_asis bs :
  sl bs 0 6 = 9 ->
  layout (parse_sar_position_report quirks_asis) 167
         (fun bs => sar_position_report_with (sar_radio_asis bs) bs) bs.
Proof.
  intros Ht. unfold parse_sar_position_report. apply (first_field 6 _ 161); [lia|].
  intros a Ha. unfold sar_position_report_with, sar_radio_asis. rewrite <- Ha.
  rewrite Ht in Ha; subst a. eexists; (split; [cbn [parse_sar_radio quirks_asis q16_type9_no_selector]; rdx|reflexivity]).
Qed.

Lemma reads_sar_radio_off t :
  reads (parse_sar_radio quirks_off t) 20
        (fun bs p => if bit_at bs p then itdma_at bs (1 + p) else sotdma_at bs (1 + p)).
Proof.
  cbn [parse_sar_radio quirks_off q16_type9_no_selector].
  intros bs p Hp. unfold parse_cs_radio, bind.
  pose proof (reads_take 1 bs p Hp) as Ht1.
  destruct (Nat.leb_spec (1 + p) (length bs)) as [H1|H1]; rewrite Ht1.
  - rewrite sl_1_cases. destruct (bit_at bs p); cbn [N.eqb Pos.eqb].
    + pose proof (reads_itdma bs (1 + p)%nat H1) as Hr.
      change (19 + (1 + p))%nat with (20 + p)%nat in Hr. exact Hr.
    + pose proof (reads_sotdma bs (1 + p)%nat H1) as Hr.
      change (19 + (1 + p))%nat with (20 + p)%nat in Hr. exact Hr.
  - destruct (Nat.leb_spec (20 + p) (length bs)); [lia|reflexivity].
Qed.

#[export] Hint Resolve reads_sar_radio_off : reads.

Theorem layout_sar_repaired bs :
  layout (parse_sar_position_report quirks_off) 168
         (fun bs => sar_position_report_with (sar_radio_of bs) bs) bs.
Proof. revert bs. unfold parse_sar_position_report. by_reads. Qed.

(* ---------- type 18 ---------- *)
Lemma reads_cs_radio :
  reads parse_cs_radio
        20 (fun bs p => if bit_at bs p then itdma_at bs (1 + p) else sotdma_at bs (1 + p)).
Proof.
  intros bs p Hp. unfold parse_cs_radio, bind.
  pose proof (reads_take 1 bs p Hp) as Ht1.
  destruct (Nat.leb_spec (1 + p) (length bs)) as [H1|H1]; rewrite Ht1.
  - rewrite sl_1_cases. destruct (bit_at bs p); cbn [N.eqb Pos.eqb].
    + pose proof (reads_itdma bs (1 + p)%nat H1) as Hr.
      change (19 + (1 + p))%nat with (20 + p)%nat in Hr. exact Hr.
    + pose proof (reads_sotdma bs (1 + p)%nat H1) as Hr.
      change (19 + (1 + p))%nat with (20 + p)%nat in Hr. exact Hr.
  - destruct (Nat.leb_spec (20 + p) (length bs)); [lia|reflexivity].
Qed.
#[export] Hint Resolve reads_cs_radio : reads.

Theorem layout_class_b bs : layout parse_class_b_position_report 168 class_b_of bs.
Proof. revert bs. unfold parse_class_b_position_report. by_reads. Qed.

(* ---------- type 19 ---------- *)
Theorem layout_ext_class_b c bs : layout (parse_ext_class_b_position_report c) 312 ext_class_b_of bs.
Proof. revert bs. unfold parse_ext_class_b_position_report. by_reads. Qed.

(* ---------- type 21 ---------- *)
Theorem layout_aid_to_navigation c bs : layout (parse_aid_to_navigation c) 272 aid_to_navigation_of bs.
Proof. revert bs. unfold parse_aid_to_navigation. by_reads. Qed.

(* ---------- type 27 ---------- *)
Theorem layout_long_range bs : layout parse_long_range_broadcast 95 long_range_of bs.
Proof. revert bs. unfold parse_long_range_broadcast. by_reads. Qed.

(* ---------- parsers with a fixed prefix and a length-dependent tail ---------- *)

(* with fewer than [H] bits left the parser fails with the recoverable error *)
Definition fails_short {A} (m : P A) (H : nat) : Prop :=
  forall bs p, (p <= length bs)%nat -> (length bs < H + p)%nat -> m bs p = Err EError.

Lemma fails_short_0 {A} (m : P A) : fails_short m 0.
Proof. intros bs p Hp Hl. lia. Qed.

Lemma fails_short_bind {A B} (m : P A) (f : A -> P B) w v H :
  reads m w v -> (forall a, fails_short (f a) H) -> fails_short (bind m f) (H + w).
Proof.
  intros Hm Hf bs p Hp Hl. unfold bind.
  destruct (Nat.leb_spec (w + p) (length bs)) as [H1|H1].
  - rewrite (reads_ok _ _ _ _ _ Hm H1). apply Hf; lia.
  - rewrite (reads_short _ _ _ _ _ Hm Hp H1). reflexivity.
Qed.

Lemma fails_short_ext {A} (m : P A) H H' : fails_short m H -> H = H' -> fails_short m H'.
Proof. intros; subst; assumption. Qed.

(* with at least [w] bits left the parser reads its prefix and continues as [F] *)
Definition then_tail {A} (m : P A) (w : nat) (F : list bool -> nat -> res (A * nat)) : Prop :=
  forall bs p, (w + p <= length bs)%nat -> m bs p = F bs p.

Lemma then_tail_base {A} (m : P A) : then_tail m 0 (fun bs p => m bs p).
Proof. intros bs p _. reflexivity. Qed.

Lemma then_tail_bind {A B} (m : P A) (f : A -> P B) w1 v1 w2 F2 :
  reads m w1 v1 -> (forall a, then_tail (f a) w2 (F2 a)) ->
  then_tail (bind m f) (w2 + w1) (fun bs p => F2 (v1 bs p) bs (w1 + p)%nat).
Proof.
  intros Hm Hf bs p Hl. unfold bind.
  rewrite (reads_ok _ _ _ _ _ Hm) by lia. apply Hf. lia.
Qed.

Lemma then_tail_ext {A} (m : P A) w w' F F' :
  then_tail m w F -> w = w' -> (forall bs p, F bs p = F' bs p) -> then_tail m w' F'.
Proof. intros H -> HF bs p Hl. rewrite <- HF. apply H. exact Hl. Qed.

Lemma bind_assoc_pt {A B C} (m : P A) (f : A -> P B) (g : B -> P C) bs p :
  bind (bind m f) g bs p = bind m (fun a => bind (f a) g) bs p.
Proof. unfold bind. destruct (m bs p) as [[a p']|e|s]; reflexivity. Qed.

Lemma then_tail_assoc {A B C} (m : P A) (f : A -> P B) (g : B -> P C) w F :
  then_tail (bind m (fun a => bind (f a) g)) w F -> then_tail (bind (bind m f) g) w F.
Proof. intros H bs p Hl. rewrite bind_assoc_pt. apply H. exact Hl. Qed.

Lemma fails_short_assoc {A B C} (m : P A) (f : A -> P B) (g : B -> P C) H :
  fails_short (bind m (fun a => bind (f a) g)) H -> fails_short (bind (bind m f) g) H.
Proof. intros Hs bs p Hp Hl. rewrite bind_assoc_pt. apply Hs; assumption. Qed.

Ltac fs := first [eapply fails_short_bind; [rd | intro; fs]
                 | eapply fails_short_assoc; fs
                 | apply fails_short_0].
Ltac tt := first [eapply then_tail_bind; [rd | intro; tt]
                 | eapply then_tail_assoc; tt
                 | apply then_tail_base].

(* ---------- types 6, 8, 17: fixed header, then the remaining bytes ---------- *)
Definition data_layout {A} (c : cfg) (m : P A) (H : nat) (V : list bool -> A) (bs : list bool) : Prop :=
  if (H <=? length bs)%nat then
    if noalloc c && (MAX_DATA_SIZE_BYTES <? length (bytes_of_bits (skipn H bs)))%nat
    then m bs 0%nat = Err EFailure
    else m bs 0%nat = Ok (V bs, length bs)
  else m bs 0%nat = Err EError.

Ltac data_tail H :=
  unfold data_layout; intros;
  match goal with |- context [(H <=? length ?bs)%nat] =>
    destruct (Nat.leb_spec H (length bs)) as [Hl|Hl];
    [ match goal with |- context [?m bs 0%nat] =>
        let T := fresh "T" in
        eassert (T : then_tail m H _) by (eapply then_tail_ext; [tt | reflexivity | intros; reflexivity]);
        rewrite (T bs 0%nat) by lia; clear T
      end;
      unfold bind, owned_data, rest_bytes, bind;
      match goal with |- context [skipn ?k bs] => change k with H end;
      destruct (noalloc _ && _); reflexivity
    | match goal with |- ?m bs 0%nat = _ =>
        let S := fresh "S" in
        assert (S : fails_short m H) by (eapply fails_short_ext; [fs | reflexivity]);
        apply S; lia
      end ]
  end.

Theorem layout_binary_addressed c bs : data_layout c (parse_binary_addressed c) 88 binary_addressed_of bs.
Proof. unfold parse_binary_addressed. data_tail 88%nat. Qed.

Theorem layout_binary_broadcast c bs : data_layout c (parse_binary_broadcast c) 56 binary_broadcast_of bs.
Proof. unfold parse_binary_broadcast. data_tail 56%nat. Qed.

Theorem layout_dgnss c bs : data_layout c (parse_dgnss_broadcast c) 120 dgnss_of bs.
Proof. unfold parse_dgnss_broadcast, parse_correction_data. data_tail 120%nat. Qed.

(* ---------- many_m_n over a fixed-width element ---------- *)
Lemma items_at_length {A} (v : list bool -> nat -> A) w bs p k : length (items_at v w bs p k) = k.
Proof. revert p; induction k as [|k IH]; intros p; cbn [items_at length]; [reflexivity|]. rewrite IH; reflexivity. Qed.

Lemma many_loop_reads {A} (f : P A) w v min :
  (0 < w)%nat -> reads f w v ->
  forall fuel count bs p, (p <= length bs)%nat -> (min <= count + fuel)%nat ->
    let k := Nat.min fuel ((length bs - p) / w) in
    if (min <=? count + k)%nat
    then many_loop f min fuel count bs p = Ok (items_at v w bs p k, (k * w + p)%nat)
    else many_loop f min fuel count bs p = Err EError.
Proof.
  intros Hw Hr fuel. induction fuel as [|fuel IH]; intros count bs p Hp Hmin k.
  - subst k. cbn [Nat.min many_loop items_at]. rewrite Nat.add_0_r.
    destruct (Nat.leb_spec min count); [reflexivity|lia].
  - cbn [many_loop]. pose proof (Hr bs p Hp) as Hf.
    destruct (Nat.leb_spec (w + p) (length bs)) as [H1|H1]; rewrite Hf.
    + (* one more element fits *)
      assert (Hd : ((length bs - p) / w = S ((length bs - (w + p)) / w))%nat).
      { replace (length bs - p)%nat with ((length bs - (w + p)) + 1 * w)%nat by lia.
        rewrite Nat.div_add by lia. lia. }
      destruct (Nat.eqb_spec (length bs - (w + p)) (length bs - p)); [lia|].
      specialize (IH (S count) bs (w + p)%nat H1 ltac:(lia)). cbv zeta in IH.
      subst k. rewrite Hd. cbn [Nat.min].
      set (k' := Nat.min fuel ((length bs - (w + p)) / w)) in *.
      replace (count + S k')%nat with (S count + k')%nat by lia.
      destruct (min <=? S count + k')%nat; rewrite IH; [|reflexivity].
      cbn [items_at]. f_equal. f_equal. lia.
    + (* the element does not fit: the loop stops *)
      assert (Hd : ((length bs - p) / w = 0)%nat) by (apply Nat.div_small; lia).
      subst k. rewrite Hd. rewrite Nat.min_0_r, Nat.add_0_r. cbn [items_at Nat.mul Nat.add].
      destruct (Nat.leb_spec min count); destruct (Nat.ltb_spec count min); try lia; reflexivity.
Qed.

Lemma many_m_n_reads {A} (f : P A) w v min max bs p :
  (0 < w)%nat -> reads f w v -> (min <= max)%nat -> (p <= length bs)%nat ->
  let k := Nat.min max ((length bs - p) / w) in
  if (min <=? k)%nat
  then many_m_n min max f bs p = Ok (items_at v w bs p k, (k * w + p)%nat)
  else many_m_n min max f bs p = Err EError.
Proof.
  intros Hw Hr Hmm Hp k. unfold many_m_n.
  destruct (Nat.ltb_spec max min); [lia|].
  exact (many_loop_reads f w v min Hw Hr max 0%nat bs p Hp ltac:(lia)).
Qed.

Lemma reads_acknowledgement : reads parse_acknowledgement 32 ack_at.
Proof. unfold parse_acknowledgement. rdx. Qed.
Lemma reads_slot_reservation : reads parse_slot_reservation 30 reservation_at.
Proof. unfold parse_slot_reservation. rdx. Qed.

(* types 7 and 13: accepted iff the header and one entry fit (72 bits); one entry per
   complete 32 bits present, at most four *)
Definition list_layout {A} (m : P A) (H w : nat) (V : list bool -> A) (bs : list bool) : Prop :=
  if (H + w <=? length bs)%nat
  then m bs 0%nat = Ok (V bs, (Nat.min 4 ((length bs - H) / w) * w + H)%nat)
  else m bs 0%nat = Err EError.

Theorem layout_ack_message bs : list_layout parse_ack_message 40 32 ack_message_of bs.
Proof.
  unfold list_layout, parse_ack_message.
  destruct (Nat.leb_spec (40 + 32) (length bs)) as [Hl|Hl].
  - match goal with |- ?m bs 0%nat = _ =>
      eassert (T : then_tail m 40 _) by (eapply then_tail_ext; [tt | reflexivity | intros; reflexivity]);
      rewrite (T bs 0%nat) by lia; clear T end; cbn [Nat.add].
    unfold bind.
    pose proof (many_m_n_reads parse_acknowledgement 32 ack_at 1 4 bs 40 ltac:(lia) reads_acknowledgement ltac:(lia) ltac:(lia)) as Hm.
    cbv zeta in Hm.
    assert (1 <= (length bs - 40) / 32)%nat by (apply Nat.div_le_lower_bound; lia).
    destruct (Nat.leb_spec 1 (Nat.min 4 ((length bs - 40) / 32))); [|lia].
    rewrite Hm. reflexivity.
  - destruct (Nat.leb_spec 40 (length bs)) as [H40|H40].
    + match goal with |- ?m bs 0%nat = _ =>
        eassert (T : then_tail m 40 _) by (eapply then_tail_ext; [tt | reflexivity | intros; reflexivity]);
        rewrite (T bs 0%nat) by lia; clear T end; cbn [Nat.add].
      unfold bind.
      pose proof (many_m_n_reads parse_acknowledgement 32 ack_at 1 4 bs 40 ltac:(lia) reads_acknowledgement ltac:(lia) ltac:(lia)) as Hm.
      cbv zeta in Hm.
      assert ((length bs - 40) / 32 = 0)%nat as Hz by (apply Nat.div_small; lia).
      rewrite Hz in Hm. cbn [Nat.min Nat.leb] in Hm. rewrite Hm. reflexivity.
    + match goal with |- ?m bs 0%nat = _ =>
        assert (S : fails_short m 40) by (eapply fails_short_ext; [fs | reflexivity]); apply S; lia end.
Qed.

Theorem layout_data_link bs : list_layout parse_data_link_management 40 30 data_link_of bs.
Proof.
  unfold list_layout, parse_data_link_management.
  destruct (Nat.leb_spec (40 + 30) (length bs)) as [Hl|Hl].
  - match goal with |- ?m bs 0%nat = _ =>
      eassert (T : then_tail m 40 _) by (eapply then_tail_ext; [tt | reflexivity | intros; reflexivity]);
      rewrite (T bs 0%nat) by lia; clear T end; cbn [Nat.add].
    unfold bind.
    pose proof (many_m_n_reads parse_slot_reservation 30 reservation_at 1 4 bs 40 ltac:(lia) reads_slot_reservation ltac:(lia) ltac:(lia)) as Hm.
    cbv zeta in Hm.
    assert (1 <= (length bs - 40) / 30)%nat by (apply Nat.div_le_lower_bound; lia).
    destruct (Nat.leb_spec 1 (Nat.min 4 ((length bs - 40) / 30))); [|lia].
    rewrite Hm. reflexivity.
  - destruct (Nat.leb_spec 40 (length bs)) as [H40|H40].
    + match goal with |- ?m bs 0%nat = _ =>
        eassert (T : then_tail m 40 _) by (eapply then_tail_ext; [tt | reflexivity | intros; reflexivity]);
        rewrite (T bs 0%nat) by lia; clear T end; cbn [Nat.add].
      unfold bind.
      pose proof (many_m_n_reads parse_slot_reservation 30 reservation_at 1 4 bs 40 ltac:(lia) reads_slot_reservation ltac:(lia) ltac:(lia)) as Hm.
      cbv zeta in Hm.
      assert ((length bs - 40) / 30 = 0)%nat as Hz by (apply Nat.div_small; lia).
      rewrite Hz in Hm. cbn [Nat.min Nat.leb] in Hm. rewrite Hm. reflexivity.
    + match goal with |- ?m bs 0%nat = _ =>
        assert (S : fails_short m 40) by (eapply fails_short_ext; [fs | reflexivity]); apply S; lia end.
Qed.

(* ---------- helpers for hand-written tails ---------- *)
Ltac to_tail H :=
  match goal with |- ?m ?bs 0%nat = _ =>
    let T := fresh "T" in
    eassert (T : then_tail m H _) by (eapply then_tail_ext; [tt | reflexivity | intros; reflexivity]);
    rewrite (T bs 0%nat) by lia; clear T; cbn [Nat.add]
  end.
Ltac short_of H :=
  match goal with |- ?m ?bs 0%nat = _ =>
    let S := fresh "S" in
    assert (S : fails_short m H) by (eapply fails_short_ext; [fs | reflexivity]); apply S; lia
  end.
Ltac by_reader :=
  match goal with |- ?m ?bs ?p = _ =>
    let R := fresh "R" in
    eassert (R : reads m _ _) by rd;
    rewrite (reads_ok _ _ _ bs p R) by (cbn [Nat.add Nat.mul]; lia); clear R
  end.

(* ---------- type 16 ---------- *)
Theorem layout_assignment bs :
  if (92 <=? length bs)%nat
  then parse_assignment_mode_command bs 0%nat
       = Ok (assignment_of bs, if (144 <=? length bs)%nat then 144%nat else 92%nat)
  else parse_assignment_mode_command bs 0%nat = Err EError.
Proof.
  unfold parse_assignment_mode_command.
  destruct (Nat.leb_spec 92 (length bs)) as [Hl|Hl]; [|short_of 92%nat].
  to_tail 92%nat. unfold bind at 1, remaining. unfold assignment_of.
  destruct (Nat.leb_spec 144 (length bs)) as [H2|H2].
  - destruct (Nat.leb_spec 52 (length bs - 92)); [|lia]. by_reader. reflexivity.
  - destruct (Nat.leb_spec 52 (length bs - 92)); [lia|]. reflexivity.
Qed.

(* ---------- types 12 and 14: text of every whole character that is present ---------- *)
Definition text_layout {A} (c : cfg) (m : P A) (H : nat) (V : list bool -> A) (bs : list bool) : Prop :=
  if (H + 6 <=? length bs)%nat then
    if noalloc c && (20 <? (length bs - H) / 6)%nat
    then m bs 0%nat = Err EFailure
    else m bs 0%nat = Ok (V bs, (6 * ((length bs - H) / 6) + H)%nat)
  else m bs 0%nat = Err EError.

Theorem layout_addressed_safety c bs : text_layout c (parse_addressed_safety c) 72 addressed_safety_of bs.
Proof.
  unfold parse_addressed_safety, text_layout.
  destruct (Nat.leb_spec (72 + 6) (length bs)) as [Hl|Hl].
  - destruct (noalloc c) eqn:Hc; cbn [andb];
      [destruct (Nat.ltb_spec 20 ((length bs - 72) / 6)) as [Hb|Hb]|];
      to_tail 72%nat; unfold bind at 1, remaining;
      (destruct (Nat.ltb_spec (length bs - 72) 6) as [Hr|Hr]; [lia|]).
    + unfold bind; rewrite parse_6bit_ascii_too_large by assumption; reflexivity.
    + unfold bind at 1.
      rewrite (reads_ok _ _ _ bs 72%nat (reads_parse_6bit_ascii' c (length bs - 72) (or_intror Hb)))
        by (pose proof (Nat.mul_div_le (length bs - 72) 6); lia).
      reflexivity.
    + unfold bind at 1.
      rewrite (reads_ok _ _ _ bs 72%nat (reads_parse_6bit_ascii' c (length bs - 72) (or_introl Hc)))
        by (pose proof (Nat.mul_div_le (length bs - 72) 6); lia).
      reflexivity.
  - destruct (Nat.leb_spec 72 (length bs)).
    + to_tail 72%nat; unfold bind at 1, remaining.
      destruct (Nat.ltb_spec (length bs - 72) 6); [reflexivity|lia].
    + short_of 72%nat.
Qed.

Theorem layout_safety_broadcast c bs : text_layout c (parse_safety_broadcast c) 40 safety_broadcast_of bs.
Proof.
  unfold parse_safety_broadcast, text_layout.
  destruct (Nat.leb_spec (40 + 6) (length bs)) as [Hl|Hl].
  - destruct (noalloc c) eqn:Hc; cbn [andb];
      [destruct (Nat.ltb_spec 20 ((length bs - 40) / 6)) as [Hb|Hb]|];
      to_tail 40%nat; unfold bind at 1, remaining;
      (destruct (Nat.ltb_spec (length bs - 40) 6) as [Hr|Hr]; [lia|]).
    + unfold bind; rewrite parse_6bit_ascii_too_large by assumption; reflexivity.
    + unfold bind at 1.
      rewrite (reads_ok _ _ _ bs 40%nat (reads_parse_6bit_ascii' c (length bs - 40) (or_intror Hb)))
        by (pose proof (Nat.mul_div_le (length bs - 40) 6); lia).
      reflexivity.
    + unfold bind at 1.
      rewrite (reads_ok _ _ _ bs 40%nat (reads_parse_6bit_ascii' c (length bs - 40) (or_introl Hc)))
        by (pose proof (Nat.mul_div_le (length bs - 40) 6); lia).
      reflexivity.
  - destruct (Nat.leb_spec 40 (length bs)).
    + to_tail 40%nat; unfold bind at 1, remaining.
      destruct (Nat.ltb_spec (length bs - 40) 6); [reflexivity|lia].
    + short_of 40%nat.
Qed.


(* ---------- type 24 ---------- *)
Lemma reads_part_b_tail c (ship : option ship_type) (vendor_id : list N) :
  reads (model_serial <- peek_p (parse_6bit_ascii c 24) ;;
         unit_model_code <- take 4 ;;
         serial_number <- take 20 ;;
         callsign <- parse_6bit_ascii c 42 ;;
         dimension_to_bow <- take 9 ;;
         dimension_to_stern <- take 9 ;;
         dimension_to_port <- take 6 ;;
         dimension_to_starboard <- take 6 ;;
         _ <- take 6 ;;
         ret (PartB ship vendor_id model_serial unit_model_code serial_number callsign
                    dimension_to_bow dimension_to_stern dimension_to_port dimension_to_starboard))%P
        102
        (fun bs p => PartB ship vendor_id (text_at bs p 4)
                           (sl bs p 4) (sl bs (4 + p) 20) (text_at bs (24 + p) 7)
                           (sl bs (66 + p) 9) (sl bs (75 + p) 9) (sl bs (84 + p) 6) (sl bs (90 + p) 6)).
Proof.
  eapply reads_ext; [eapply reads_bind_peek; [rd | intro; rd | cbn; lia] | reflexivity | intros; reflexivity].
Qed.

Lemma reads_part_b c :
  reads (ship <- pmap ship_type_parse (take 8) ;;
         vendor_id <- parse_6bit_ascii c 18 ;;
         model_serial <- peek_p (parse_6bit_ascii c 24) ;;
         unit_model_code <- take 4 ;;
         serial_number <- take 20 ;;
         callsign <- parse_6bit_ascii c 42 ;;
         dimension_to_bow <- take 9 ;;
         dimension_to_stern <- take 9 ;;
         dimension_to_port <- take 6 ;;
         dimension_to_starboard <- take 6 ;;
         _ <- take 6 ;;
         ret (PartB ship vendor_id model_serial unit_model_code serial_number callsign
                    dimension_to_bow dimension_to_stern dimension_to_port dimension_to_starboard))%P
        128
        (fun bs p => PartB (ship_type_parse (sl bs p 8)) (text_at bs (8 + p) 3) (text_at bs (26 + p) 4)
                           (sl bs (26 + p) 4) (sl bs (30 + p) 20) (text_at bs (50 + p) 7)
                           (sl bs (92 + p) 9) (sl bs (101 + p) 9) (sl bs (110 + p) 6) (sl bs (116 + p) 6)).
Proof.
  eapply reads_ext;
    [eapply reads_bind; [rd|intro ship]; eapply reads_bind; [rd|intro vendor]; apply reads_part_b_tail
    | reflexivity | intros; reflexivity].
Qed.

Theorem layout_static_data c bs :
  if (40 <=? length bs)%nat then
    if sl bs 38 2 =? 0 then
      if (160 <=? length bs)%nat
      then parse_static_data_report c bs 0%nat = Ok (static_data_of bs, (Nat.min (length bs - 160) 7 + 160)%nat)
      else parse_static_data_report c bs 0%nat = Err EError
    else if sl bs 38 2 =? 1 then
      if (168 <=? length bs)%nat
      then parse_static_data_report c bs 0%nat = Ok (static_data_of bs, 168%nat)
      else parse_static_data_report c bs 0%nat = Err EError
    else parse_static_data_report c bs 0%nat = Ok (static_data_of bs, 40%nat)
  else parse_static_data_report c bs 0%nat = Err EError.
Proof.
  unfold parse_static_data_report, parse_message_part.
  destruct (Nat.leb_spec 40 (length bs)) as [Hl|Hl].
  2:{ match goal with |- ?m bs 0%nat = _ =>
        assert (S : fails_short m 40) by (eapply fails_short_ext; [fs | reflexivity]); apply S; lia end. }
  pose proof (sl_lt bs 38 2) as Hlt. change (2 ^ N.of_nat 2) with 4 in Hlt.
  assert (Hv : sl bs 38 2 = 0 \/ sl bs 38 2 = 1 \/ sl bs 38 2 = 2 \/ sl bs 38 2 = 3) by lia.
  unfold static_data_of, static_data_part_of.
  destruct Hv as [Hv|[Hv|[Hv|Hv]]]; rewrite Hv; cbn [N.eqb Pos.eqb].
  - (* part A *)
    destruct (Nat.leb_spec 160 (length bs)) as [H1|H1].
    + to_tail 40%nat. rewrite Hv. cbn [N.eqb Pos.eqb].
      rewrite !bind_assoc_pt. unfold bind at 1.
      rewrite (reads_ok _ _ _ bs 40%nat (reads_parse_6bit_ascii c 120 ltac:(cbn; lia))) by (cbn; lia).
      cbn [Nat.div Nat.mul Nat.add fst Nat.divmod].
      change (6 * (120 / 6) + 40)%nat with 160%nat.
      rewrite bind_assoc_pt. unfold bind at 1, remaining.
      rewrite bind_assoc_pt. unfold bind at 1.
      rewrite (reads_ok _ _ _ bs 160%nat (reads_take (Nat.min (length bs - 160) 7))) by lia.
      reflexivity.
    + to_tail 40%nat. rewrite Hv. cbn [N.eqb Pos.eqb].
      rewrite !bind_assoc_pt. unfold bind at 1.
      rewrite (reads_short _ _ _ bs 40%nat (reads_parse_6bit_ascii c 120 ltac:(cbn; lia))) by (cbn; lia).
      reflexivity.
  - (* part B *)
    destruct (Nat.leb_spec 168 (length bs)) as [H1|H1].
    + to_tail 40%nat. rewrite Hv. cbn [N.eqb Pos.eqb]. unfold bind at 1.
      rewrite (reads_ok _ _ _ bs 40%nat (reads_part_b c)) by lia. reflexivity.
    + to_tail 40%nat. rewrite Hv. cbn [N.eqb Pos.eqb]. unfold bind at 1.
      rewrite (reads_short _ _ _ bs 40%nat (reads_part_b c)) by lia. reflexivity.
  - to_tail 40%nat. rewrite Hv. reflexivity.
  - to_tail 40%nat. rewrite Hv. reflexivity.
Qed.

(* ---------- type 5: 302 mandatory bits, then as much of destination / DTE / spare as is present ---------- *)
Theorem layout_static_voyage c bs :
  if (302 <=? length bs)%nat
  then exists e, parse_static_voyage c bs 0%nat = Ok (static_voyage_of bs, e) /\ (e <= length bs)%nat
  else parse_static_voyage c bs 0%nat = Err EError.
Proof.
  unfold parse_static_voyage.
  destruct (Nat.leb_spec 302 (length bs)) as [Hl|Hl]; [|short_of 302%nat].
  match goal with |- exists e, ?m bs 0%nat = _ /\ _ =>
    eassert (T : then_tail m 302 _) by (eapply then_tail_ext; [tt | reflexivity | intros; reflexivity]);
    rewrite (T bs 0%nat) by lia; clear T; cbv beta end.
  match goal with |- exists e, _ bs ?E = _ /\ _ => let v := eval vm_compute in E in change E with v end.
  unfold bind at 1, remaining.
  set (rem := (length bs - 302)%nat).
  set (k := (Nat.min 120 rem / 6)%nat).
  assert (Hk : (k <= 20)%nat).
  { subst k. apply Nat.div_le_upper_bound; lia. }
  assert (Hk6 : (6 * k <= rem)%nat).
  { subst k. pose proof (Nat.mul_div_le (Nat.min 120 rem) 6 ltac:(lia)). lia. }
  unfold bind at 1.
  rewrite (reads_ok _ _ _ bs 302%nat (reads_parse_6bit_ascii c (Nat.min 120 rem) Hk)) by (fold k; lia).
  fold k.
  unfold bind at 1, remaining.
  unfold static_voyage_of. fold rem. fold k.
  set (after := (6 * k + 302)%nat).
  replace (302 + 6 * k)%nat with after by (subst after; lia).
  destruct (Nat.ltb_spec 0 (length bs - after)) as [H1|H1].
  - (* a DTE bit is present *)
    destruct (Nat.ltb_spec after (length bs)); [|lia].
    unfold bind at 1. rewrite (reads_ok _ _ _ bs after reads_take_dte) by lia.
    unfold bind at 1, remaining.
    destruct (Nat.ltb_spec 0 (length bs - (1 + after))) as [H2|H2].
    + unfold bind at 1. rewrite (reads_ok _ _ _ bs (1 + after)%nat (reads_take 1)) by lia.
      eexists. split; [reflexivity|lia].
    + eexists. split; [reflexivity|lia].
  - destruct (Nat.ltb_spec after (length bs)); [lia|].
    unfold bind at 1, ret at 1. unfold bind at 1, remaining.
    destruct (Nat.ltb_spec 0 (length bs - after)); [lia|].
    eexists. split; [reflexivity|lia].
Qed.

(* ---------- type 15: the three legal forms, and the mandatory part ---------- *)
(* with the length fixed, the parser is stepped through reader by reader *)
Lemma push_unwrap_ok {A} c cap (l : list A) x : (length l < cap)%nat -> push_unwrap c cap l x = Ok (l ++ [x]).
Proof. intros H. unfold push_unwrap. destruct (Nat.leb_spec cap (length l)); [lia|]. rewrite Bool.andb_false_r. reflexivity. Qed.

Ltac st Hlen :=
  rewrite ?bind_assoc_pt;
  first
  [ match goal with |- bind remaining _ ?bs ?p = _ =>
      unfold bind at 1, remaining at 1; rewrite Hlen; cbn [Nat.sub Nat.leb Nat.ltb] end
  | match goal with |- bind (lift (push_unwrap _ _ _ _)) _ _ _ = _ =>
      rewrite push_unwrap_ok by (cbn; lia); unfold bind at 1, lift at 1; cbn [app] end
  | match goal with |- bind (ret _) _ _ _ = _ => unfold bind at 1, ret at 1 end
  | match goal with |- bind ?m _ ?bs ?p = _ =>
      let R := fresh "R" in eassert (R : reads m _ _) by rd;
      unfold bind at 1; rewrite (reads_ok _ _ _ bs p R) by (rewrite Hlen; cbn [Nat.add]; lia); clear R; cbn [Nat.add] end ].

Theorem layout_interrogation_88 c bs : length bs = 88%nat ->
  parse_interrogation c bs 0%nat = Ok (interrogation_88 bs, 88%nat).
Proof.
  intros Hlen. unfold parse_interrogation, parse_int_station, parse_int_message.
  do 30 (try st Hlen). reflexivity.
Qed.

Theorem layout_interrogation_110 c bs : length bs = 112%nat ->
  parse_interrogation c bs 0%nat = Ok (interrogation_110 bs, 108%nat).
Proof.
  intros Hlen. unfold parse_interrogation, parse_int_station, parse_int_message.
  do 40 (try st Hlen).
  unfold interrogation_110, int_requests2, interrogation_head, int_msg_at.
  cbn [im_message_type im_slot_offset].
  destruct (negb (sl bs 90 6 =? 0) || _); do 20 (try st Hlen); reflexivity.
Qed.

Theorem layout_interrogation_160 c bs : length bs = 160%nat ->
  parse_interrogation c bs 0%nat = Ok (interrogation_160 bs, 160%nat).
Proof.
  intros Hlen. unfold parse_interrogation, parse_int_station, parse_int_message.
  do 40 (try st Hlen).
  unfold interrogation_160, int_requests2, interrogation_head, int_msg_at.
  cbn [im_message_type im_slot_offset].
  destruct (negb (sl bs 90 6 =? 0) || _); do 40 (try st Hlen); reflexivity.
Qed.

(* a payload that cannot hold the header, one station identifier and one request type is rejected *)
Theorem layout_interrogation_short c bs : (length bs < 76)%nat -> parse_interrogation c bs 0%nat = Err EError.
Proof.
  intros Hl. unfold parse_interrogation, parse_int_station, parse_int_message.
  match goal with |- ?m bs 0%nat = _ =>
    assert (S : fails_short m 76) by (eapply fails_short_ext; [fs | reflexivity]); apply S; lia end.
Qed.
