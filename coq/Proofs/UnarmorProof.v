(* Proofs/UnarmorProof.v — C03: the buffer algorithm of `unarmor` computes exactly the 6-bit
   unpacking of Spec/Armor.v, for every string and every fill count 0..5 (and never panics).

   The offset phase has period 4 characters = 3 bytes, so the loop is analysed four characters
   at a time: a group starting on a byte boundary writes exactly three bytes [b0 b1 b2] that
   depend only on its four sextets.  Each byte depends on two sextets, so the byte-level and
   bit-level identities are finite sweeps (64 x 64, by vm_compute, lifted with forallb_forall). *)
From Ais Require Import Model.Base Model.Unarmor Spec.Armor Proofs.Bits.
From Coq Require Import ZifyBool ZifyNat ZifyN.
Local Open Scope N_scope.

(* ---------- the three bytes of a group ---------- *)
Definition b0 (v0 v1 : N) : N := v0 * 4 + v1 / 16.
Definition b1 (v1 v2 : N) : N := (v1 mod 16) * 16 + v2 / 4.
Definition b2 (v2 v3 : N) : N := (v2 mod 4) * 64 + v3.

Fixpoint pack (vals : list N) : list N :=
  match vals with
  | v0 :: v1 :: v2 :: v3 :: r => b0 v0 v1 :: b1 v1 v2 :: b2 v2 v3 :: pack r
  | [v0; v1; v2] => [b0 v0 v1; b1 v1 v2; b2 v2 0]
  | [v0; v1] => [b0 v0 v1; b1 v1 0]
  | [v0] => [b0 v0 0]
  | [] => []
  end.

(* ---------- finite sweeps ---------- *)
Definition range64 : list N := map N.of_nat (seq 0 64).

Lemma in_range64 v : v < 64 -> In v range64.
Proof.
  intros H. unfold range64. apply in_map_iff. exists (N.to_nat v). split; [lia|]. apply in_seq. lia.
Qed.

Lemma sweep2 (f : N -> N -> bool) :
  forallb (fun a => forallb (f a) range64) range64 = true ->
  forall x y, x < 64 -> y < 64 -> f x y = true.
Proof.
  intros H x y Hx Hy. rewrite forallb_forall in H. specialize (H x (in_range64 x Hx)).
  rewrite forallb_forall in H. exact (H y (in_range64 y Hy)).
Qed.

Fixpoint bits_eqb (a b : list bool) : bool :=
  match a, b with
  | [], [] => true
  | x :: a', y :: b' => Bool.eqb x y && bits_eqb a' b'
  | _, _ => false
  end.
Lemma bits_eqb_eq a b : bits_eqb a b = true -> a = b.
Proof.
  revert b; induction a as [|x a IH]; intros [|y b]; cbn; try discriminate; [reflexivity|].
  intros H. apply andb_prop in H. destruct H as [H1 H2]. apply Bool.eqb_prop in H1. rewrite H1, (IH _ H2). reflexivity.
Qed.

(* what the loop writes, byte by byte *)
Lemma byte0_sweep v0 v1 : v0 < 64 -> v1 < 64 ->
  N.lor (N.lor 0 (N.shiftr (v0 * 4) (N.of_nat 0))) (N.shiftr (v1 * 4) (N.of_nat 6)) = b0 v0 v1 /\
  byte_bits (b0 v0 v1) = bits6 v0 ++ firstn 2 (bits6 v1).
Proof.
  intros H0 H1.
  assert (S : forall x y, x < 64 -> y < 64 ->
            ((N.lor (N.lor 0 (N.shiftr (x * 4) (N.of_nat 0))) (N.shiftr (y * 4) (N.of_nat 6)) =? b0 x y) &&
             bits_eqb (byte_bits (b0 x y)) (bits6 x ++ firstn 2 (bits6 y))) = true)
    by (apply sweep2; vm_compute; reflexivity).
  specialize (S v0 v1 H0 H1). apply andb_prop in S. destruct S as [S1 S2].
  split; [apply N.eqb_eq; exact S1|apply bits_eqb_eq; exact S2].
Qed.

Lemma byte1_sweep v1 v2 : v1 < 64 -> v2 < 64 ->
  N.lor (N.lor 0 (shl8 (v1 * 4) (8 - 6))) (N.shiftr (v2 * 4) (N.of_nat 4)) = b1 v1 v2 /\
  byte_bits (b1 v1 v2) = skipn 2 (bits6 v1) ++ firstn 4 (bits6 v2).
Proof.
  intros H0 H1.
  assert (S : forall x y, x < 64 -> y < 64 ->
            ((N.lor (N.lor 0 (shl8 (x * 4) (8 - 6))) (N.shiftr (y * 4) (N.of_nat 4)) =? b1 x y) &&
             bits_eqb (byte_bits (b1 x y)) (skipn 2 (bits6 x) ++ firstn 4 (bits6 y))) = true)
    by (apply sweep2; vm_compute; reflexivity).
  specialize (S v1 v2 H0 H1). apply andb_prop in S. destruct S as [S1 S2].
  split; [apply N.eqb_eq; exact S1|apply bits_eqb_eq; exact S2].
Qed.

Lemma byte2_sweep v2 v3 : v2 < 64 -> v3 < 64 ->
  N.lor (N.lor 0 (shl8 (v2 * 4) (8 - 4))) (N.shiftr (v3 * 4) (N.of_nat 2)) = b2 v2 v3 /\
  byte_bits (b2 v2 v3) = skipn 4 (bits6 v2) ++ bits6 v3.
Proof.
  intros H0 H1.
  assert (S : forall x y, x < 64 -> y < 64 ->
            ((N.lor (N.lor 0 (shl8 (x * 4) (8 - 4))) (N.shiftr (y * 4) (N.of_nat 2)) =? b2 x y) &&
             bits_eqb (byte_bits (b2 x y)) (skipn 4 (bits6 x) ++ bits6 y)) = true)
    by (apply sweep2; vm_compute; reflexivity).
  specialize (S v2 v3 H0 H1). apply andb_prop in S. destruct S as [S1 S2].
  split; [apply N.eqb_eq; exact S1|apply bits_eqb_eq; exact S2].
Qed.

(* tails: a group cut short leaves the untouched part of its last byte zero *)
Lemma tail_sweep v : v < 64 ->
  N.lor 0 (N.shiftr (v * 4) (N.of_nat 0)) = b0 v 0 /\
  N.lor 0 (shl8 (v * 4) (8 - 6)) = b1 v 0 /\
  N.lor 0 (shl8 (v * 4) (8 - 4)) = b2 v 0 /\
  bits6 0 = repeat false 6.
Proof.
  intros H.
  assert (S : forall x y, x < 64 -> y < 64 ->
            ((N.lor 0 (N.shiftr (x * 4) (N.of_nat 0)) =? b0 x 0) &&
             (N.lor 0 (shl8 (x * 4) (8 - 6)) =? b1 x 0) &&
             (N.lor 0 (shl8 (x * 4) (8 - 4)) =? b2 x 0)) = true)
    by (apply sweep2; vm_compute; reflexivity).
  specialize (S v 0 H ltac:(lia)). apply andb_prop in S. destruct S as [S S3]. apply andb_prop in S. destruct S as [S1 S2].
  repeat split; try (apply N.eqb_eq; assumption).
Qed.

(* ---------- armor values ---------- *)
Lemma armor_value_val ch : armor_value ch = armor_val ch.
Proof. reflexivity. Qed.

Lemma armor_value_lt ch v : armor_value ch = Some v -> v < 64.
Proof.
  unfold armor_value.
  destruct (N.leb_spec 48 ch), (N.leb_spec ch 87); cbn [andb]; try (intros [= <-]; lia);
  destruct (N.leb_spec 96 ch), (N.leb_spec ch 119); cbn [andb]; try discriminate; intros [= <-]; lia.
Qed.

(* ---------- buffer updates ---------- *)
Lemma upd_app_at a r k f : upd (a ++ r) (length a + k) f = match upd r k f with Some r' => Some (a ++ r') | None => None end.
Proof.
  induction a as [|x a IH]; cbn [app length Nat.add upd].
  - destruct (upd r k f); reflexivity.
  - rewrite IH. destruct (upd r k f); reflexivity.
Qed.

Lemma div8 L k : (k < 8)%nat -> ((8 * L + k) / 8 = L /\ (8 * L + k) mod 8 = k)%nat.
Proof.
  intros Hk. split.
  - symmetry. apply (Nat.div_unique _ 8 L k); lia.
  - symmetry. apply (Nat.mod_unique _ 8 L k); lia.
Qed.

(* one character at offset 8L + k written into done ++ r, |done| = L *)
Lemma loop_step ch v rest L k done r :
  armor_value ch = Some v -> length done = L -> (k < 8)%nat ->
  unarmor_loop (ch :: rest) (8 * L + k) (done ++ r) =
  match upd r 0 (fun x => N.lor x (N.shiftr (v * 4) (N.of_nat k))) with
  | None => Panic 201
  | Some r1 =>
    if (2 <? k)%nat then
      match upd r1 1 (fun x => N.lor x (shl8 (v * 4) (8 - k))) with
      | None => Panic 202
      | Some r2 => unarmor_loop rest (8 * L + k + 6) (done ++ r2)
      end
    else unarmor_loop rest (8 * L + k + 6) (done ++ r1)
  end.
Proof.
  intros Hv HL Hk. cbn [unarmor_loop]. rewrite Hv.
  destruct (div8 L k Hk) as [Hd Hm]. rewrite Hd, Hm.
  replace L with (length done + 0)%nat at 1 by lia. rewrite upd_app_at.
  destruct (upd r 0 _) as [r1|]; [|reflexivity].
  destruct (2 <? k)%nat; [|reflexivity].
  replace (L + 1)%nat with (length done + 1)%nat by lia. rewrite upd_app_at.
  destruct (upd r1 1 _) as [r2|]; reflexivity.
Qed.

(* ---------- the loop, four characters at a time ---------- *)
Lemma loop_group c0 c1 c2 c3 v0 v1 v2 v3 rest done zs :
  armor_value c0 = Some v0 -> armor_value c1 = Some v1 -> armor_value c2 = Some v2 -> armor_value c3 = Some v3 ->
  unarmor_loop (c0 :: c1 :: c2 :: c3 :: rest) (8 * length done) (done ++ 0 :: 0 :: 0 :: zs) =
  unarmor_loop rest (8 * length (done ++ [b0 v0 v1; b1 v1 v2; b2 v2 v3])) ((done ++ [b0 v0 v1; b1 v1 v2; b2 v2 v3]) ++ zs).
Proof.
  intros H0 H1 H2 H3.
  pose proof (armor_value_lt _ _ H0) as L0. pose proof (armor_value_lt _ _ H1) as L1.
  pose proof (armor_value_lt _ _ H2) as L2. pose proof (armor_value_lt _ _ H3) as L3.
  set (L := length done).
  replace (8 * L)%nat with (8 * L + 0)%nat by lia.
  rewrite (loop_step c0 v0 _ L 0 done _ H0 eq_refl ltac:(lia)). cbn [upd Nat.ltb Nat.leb].
  replace (8 * L + 0 + 6)%nat with (8 * L + 6)%nat by lia.
  rewrite (loop_step c1 v1 _ L 6 done _ H1 eq_refl ltac:(lia)). cbn [upd Nat.ltb Nat.leb].
  (* second group of two steps works on byte L+1 *)
  replace (8 * L + 6 + 6)%nat with (8 * (L + 1) + 4)%nat by lia.
  match goal with |- unarmor_loop _ _ (done ++ ?x :: ?r) = _ =>
    replace (done ++ x :: r) with ((done ++ [x]) ++ r) by (rewrite <- app_assoc; reflexivity) end.
  rewrite (loop_step c2 v2 _ (L + 1) 4 (done ++ [_]) _ H2 ltac:(rewrite app_length; cbn; lia) ltac:(lia)). cbn [upd Nat.ltb Nat.leb].
  replace (8 * (L + 1) + 4 + 6)%nat with (8 * (L + 2) + 2)%nat by lia.
  match goal with |- unarmor_loop _ _ ((done ++ [?w]) ++ ?x :: ?r) = _ =>
    replace ((done ++ [w]) ++ x :: r) with ((done ++ [w; x]) ++ r) by (rewrite <- !app_assoc; reflexivity) end.
  rewrite (loop_step c3 v3 _ (L + 2) 2 (done ++ [_; _]) _ H3 ltac:(rewrite app_length; cbn; lia) ltac:(lia)). cbn [upd Nat.ltb Nat.leb].
  destruct (byte0_sweep v0 v1 L0 L1) as [E0 _]. destruct (byte1_sweep v1 v2 L1 L2) as [E1 _].
  destruct (byte2_sweep v2 v3 L2 L3) as [E2 _].
  rewrite E0, E1, E2.
  rewrite app_length. cbn [length].
  replace (8 * (L + 2) + 2 + 6)%nat with (8 * (L + 3))%nat by lia.
  rewrite <- !app_assoc. reflexivity.
Qed.

(* tails of one, two, three characters: the buffer holds exactly the bytes they need *)
Lemma loop_tail1 c0 v0 done :
  armor_value c0 = Some v0 ->
  unarmor_loop [c0] (8 * length done) (done ++ [0]) = Ok (done ++ [b0 v0 0]).
Proof.
  intros H0. pose proof (armor_value_lt _ _ H0) as L0.
  replace (8 * length done)%nat with (8 * length done + 0)%nat by lia.
  rewrite (loop_step c0 v0 _ _ 0 done _ H0 eq_refl ltac:(lia)). cbn [upd Nat.ltb Nat.leb unarmor_loop].
  destruct (tail_sweep v0 L0) as (E & _). rewrite E. reflexivity.
Qed.

Lemma loop_tail2 c0 c1 v0 v1 done :
  armor_value c0 = Some v0 -> armor_value c1 = Some v1 ->
  unarmor_loop [c0; c1] (8 * length done) (done ++ [0; 0]) = Ok (done ++ [b0 v0 v1; b1 v1 0]).
Proof.
  intros H0 H1. pose proof (armor_value_lt _ _ H0) as L0. pose proof (armor_value_lt _ _ H1) as L1.
  set (L := length done).
  replace (8 * L)%nat with (8 * L + 0)%nat by lia.
  rewrite (loop_step c0 v0 _ L 0 done _ H0 eq_refl ltac:(lia)). cbn [upd Nat.ltb Nat.leb].
  replace (8 * L + 0 + 6)%nat with (8 * L + 6)%nat by lia.
  rewrite (loop_step c1 v1 _ L 6 done _ H1 eq_refl ltac:(lia)). cbn [upd Nat.ltb Nat.leb unarmor_loop].
  destruct (byte0_sweep v0 v1 L0 L1) as [E0 _]. destruct (tail_sweep v1 L1) as (_ & E1 & _).
  rewrite E0, E1. reflexivity.
Qed.

Lemma loop_tail3 c0 c1 c2 v0 v1 v2 done :
  armor_value c0 = Some v0 -> armor_value c1 = Some v1 -> armor_value c2 = Some v2 ->
  unarmor_loop [c0; c1; c2] (8 * length done) (done ++ [0; 0; 0]) = Ok (done ++ [b0 v0 v1; b1 v1 v2; b2 v2 0]).
Proof.
  intros H0 H1 H2. pose proof (armor_value_lt _ _ H0) as L0. pose proof (armor_value_lt _ _ H1) as L1.
  pose proof (armor_value_lt _ _ H2) as L2.
  set (L := length done).
  replace (8 * L)%nat with (8 * L + 0)%nat by lia.
  rewrite (loop_step c0 v0 _ L 0 done _ H0 eq_refl ltac:(lia)). cbn [upd Nat.ltb Nat.leb].
  replace (8 * L + 0 + 6)%nat with (8 * L + 6)%nat by lia.
  rewrite (loop_step c1 v1 _ L 6 done _ H1 eq_refl ltac:(lia)). cbn [upd Nat.ltb Nat.leb].
  replace (8 * L + 6 + 6)%nat with (8 * (L + 1) + 4)%nat by lia.
  match goal with |- unarmor_loop _ _ (done ++ ?x :: ?r) = _ =>
    replace (done ++ x :: r) with ((done ++ [x]) ++ r) by (rewrite <- app_assoc; reflexivity) end.
  rewrite (loop_step c2 v2 _ (L + 1) 4 (done ++ [_]) _ H2 ltac:(rewrite app_length; cbn; lia) ltac:(lia)). cbn [upd Nat.ltb Nat.leb unarmor_loop].
  destruct (byte0_sweep v0 v1 L0 L1) as [E0 _]. destruct (byte1_sweep v1 v2 L1 L2) as [E1 _].
  destruct (tail_sweep v2 L2) as (_ & _ & E2 & _).
  rewrite E0, E1, E2. rewrite <- !app_assoc. reflexivity.
Qed.

(* number of output bytes for n characters *)
Definition byte_count (n : nat) : nat := (n * 6 / 8 + (if (n * 6 mod 8 =? 0)%nat then 0 else 1))%nat.

Lemma byte_count_group n : byte_count (4 + n) = (3 + byte_count n)%nat.
Proof.
  unfold byte_count. replace ((4 + n) * 6)%nat with (n * 6 + 3 * 8)%nat by lia.
  rewrite Nat.div_add, Nat.mod_add by lia. lia.
Qed.

Lemma pack_length vals : length (pack vals) = byte_count (length vals).
Proof.
  (* induction four at a time *)
  assert (H : forall n vals, (length vals <= n)%nat -> length (pack vals) = byte_count (length vals)).
  { induction n as [|n IH]; intros vs Hn.
    - destruct vs; [reflexivity|cbn in Hn; lia].
    - destruct vs as [|v0 [|v1 [|v2 [|v3 r]]]]; try reflexivity.
      cbn [pack length]. rewrite (IH r) by (cbn [length] in Hn; lia).
      change (S (S (S (S (length r))))) with (4 + length r)%nat. rewrite byte_count_group. lia. }
  apply (H (length vals)). lia.
Qed.

(* the whole loop *)
Lemma loop_pack data vals done :
  vals_of data = Some vals ->
  unarmor_loop data (8 * length done) (done ++ repeat 0 (byte_count (length data))) = Ok (done ++ pack vals).
Proof.
  assert (H : forall n data vals done, (length data <= n)%nat -> vals_of data = Some vals ->
            unarmor_loop data (8 * length done) (done ++ repeat 0 (byte_count (length data))) = Ok (done ++ pack vals)).
  { induction n as [|n IH]; intros d vs dn Hn Hv.
    - destruct d; [|cbn in Hn; lia]. injection Hv as <-. cbn. rewrite app_nil_r. reflexivity.
    - destruct d as [|c0 d]; [injection Hv as <-; cbn; rewrite app_nil_r; reflexivity|].
      cbn [vals_of] in Hv. destruct (armor_val c0) as [v0|] eqn:A0; [|discriminate].
      destruct d as [|c1 d].
      { cbn [vals_of] in Hv. injection Hv as <-. apply loop_tail1. exact A0. }
      cbn [vals_of] in Hv. destruct (armor_val c1) as [v1|] eqn:A1; [|discriminate].
      destruct d as [|c2 d].
      { cbn [vals_of] in Hv. injection Hv as <-. apply loop_tail2; assumption. }
      cbn [vals_of] in Hv. destruct (armor_val c2) as [v2|] eqn:A2; [|discriminate].
      destruct d as [|c3 d].
      { cbn [vals_of] in Hv. injection Hv as <-. apply loop_tail3; assumption. }
      cbn [vals_of] in Hv. destruct (armor_val c3) as [v3|] eqn:A3; [|discriminate].
      destruct (vals_of d) as [vr|] eqn:Vr; [|discriminate]. injection Hv as <-.
      cbn [length]. change (S (S (S (S (length d))))) with (4 + length d)%nat.
      rewrite byte_count_group. cbn [repeat Nat.add].
      rewrite (loop_group c0 c1 c2 c3 v0 v1 v2 v3 d dn _ A0 A1 A2 A3).
      rewrite (IH d vr (dn ++ [b0 v0 v1; b1 v1 v2; b2 v2 v3])); [|cbn [length] in Hn; lia|exact Vr].
      cbn [pack]. rewrite <- app_assoc. reflexivity. }
  intros Hv. apply (H (length data)); [lia|exact Hv].
Qed.

(* an invalid character aborts with an error, wherever it is (and never panics on the way) *)
Lemma vals_of_none_loop data :
  vals_of data = None -> forall off out, (exists e, unarmor_loop data off out = Err e) \/ (exists s, unarmor_loop data off out = Panic s).
Proof.
  induction data as [|ch d IH]; cbn [vals_of]; [discriminate|].
  intros Hv off out. cbn [unarmor_loop]. rewrite armor_value_val.
  destruct (armor_val ch) as [v|]; [|left; eauto].
  destruct (vals_of d) as [vs|] eqn:E; [discriminate|].
  destruct (upd out _ _) as [o1|]; [|right; eauto].
  destruct (2 <? _)%nat; [destruct (upd o1 _ _) as [o2|]; [|right; eauto]|]; apply IH; reflexivity.
Qed.

(* ---------- no index of the loop is ever out of bounds ---------- *)
Lemma upd_some l i f : (i < length l)%nat -> exists l', upd l i f = Some l' /\ length l' = length l.
Proof.
  revert i; induction l as [|x l IH]; intros i Hi; cbn [length] in Hi; [lia|].
  destruct i as [|i]; cbn [upd]; [eexists; split; reflexivity|].
  destruct (IH i ltac:(lia)) as (l' & -> & Hl). eexists; split; [reflexivity|]. cbn [length]. lia.
Qed.

Lemma loop_no_panic data : forall off out s,
  (off + 6 * length data <= 8 * length out)%nat -> unarmor_loop data off out <> Panic s.
Proof.
  induction data as [|ch d IH]; intros off out s Hl; cbn [unarmor_loop]; [discriminate|].
  destruct (armor_value ch) as [v|]; [|discriminate].
  cbn [length] in Hl.
  assert (Hq : (off / 8 < length out)%nat) by (apply Nat.div_lt_upper_bound; lia).
  destruct (upd_some out (off / 8) (fun x => N.lor x (N.shiftr (v * 4) (N.of_nat (off mod 8)))) Hq) as (o1 & -> & Hl1).
  destruct (Nat.ltb_spec 2 (off mod 8)) as [Hm|Hm].
  - assert (Hq2 : (off / 8 + 1 < length o1)%nat).
    { pose proof (Nat.div_mod off 8 ltac:(lia)). rewrite Hl1. lia. }
    destruct (upd_some o1 (off / 8 + 1) (fun x => N.lor x (shl8 (v * 4) (8 - off mod 8))) Hq2) as (o2 & -> & Hl2).
    apply IH. lia.
  - apply IH. lia.
Qed.

Lemma byte_count_enough n : (6 * n <= 8 * byte_count n)%nat.
Proof.
  unfold byte_count. pose proof (Nat.div_mod (n * 6) 8 ltac:(lia)) as H.
  pose proof (Nat.mod_upper_bound (n * 6) 8 ltac:(lia)).
  destruct (Nat.eqb_spec (n * 6 mod 8) 0); lia.
Qed.

Lemma loop_invalid data : vals_of data = None ->
  unarmor_loop data 0 (repeat 0 (byte_count (length data))) = Err ENmea.
Proof.
  intros Hv.
  assert (G : forall d off out, vals_of d = None ->
          (forall s, unarmor_loop d off out <> Panic s) -> unarmor_loop d off out = Err ENmea).
  { induction d as [|ch d IH]; intros off out Hn Hp; cbn [vals_of] in Hn; [discriminate|].
    cbn [unarmor_loop] in *. rewrite armor_value_val in *.
    destruct (armor_val ch) as [v|]; [|reflexivity].
    destruct (vals_of d) as [vs|] eqn:E; [discriminate|].
    destruct (upd out _ _) as [o1|]; [|exfalso; exact (Hp _ eq_refl)].
    destruct (2 <? _)%nat; [destruct (upd o1 _ _) as [o2|]; [|exfalso; exact (Hp _ eq_refl)]|]; apply IH; auto. }
  apply G; [exact Hv|]. intros s. apply loop_no_panic.
  rewrite repeat_length. pose proof (byte_count_enough (length data)). lia.
Qed.

(* ---------- bits of the packed bytes ---------- *)
Lemma bits6_length v : length (bits6 v) = 6%nat. Proof. reflexivity. Qed.

Lemma flat_bits6_length vals : length (flat_map bits6 vals) = (6 * length vals)%nat.
Proof. induction vals as [|v vs IH]; cbn [flat_map length]; [reflexivity|]. rewrite app_length, IH, bits6_length. lia. Qed.

Lemma pad8_app24 l1 l2 : length l1 = 24%nat -> pad8 (l1 ++ l2) = l1 ++ pad8 l2.
Proof.
  intros H. unfold pad8. rewrite app_length, H.
  replace ((24 + length l2) mod 8)%nat with (length l2 mod 8)%nat.
  2:{ replace (24 + length l2)%nat with (length l2 + 3 * 8)%nat by lia. rewrite Nat.mod_add by lia. reflexivity. }
  rewrite app_assoc. reflexivity.
Qed.

Lemma vals_of_lt data vals : vals_of data = Some vals -> Forall (fun v => v < 64) vals.
Proof.
  revert vals; induction data as [|ch d IH]; intros vals; cbn [vals_of].
  - intros [= <-]. constructor.
  - destruct (armor_val ch) as [v|] eqn:A; [|discriminate]. destruct (vals_of d) as [vs|]; [|discriminate].
    intros [= <-]. constructor; [exact (armor_value_lt ch v A)|apply IH; reflexivity].
Qed.

Lemma vals_of_length data vals : vals_of data = Some vals -> length vals = length data.
Proof.
  revert vals; induction data as [|ch d IH]; intros vals; cbn [vals_of].
  - intros [= <-]. reflexivity.
  - destruct (armor_val ch) as [v|]; [|discriminate]. destruct (vals_of d) as [vs|]; [|discriminate].
    intros [= <-]. cbn [length]. rewrite (IH vs eq_refl). reflexivity.
Qed.

Lemma group_bits v0 v1 v2 v3 : v0 < 64 -> v1 < 64 -> v2 < 64 -> v3 < 64 ->
  byte_bits (b0 v0 v1) ++ byte_bits (b1 v1 v2) ++ byte_bits (b2 v2 v3) = bits6 v0 ++ bits6 v1 ++ bits6 v2 ++ bits6 v3.
Proof.
  intros L0 L1 L2 L3.
  destruct (byte0_sweep v0 v1 L0 L1) as [_ ->]. destruct (byte1_sweep v1 v2 L1 L2) as [_ ->].
  destruct (byte2_sweep v2 v3 L2 L3) as [_ ->].
  rewrite <- !app_assoc.
  rewrite (app_assoc (firstn 2 (bits6 v1))), firstn_skipn.
  rewrite (app_assoc (firstn 4 (bits6 v2))), firstn_skipn. reflexivity.
Qed.

Lemma pack_bits vals : Forall (fun v => v < 64) vals ->
  bits_of_bytes (pack vals) = pad8 (flat_map bits6 vals).
Proof.
  assert (H : forall n vals, (length vals <= n)%nat -> Forall (fun v => v < 64) vals ->
              bits_of_bytes (pack vals) = pad8 (flat_map bits6 vals)).
  { induction n as [|n IH]; intros vs Hn Hf.
    - destruct vs; [reflexivity|cbn in Hn; lia].
    - destruct vs as [|v0 [|v1 [|v2 [|v3 r]]]].
      + reflexivity.
      + inversion Hf as [|? ? L0 _]; subst. cbn [pack bits_of_bytes flat_map].
        destruct (byte0_sweep v0 0 L0 ltac:(lia)) as [_ ->]. rewrite !app_nil_r. reflexivity.
      + inversion Hf as [|? ? L0 Hf1]; subst. inversion Hf1 as [|? ? L1 _]; subst. cbn [pack bits_of_bytes flat_map].
        destruct (byte0_sweep v0 v1 L0 L1) as [_ ->]. destruct (byte1_sweep v1 0 L1 ltac:(lia)) as [_ ->].
        rewrite !app_nil_r. rewrite <- !app_assoc. rewrite (app_assoc (firstn 2 (bits6 v1))), firstn_skipn. reflexivity.
      + inversion Hf as [|? ? L0 Hf1]; subst. inversion Hf1 as [|? ? L1 Hf2]; subst. inversion Hf2 as [|? ? L2 _]; subst.
        cbn [pack bits_of_bytes flat_map]. rewrite !app_nil_r.
        pose proof (group_bits v0 v1 v2 0 L0 L1 L2 ltac:(lia)) as G. rewrite G. reflexivity.
      + inversion Hf as [|? ? L0 Hf1]; subst. inversion Hf1 as [|? ? L1 Hf2]; subst.
        inversion Hf2 as [|? ? L2 Hf3]; subst. inversion Hf3 as [|? ? L3 Hf4]; subst.
        cbn [pack bits_of_bytes flat_map]. change (flat_map byte_bits (pack r)) with (bits_of_bytes (pack r)).
        rewrite (IH r) by (try exact Hf4; cbn [length] in Hn; lia).
        pose proof (group_bits v0 v1 v2 v3 L0 L1 L2 L3) as G.
        rewrite !app_assoc. rewrite <- (app_assoc (byte_bits (b0 v0 v1))), G.
        rewrite <- !app_assoc.
        assert (A4 : forall x : list bool, bits6 v0 ++ bits6 v1 ++ bits6 v2 ++ bits6 v3 ++ x
                       = (bits6 v0 ++ bits6 v1 ++ bits6 v2 ++ bits6 v3) ++ x)
          by (intros x; rewrite <- !app_assoc; reflexivity).
        rewrite !A4. rewrite pad8_app24 by reflexivity. reflexivity. }
  intros Hf. apply (H (length vals)); [lia|exact Hf].
Qed.

(* ---------- clearing the fill bits ---------- *)
Definition mask_of (k : nat) : N := if (k =? 8)%nat then 0 else shl8 255 k.

Lemma mask_bits x k : (k <= 8)%nat ->
  byte_bits (N.land x (mask_of k)) = firstn (8 - k) (byte_bits x) ++ repeat false k.
Proof.
  intros Hk.
  assert (forall i, i <= 7 -> N.testbit (mask_of k) i = (N.of_nat k <=? i)) as Hm.
  { intros i Hi. do 9 (destruct k as [|k]; [assert (i = 0 \/ i = 1 \/ i = 2 \/ i = 3 \/ i = 4 \/ i = 5 \/ i = 6 \/ i = 7) as Hc by lia;
      destruct Hc as [->|[->|[->|[->|[->|[->|[->| ->]]]]]]]; vm_compute; reflexivity|]). lia. }
  unfold byte_bits. rewrite !N.land_spec, !Hm by lia.
  do 9 (destruct k as [|k]; [cbn; rewrite ?Bool.andb_true_r, ?Bool.andb_false_r; reflexivity|]). lia.
Qed.

Lemma clear_from_app a b k : clear_from (length a + k) (a ++ b) = a ++ clear_from k b.
Proof.
  unfold clear_from. rewrite firstn_app, firstn_all2 by lia.
  replace (length a + k - length a)%nat with k by lia.
  rewrite app_length. replace (length a + length b - (length a + k))%nat with (length b - k)%nat by lia.
  rewrite <- app_assoc. reflexivity.
Qed.

Lemma clear_from_all l k : (length l <= k)%nat -> clear_from k l = l.
Proof. intros H. unfold clear_from. rewrite firstn_all2 by lia. replace (length l - k)%nat with 0%nat by lia. apply app_nil_r. Qed.

Lemma clear_from_zeros l z k : (length l <= k)%nat -> clear_from k (l ++ repeat false z) = l ++ repeat false z.
Proof.
  intros H. unfold clear_from. rewrite firstn_app, firstn_all2 by lia.
  rewrite app_length, repeat_length.
  assert (E : forall a b, firstn a (repeat false b) ++ repeat false (b - a) = repeat false b).
  { induction a as [|a IH]; intros [|b]; cbn; try reflexivity. rewrite IH. reflexivity. }
  rewrite <- app_assoc. f_equal.
  replace (length l + z - k)%nat with (z - (k - length l))%nat by lia. apply E.
Qed.

Lemma bits_of_bytes_app a b : bits_of_bytes (a ++ b) = bits_of_bytes a ++ bits_of_bytes b.
Proof. unfold bits_of_bytes. apply flat_map_app. Qed.

(* arithmetic of the last byte *)
Lemma final_byte_facts n : (1 <= n)%nat ->
  let m := (n * 6 mod 8)%nat in
  let bifb := if (m =? 0)%nat then 8%nat else m in
  (8 * byte_count n = n * 6 + (8 - bifb) /\ (bifb = 2 \/ bifb = 4 \/ bifb = 6 \/ bifb = 8) /\
   (bifb < 6 -> 2 <= byte_count n) /\ 1 <= byte_count n)%nat.
Proof.
  intros Hn m bifb. unfold byte_count. subst bifb m.
  pose proof (Nat.div_mod (n * 6) 8 ltac:(lia)) as H.
  pose proof (Nat.mod_upper_bound (n * 6) 8 ltac:(lia)) as Hm.
  set (q := (n * 6 / 8)%nat) in *. set (m := (n * 6 mod 8)%nat) in *.
  destruct (Nat.eqb_spec m 0); lia.
Qed.

Theorem fill_mask_spec n fill out :
  (1 <= n)%nat -> (1 <= fill <= 5)%nat -> length out = byte_count n ->
  exists out', fill_mask (n * 6) (byte_count n) fill out = Ok out' /\
               bits_of_bytes out' = clear_from (n * 6 - fill) (bits_of_bytes out).
Proof.
  intros Hn Hf Hlen.
  destruct (final_byte_facts n Hn) as (H8 & Hb & Hb2 & HB1). cbv zeta in *.
  unfold fill_mask.
  set (bifb := if (n * 6 mod 8 =? 0)%nat then 8%nat else (n * 6 mod 8)%nat) in *.
  set (B := byte_count n) in *.
  destruct (Nat.eqb_spec fill 0); [lia|]. destruct (Nat.eqb_spec B 0); [lia|]. cbn [negb andb].
  set (shift := (8 - bifb + Nat.min fill bifb)%nat).
  assert (Hs : (shift <= 8)%nat) by (subst shift; lia).
  destruct (Nat.ltb_spec 8 shift); [lia|].
  change (if (shift =? 8)%nat then 0 else shl8 255 shift) with (mask_of shift).
  (* split off the last byte *)
  assert (Hne : out <> []) by (intros ->; cbn [length] in Hlen; lia).
  destruct (exists_last Hne) as (pre & x & ->).
  rewrite app_length in Hlen. cbn [length] in Hlen.
  replace (B - 1)%nat with (length pre + 0)%nat by lia. rewrite upd_app_at. cbn [upd].
  destruct (Nat.ltb_spec bifb fill) as [Hgt|Hle].
  - (* the fill bits reach into the previous byte *)
    assert (HB2 : (2 <= B)%nat) by (apply Hb2; lia).
    destruct (Nat.eqb_spec (length pre + 0) 0); [lia|].
    destruct (Nat.leb_spec 8 (fill - bifb)); [lia|].
    assert (Hne2 : pre <> []) by (intros ->; cbn [length] in Hlen; lia).
    destruct (exists_last Hne2) as (pre2 & y & ->).
    rewrite app_length in Hlen. cbn [length] in Hlen.
    rewrite <- app_assoc. cbn [app].
    replace (length (pre2 ++ [y]) + 0 - 1)%nat with (length pre2 + 0)%nat by (rewrite app_length; cbn; lia).
    rewrite upd_app_at. cbn [upd].
    eexists. split; [reflexivity|].
    rewrite !bits_of_bytes_app. cbn [bits_of_bytes flat_map]. rewrite !app_nil_r.
    replace (shl8 255 (fill - bifb)) with (mask_of (fill - bifb)) by (unfold mask_of; destruct (Nat.eqb_spec (fill - bifb) 8); [lia|reflexivity]).
    rewrite !mask_bits by lia.
    replace (n * 6 - fill)%nat with (length (bits_of_bytes pre2) + (8 - (fill - bifb)))%nat
      by (rewrite bits_of_bytes_length; lia).
    rewrite <- (app_assoc (bits_of_bytes pre2)). rewrite clear_from_app. f_equal.
    unfold clear_from. rewrite app_length, !byte_bits_length.
    rewrite firstn_app, byte_bits_length.
    replace (8 - (fill - bifb) - 8)%nat with 0%nat by lia. cbn [firstn]. rewrite app_nil_r.
    rewrite <- app_assoc. f_equal.
    replace shift with 8%nat by (subst shift; lia). replace (8 - 8)%nat with 0%nat by lia. cbn [firstn app].
    replace (8 + 8 - (8 - (fill - bifb)))%nat with ((fill - bifb) + 8)%nat by lia.
    rewrite repeat_app. reflexivity.
  - (* only the last byte is touched *)
    eexists. split; [reflexivity|].
    rewrite !bits_of_bytes_app. cbn [bits_of_bytes flat_map]. rewrite !app_nil_r.
    rewrite mask_bits by lia.
    replace (n * 6 - fill)%nat with (length (bits_of_bytes pre) + (8 - shift))%nat
      by (rewrite bits_of_bytes_length; subst shift; lia).
    rewrite clear_from_app. f_equal.
    unfold clear_from. rewrite byte_bits_length. replace (8 - (8 - shift))%nat with shift by lia. reflexivity.
Qed.

(* packed bytes and masked bytes are proper bytes, so repacking their bits gives them back *)
Lemma bytes_of_bits_of_bytes l : Forall (fun b => b < 256) l -> bytes_of_bits (bits_of_bytes l) = l.
Proof.
  intros H. unfold bytes_of_bits. rewrite bits_of_bytes_length.
  induction H as [|b l Hb Hl IH]; [reflexivity|].
  cbn [length]. replace (8 * S (length l))%nat with (S (8 * length l + 7))%nat by lia.
  cbn [bits_of_bytes flat_map]. unfold byte_bits at 1. cbn [app pack8].
  f_equal.
  - change [N.testbit b 7; N.testbit b 6; N.testbit b 5; N.testbit b 4; N.testbit b 3; N.testbit b 2; N.testbit b 1; N.testbit b 0]
      with (bits_of_N 8 b).
    rewrite N_of_bits_bits_of_N. apply N.mod_small. exact Hb.
  - (* any fuel at least the number of bytes gives the same result *)
    assert (G : forall f1 f2 bs, (length bs <= 8 * f1)%nat -> (length bs <= 8 * f2)%nat -> pack8 f1 bs = pack8 f2 bs).
    { induction f1 as [|f1 IHf]; intros f2 bs H1 H2.
      - destruct bs; [destruct f2; reflexivity|cbn in H1; lia].
      - destruct f2 as [|f2].
        + destruct bs; [reflexivity|cbn in H2; lia].
        + cbn [pack8]. destruct bs as [|a0 [|a1 [|a2 [|a3 [|a4 [|a5 [|a6 [|a7 r]]]]]]]]; try reflexivity.
          f_equal. apply IHf; cbn [length] in *; lia. }
    change (flat_map byte_bits l) with (bits_of_bytes l).
    rewrite (G _ (8 * length l)%nat); [exact IH|rewrite bits_of_bytes_length; lia|rewrite bits_of_bytes_length; lia].
Qed.

Lemma clear_from_length k l : length (clear_from k l) = length l.
Proof. unfold clear_from. rewrite app_length, firstn_length, repeat_length. lia. Qed.

Lemma b_bounds v0 v1 : v0 < 64 -> v1 < 64 -> b0 v0 v1 < 256 /\ b1 v0 v1 < 256 /\ b2 v0 v1 < 256.
Proof.
  intros H0 H1. unfold b0, b1, b2.
  assert (v1 / 16 < 4) by (apply N.div_lt_upper_bound; lia).
  assert (v1 / 4 < 16) by (apply N.div_lt_upper_bound; lia).
  assert (v0 mod 16 < 16) by (apply N.mod_lt; lia). assert (v0 mod 4 < 4) by (apply N.mod_lt; lia).
  repeat split; nia.
Qed.

Lemma pack_bytes vals : Forall (fun v => v < 64) vals -> Forall (fun b => b < 256) (pack vals).
Proof.
  assert (H : forall n vals, (length vals <= n)%nat -> Forall (fun v => v < 64) vals -> Forall (fun b => b < 256) (pack vals)).
  { induction n as [|n IH]; intros vs Hn Hf.
    - destruct vs; [constructor|cbn in Hn; lia].
    - destruct vs as [|v0 [|v1 [|v2 [|v3 r]]]]; cbn [pack].
      + constructor.
      + inversion Hf as [|? ? L0 _]; subst. constructor; [apply (b_bounds v0 0); lia|constructor].
      + inversion Hf as [|? ? L0 Hf1]; subst. inversion Hf1 as [|? ? L1 _]; subst.
        constructor; [apply (b_bounds v0 v1); lia|]. constructor; [apply (b_bounds v1 0); lia|constructor].
      + inversion Hf as [|? ? L0 Hf1]; subst. inversion Hf1 as [|? ? L1 Hf2]; subst. inversion Hf2 as [|? ? L2 _]; subst.
        constructor; [apply (b_bounds v0 v1); lia|]. constructor; [apply (b_bounds v1 v2); lia|].
        constructor; [apply (b_bounds v2 0); lia|constructor].
      + inversion Hf as [|? ? L0 Hf1]; subst. inversion Hf1 as [|? ? L1 Hf2]; subst.
        inversion Hf2 as [|? ? L2 Hf3]; subst. inversion Hf3 as [|? ? L3 Hf4]; subst.
        constructor; [apply (b_bounds v0 v1); lia|]. constructor; [apply (b_bounds v1 v2); lia|].
        constructor; [apply (b_bounds v2 v3); lia|]. apply IH; [cbn [length] in Hn; lia|exact Hf4]. }
  intros Hf. apply (H (length vals)); [lia|exact Hf].
Qed.

Lemma land_le x m : N.land x m <= x.
Proof.
  apply N.ldiff_le. apply N.bits_inj. intros n. rewrite N.ldiff_spec, N.land_spec, N.bits_0.
  destruct (N.testbit x n), (N.testbit m n); reflexivity.
Qed.

Lemma upd_land_bytes l i m l' :
  upd l i (fun x => N.land x m) = Some l' -> Forall (fun b => b < 256) l -> Forall (fun b => b < 256) l'.
Proof.
  revert i l'; induction l as [|x l IH]; intros i l'; cbn [upd]; [discriminate|].
  intros H Hf. inversion Hf as [|? ? Hx Hl]; subst. destruct i as [|i].
  - injection H as <-. constructor; [|exact Hl]. pose proof (land_le x m). lia.
  - destruct (upd l i _) as [r|] eqn:E; [|discriminate]. injection H as <-. constructor; [exact Hx|eapply IH; eauto].
Qed.

Lemma fill_mask_bytes bc B fill out out' :
  fill_mask bc B fill out = Ok out' -> Forall (fun b => b < 256) out -> Forall (fun b => b < 256) out'.
Proof.
  intros H Hf. revert H. unfold fill_mask. destruct (_ && _); [|intros [= <-]; exact Hf].
  destruct (8 <? _)%nat; [discriminate|].
  destruct (upd out _ _) as [o1|] eqn:E1; [|discriminate].
  pose proof (upd_land_bytes _ _ _ _ E1 Hf) as Hf1.
  destruct (_ <? fill)%nat; [|intros [= <-]; exact Hf1].
  destruct (B - 1 =? 0)%nat; [discriminate|]. destruct (8 <=? _)%nat; [discriminate|].
  destruct (upd o1 _ _) as [o2|] eqn:E2; [|discriminate]. intros [= <-].
  exact (upd_land_bytes _ _ _ _ E2 Hf1).
Qed.

(* ---------- C03 ---------- *)
Theorem unarmor_correct c data fill :
  (fill <= 5)%nat ->
  unarmor c data fill =
  if noalloc c && (MAX_SENTENCE_SIZE_BYTES <? byte_count (length data))%nat then Err ENmea
  else match unarmor_spec data fill with Some l => Ok l | None => Err ENmea end.
Proof.
  intros Hf. unfold unarmor. fold (byte_count (length data)).
  destruct (noalloc c && _); [reflexivity|].
  unfold unarmor_spec. destruct (vals_of data) as [vals|] eqn:Hv.
  2:{ rewrite (loop_invalid data Hv). reflexivity. }
  pose proof (loop_pack data vals [] Hv) as Hl. cbn [length app Nat.mul Nat.add] in Hl. rewrite Hl.
  pose proof (vals_of_lt _ _ Hv) as Hlt. pose proof (vals_of_length _ _ Hv) as Hn.
  pose proof (pack_bits vals Hlt) as Hbits. pose proof (pack_bytes vals Hlt) as Hbytes.
  destruct (Nat.eq_dec fill 0) as [->|Hf0].
  - (* no fill bits *)
    unfold fill_mask. cbn [Nat.eqb negb andb]. f_equal.
    unfold unarmor_bits. rewrite Nat.sub_0_r. unfold pad8. rewrite clear_from_zeros by lia.
    fold (pad8 (flat_map bits6 vals)). rewrite <- Hbits. symmetry. apply bytes_of_bits_of_bytes. exact Hbytes.
  - destruct (Nat.eq_dec (length data) 0) as [H0|H0].
    + (* empty payload: nothing to clear (the D2 repair) *)
      destruct data; [|discriminate H0]. injection Hv as <-.
      unfold fill_mask. replace (byte_count (length (@nil N))) with 0%nat by reflexivity.
      cbn [Nat.eqb negb]. rewrite Bool.andb_false_r. reflexivity.
    + destruct (fill_mask_spec (length data) fill (pack vals) ltac:(lia) ltac:(lia)) as (out' & Hm & Hb).
      { rewrite pack_length, Hn. reflexivity. }
      rewrite Hm. f_equal.
      rewrite <- (bytes_of_bits_of_bytes out') by (eapply fill_mask_bytes; eauto).
      f_equal. rewrite Hb, Hbits. unfold unarmor_bits. rewrite flat_bits6_length, Hn.
      replace (6 * length data)%nat with (length data * 6)%nat by lia. reflexivity.
Qed.

Theorem unarmor_no_panic c data fill s : (fill <= 5)%nat -> unarmor c data fill <> Panic s.
Proof.
  intros Hf. rewrite (unarmor_correct c data fill Hf).
  destruct (noalloc c && _); [discriminate|]. destruct (unarmor_spec data fill); discriminate.
Qed.

(* the output has exactly ceil(6n/8) bytes *)
Theorem unarmor_length c data fill out :
  (fill <= 5)%nat -> unarmor c data fill = Ok out -> length out = byte_count (length data).
Proof.
  intros Hf. rewrite (unarmor_correct c data fill Hf).
  destruct (noalloc c && _); [discriminate|]. unfold unarmor_spec.
  destruct (vals_of data) as [vals|] eqn:Hv; [|discriminate]. intros [= <-].
  pose proof (vals_of_lt _ _ Hv) as Hlt. pose proof (vals_of_length _ _ Hv) as Hn.
  assert (Hlen : length (unarmor_bits vals fill) = (8 * byte_count (length data))%nat).
  { unfold unarmor_bits. rewrite clear_from_length, <- (pack_bits vals Hlt), bits_of_bytes_length, pack_length, Hn. reflexivity. }
  (* bytes_of_bits of 8k bits has k bytes *)
  assert (G : forall k bs, length bs = (8 * k)%nat -> forall f, (k <= f)%nat -> length (pack8 f bs) = k).
  { induction k as [|k IHk]; intros bs Hb f Hle.
    - destruct bs; [destruct f; reflexivity|cbn in Hb; lia].
    - destruct f as [|f]; [lia|].
      destruct bs as [|a0 [|a1 [|a2 [|a3 [|a4 [|a5 [|a6 [|a7 r]]]]]]]]; cbn [length] in Hb; try lia.
      cbn [pack8 length]. rewrite (IHk r); [reflexivity|lia|lia]. }
  unfold bytes_of_bits. apply G; [exact Hlen|lia].
Qed.
