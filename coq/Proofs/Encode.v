(* Proofs/Encode.v — messages built from field values: the encoder of the specification side
   ([enc]: the fields' w-bit big-endian codes one after the other, ITU-R M.1371 transmission
   order) and the lemma that reads a field back out of an encoded message, whatever the values of
   all the other fields and whatever follows the message.  The per-type round trips of
   Properties/C04.v are instances. *)
From Ais Require Import Model.Base Proofs.Bits Spec.Layouts.
From Coq Require Import Lia.
Local Open Scope N_scope.

Definition field := (nat * N)%type.            (* width, value *)

Definition enc (fs : list field) : list bool := flat_map (fun f => bits_of_N (fst f) (snd f)) fs.

Definition in_range (fs : list field) : Prop := Forall (fun f => snd f < 2 ^ N.of_nat (fst f)) fs.

Fixpoint total_width (fs : list field) : nat :=
  match fs with [] => O | f :: r => (fst f + total_width r)%nat end.

(* the value of the field that starts at bit [o] and is [w] bits wide, if the layout has one *)
Fixpoint field_at (fs : list field) (o w : nat) : option N :=
  match fs with
  | [] => None
  | f :: r =>
    match o with
    | O => if Nat.eqb (fst f) w then Some (snd f) else None
    | _ => if Nat.leb (fst f) o then field_at r (o - fst f) w else None
    end
  end.

Lemma enc_length fs : length (enc fs) = total_width fs.
Proof.
  induction fs as [|f r IH]; [reflexivity|].
  cbn [enc flat_map total_width]. rewrite app_length, bits_of_N_length. fold (enc r). rewrite IH. reflexivity.
Qed.

Lemma sl_skip_prefix a b o w : (length a <= o)%nat -> sl (a ++ b) o w = sl b (o - length a) w.
Proof.
  intros H. unfold sl. rewrite skipn_app.
  rewrite (skipn_all2 a) by exact H. reflexivity.
Qed.

Lemma sl_enc fs post o w v :
  in_range fs -> field_at fs o w = Some v -> sl (enc fs ++ post) o w = v.
Proof.
  revert o. induction fs as [|[w' v'] r IH]; intros o Hr Hf; [discriminate|].
  inversion Hr as [|? ? Hv Hr']; subst. cbn [fst snd] in *.
  cbn [enc flat_map fst snd]. fold (enc r). rewrite <- app_assoc.
  destruct o as [|o'].
  - cbn [field_at fst snd] in Hf. destruct (Nat.eqb w' w) eqn:E; [|discriminate].
    apply Nat.eqb_eq in E. subst w'. injection Hf as <-.
    exact (sl_encoded [] (enc r ++ post) w v' Hv).
  - cbn [field_at fst snd] in Hf. destruct (Nat.leb w' (S o')) eqn:E; [|discriminate].
    apply Nat.leb_le in E.
    rewrite sl_skip_prefix by (rewrite bits_of_N_length; exact E).
    rewrite bits_of_N_length. apply IH; assumption.
Qed.

(* one-bit fields are read as flags *)
Lemma bit_at_enc fs post o v :
  in_range fs -> field_at fs o 1 = Some v -> (o < total_width fs)%nat -> bit_at (enc fs ++ post) o = (v =? 1).
Proof.
  intros Hr Hf Hl. pose proof (sl_enc fs post o 1 v Hr Hf) as H.
  rewrite sl_1 in H by (rewrite app_length, enc_length; lia).
  unfold bit_at. destruct (nth o (enc fs ++ post) false); cbn [b2n] in H; subst v; reflexivity.
Qed.

Lemma in_range_cons w v r : v < 2 ^ N.of_nat w -> in_range r -> in_range ((w, v) :: r).
Proof. intros. constructor; assumption. Qed.

(* rewrites every slice / flag of an encoded message by the field value it denotes *)
Ltac enc_read Hr :=
  repeat match goal with
  | |- context [sl (enc ?fs ++ ?post) ?o ?w] =>
    let v := eval vm_compute in (field_at fs o w) in
    match v with
    | Some ?x => rewrite (sl_enc fs post o w x Hr eq_refl)
    end
  | |- context [bit_at (enc ?fs ++ ?post) ?o] =>
    let v := eval vm_compute in (field_at fs o 1) in
    match v with
    | Some ?x => rewrite (bit_at_enc fs post o x Hr eq_refl) by (vm_compute; lia)
    end
  end.
