(* Proofs/Conversions.v — field conversions: two's complement (C10), "not available" codes (C11),
   6-bit text and trimming (C13). *)
From Ais Require Import Model.Base Model.Enums Model.Fields Model.Messages Spec.Layouts Proofs.Bits.
From Coq Require Import ZifyBool ZifyNat ZifyN.
Local Open Scope N_scope.

(* ---------- two's complement of a w-bit field ---------- *)
Lemma testbit_top n w : (0 < w)%nat -> n < 2 ^ N.of_nat w ->
  N.testbit n (N.of_nat (w - 1)) = (2 ^ N.of_nat (w - 1) <=? n).
Proof.
  intros Hw Hn.
  assert (Hp : 2 ^ N.of_nat w = 2 * 2 ^ N.of_nat (w - 1)).
  { replace (N.of_nat w) with (N.succ (N.of_nat (w - 1))) by lia. apply N.pow_succ_r'. }
  set (h := 2 ^ N.of_nat (w - 1)) in *. assert (0 < h) by (apply N.neq_0_lt_0, N.pow_nonzero; lia).
  destruct (N.leb_spec h n) as [Hge|Hlt].
  - apply N.testbit_true. fold h.
    assert (n / h = 1) as ->; [|reflexivity].
    symmetry. apply (N.div_unique n h 1 (n - h)); lia.
  - apply N.testbit_false. fold h. rewrite N.div_small by exact Hlt. reflexivity.
Qed.

Theorem sext_twos_complement w n : (0 < w)%nat -> n < 2 ^ N.of_nat w ->
  sext w n = if n <? 2 ^ N.of_nat (w - 1) then Z.of_N n else (Z.of_N n - 2 ^ Z.of_nat w)%Z.
Proof.
  intros Hw Hn. unfold sext. rewrite (testbit_top n w Hw Hn).
  destruct (N.leb_spec (2 ^ N.of_nat (w - 1)) n), (N.ltb_spec n (2 ^ N.of_nat (w - 1))); try lia; reflexivity.
Qed.

Theorem sext_range w n : (0 < w)%nat -> n < 2 ^ N.of_nat w ->
  (- 2 ^ Z.of_nat (w - 1) <= sext w n < 2 ^ Z.of_nat (w - 1))%Z.
Proof.
  intros Hw Hn. rewrite (sext_twos_complement w n Hw Hn).
  assert (Hp : (2 ^ Z.of_nat w = 2 * 2 ^ Z.of_nat (w - 1))%Z).
  { replace (Z.of_nat w) with (Z.succ (Z.of_nat (w - 1))) by lia. apply Z.pow_succ_r. lia. }
  assert (Hz : Z.of_N (2 ^ N.of_nat (w - 1)) = (2 ^ Z.of_nat (w - 1))%Z).
  { rewrite N2Z.inj_pow. f_equal. lia. }
  assert (Hz2 : Z.of_N (2 ^ N.of_nat w) = (2 ^ Z.of_nat w)%Z).
  { rewrite N2Z.inj_pow. f_equal. lia. }
  destruct (N.ltb_spec n (2 ^ N.of_nat (w - 1))); lia.
Qed.

(* the most negative value: only the sign bit set *)
Lemma sext_min w : (0 < w)%nat -> sext w (2 ^ N.of_nat (w - 1)) = (- 2 ^ Z.of_nat (w - 1))%Z.
Proof.
  intros Hw.
  assert (Hp : 2 ^ N.of_nat w = 2 * 2 ^ N.of_nat (w - 1)).
  { replace (N.of_nat w) with (N.succ (N.of_nat (w - 1))) by lia. apply N.pow_succ_r'. }
  assert (0 < 2 ^ N.of_nat (w - 1)) by (apply N.neq_0_lt_0, N.pow_nonzero; lia).
  rewrite sext_twos_complement by lia.
  destruct (N.ltb_spec (2 ^ N.of_nat (w - 1)) (2 ^ N.of_nat (w - 1))); [lia|].
  assert (Hz : Z.of_N (2 ^ N.of_nat (w - 1)) = (2 ^ Z.of_nat (w - 1))%Z).
  { rewrite N2Z.inj_pow. f_equal. lia. }
  assert (Hq : (2 ^ Z.of_nat w = 2 * 2 ^ Z.of_nat (w - 1))%Z).
  { replace (Z.of_nat w) with (Z.succ (Z.of_nat (w - 1))) by lia. apply Z.pow_succ_r. lia. }
  lia.
Qed.

(* ---------- "not available" codes ---------- *)
Ltac sentinel := intros; unfold parse_speed_over_ground, parse_longitude, parse_latitude, parse_cog, parse_heading,
  parse_altitude, parse_speed_over_ground_sar, parse_speed_over_ground_62, parse_cog_511, opt_nz, minsec_conv,
  parse_longitude_min_10, parse_latitude_min_10;
  match goal with |- context [if ?b then _ else _] => destruct b eqn:E end;
  (split; [split; [intros; lia || (intros; discriminate)|intros; lia || reflexivity || congruence]|intros; try reflexivity; try lia]).

Theorem na_speed d : (parse_speed_over_ground d = None <-> d = 1023) /\
  (d <> 1023 -> parse_speed_over_ground d = Some (FDiv (FOfInt (Z.of_N d)) 10)).
Proof. unfold parse_speed_over_ground. destruct (N.eqb_spec d 1023); split; try split; try congruence; try discriminate; auto. Qed.
Theorem na_longitude z : (parse_longitude z = None <-> z = 108600000%Z) /\
  (z <> 108600000%Z -> parse_longitude z = Some (FDiv (FOfInt z) 600000)).
Proof. unfold parse_longitude. destruct (Z.eqb_spec z 108600000); split; try split; try congruence; try discriminate; auto. Qed.
Theorem na_latitude z : (parse_latitude z = None <-> z = 54600000%Z) /\
  (z <> 54600000%Z -> parse_latitude z = Some (FDiv (FOfInt z) 600000)).
Proof. unfold parse_latitude. destruct (Z.eqb_spec z 54600000); split; try split; try congruence; try discriminate; auto. Qed.
Theorem na_longitude_min_10 z : (parse_longitude_min_10 z = None <-> z = 108600%Z) /\
  (z <> 108600%Z -> parse_longitude_min_10 z = Some (FDiv (FOfInt z) 600)).
Proof. unfold parse_longitude_min_10. destruct (Z.eqb_spec z 108600); split; try split; try congruence; try discriminate; auto. Qed.
Theorem na_latitude_min_10 z : (parse_latitude_min_10 z = None <-> z = 54600%Z) /\
  (z <> 54600%Z -> parse_latitude_min_10 z = Some (FDiv (FOfInt z) 600)).
Proof. unfold parse_latitude_min_10. destruct (Z.eqb_spec z 54600); split; try split; try congruence; try discriminate; auto. Qed.
Theorem na_cog d : (parse_cog d = None <-> d = 3600) /\ (d <> 3600 -> parse_cog d = Some (FDiv (FOfInt (Z.of_N d)) 10)).
Proof. unfold parse_cog. destruct (N.eqb_spec d 3600); split; try split; try congruence; try discriminate; auto. Qed.
Theorem na_heading d : (parse_heading d = None <-> d = 511) /\ (d <> 511 -> parse_heading d = Some d).
Proof. unfold parse_heading. destruct (N.eqb_spec d 511); split; try split; try congruence; try discriminate; auto. Qed.
Theorem na_altitude d : (parse_altitude d = None <-> d = 4095) /\ (d <> 4095 -> parse_altitude d = Some d).
Proof. unfold parse_altitude. destruct (N.eqb_spec d 4095); split; try split; try congruence; try discriminate; auto. Qed.
Theorem na_speed_sar d : (parse_speed_over_ground_sar d = None <-> d = 1023) /\
  (d <> 1023 -> parse_speed_over_ground_sar d = Some (FOfInt (Z.of_N d))).
Proof. unfold parse_speed_over_ground_sar. destruct (N.eqb_spec d 1023); split; try split; try congruence; try discriminate; auto. Qed.
Theorem na_speed_62 d : (parse_speed_over_ground_62 d = None <-> d = 63) /\
  (d <> 63 -> parse_speed_over_ground_62 d = Some (FOfInt (Z.of_N d))).
Proof. unfold parse_speed_over_ground_62. destruct (N.eqb_spec d 63); split; try split; try congruence; try discriminate; auto. Qed.
Theorem na_cog_511 d : (parse_cog_511 d = None <-> d = 511) /\ (d <> 511 -> parse_cog_511 d = Some (FOfInt (Z.of_N d))).
Proof. unfold parse_cog_511. destruct (N.eqb_spec d 511); split; try split; try congruence; try discriminate; auto. Qed.
Theorem na_zero d : (opt_nz d = None <-> d = 0) /\ (d <> 0 -> opt_nz d = Some d).
Proof. unfold opt_nz. destruct (N.eqb_spec d 0); split; try split; try congruence; try discriminate; auto. Qed.
Theorem na_minsec d : (minsec_conv d = None <-> d = 60) /\ (d <> 60 -> minsec_conv d = Some d).
Proof. unfold minsec_conv. destruct (N.eqb_spec d 60); split; try split; try congruence; try discriminate; auto. Qed.

(* rate of turn: -128 (transmitted as 0x80) is "not available"; every other byte is its signed value *)
Theorem na_rate_of_turn d : d < 256 ->
  (rate_of_turn_parse d = None <-> d = 128) /\
  (d <> 128 -> rate_of_turn_parse d = Some (if d <? 128 then Z.of_N d else (Z.of_N d - 256)%Z)).
Proof.
  intros Hd. unfold rate_of_turn_parse, as_i8.
  destruct (N.ltb_spec d 128).
  - destruct (Z.eqb_spec (Z.of_N d) (-128)); [lia|]. split; [split; [discriminate|lia]|reflexivity].
  - destruct (Z.eqb_spec (Z.of_N d - 256) (-128)).
    + split; [split; [lia|reflexivity]|lia].
    + split; [split; [discriminate|lia]|reflexivity].
Qed.

(* type 27 position: the 1/10-minute codes 108600 / 54600, and nothing else in the field's range *)
Theorem na_long_range_longitude t z : (- 2 ^ 17 <= z < 2 ^ 17)%Z ->
  (lr_longitude_conv t z = None <-> z = 108600%Z) /\
  (z <> 108600%Z -> lr_longitude_conv t z =
     Some (if t =? 27 then FMul (FDiv (FOfInt z) 600000) 1000 else FDiv (FOfInt z) 600000)).
Proof.
  intros Hz. unfold lr_longitude_conv, lr_scale, parse_longitude.
  destruct (Z.eqb_spec z 108600); [split; [split; [intros _; assumption|reflexivity]|congruence]|].
  destruct (Z.eqb_spec z 108600000); [lia|]. split; [split; [discriminate|congruence]|reflexivity].
Qed.
Theorem na_long_range_latitude t z : (- 2 ^ 16 <= z < 2 ^ 16)%Z ->
  (lr_latitude_conv t z = None <-> z = 54600%Z) /\
  (z <> 54600%Z -> lr_latitude_conv t z =
     Some (if t =? 27 then FMul (FDiv (FOfInt z) 600000) 1000 else FDiv (FOfInt z) 600000)).
Proof.
  intros Hz. unfold lr_latitude_conv, lr_scale, parse_latitude.
  destruct (Z.eqb_spec z 54600); [split; [split; [intros _; assumption|reflexivity]|congruence]|].
  destruct (Z.eqb_spec z 54600000); [lia|]. split; [split; [discriminate|congruence]|reflexivity].
Qed.

(* ---------- text ---------- *)
Lemma drop_while_spec f l : exists pre, l = pre ++ drop_while f l /\ forallb f pre = true /\
  match drop_while f l with [] => True | x :: _ => f x = false end.
Proof.
  induction l as [|x l (pre & H1 & H2 & H3)]; cbn [drop_while].
  - exists []. auto.
  - destruct (f x) eqn:E.
    + exists (x :: pre). cbn [app forallb]. rewrite E, H2. split; [f_equal; exact H1|auto].
    + exists []. cbn. rewrite E. auto.
Qed.

Lemma drop_while_end_spec f l : exists post, l = drop_while_end f l ++ post /\ forallb f post = true /\
  match rev (drop_while_end f l) with [] => True | x :: _ => f x = false end.
Proof.
  unfold drop_while_end. destruct (drop_while_spec f (rev l)) as (pre & H1 & H2 & H3).
  exists (rev pre). split; [|split].
  - rewrite <- rev_app_distr, <- H1, rev_involutive. reflexivity.
  - rewrite forallb_forall in *. intros x Hx. apply H2. apply in_rev. exact Hx.
  - rewrite rev_involutive. exact H3.
Qed.

(* the trimmed text is a contiguous segment of the decoded characters: leading spaces, then
   trailing '@' padding, then trailing spaces removed; nothing inside is touched *)
Theorem trim_text_segment l :
  exists lead at_pad sp,
    l = lead ++ trim_text l ++ sp ++ at_pad /\
    forallb is_space lead = true /\ forallb is_at at_pad = true /\ forallb is_space sp = true.
Proof.
  unfold trim_text.
  destruct (drop_while_spec is_space l) as (lead & H1 & H2 & _).
  set (l1 := drop_while is_space l) in *.
  destruct (drop_while_end_spec is_at l1) as (ap & H3 & H4 & _).
  set (l2 := drop_while_end is_at l1) in *.
  destruct (drop_while_end_spec is_space l2) as (sp & H5 & H6 & _).
  exists lead, ap, sp. split; [|auto].
  rewrite H1 at 1. rewrite H3 at 1. rewrite H5 at 1. rewrite <- !app_assoc. reflexivity.
Qed.

Theorem trim_text_length l : (length (trim_text l) <= length l)%nat.
Proof.
  destruct (trim_text_segment l) as (a & b & c & H & _). rewrite H at 2. rewrite !app_length. lia.
Qed.

Lemma trim_text_in l x : In x (trim_text l) -> In x l.
Proof.
  destruct (trim_text_segment l) as (a & b & c & H & _). intros Hx. rewrite H.
  apply in_or_app. right. apply in_or_app. left. exact Hx.
Qed.

Lemma chars_at_bound bs p k : Forall (fun c => 32 <= c < 96) (chars_at bs p k).
Proof.
  revert p; induction k as [|k IH]; intros p; cbn [chars_at]; constructor; [|apply IH].
  pose proof (sl_lt bs p 6) as Hlt. change (2 ^ N.of_nat 6) with 64 in Hlt.
  unfold sixbit_char. destruct (N.ltb_spec (sl bs p 6) 32); lia.
Qed.

Lemma chars_at_length bs p k : length (chars_at bs p k) = k.
Proof. revert p; induction k as [|k IH]; intros p; cbn [chars_at length]; [reflexivity|]. rewrite IH. reflexivity. Qed.

(* every text field is valid ASCII in ' '..'_' and no longer than its character count *)
Theorem text_at_ascii bs p k : Forall (fun c => 32 <= c < 96) (text_at bs p k) /\ (length (text_at bs p k) <= k)%nat.
Proof.
  unfold text_at. split.
  - apply Forall_forall. intros x Hx. apply trim_text_in in Hx.
    pose proof (chars_at_bound bs p k) as Hb. rewrite Forall_forall in Hb. exact (Hb x Hx).
  - eapply Nat.le_trans; [apply trim_text_length|]. rewrite chars_at_length. lia.
Qed.

(* the 6-bit ASCII table: 0-31 -> '@'..'_', 32-63 -> ' '..'?' *)
Theorem sixbit_char_table v : v < 64 ->
  (v < 32 -> sixbit_char v = v + 64) /\ (32 <= v -> sixbit_char v = v).
Proof. intros Hv. unfold sixbit_char. destruct (N.ltb_spec v 32); split; intros; lia || reflexivity. Qed.

(* a text that has no leading space, no trailing space and no trailing '@' is kept as it is *)
Theorem trim_text_fixpoint l :
  match l with [] => True | x :: _ => is_space x = false end ->
  match rev l with [] => True | x :: _ => is_space x = false /\ is_at x = false end ->
  trim_text l = l.
Proof.
  intros Hh Ht. unfold trim_text.
  assert (D : forall f l, match l with [] => True | x :: _ => f x = false end -> drop_while f l = l).
  { intros f [|x r] H; [reflexivity|]. cbn [drop_while]. rewrite H. reflexivity. }
  rewrite (D is_space l Hh).
  assert (E : forall f l, match rev l with [] => True | x :: _ => f x = false end -> drop_while_end f l = l).
  { intros f l0 H. unfold drop_while_end. rewrite D by exact H. apply rev_involutive. }
  rewrite (E is_at l) by (destruct (rev l); [exact I|tauto]).
  rewrite (E is_space l) by (destruct (rev l); [exact I|tauto]). reflexivity.
Qed.
