(* Proofs/Coordinates.v — a signed coordinate through a whole message: the two's-complement code of any
   value of the field's range, carried by a type 1 position report between arbitrary neighbours, comes back
   as the expression raw / 600000, whose binary32 value is within 2^-22 (relative) of the exact quotient.
   Sign extension (C10), layout (C04) and the Flocq error bound (C10) composed. *)
From Coq Require Import ZArith Reals Lia.
From Flocq Require Import Core.Core IEEE754.Binary.
From Ais Require Import Model.Base Model.Enums Model.Fields Model.Messages Model.F32Eval Spec.Layouts
  Proofs.Bits Proofs.Conversions Proofs.Encode Proofs.MsgLevel Proofs.RoundTrip Proofs.FloatBound.
Local Open Scope N_scope.

(* the w-bit two's-complement code of a signed value *)
Definition twos (w : nat) (z : Z) : N := Z.to_N (z mod 2 ^ Z.of_nat w).

Lemma twos_lt w z : twos w z < 2 ^ N.of_nat w.
Proof.
  unfold twos. pose proof (Z.mod_pos_bound z (2 ^ Z.of_nat w) ltac:(apply Z.pow_pos_nonneg; lia)) as H.
  apply N2Z.inj_lt. rewrite Z2N.id by lia. rewrite N2Z.inj_pow, nat_N_Z. exact (proj2 H).
Qed.

Lemma sext_twos w z : (0 < w)%nat -> (- 2 ^ Z.of_nat (w - 1) <= z < 2 ^ Z.of_nat (w - 1))%Z -> sext w (twos w z) = z.
Proof.
  intros Hw Hz. rewrite (sext_twos_complement w _ Hw (twos_lt w z)).
  assert (E : (2 ^ Z.of_nat w = 2 * 2 ^ Z.of_nat (w - 1))%Z).
  { replace (Z.of_nat w) with (Z.succ (Z.of_nat (w - 1))) by lia. apply Z.pow_succ_r. lia. }
  assert (P : (0 < 2 ^ Z.of_nat (w - 1))%Z) by (apply Z.pow_pos_nonneg; lia).
  unfold twos. destruct (Z.ltb_spec z 0) as [Hneg|Hpos].
  - (* negative: the code is z + 2^w, at least 2^(w-1) *)
    assert (Hm : (z mod 2 ^ Z.of_nat w = z + 2 ^ Z.of_nat w)%Z).
    { symmetry. apply (Z.mod_unique_pos _ _ (-1)); lia. }
    rewrite Hm. destruct (N.ltb_spec (Z.to_N (z + 2 ^ Z.of_nat w)) (2 ^ N.of_nat (w - 1))) as [H|H].
    + exfalso. apply N2Z.inj_lt in H. rewrite Z2N.id in H by lia. rewrite N2Z.inj_pow, nat_N_Z in H. simpl Z.of_N in H. lia.
    + rewrite Z2N.id by lia. lia.
  - assert (Hm : (z mod 2 ^ Z.of_nat w = z)%Z) by (apply Z.mod_small; lia).
    rewrite Hm. destruct (N.ltb_spec (Z.to_N z) (2 ^ N.of_nat (w - 1))) as [H|H].
    + rewrite Z2N.id by lia. reflexivity.
    + exfalso. apply N2Z.inj_le in H. rewrite Z2N.id in H by lia. rewrite N2Z.inj_pow, nat_N_Z in H. simpl Z.of_N in H. lia.
Qed.

Local Open Scope R_scope.

(* longitude and latitude of a position report, from the signed values that were encoded *)
Theorem coordinates_through_type1 c q rep mmsi st turn spd acc (lon lat : Z) crs hdg sec man spare raim sync comm post :
  let fs := fields1 rep mmsi st turn spd acc (twos 28 lon) (twos 27 lat) crs hdg sec man spare raim sync comm in
  in_range fs ->
  (- 2 ^ 27 <= lon < 2 ^ 27)%Z -> (- 2 ^ 26 <= lat < 2 ^ 26)%Z ->
  lon <> 108600000%Z -> lat <> 54600000%Z -> lon <> 0%Z -> lat <> 0%Z ->
  exists m elon elat,
    parse_bits c q (enc fs ++ post) = Ok (PositionReport m) /\
    pr_longitude m = Some elon /\ pr_latitude m = Some elat /\
    Rabs (Binary.B2R 24 128 (feval elon) - IZR lon / 600000) <= bpow radix2 (-22) * Rabs (IZR lon / 600000) /\
    Rabs (Binary.B2R 24 128 (feval elat) - IZR lat / 600000) <= bpow radix2 (-22) * Rabs (IZR lat / 600000).
Proof.
  intros fs Hr Hlon Hlat Nlon Nlat Zlon Zlat.
  pose proof (roundtrip_type1 c q rep mmsi st turn spd acc (twos 28 lon) (twos 27 lat) crs hdg sec man spare raim sync comm post Hr) as H.
  cbv zeta in H. fold fs in H.
  eexists. exists (FDiv (FOfInt lon) 600000), (FDiv (FOfInt lat) 600000).
  split; [exact H|]. cbn [pr_longitude pr_latitude].
  rewrite (sext_twos 28 lon ltac:(lia) Hlon), (sext_twos 27 lat ltac:(lia) Hlat).
  split; [unfold parse_longitude; destruct (Z.eqb_spec lon 108600000); [contradiction|reflexivity]|].
  split; [unfold parse_latitude; destruct (Z.eqb_spec lat 54600000); [contradiction|reflexivity]|].
  split; apply div_bound; try lia.
Qed.
