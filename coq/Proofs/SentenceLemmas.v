(* Proofs/SentenceLemmas.v — the sentence grammar: the model's parse_nmea_sentence succeeds
   exactly on the shaped lines of Spec/Grammar.v and returns the fields they denote. *)
From Ais Require Import Model.Base Model.Enums Model.Fields Model.Messages Model.Unarmor Model.Sentence
  Spec.Grammar.
From Coq Require Import ZifyBool ZifyNat ZifyN.
Local Open Scope N_scope.

(* ---------- combinator facts ---------- *)
Lemma span_spec f l a b :
  span f l = (a, b) ->
  l = a ++ b /\ forallb f a = true /\ match b with [] => True | x :: _ => f x = false end.
Proof.
  revert a b; induction l as [|x l IH]; intros a b; cbn [span].
  - intros [= <- <-]. auto.
  - destruct (f x) eqn:Hx.
    + destruct (span f l) as [a' b'] eqn:E. intros [= <- <-].
      destruct (IH _ _ eq_refl) as (H1 & H2 & H3). subst l. cbn [app forallb]. rewrite Hx, H2. auto.
    + intros [= <- <-]. cbn. auto.
Qed.

Lemma span_complete f a b :
  forallb f a = true -> match b with [] => True | x :: _ => f x = false end -> span f (a ++ b) = (a, b).
Proof.
  intros Ha Hb. induction a as [|x a IH]; cbn [app span].
  - destruct b as [|y b]; [reflexivity|]. cbn [span]. rewrite Hb. reflexivity.
  - cbn [forallb] in Ha. apply andb_prop in Ha. destruct Ha as [Hx Ha]. rewrite Hx, (IH Ha). reflexivity.
Qed.

Lemma take_until_spec c l a b :
  take_until c l = Some (a, b) -> l = a ++ b /\ no_byte c a /\ exists b', b = c :: b'.
Proof.
  revert a b; induction l as [|x l IH]; intros a b; cbn [take_until]; [discriminate|].
  destruct (N.eqb_spec x c) as [->|Hx].
  - intros [= <- <-]. split; [reflexivity|]. split; [intros y []|eauto].
  - destruct (take_until c l) as [[a' b']|] eqn:E; [|discriminate]. intros [= <- <-].
    destruct (IH _ _ eq_refl) as (H1 & H2 & H3). subst l. split; [reflexivity|]. split; [|exact H3].
    intros y [<-|Hy]; [exact Hx|apply H2; exact Hy].
Qed.

Lemma take_until_complete c a b' : no_byte c a -> take_until c (a ++ c :: b') = Some (a, c :: b').
Proof.
  intros Ha. induction a as [|x a IH]; cbn [app take_until].
  - rewrite N.eqb_refl. reflexivity.
  - destruct (N.eqb_spec x c) as [->|Hx]; [exfalso; apply (Ha c); [left; reflexivity|reflexivity]|].
    rewrite IH; [reflexivity|]. intros y Hy. apply Ha. right; exact Hy.
Qed.

Lemma take_until_none c l : take_until c l = None -> no_byte c l.
Proof.
  induction l as [|x l IH]; cbn [take_until]; intros H y Hy; [destruct Hy|].
  destruct (N.eqb_spec x c); [discriminate|].
  destruct (take_until c l) as [[a b]|]; [discriminate|].
  destruct Hy as [<-|Hy]; [assumption|apply IH; [reflexivity|exact Hy]].
Qed.

Lemma tag1_spec c l r : tag1 c l = Ok (tt, r) <-> l = c :: r.
Proof.
  destruct l as [|x l]; cbn [tag1]; [split; discriminate|].
  destruct (N.eqb_spec x c) as [->|Hx]; split; intros H; try discriminate.
  - injection H as <-. reflexivity.
  - injection H as <-. reflexivity.
  - injection H as -> ->. contradiction.
Qed.

Lemma comma_not_digit : is_digit 44 = false. Proof. reflexivity. Qed.
Lemma star_not_digit : is_digit 42 = false. Proof. reflexivity. Qed.

Lemma parse_u8_digit_spec l v r :
  parse_u8_digit l = Ok (v, r) ->
  exists ds, l = ds ++ r /\ decimal ds /\ v = dec_value ds /\ v <= 255 /\
             match r with [] => True | x :: _ => is_digit x = false end.
Proof.
  unfold parse_u8_digit. destruct (span is_digit l) as [ds r'] eqn:E.
  destruct (span_spec _ _ _ _ E) as (H1 & H2 & H3).
  destruct ds as [|d ds]; [discriminate|].
  destruct (N.leb_spec (dec_value (d :: ds)) 255); [|discriminate].
  intros [= <- <-]. exists (d :: ds). repeat split; auto. discriminate.
Qed.

Lemma parse_u8_digit_complete ds r :
  decimal ds -> dec_value ds <= 255 -> match r with [] => True | x :: _ => is_digit x = false end ->
  parse_u8_digit (ds ++ r) = Ok (dec_value ds, r).
Proof.
  intros [Hne Hd] Hv Hr. unfold parse_u8_digit. rewrite (span_complete _ _ _ Hd Hr).
  destruct ds; [contradiction|]. destruct (N.leb_spec (dec_value (n :: ds)) 255); [reflexivity|lia].
Qed.

Lemma parse_u8_digit_comma ds r :
  decimal ds -> dec_value ds <= 255 -> parse_u8_digit (ds ++ 44 :: r) = Ok (dec_value ds, 44 :: r).
Proof. intros Hd Hv. apply parse_u8_digit_complete; [exact Hd|exact Hv|reflexivity]. Qed.

Lemma parse_u8_digit_err_kind l e : parse_u8_digit l = Err e -> e = EError.
Proof.
  unfold parse_u8_digit. destruct (span is_digit l) as [ds r]. destruct ds; [intros [= <-]; reflexivity|].
  destruct (_ <=? 255); [discriminate|intros [= <-]; reflexivity].
Qed.

Lemma parse_u8_digit_no_panic l s : parse_u8_digit l <> Panic s.
Proof. unfold parse_u8_digit. destruct (span is_digit l) as [ds r]. destruct ds; [discriminate|]. destruct (_ <=? 255); discriminate. Qed.

(* opt(parse_u8_digit) followed by tag(","): the id field is empty or a decimal <= 255 *)
Lemma opt_id_spec l id r :
  opt_u8_digit l = Ok (id, r) -> forall r', tag1 44 r = Ok (tt, r') ->
  exists ds, l = ds ++ 44 :: r' /\ (ds = [] \/ (decimal ds /\ dec_value ds <= 255)) /\
             id = match ds with [] => None | _ => Some (dec_value ds) end.
Proof.
  unfold opt_u8_digit. destruct (parse_u8_digit l) as [[v r1]|e|s] eqn:E.
  - intros [= <- <-] r' Ht. apply tag1_spec in Ht. subst r1.
    destruct (parse_u8_digit_spec _ _ _ E) as (ds & H1 & H2 & H3 & H4 & _).
    exists ds. split; [exact H1|]. split; [right; split; [exact H2|lia]|]. destruct H2 as [Hne _]. destruct ds; [contradiction|]. subst v; reflexivity.
  - destruct e; try discriminate. intros [= <- <-] r' Ht. apply tag1_spec in Ht. subst l.
    exists []. split; [reflexivity|]. split; [left; reflexivity|reflexivity].
  - discriminate.
Qed.

Lemma opt_id_complete ds r' :
  (ds = [] \/ (decimal ds /\ dec_value ds <= 255)) ->
  opt_u8_digit (ds ++ 44 :: r') = Ok (match ds with [] => None | _ => Some (dec_value ds) end, 44 :: r').
Proof.
  intros [->|[Hd Hv]]; unfold opt_u8_digit.
  - cbn [app]. unfold parse_u8_digit. cbn [span]. rewrite comma_not_digit. reflexivity.
  - rewrite (parse_u8_digit_comma ds r' Hd Hv).
    destruct Hd as [Hne _]. destruct ds; [contradiction|reflexivity].
Qed.

(* ---------- parse_ais_sentence ---------- *)
Lemma parse_ais_sentence_inv c q data s rest :
  parse_ais_sentence c q data = Ok (s, rest) ->
  exists f, data = body_bytes f ++ rest /\ fields_ok c f /\ s = sentence_of_fields q f /\
            match rest with [] => True | x :: _ => is_digit x = false end.
Proof.
  unfold parse_ais_sentence.
  destruct data as [|t1 [|t2 [|r1 [|r2 [|r3 data]]]]]; try discriminate.
  destruct (tag1 44 data) as [[[] d1]|e|p] eqn:T1; cbn [rbind]; try discriminate. apply tag1_spec in T1.
  destruct (parse_u8_digit d1) as [[nf d2]|e|p] eqn:P1; cbn [rbind]; try discriminate.
  destruct (tag1 44 d2) as [[[] d3]|e|p] eqn:T2; cbn [rbind]; try discriminate. apply tag1_spec in T2.
  destruct (parse_u8_digit d3) as [[fn d4]|e|p] eqn:P2; cbn [rbind]; try discriminate.
  destruct (tag1 44 d4) as [[[] d5]|e|p] eqn:T3; cbn [rbind]; try discriminate. apply tag1_spec in T3.
  destruct (opt_u8_digit d5) as [[id d6]|e|p] eqn:P3; cbn [rbind]; try discriminate.
  destruct (tag1 44 d6) as [[[] d7]|e|p] eqn:T4; cbn [rbind]; try discriminate.
  destruct (take_until 44 d7) as [[chan d8]|] eqn:U1; try discriminate.
  destruct (tag1 44 d8) as [[[] d9]|e|p] eqn:T5; cbn [rbind]; try discriminate. apply tag1_spec in T5.
  destruct (take_until 44 d9) as [[pay d10]|] eqn:U2; try discriminate.
  destruct (tag1 44 d10) as [[[] d11]|e|p] eqn:T6; cbn [rbind]; try discriminate. apply tag1_spec in T6.
  destruct (parse_u8_digit d11) as [[fill d12]|e|p] eqn:P4; cbn [rbind]; try discriminate.
  destruct (N.ltb_spec fill 6) as [Hfill|Hfill]; cbn [negb]; try discriminate.
  destruct (sentence_message_type q pay) as [mt|e|p] eqn:MT; cbn [rbind]; try discriminate.
  destruct (noalloc c && (MAX_SENTENCE_SIZE_BYTES <? length pay)%nat) eqn:Hcap; try discriminate.
  intros [= <- <-].
  destruct (parse_u8_digit_spec _ _ _ P1) as (nds & E1 & Dn & Vn & Ln & _).
  destruct (parse_u8_digit_spec _ _ _ P2) as (kds & E2 & Dk & Vk & Lk & _).
  destruct (opt_id_spec _ _ _ P3 _ T4) as (ids & E3 & Did & Vid).
  destruct (take_until_spec _ _ _ _ U1) as (E4 & Nc & (x1 & X1)).
  destruct (take_until_spec _ _ _ _ U2) as (E5 & Np & (x2 & X2)).
  destruct (parse_u8_digit_spec _ _ _ P4) as (fds & E6 & Df & Vf & Lf & Rf).
  subst.
  injection X1 as <-. injection X2 as <-.
  assert (Hpay : pay <> []) by (intros ->; discriminate MT).
  exists {| af_t1 := t1; af_t2 := t2; af_r1 := r1; af_r2 := r2; af_r3 := r3;
            af_count := nds; af_number := kds; af_id := ids; af_channel := chan;
            af_payload := pay; af_fill := fds |}.
  split; [|split; [|split]].
  - unfold body_bytes; cbn [af_t1 af_t2 af_r1 af_r2 af_r3 af_count af_number af_id af_channel af_payload af_fill].
    cbn [app]. repeat (rewrite <- app_assoc; cbn [app]). reflexivity.
  - unfold fields_ok; cbn [af_count af_number af_id af_channel af_payload af_fill].
    refine (conj Dn (conj Ln (conj Dk (conj Lk (conj Did (conj Nc (conj Hpay (conj Np (conj Df (conj Hfill _)))))))))).
    intros Hc. rewrite Hc in Hcap. cbn [andb] in Hcap. destruct (Nat.ltb_spec MAX_SENTENCE_SIZE_BYTES (length pay)); [discriminate|lia].
  - unfold sentence_of_fields; cbn [af_t1 af_t2 af_r1 af_r2 af_r3 af_count af_number af_id af_channel af_payload af_fill].
    f_equal.
    unfold sentence_message_type in MT. destruct pay as [|b pay]; [discriminate|].
    destruct (q19_type_from_armored q); injection MT as <-; reflexivity.
  - exact Rf.
Qed.

Lemma parse_ais_sentence_complete c q f rest :
  fields_ok c f -> match rest with [] => True | x :: _ => is_digit x = false end ->
  parse_ais_sentence c q (body_bytes f ++ rest) = Ok (sentence_of_fields q f, rest).
Proof.
  intros (Dn & Vn & Dk & Vk & Did & Nc & Hpay & Np & Df & Vf & Hcap) Hrest.
  destruct f as [t1 t2 r1 r2 r3 nds kds ids chan pay fds].
  unfold body_bytes in *; cbn [af_t1 af_t2 af_r1 af_r2 af_r3 af_count af_number af_id af_channel af_payload af_fill] in *.
  cbn [app]. repeat (rewrite <- app_assoc; cbn [app]).
  unfold parse_ais_sentence. cbn [tag1]. rewrite N.eqb_refl. cbn [rbind].
  rewrite (parse_u8_digit_comma nds _ Dn Vn). cbn [rbind tag1]. rewrite N.eqb_refl. cbn [rbind].
  rewrite (parse_u8_digit_comma kds _ Dk Vk). cbn [rbind tag1]. rewrite N.eqb_refl. cbn [rbind].
  rewrite (opt_id_complete ids _ Did). cbn [rbind tag1]. rewrite N.eqb_refl. cbn [rbind].
  rewrite (take_until_complete 44 chan _ Nc). cbn [tag1]. rewrite N.eqb_refl. cbn [rbind].
  rewrite (take_until_complete 44 pay _ Np). cbn [tag1]. rewrite N.eqb_refl. cbn [rbind].
  rewrite (parse_u8_digit_complete fds rest Df ltac:(lia) Hrest). cbn [rbind].
  destruct (N.ltb_spec (dec_value fds) 6); [|lia]. cbn [negb].
  destruct pay as [|b pay]; [contradiction|]. cbn [sentence_message_type].
  replace (noalloc c && (MAX_SENTENCE_SIZE_BYTES <? length (b :: pay))%nat) with false.
  2:{ destruct (noalloc c); [|reflexivity]. specialize (Hcap eq_refl). cbn [andb].
      destruct (Nat.ltb_spec MAX_SENTENCE_SIZE_BYTES (length (b :: pay))); [lia|reflexivity]. }
  unfold sentence_of_fields; cbn [af_t1 af_t2 af_r1 af_r2 af_r3 af_count af_number af_id af_channel af_payload af_fill].
  destruct (q19_type_from_armored q); reflexivity.
Qed.

(* ---------- parse_nmea_sentence ---------- *)
Lemma skip_tag_block_spec line :
  exists tb, line = tb ++ skip_tag_block line /\ tag_block tb.
Proof.
  unfold skip_tag_block. destruct line as [|x l]; [exists []; split; [reflexivity|left; reflexivity]|].
  destruct (N.eqb_spec x 92) as [->|Hx]; [|exists []; split; [reflexivity|left; reflexivity]].
  destruct (take_until 92 l) as [[a b]|] eqn:E.
  - destruct (take_until_spec _ _ _ _ E) as (H1 & H2 & (b' & ->)).
    exists (92 :: a ++ [92]). split.
    + subst l. cbn [app]. rewrite <- app_assoc. reflexivity.
    + right. exists a. auto.
  - exists []. split; [reflexivity|left; reflexivity].
Qed.

Lemma skip_tag_block_complete tb start rest :
  tag_block tb -> start <> 92 -> skip_tag_block (tb ++ start :: rest) = start :: rest.
Proof.
  intros [->|(t & -> & Ht)] Hs.
  - cbn [app]. unfold skip_tag_block. destruct (N.eqb_spec start 92); [contradiction|reflexivity].
  - cbn [app]. rewrite <- app_assoc. cbn [app]. unfold skip_tag_block. rewrite N.eqb_refl.
    rewrite (take_until_complete 92 t _ Ht). reflexivity.
Qed.

Lemma firstn_app_le {A} n (a b : list A) : (n <= length a)%nat -> firstn n (a ++ b) = firstn n a.
Proof. intros H. rewrite firstn_app. replace (n - length a)%nat with 0%nat by lia. cbn [firstn]. apply app_nil_r. Qed.

Lemma hex_u32_spec l v r :
  hex_u32 l = Ok (v, r) ->
  exists hex tail, l = hex ++ tail /\ hex_run hex tail /\ v = checksum_read hex.
Proof.
  unfold hex_u32. destruct (span is_hex l) as [ds r'] eqn:E.
  destruct (span_spec _ _ _ _ E) as (H1 & H2 & H3).
  destruct ds as [|d ds]; [discriminate|].
  destruct (Nat.leb_spec (length (d :: ds)) 8) as [Hl|Hl].
  - intros [= <- <-]. exists (d :: ds), r'. split; [exact H1|]. split; [split; [discriminate|auto]|].
    unfold checksum_read. rewrite firstn_all2 by exact Hl. reflexivity.
  - remember (firstn 8 l) as F eqn:HF. remember (skipn 8 l) as S eqn:HS. intros [= <- <-].
    exists (d :: ds), r'. split; [exact H1|]. split; [split; [discriminate|auto]|].
    unfold checksum_read. subst F l. rewrite firstn_app_le by lia. reflexivity.
Qed.

Lemma hex_u32_complete hex tail :
  hex_run hex tail -> exists r, hex_u32 (hex ++ tail) = Ok (checksum_read hex, r).
Proof.
  intros (Hne & Hh & Ht). unfold hex_u32. rewrite (span_complete _ _ _ Hh Ht).
  destruct hex as [|d hex]; [contradiction|].
  destruct (Nat.leb_spec (length (d :: hex)) 8) as [Hl|Hl]; eexists.
  - unfold checksum_read. rewrite firstn_all2 by exact Hl. reflexivity.
  - unfold checksum_read. rewrite (firstn_app_le 8 (d :: hex) tail) by lia. reflexivity.
Qed.

Lemma hex_u32_err_kind l e : hex_u32 l = Err e -> e = EError.
Proof.
  unfold hex_u32. destruct (span is_hex l) as [ds r]. destruct ds; [intros [= <-]; reflexivity|].
  destruct (_ <=? 8)%nat; discriminate.
Qed.

Lemma app_same_length_inv {A} (a b c d : list A) : a ++ b = c ++ d -> length a = length c -> a = c /\ b = d.
Proof.
  revert c; induction a as [|x a IH]; intros [|y c] H Hl; cbn in *; try discriminate; auto.
  injection H as -> H. destruct (IH c H ltac:(lia)) as [-> ->]. auto.
Qed.

Theorem parse_nmea_shaped c q line raw s ck :
  parse_nmea_sentence c q line = Ok (raw, s, ck) ->
  exists f hex, Shaped c line f hex /\ raw = body_bytes f /\ s = sentence_of_fields q f /\ ck = checksum_read hex.
Proof.
  unfold parse_nmea_sentence.
  destruct (skip_tag_block_spec line) as (tb & Hline & Htb).
  destruct (skip_tag_block line) as [|d data] eqn:Hskip; [discriminate|].
  destruct ((d =? 33) || (d =? 36)) eqn:Hd; [|discriminate].
  destruct (take_until 42 data) as [[raw' b]|] eqn:U; [|discriminate].
  destruct (parse_ais_sentence c q data) as [[msg rest]|e|p] eqn:PA; cbn [rbind]; try discriminate.
  destruct (tag1 42 rest) as [[[] rest']|e|p] eqn:T; cbn [rbind]; try discriminate.
  apply tag1_spec in T. subst rest.
  destruct (Nat.eqb_spec (length data - length rest') (length raw' + 1)) as [Hlen|Hlen]; cbn [negb]; [|discriminate].
  destruct (hex_u32 rest') as [[ck' r]|e|p] eqn:HX; cbn [rbind]; try discriminate.
  destruct (N.leb_spec ck' 255) as [Hck|Hck]; cbn [negb]; [|discriminate].
  intros [= <- <- <-].
  destruct (parse_ais_sentence_inv _ _ _ _ _ PA) as (f & Hdata & Hok & Hs & _).
  destruct (take_until_spec _ _ _ _ U) as (Hraw & Hns & (b' & ->)).
  destruct (hex_u32_spec _ _ _ HX) as (hex & tail & Hr & Hrun & Hv).
  assert (Hlb : length raw' = length (body_bytes f)).
  { rewrite Hdata in Hlen. rewrite app_length in Hlen. cbn [length] in Hlen. lia. }
  rewrite Hraw in Hdata.
  destruct (app_same_length_inv _ _ _ _ Hdata Hlb) as [-> _].
  exists f, hex. split; [|auto].
  exists tb, d, tail. split.
  - rewrite Hline. f_equal. f_equal. rewrite Hraw. rewrite Hr in Hdata.
    apply app_inv_head in Hdata. rewrite Hdata. reflexivity.
  - split; [exact Htb|]. split; [apply orb_prop in Hd; destruct Hd as [H|H]; apply N.eqb_eq in H; auto|].
    split; [exact Hok|]. split; [exact Hns|]. split; [exact Hrun|]. subst ck'. exact Hck.
Qed.

Theorem shaped_parse_nmea c q line f hex :
  Shaped c line f hex ->
  parse_nmea_sentence c q line = Ok (body_bytes f, sentence_of_fields q f, checksum_read hex).
Proof.
  intros (tb & start & tail & -> & Htb & Hd & Hok & Hns & Hrun & Hrange).
  unfold parse_nmea_sentence.
  rewrite skip_tag_block_complete; [|exact Htb|destruct Hd as [->| ->]; discriminate].
  replace ((start =? 33) || (start =? 36)) with true by (destruct Hd as [->| ->]; reflexivity).
  rewrite (take_until_complete 42 (body_bytes f) _ Hns).
  rewrite (parse_ais_sentence_complete c q f (42 :: hex ++ tail) Hok star_not_digit). cbn [rbind tag1].
  rewrite N.eqb_refl. cbn [rbind].
  replace (Nat.eqb (Nat.sub (length (body_bytes f ++ 42 :: hex ++ tail)) (length (hex ++ tail))) (Nat.add (length (body_bytes f)) 1%nat)) with true.
  2:{ symmetry. apply Nat.eqb_eq. rewrite app_length. cbn [length]. lia. }
  cbn [negb]. destruct (hex_u32_complete hex tail Hrun) as (r & ->). cbn [rbind].
  destruct (N.leb_spec (checksum_read hex) 255); [reflexivity|lia].
Qed.

(* a parsed sentence respects the no-allocator capacity, has a non-empty payload and a fill below 6 *)
Lemma parse_nmea_facts c q line raw s ck :
  parse_nmea_sentence c q line = Ok (raw, s, ck) ->
  (noalloc c = true -> (length (s_data s) <= MAX_SENTENCE_SIZE_BYTES)%nat) /\
  s_data s <> [] /\ s_fill s < 6 /\ s_message s = None /\
  s_num_fragments s <= 255 /\ s_fragment_number s <= 255.
Proof.
  intros H. destruct (parse_nmea_shaped _ _ _ _ _ _ H) as (f & hex & Hsh & _ & -> & _).
  destruct Hsh as (tb & start & tail & _ & _ & _ & Hok & _).
  destruct Hok as (Dn & Vn & Dk & Vk & Did & Nc & Hpay & Np & Df & Vf & Hcap).
  unfold sentence_of_fields; cbn [s_data s_fill s_message s_num_fragments s_fragment_number]. auto 10.
Qed.

Lemma tag1_no_panic c l p : tag1 c l <> Panic p.
Proof. destruct l as [|x l]; cbn [tag1]; [discriminate|]. destruct (x =? c); discriminate. Qed.

Lemma opt_u8_digit_no_panic l p : opt_u8_digit l <> Panic p.
Proof.
  unfold opt_u8_digit. destruct (parse_u8_digit l) as [[v r]|e|s] eqn:E; [discriminate| |exfalso; exact (parse_u8_digit_no_panic _ _ E)].
  destruct e; discriminate.
Qed.

Lemma hex_u32_no_panic l p : hex_u32 l <> Panic p.
Proof. unfold hex_u32. destruct (span is_hex l) as [[|d ds] r]; [discriminate|]. destruct (_ <=? 8)%nat; discriminate. Qed.

Lemma parse_ais_sentence_no_panic c q data p : parse_ais_sentence c q data <> Panic p.
Proof.
  unfold parse_ais_sentence.
  destruct data as [|t1 [|t2 [|r1 [|r2 [|r3 data]]]]]; try discriminate.
  destruct (tag1 44 data) as [[[] d1]|e|s] eqn:T1; cbn [rbind]; [|discriminate|exfalso; exact (tag1_no_panic _ _ _ T1)].
  destruct (parse_u8_digit d1) as [[nf d2]|e|s] eqn:P1; cbn [rbind]; [|discriminate|exfalso; exact (parse_u8_digit_no_panic _ _ P1)].
  destruct (tag1 44 d2) as [[[] d3]|e|s] eqn:T2; cbn [rbind]; [|discriminate|exfalso; exact (tag1_no_panic _ _ _ T2)].
  destruct (parse_u8_digit d3) as [[fn d4]|e|s] eqn:P2; cbn [rbind]; [|discriminate|exfalso; exact (parse_u8_digit_no_panic _ _ P2)].
  destruct (tag1 44 d4) as [[[] d5]|e|s] eqn:T3; cbn [rbind]; [|discriminate|exfalso; exact (tag1_no_panic _ _ _ T3)].
  destruct (opt_u8_digit d5) as [[id d6]|e|s] eqn:P3; cbn [rbind]; [|discriminate|exfalso; exact (opt_u8_digit_no_panic _ _ P3)].
  destruct (tag1 44 d6) as [[[] d7]|e|s] eqn:T4; cbn [rbind]; [|discriminate|exfalso; exact (tag1_no_panic _ _ _ T4)].
  destruct (take_until 44 d7) as [[chan d8]|]; [|discriminate].
  destruct (tag1 44 d8) as [[[] d9]|e|s] eqn:T5; cbn [rbind]; [|discriminate|exfalso; exact (tag1_no_panic _ _ _ T5)].
  destruct (take_until 44 d9) as [[pay d10]|]; [|discriminate].
  destruct (tag1 44 d10) as [[[] d11]|e|s] eqn:T6; cbn [rbind]; [|discriminate|exfalso; exact (tag1_no_panic _ _ _ T6)].
  destruct (parse_u8_digit d11) as [[fill d12]|e|s] eqn:P4; cbn [rbind]; [|discriminate|exfalso; exact (parse_u8_digit_no_panic _ _ P4)].
  destruct (negb (fill <? 6)); [discriminate|].
  destruct pay as [|b pay]; cbn [sentence_message_type rbind]; [discriminate|].
  destruct (q19_type_from_armored q); cbn [rbind]; destruct (noalloc c && _); discriminate.
Qed.

Lemma parse_nmea_no_panic c q line p : parse_nmea_sentence c q line <> Panic p.
Proof.
  unfold parse_nmea_sentence. destruct (skip_tag_block line) as [|d data]; [discriminate|].
  destruct ((d =? 33) || (d =? 36)); [|discriminate].
  destruct (take_until 42 data) as [[raw b]|]; [|discriminate].
  destruct (parse_ais_sentence c q data) as [[msg rest]|e|s] eqn:PA; cbn [rbind]; [|discriminate|exfalso; exact (parse_ais_sentence_no_panic _ _ _ _ PA)].
  destruct (tag1 42 rest) as [[[] rest']|e|s] eqn:T; cbn [rbind]; [|discriminate|exfalso; exact (tag1_no_panic _ _ _ T)].
  destruct (negb _); [discriminate|].
  destruct (hex_u32 rest') as [[ck r]|e|s] eqn:HX; cbn [rbind]; [|discriminate|exfalso; exact (hex_u32_no_panic _ _ HX)].
  destruct (negb _); discriminate.
Qed.
