(* Proofs/Interrogation.v — type 15 at every payload length: the parser equals the positional
   specification [interrogation_of] for every bit list, not only at the three legal lengths. *)
From Ais Require Import Model.Base Model.Enums Model.Fields Model.Messages Spec.Layouts
  Proofs.Bits Proofs.Reads Proofs.Layouts Proofs.Dispatch Proofs.MsgLevel.
From Coq Require Import ZifyBool ZifyNat ZifyN.
Local Open Scope N_scope.

Lemma take_ok w bs p : (w + p <= length bs)%nat -> take w bs p = Ok (sl bs p w, (w + p)%nat).
Proof. intros H. exact (reads_ok _ _ _ bs p (reads_take w) H). Qed.
Lemma take_short w bs p : (p <= length bs)%nat -> (length bs < w + p)%nat -> take w bs p = Err EError.
Proof. intros Hp H. exact (reads_short _ _ _ bs p (reads_take w) Hp H). Qed.

Lemma int_msg_end_bounds L p : (6 + p <= L)%nat -> (6 + p <= int_msg_end L p <= L)%nat.
Proof. intros H. unfold int_msg_end. destruct (Nat.leb_spec 12 (L - (6 + p))); lia. Qed.

Lemma int_message_ok bs p : (6 + p <= length bs)%nat ->
  parse_int_message bs p = Ok (int_msg_gen bs p, int_msg_end (length bs) p).
Proof.
  intros H. unfold parse_int_message, int_msg_gen, int_msg_end.
  unfold bind at 1. rewrite (take_ok 6 bs p H).
  unfold bind at 1, remaining at 1.
  destruct (Nat.leb_spec 12 (length bs - (6 + p))) as [Hr|Hr].
  - unfold bind at 1. unfold bind at 1. rewrite (take_ok 12 bs (6 + p)) by lia. reflexivity.
  - reflexivity.
Qed.

Lemma int_message_short bs p : (p <= length bs)%nat -> (length bs < 6 + p)%nat ->
  parse_int_message bs p = Err EError.
Proof. intros Hp H. unfold parse_int_message. unfold bind at 1. rewrite (take_short 6 bs p Hp H). reflexivity. Qed.

Lemma int_station_end_bounds L p : (36 + p <= L)%nat -> (36 + p <= int_station_end L p <= L)%nat.
Proof.
  intros H. unfold int_station_end.
  pose proof (int_msg_end_bounds L (30 + p) ltac:(lia)) as B1.
  destruct (Nat.leb_spec 8 (L - int_msg_end L (30 + p))) as [H8|H8]; [|lia].
  pose proof (int_msg_end_bounds L (2 + int_msg_end L (30 + p)) ltac:(lia)). lia.
Qed.

Lemma int_station_ok c bs p : (36 + p <= length bs)%nat ->
  parse_int_station c bs p = Ok (int_station_gen bs p, int_station_end (length bs) p).
Proof.
  intros H. unfold parse_int_station, int_station_gen, int_station_end.
  pose proof (int_msg_end_bounds (length bs) (30 + p) ltac:(lia)) as B1.
  unfold bind at 1. rewrite (take_ok 30 bs p) by lia.
  unfold bind at 1. rewrite (int_message_ok bs (30 + p)) by lia.
  rewrite push_unwrap_ok by (cbn; lia). unfold bind at 1, lift at 1. cbn [app].
  unfold bind at 1, remaining at 1.
  set (e1 := int_msg_end (length bs) (30 + p)) in *.
  destruct (Nat.leb_spec 8 (length bs - e1)) as [H8|H8].
  - unfold bind at 1. unfold bind at 1. rewrite (take_ok 2 bs e1) by lia.
    unfold bind at 1. rewrite (int_message_ok bs (2 + e1)) by lia.
    fold (int_keep (int_msg_gen bs (2 + e1))).
    destruct (int_keep (int_msg_gen bs (2 + e1))).
    + rewrite push_unwrap_ok by (cbn; lia). reflexivity.
    + reflexivity.
  - reflexivity.
Qed.

Lemma int_station_short c bs p : (p <= length bs)%nat -> (length bs < 36 + p)%nat ->
  parse_int_station c bs p = Err EError.
Proof.
  intros Hp H. unfold parse_int_station. unfold bind at 1.
  destruct (Nat.leb_spec (30 + p) (length bs)) as [H30|H30].
  - rewrite (take_ok 30 bs p H30). unfold bind at 1.
    rewrite (int_message_short bs (30 + p)) by lia. reflexivity.
  - rewrite (take_short 30 bs p Hp) by lia. reflexivity.
Qed.

Definition interrogation_res (bs : list bool) : res (interrogation * nat) :=
  match interrogation_of bs with Some r => Ok r | None => Err EError end.

Theorem layout_interrogation_any c bs : parse_interrogation c bs 0%nat = interrogation_res bs.
Proof.
  unfold interrogation_res, interrogation_of.
  destruct (Nat.ltb_spec (length bs) 76) as [Hs|Hl].
  - exact (layout_interrogation_short c bs Hs).
  - unfold parse_interrogation.
    unfold bind at 1. rewrite (take_ok 6 bs 0) by lia.
    unfold bind at 1. rewrite (take_ok 2 bs (6 + 0)) by lia.
    unfold bind at 1. rewrite (take_ok 30 bs (2 + (6 + 0))) by lia.
    unfold bind at 1. rewrite (take_ok 2 bs (30 + (2 + (6 + 0)))) by lia.
    match goal with |- _ = ?r => set (R := r) end. cbn [Nat.add]. subst R.
    pose proof (int_station_end_bounds (length bs) 40 ltac:(lia)) as B1.
    unfold bind at 1. rewrite (int_station_ok c bs 40) by lia.
    rewrite push_unwrap_ok by (cbn; lia). unfold bind at 1, lift at 1. cbn [app].
    unfold bind at 1, remaining at 1.
    set (e1 := int_station_end (length bs) 40) in *.
    destruct (Nat.leb_spec 30 (length bs - e1)) as [H30|H30]; [|reflexivity].
    unfold bind at 1. unfold bind at 1. rewrite (take_ok 2 bs e1) by lia.
    destruct (Nat.leb_spec (36 + (2 + e1)) (length bs)) as [H2|H2]; cbn [andb].
    + pose proof (int_station_end_bounds (length bs) (2 + e1) ltac:(lia)) as B2.
      unfold bind at 1. rewrite (int_station_ok c bs (2 + e1)) by lia.
      rewrite push_unwrap_ok by (cbn; lia). unfold bind at 1, lift at 1. cbn [app].
      set (e2 := int_station_end (length bs) (2 + e1)) in *.
      unfold bind at 1.
      destruct (Nat.leb_spec (2 + e2) (length bs)) as [H3|H3].
      * rewrite (take_ok 2 bs e2) by lia. reflexivity.
      * rewrite (take_short 2 bs e2) by lia. reflexivity.
    + unfold bind at 1. rewrite (int_station_short c bs (2 + e1)) by lia. reflexivity.
Qed.

(* which lengths are rejected depends on the length alone *)
Lemma interrogation_rejected_lengths bs :
  interrogation_of bs = None <->
  let L := length bs in
  (L < 76 \/ 138 <= L < 148 \/ 154 <= L < 156 \/ 158 <= L < 160 \/ 166 <= L < 168 \/ 178 <= L < 180)%nat.
Proof.
  unfold interrogation_of, int_station_end, int_msg_end. cbn zeta.
  set (L := length bs). clearbody L.
  repeat match goal with |- context [Nat.leb ?a ?b] => destruct (Nat.leb_spec a b) end;
  repeat match goal with |- context [Nat.ltb ?a ?b] => destruct (Nat.ltb_spec a b) end;
  cbn [andb]; split; intros; try discriminate; try reflexivity; lia.
Qed.

(* the three legal forms are instances *)
Lemma interrogation_of_88 bs : length bs = 88%nat -> interrogation_of bs = Some (interrogation_88 bs, 88%nat).
Proof. intros H. unfold interrogation_of, int_station_gen, int_station_end, int_msg_end, int_msg_gen. rewrite H. reflexivity. Qed.
Lemma interrogation_of_110 bs : length bs = 112%nat -> interrogation_of bs = Some (interrogation_110 bs, 108%nat).
Proof. intros H. unfold interrogation_of, int_station_gen, int_station_end, int_msg_end, int_msg_gen. rewrite H. reflexivity. Qed.
Lemma interrogation_of_160 bs : length bs = 160%nat -> interrogation_of bs = Some (interrogation_160 bs, 160%nat).
Proof. intros H. unfold interrogation_of, int_station_gen, int_station_end, int_msg_end, int_msg_gen. rewrite H. reflexivity. Qed.

(* the whole decoder on a type 15 payload of any length *)
Definition interrogation_msg (bs : list bool) : res ais_message :=
  match interrogation_of bs with Some (m, _) => Ok (Interrogation m) | None => Err ENmea end.

Theorem msg_type15_any c q bs : sl bs 0 6 = 15 -> parse_bits c q bs = interrogation_msg bs.
Proof.
  intros Ht. unfold interrogation_msg.
  destruct (Nat.ltb_spec (length bs) 76) as [Hs|Hl].
  - rewrite (msg_type15_short c q bs Ht Hs).
    assert (E : interrogation_of bs = None) by (apply interrogation_rejected_lengths; cbn zeta; lia).
    rewrite E. reflexivity.
  - dispatch_to Ht. unfold run_variant, run_bits. rewrite (layout_interrogation_any c bs).
    unfold interrogation_res. destruct (interrogation_of bs) as [[m e]|]; reflexivity.
Qed.

(* whole-byte payloads: type 15 is rejected exactly below 10 bytes and at 18 bytes *)
Theorem msg_type15_rejected_bytes c q bs k : sl bs 0 6 = 15 -> length bs = (8 * k)%nat ->
  (parse_bits c q bs = Err ENmea <-> (k < 10 \/ k = 18)%nat).
Proof.
  intros Ht Hk. rewrite (msg_type15_any c q bs Ht). unfold interrogation_msg.
  pose proof (interrogation_rejected_lengths bs) as R. cbn zeta in R.
  destruct (interrogation_of bs) as [[m e]|].
  - split; [discriminate|]. intros H. assert (N : Some (m, e) = None) by (apply R; lia). discriminate.
  - split; [|reflexivity]. intros _. destruct R as [R _]. specialize (R eq_refl). lia.
Qed.

(* the number of stations and of requests reported depends on the length alone (a second request
   that is all zero is dropped): one station below 138 bits, two from 148 bits *)
Theorem interrogation_station_count bs m e : interrogation_of bs = Some (m, e) ->
  length (in_stations m) = (if (length bs <? 138)%nat then 1 else 2)%nat.
Proof.
  unfold interrogation_of, int_station_end, int_msg_end. cbn zeta.
  set (L := length bs). 
  repeat match goal with |- context [Nat.leb ?a ?b] => destruct (Nat.leb_spec a b) end;
  repeat match goal with |- context [Nat.ltb ?a ?b] => destruct (Nat.ltb_spec a b) end;
  cbn [andb]; intros E; try discriminate; injection E as <- _; cbn [in_stations interrogation_head length]; try reflexivity; lia.
Qed.
