(* Proofs/RoundTripForms.v — round trips from field values for the two types whose layout depends on a
   selector: static data report (type 24, part A / part B) and interrogation (type 15, its three legal
   forms: one station one request, one station two requests, two stations). *)
From Ais Require Import Model.Base Model.Enums Model.Fields Model.Messages Spec.Layouts Proofs.Bits Proofs.Encode Proofs.MsgLevel.
From Coq Require Import Lia.
Local Open Scope N_scope.

Ltac fact bs post Hr o w := let H := fresh "E" in assert (H : sl bs o w = _) by exact (sl_enc _ post o w _ Hr eq_refl); cbn [snd] in H.

(* ---------- type 24 part A: name 40(120); up to seven spare bits may follow ---------- *)
Definition fields24a (rep mmsi name : N) : list field :=
  [(6%nat, 24); (2%nat, rep); (30%nat, mmsi); (2%nat, 0); (120%nat, name)].

Theorem roundtrip_type24a c q rep mmsi name post :
  in_range (fields24a rep mmsi name) ->
  let bs := enc (fields24a rep mmsi name) ++ post in
  parse_bits c q bs = Ok (StaticDataReport
    {| sd_message_type := 24; sd_repeat_indicator := rep; sd_mmsi := mmsi; sd_message_part := PartA (text_at bs 40 20) |}).
Proof.
  intros Hr bs.
  fact bs post Hr 0%nat 6%nat. fact bs post Hr 6%nat 2%nat. fact bs post Hr 8%nat 30%nat. fact bs post Hr 38%nat 2%nat.
  assert (Hl : (160 <= length bs)%nat) by (unfold bs; rewrite app_length, enc_length; cbn [total_width fields24a fst]; lia).
  clearbody bs.
  pose proof (msg_type24 c q bs E ltac:(lia)) as H. unfold static_data_min in H. rewrite E2 in H. cbn [N.eqb] in H.
  destruct (Nat.leb_spec 160 (length bs)); [|lia]. rewrite H.
  unfold static_data_of, static_data_part_of. rewrite E, E0, E1, E2. reflexivity.
Qed.

(* ---------- type 24 part B ---------- *)
Definition fields24b (rep mmsi ship vendor model serial callsign bow stern port starboard spare : N) : list field :=
  [(6%nat, 24); (2%nat, rep); (30%nat, mmsi); (2%nat, 1); (8%nat, ship); (18%nat, vendor); (4%nat, model); (20%nat, serial);
   (42%nat, callsign); (9%nat, bow); (9%nat, stern); (6%nat, port); (6%nat, starboard); (6%nat, spare)].

Theorem roundtrip_type24b c q rep mmsi ship vendor model serial callsign bow stern port starboard spare post :
  in_range (fields24b rep mmsi ship vendor model serial callsign bow stern port starboard spare) ->
  let bs := enc (fields24b rep mmsi ship vendor model serial callsign bow stern port starboard spare) ++ post in
  parse_bits c q bs = Ok (StaticDataReport
    {| sd_message_type := 24; sd_repeat_indicator := rep; sd_mmsi := mmsi;
       sd_message_part := PartB (ship_type_parse ship) (text_at bs 48 3) (text_at bs 66 4) model serial (text_at bs 90 7)
                                bow stern port starboard |}).
Proof.
  intros Hr bs.
  fact bs post Hr 0%nat 6%nat. fact bs post Hr 6%nat 2%nat. fact bs post Hr 8%nat 30%nat. fact bs post Hr 38%nat 2%nat.
  fact bs post Hr 40%nat 8%nat. fact bs post Hr 66%nat 4%nat. fact bs post Hr 70%nat 20%nat.
  fact bs post Hr 132%nat 9%nat. fact bs post Hr 141%nat 9%nat. fact bs post Hr 150%nat 6%nat. fact bs post Hr 156%nat 6%nat.
  assert (Hl : (168 <= length bs)%nat) by (unfold bs; rewrite app_length, enc_length; cbn [total_width fields24b fst]; lia).
  clearbody bs.
  pose proof (msg_type24 c q bs E ltac:(lia)) as H. unfold static_data_min in H. rewrite E2 in H. cbn [N.eqb Pos.eqb] in H.
  destruct (Nat.leb_spec 168 (length bs)); [|lia]. rewrite H.
  unfold static_data_of, static_data_part_of. rewrite E, E0, E1, E2, E3, E4, E5, E6, E7, E8, E9. reflexivity.
Qed.

(* ---------- type 15, one station, one request: exactly 88 bits ---------- *)
Definition fields15_88 (rep mmsi sp mmsi1 t11 o11 : N) : list field :=
  [(6%nat, 15); (2%nat, rep); (30%nat, mmsi); (2%nat, sp); (30%nat, mmsi1); (6%nat, t11); (12%nat, o11)].

Theorem roundtrip_type15_88 c q rep mmsi sp mmsi1 t11 o11 :
  in_range (fields15_88 rep mmsi sp mmsi1 t11 o11) ->
  parse_bits c q (enc (fields15_88 rep mmsi sp mmsi1 t11 o11)) = Ok (Interrogation
    {| in_message_type := 15; in_repeat_indicator := rep; in_mmsi := mmsi;
       in_stations := [{| is_mmsi := mmsi1; is_messages := [{| im_message_type := t11; im_slot_offset := opt_nz o11 |}] |}] |}).
Proof.
  intros Hr. rewrite <- (app_nil_r (enc _)). set (bs := enc _ ++ []).
  fact bs (@nil bool) Hr 0%nat 6%nat. fact bs (@nil bool) Hr 6%nat 2%nat. fact bs (@nil bool) Hr 8%nat 30%nat.
  fact bs (@nil bool) Hr 40%nat 30%nat. fact bs (@nil bool) Hr 70%nat 6%nat. fact bs (@nil bool) Hr 76%nat 12%nat.
  assert (Hl : length bs = 88%nat) by (unfold bs; rewrite app_length, enc_length; reflexivity).
  clearbody bs. rewrite (msg_type15_88 c q bs E Hl).
  unfold interrogation_88, interrogation_head, int_msg_at. cbn [Nat.add]. rewrite E, E0, E1, E2, E3, E4. reflexivity.
Qed.

(* ---------- type 15, two stations: exactly 160 bits ---------- *)
Definition fields15_160 (rep mmsi sp mmsi1 t11 o11 sp2 t12 o12 sp3 mmsi2 t21 o21 sp4 : N) : list field :=
  [(6%nat, 15); (2%nat, rep); (30%nat, mmsi); (2%nat, sp); (30%nat, mmsi1); (6%nat, t11); (12%nat, o11); (2%nat, sp2);
   (6%nat, t12); (12%nat, o12); (2%nat, sp3); (30%nat, mmsi2); (6%nat, t21); (12%nat, o21); (2%nat, sp4)].

Definition request (t o : N) : int_message := {| im_message_type := t; im_slot_offset := opt_nz o |}.

Theorem roundtrip_type15_160 c q rep mmsi sp mmsi1 t11 o11 sp2 t12 o12 sp3 mmsi2 t21 o21 sp4 :
  in_range (fields15_160 rep mmsi sp mmsi1 t11 o11 sp2 t12 o12 sp3 mmsi2 t21 o21 sp4) ->
  parse_bits c q (enc (fields15_160 rep mmsi sp mmsi1 t11 o11 sp2 t12 o12 sp3 mmsi2 t21 o21 sp4)) = Ok (Interrogation
    {| in_message_type := 15; in_repeat_indicator := rep; in_mmsi := mmsi;
       in_stations :=
         [{| is_mmsi := mmsi1;
             is_messages := if negb (t12 =? 0) || (match opt_nz o12 with Some _ => true | None => false end)
                            then [request t11 o11; request t12 o12] else [request t11 o11] |};
          {| is_mmsi := mmsi2; is_messages := [request t21 o21] |}] |}).
Proof.
  intros Hr. rewrite <- (app_nil_r (enc _)). set (bs := enc _ ++ []).
  fact bs (@nil bool) Hr 0%nat 6%nat. fact bs (@nil bool) Hr 6%nat 2%nat. fact bs (@nil bool) Hr 8%nat 30%nat.
  fact bs (@nil bool) Hr 40%nat 30%nat. fact bs (@nil bool) Hr 70%nat 6%nat. fact bs (@nil bool) Hr 76%nat 12%nat.
  fact bs (@nil bool) Hr 90%nat 6%nat. fact bs (@nil bool) Hr 96%nat 12%nat.
  fact bs (@nil bool) Hr 110%nat 30%nat. fact bs (@nil bool) Hr 140%nat 6%nat. fact bs (@nil bool) Hr 146%nat 12%nat.
  assert (Hl : length bs = 160%nat) by (unfold bs; rewrite app_length, enc_length; reflexivity).
  clearbody bs. rewrite (msg_type15_160 c q bs E Hl).
  unfold interrogation_160, interrogation_head, int_requests2, int_msg_at, request. cbn [Nat.add].
  rewrite E, E0, E1, E2, E3, E4, E5, E6, E7, E8, E9. reflexivity.
Qed.
