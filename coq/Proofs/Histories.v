(* Proofs/Histories.v — the line-level and history-level theorems behind C02, C05, C06, C07,
   C08, C17 and C19: checksum gate, grammar equivalence, reported fields, transparency,
   the ghost-instrumented run and in-order reassembly. *)
From Ais Require Import Model.Base Model.Enums Model.Fields Model.Messages Model.Unarmor Model.Sentence
  Spec.Grammar Proofs.SentenceLemmas Proofs.Reassembly.
From Coq Require Import ZifyBool ZifyNat ZifyN.
Local Open Scope N_scope.

(* ---------- errors of the payload path are always the Nmea category ---------- *)
Lemma msg_parse_err c q bytes e : msg_parse c q bytes = Err e -> e = ENmea.
Proof.
  unfold msg_parse, parse_bits. destruct (run_bits message_type_bits _) as [t|e'|p]; [|intros [= <-]; reflexivity|discriminate].
  repeat match goal with |- context [if ?b then _ else _] => destruct b end;
    try (intros [= <-]; reflexivity);
    unfold run_variant; match goal with |- to_nmea ?r = _ -> _ => destruct r as [x|e'|p]; cbn [to_nmea]; try discriminate; intros [= <-]; reflexivity end.
Qed.

Lemma finish_err c q s d e : finish c q s d = Err e -> e = ENmea.
Proof.
  unfold finish. destruct d; [|discriminate].
  destruct (unarmor c (s_data s) (N.to_nat (s_fill s))) as [u|e'|p]; cbn [to_nmea]; [|intros [= <-]; reflexivity|discriminate].
  destruct (msg_parse c q u) as [m|e'|p] eqn:E; try discriminate. intros [= <-]. exact (msg_parse_err _ _ _ _ E).
Qed.

Lemma handle_err c q st s d e : snd (handle c q st s d) = Err e -> e = ENmea.
Proof.
  unfold handle. destruct (has_more s).
  - destruct (verify_and_extend c _ s) as [st2 [[]|e'|p]] eqn:V; cbn [snd]; try discriminate.
    rewrite verify_spec in V. destruct (_ && _); [discriminate V|]. injection V as _ <-. intros [= <-]; reflexivity.
  - destruct (is_fragment s).
    + destruct (verify_and_extend c st s) as [st2 [[]|e'|p]] eqn:V; cbn [snd]; try discriminate.
      * apply finish_err.
      * rewrite verify_spec in V. destruct (_ && _); [discriminate V|]. injection V as _ <-. intros [= <-]; reflexivity.
    + cbn [snd]. apply finish_err.
Qed.

(* ---------- C02 / C08: acceptance at the sentence level ---------- *)
Definition accepted_at_sentence_level (c : cfg) (q : quirks) (line : list N) : Prop :=
  exists raw s ck, parse_nmea_sentence c q line = Ok (raw, s, ck) /\ ck = xor_fold raw.

Theorem accepted_iff_wellformed c q line :
  accepted_at_sentence_level c q line <-> WellFormed c line.
Proof.
  split.
  - intros (raw & s & ck & H & Hck).
    destruct (parse_nmea_shaped _ _ _ _ _ _ H) as (f & hex & Hsh & -> & _ & ->).
    exists f, hex. auto.
  - intros (f & hex & Hsh & Hsum). exists (body_bytes f), (sentence_of_fields q f), (checksum_read hex).
    split; [apply shaped_parse_nmea; exact Hsh|symmetry; exact Hsum].
Qed.

Theorem step_ok_wellformed c q st line d f :
  snd (step c q st line d) = Ok f -> WellFormed c line.
Proof.
  rewrite step_spec. intros H. apply (accepted_iff_wellformed c q). unfold accepted_at_sentence_level.
  destruct (parse_nmea_sentence c q line) as [[[raw s] ck]|e|p]; try discriminate.
  destruct (N.eqb_spec ck (xor_fold raw)); [|discriminate]. exists raw, s, ck. auto.
Qed.

Theorem step_not_wellformed c q st line d :
  ~ WellFormed c line ->
  fst (step c q st line d) = st /\ exists e, snd (step c q st line d) = Err e.
Proof.
  intros Hn. rewrite step_spec.
  destruct (parse_nmea_sentence c q line) as [[[raw s] ck]|e|p] eqn:E.
  - destruct (N.eqb_spec ck (xor_fold raw)) as [Hck|Hck]; [|cbn; eauto].
    exfalso. apply Hn. apply (accepted_iff_wellformed c q). exists raw, s, ck. auto.
  - cbn; eauto.
  - exfalso. exact (parse_nmea_no_panic _ _ _ _ E).
Qed.

Theorem checksum_mismatch c q st line d f hex :
  Shaped c line f hex -> xor_fold (body_bytes f) <> checksum_read hex ->
  step c q st line d = (st, Err (EChecksum (checksum_read hex) (xor_fold (body_bytes f)))).
Proof.
  intros Hsh Hne. rewrite step_spec, (shaped_parse_nmea c q line f hex Hsh).
  destruct (N.eqb_spec (checksum_read hex) (xor_fold (body_bytes f))); [congruence|reflexivity].
Qed.

Theorem checksum_match c q st line d f hex :
  Shaped c line f hex -> xor_fold (body_bytes f) = checksum_read hex ->
  step c q st line d = handle c q st (sentence_of_fields q f) d /\
  forall e g, snd (step c q st line d) <> Err (EChecksum e g).
Proof.
  intros Hsh He. rewrite step_spec, (shaped_parse_nmea c q line f hex Hsh).
  rewrite He, N.eqb_refl. split; [reflexivity|].
  intros e g H. apply handle_err in H. discriminate.
Qed.

(* a checksum error, whenever it is reported, carries the transmitted and the computed value *)
Theorem checksum_error_values c q st line d e g :
  snd (step c q st line d) = Err (EChecksum e g) ->
  exists f hex, Shaped c line f hex /\ e = checksum_read hex /\ g = xor_fold (body_bytes f) /\ e <> g.
Proof.
  rewrite step_spec.
  destruct (parse_nmea_sentence c q line) as [[[raw s] ck]|e'|p] eqn:E; try discriminate.
  destruct (N.eqb_spec ck (xor_fold raw)) as [Hck|Hck].
  - intros H. apply handle_err in H. discriminate.
  - cbn [snd]. intros [= <- <-].
    destruct (parse_nmea_shaped _ _ _ _ _ _ E) as (f & hex & Hsh & -> & _ & ->). eauto 6.
Qed.

(* XOR algebra: changing one byte of the body changes the checksum *)
Lemma xor_fold_acc a l : fold_left N.lxor l a = N.lxor a (xor_fold l).
Proof.
  unfold xor_fold. revert a; induction l as [|x l IH]; intros a; cbn [fold_left].
  - rewrite N.lxor_0_r. reflexivity.
  - rewrite IH, (IH (N.lxor 0 x)). rewrite ?N.lxor_0_l, N.lxor_assoc. reflexivity.
Qed.

Lemma xor_fold_app a b : xor_fold (a ++ b) = N.lxor (xor_fold a) (xor_fold b).
Proof. unfold xor_fold at 1. rewrite fold_left_app. apply xor_fold_acc. Qed.

Lemma xor_fold_cons x l : xor_fold (x :: l) = N.lxor x (xor_fold l).
Proof. change (x :: l) with ([x] ++ l). rewrite xor_fold_app. unfold xor_fold at 1. cbn [fold_left]. rewrite ?N.lxor_0_l. reflexivity. Qed.

Theorem xor_single_change a x y b : x <> y -> xor_fold (a ++ x :: b) <> xor_fold (a ++ y :: b).
Proof.
  intros Hxy H. rewrite !xor_fold_app, !xor_fold_cons in H.
  apply N.lxor_eq_0_iff in H.
  replace (N.lxor (N.lxor (xor_fold a) (N.lxor x (xor_fold b))) (N.lxor (xor_fold a) (N.lxor y (xor_fold b))))
    with (N.lxor x y) in H.
  - apply N.lxor_eq in H. contradiction.
  - set (A := xor_fold a). set (B := xor_fold b).
    apply N.bits_inj. intros n. rewrite !N.lxor_spec.
    destruct (N.testbit A n), (N.testbit B n), (N.testbit x n), (N.testbit y n); reflexivity.
Qed.

(* ---------- C07: the reported fields ---------- *)
Theorem step_reports_fields c q st line d f hex fr :
  Shaped c line f hex -> snd (step c q st line d) = Ok fr ->
  let s := sentence_of_fields q f in
  fr = Incomplete s \/
  (exists m, fr = Complete (with_message s m)) \/
  (exists m, fr = Complete (with_message (with_data s (p_data st ++ s_data s)) m)).
Proof.
  intros Hsh Hok s. rewrite step_spec, (shaped_parse_nmea c q line f hex Hsh) in Hok.
  destruct (_ =? _); [|discriminate]. fold s in Hok.
  assert (Hfin : forall s', finish c q s' d = Ok fr -> exists m, fr = Complete (with_message s' m) \/ (fr = Complete s')).
  { intros s' Hf. unfold finish in Hf. destruct d.
    - destruct (to_nmea _) as [u|e|p]; try discriminate. destruct (msg_parse c q u) as [m|e|p]; try discriminate.
      injection Hf as <-. eauto.
    - injection Hf as <-. exists None. auto. }
  unfold handle in Hok. destruct (has_more s).
  - destruct (verify_and_extend c _ s) as [st2 [[]|e|p]]; cbn [snd] in Hok; try discriminate.
    injection Hok as <-. auto.
  - destruct (is_fragment s).
    + destruct (verify_and_extend c st s) as [st2 [[]|e|p]] eqn:V; cbn [snd] in Hok; try discriminate.
      rewrite verify_spec in V. destruct (_ && _); [|discriminate]. injection V as <-. cbn [extended p_data] in Hok.
      destruct (Hfin _ Hok) as (m & [->| ->]); right; right; [eauto|].
      exists None. reflexivity.
    + cbn [snd] in Hok. destruct (Hfin _ Hok) as (m & [->| ->]); right; left; [eauto|].
      exists (s_message s). destruct s; reflexivity.
Qed.

Lemma finish_decode_relation c q s :
  finish c q s false = Ok (Complete s) /\
  (forall fr, finish c q s true = Ok fr -> exists m, fr = Complete (with_message s (Some m))).
Proof.
  split; [reflexivity|]. intros fr. unfold finish.
  destruct (to_nmea _) as [u|e|p]; try discriminate. destruct (msg_parse c q u) as [m|e|p]; try discriminate.
  intros [= <-]. eauto.
Qed.

(* requesting decoding does not change the parser state, and changes an accepted result only
   in its decoded message *)
Theorem decode_flag_state c q st line :
  fst (step c q st line true) = fst (step c q st line false).
Proof.
  rewrite !step_spec. destruct (parse_nmea_sentence c q line) as [[[raw s] ck]|e|p]; try reflexivity.
  destruct (_ =? _); [|reflexivity].
  unfold handle. destruct (has_more s).
  - destruct (verify_and_extend c _ s) as [st2 [[]|e|p]]; reflexivity.
  - destruct (is_fragment s); [|reflexivity].
    destruct (verify_and_extend c st s) as [st2 [[]|e|p]]; reflexivity.
Qed.

Definition frag_sentence (f : frag) : sentence := match f with Complete s | Incomplete s => s end.
Definition same_kind (a b : frag) : Prop :=
  match a, b with Complete _, Complete _ | Incomplete _, Incomplete _ => True | _, _ => False end.

Theorem decode_flag_result c q st line fr :
  snd (step c q st line true) = Ok fr ->
  exists fr0, snd (step c q st line false) = Ok fr0 /\ same_kind fr fr0 /\
              with_message (frag_sentence fr) None = with_message (frag_sentence fr0) None /\
              s_message (frag_sentence fr0) = None.
Proof.
  rewrite !step_spec. destruct (parse_nmea_sentence c q line) as [[[raw s] ck]|e|p] eqn:E; try discriminate.
  destruct (parse_nmea_facts _ _ _ _ _ _ E) as (_ & _ & _ & Hmsg & _).
  destruct (_ =? _); [|discriminate].
  unfold handle. destruct (has_more s).
  - destruct (verify_and_extend c _ s) as [st2 [[]|e|p]]; cbn [snd]; try discriminate.
    intros [= <-]. exists (Incomplete s). cbn. auto.
  - destruct (is_fragment s).
    + destruct (verify_and_extend c st s) as [st2 [[]|e|p]]; cbn [snd]; try discriminate.
      intros H. destruct (proj2 (finish_decode_relation c q _) _ H) as (m & ->).
      eexists. split; [reflexivity|]. cbn. auto.
    + cbn [snd]. intros H. destruct (proj2 (finish_decode_relation c q _) _ H) as (m & ->).
      eexists. split; [reflexivity|]. cbn. auto.
Qed.

(* with decoding off no payload-level error exists: whatever is rejected with decoding off is
   rejected for the same reason, before any decoding, with decoding on *)
Theorem no_decode_no_payload_error c q st line e :
  snd (step c q st line false) = Err e -> snd (step c q st line true) = Err e.
Proof.
  rewrite !step_spec. destruct (parse_nmea_sentence c q line) as [[[raw s] ck]|e'|p]; try (intros H; exact H).
  destruct (_ =? _); [|intros H; exact H].
  unfold handle. destruct (has_more s).
  - destruct (verify_and_extend c _ s) as [st2 [[]|e'|p]]; intros H; exact H.
  - destruct (is_fragment s).
    + destruct (verify_and_extend c st s) as [st2 [[]|e'|p]]; cbn [snd]; try (intros H; exact H). discriminate.
    + cbn [snd]. discriminate.
Qed.

(* ---------- C17 at the line level ---------- *)
Theorem step_transparent c q st line d :
  match sentence_of c q line with
  | None => True                                          (* rejected: form or checksum *)
  | Some s => match classify c st s with
              | Unfragmented | BadSequence | OverCapacity => True
              | _ => False
              end
  end ->
  fst (step c q st line d) = st.
Proof.
  unfold sentence_of. rewrite step_spec.
  destruct (parse_nmea_sentence c q line) as [[[raw s] ck]|e|p] eqn:E; try reflexivity.
  destruct (_ =? _); [|reflexivity].
  intros H. apply handle_transparent; [|exact H].
  intros Hc. exact (proj1 (parse_nmea_facts _ _ _ _ _ _ E) Hc).
Qed.

(* ---------- C06 on histories: the ghost-instrumented run ---------- *)
Definition gstep (c : cfg) (q : quirks) (i : nat) (g : gstate) (line : list N) (d : bool)
  : gstate * res frag * option delivery :=
  match sentence_of c q line with
  | Some s => ghandle c q i g s d
  | None => (g, snd (step c q (g_st g) line d), None)
  end.

Fixpoint grun (c : cfg) (q : quirks) (i : nat) (g : gstate) (h : list (list N * bool))
  : gstate * list (res frag * option delivery) :=
  match h with
  | [] => (g, [])
  | (line, d) :: h' =>
    let '(g1, o, dl) := gstep c q i g line d in
    let '(g2, os) := grun c q (S i) g1 h' in
    (g2, (o, dl) :: os)
  end.

Lemma sentence_of_step c q st line d :
  step c q st line d =
  match sentence_of c q line with
  | Some s => handle c q st s d
  | None => (st, snd (step c q st line d))
  end.
Proof.
  unfold sentence_of. rewrite step_spec.
  destruct (parse_nmea_sentence c q line) as [[[raw s] ck]|e|p]; try reflexivity.
  destruct (_ =? _); reflexivity.
Qed.

Lemma sentence_of_fits c q line s : sentence_of c q line = Some s -> data_fits c s.
Proof.
  unfold sentence_of. destruct (parse_nmea_sentence c q line) as [[[raw s'] ck]|e|p] eqn:E; try discriminate.
  destruct (_ =? _); [|discriminate]. intros [= <-] Hc. exact (proj1 (parse_nmea_facts _ _ _ _ _ _ E) Hc).
Qed.

(* the ghost run computes exactly the real run *)
Theorem grun_erase c q i g h :
  let '(g', os) := grun c q i g h in
  (g_st g', map fst os) = run c q (g_st g) h.
Proof.
  revert i g; induction h as [|[line d] h IH]; intros i g; cbn [grun run]; [reflexivity|].
  unfold gstep. rewrite sentence_of_step.
  destruct (sentence_of c q line) as [s|] eqn:Es.
  - pose proof (ghandle_erase c q i g s d) as He.
    destruct (ghandle c q i g s d) as [[g1 o] dl]. rewrite <- He.
    specialize (IH (S i) g1). destruct (grun c q (S i) g1 h) as [g2 os].
    rewrite <- IH. reflexivity.
  - specialize (IH (S i) g). destruct (grun c q (S i) g h) as [g2 os].
    rewrite <- IH. reflexivity.
Qed.

(* what every delivery in a history looks like *)
Definition delivery_ok (c : cfg) (q : quirks) (h : list (list N * bool)) (base : nat)
           (k : nat) (o : res frag) (dl : option delivery) : Prop :=
  match dl with
  | None => forall s', o = Ok (Complete s') ->
            forall line d s, nth_error h k = Some (line, d) -> sentence_of c q line = Some s -> is_fragment s = false
  | Some l =>
    exists line d s, nth_error h k = Some (line, d) /\ sentence_of c q line = Some s /\
                     GoodDelivery (base + k) s l o c q d
  end.

Theorem grun_deliveries c q i g h :
  Inv i g ->
  let '(g', os) := grun c q i g h in
  Inv (i + length h) g' /\
  forall k o dl, nth_error os k = Some (o, dl) -> delivery_ok c q h i k o dl.
Proof.
  revert i g; induction h as [|[line d] h IH]; intros i g HI; cbn [grun].
  - rewrite Nat.add_0_r. split; [exact HI|]. intros [|k] o dl; discriminate.
  - unfold gstep. destruct (sentence_of c q line) as [s|] eqn:Es.
    + pose proof (ghandle_inv c q i g s d (sentence_of_fits _ _ _ _ Es) HI) as Hg.
      destruct (ghandle c q i g s d) as [[g1 o] dl]. destruct Hg as [HI1 Hd].
      specialize (IH (S i) g1 HI1). destruct (grun c q (S i) g1 h) as [g2 os]. destruct IH as [HI2 Hrest].
      split; [cbn [length]; replace (i + S (length h))%nat with (S i + length h)%nat by lia; exact HI2|].
      intros [|k] o' dl' Hk; cbn [nth_error] in Hk.
      * injection Hk as <- <-. unfold delivery_ok. destruct dl as [l|].
        -- exists line, d, s. rewrite Nat.add_0_r. auto.
        -- intros s' Ho line' d' s0 Hn Hs0. cbn [nth_error] in Hn. injection Hn as <- <-. rewrite Es in Hs0. injection Hs0 as <-.
           exact (Hd s' Ho).
      * specialize (Hrest k o' dl' Hk). unfold delivery_ok in *. destruct dl' as [l|].
        -- destruct Hrest as (l' & d' & s' & Hn & Hs' & Hg). exists l', d', s'. cbn [nth_error].
           replace (i + S k)%nat with (S i + k)%nat by lia. auto.
        -- intros s' Ho l' d' s0 Hn. cbn [nth_error] in Hn. exact (Hrest s' Ho l' d' s0 Hn).
    + assert (HI1 : Inv (S i) g).
      { destruct HI as [a b c0 d0 e]. constructor; auto. eapply Forall_lt_weaken; [|exact e]. lia. }
      specialize (IH (S i) g HI1). destruct (grun c q (S i) g h) as [g2 os]. destruct IH as [HI2 Hrest].
      split; [cbn [length]; replace (i + S (length h))%nat with (S i + length h)%nat by lia; exact HI2|].
      intros [|k] o' dl' Hk; cbn [nth_error] in Hk.
      * injection Hk as <- <-. unfold delivery_ok. intros s' Ho line' d' s0 Hn Hs0.
        cbn [nth_error] in Hn. injection Hn as <- <-. rewrite Es in Hs0. discriminate.
      * specialize (Hrest k o' dl' Hk). unfold delivery_ok in *. destruct dl' as [l|].
        -- destruct Hrest as (l' & d' & s' & Hn & Hs' & Hg). exists l', d', s'. cbn [nth_error].
           replace (i + S k)%nat with (S i + k)%nat by lia. auto.
        -- intros s' Ho l' d' s0 Hn. cbn [nth_error] in Hn. exact (Hrest s' Ho l' d' s0 Hn).
Qed.

(* ---------- C02: single-byte corruption ---------- *)
(* the parser's view of a line of the form  tag-block start body '*' hex tail  with no '*' in body:
   whatever it accepts, the checksum it verified is XOR(body) against the value read from hex *)
Lemma parse_of_explicit_shape c q tb start body hex tail raw s ck :
  tag_block tb -> start = 33 \/ start = 36 -> no_byte 42 body -> hex_run hex tail ->
  parse_nmea_sentence c q (tb ++ start :: body ++ 42 :: hex ++ tail) = Ok (raw, s, ck) ->
  raw = body /\ ck = checksum_read hex.
Proof.
  intros Htb Hst Hns Hrun. unfold parse_nmea_sentence.
  rewrite skip_tag_block_complete; [|exact Htb|destruct Hst as [->| ->]; discriminate].
  replace ((start =? 33) || (start =? 36)) with true by (destruct Hst as [->| ->]; reflexivity).
  rewrite (take_until_complete 42 body _ Hns).
  destruct (parse_ais_sentence c q (body ++ 42 :: hex ++ tail)) as [[msg rest]|e|p] eqn:PA; cbn [rbind]; try discriminate.
  destruct (tag1 42 rest) as [[[] rest']|e|p] eqn:T; cbn [rbind]; try discriminate.
  apply tag1_spec in T. subst rest.
  destruct (Nat.eqb_spec (length (body ++ 42 :: hex ++ tail) - length rest') (length body + 1)) as [Hlen|Hlen]; cbn [negb]; [|discriminate].
  destruct (hex_u32 rest') as [[ck' r]|e|p] eqn:HX; cbn [rbind]; try discriminate.
  destruct (negb (ck' <=? 255)); [discriminate|]. intros [= <- <- <-]. split; [reflexivity|].
  (* the fields end exactly at the first '*', so what follows is hex ++ tail *)
  destruct (parse_ais_sentence_inv _ _ _ _ _ PA) as (f & Hdata & _).
  assert (Hl : length (body_bytes f) = length body).
  { apply (f_equal (@length N)) in Hdata. rewrite !app_length in Hdata. cbn [length] in Hdata.
    rewrite app_length in Hlen. cbn [length] in Hlen. lia. }
  symmetry in Hl. destruct (app_same_length_inv _ _ _ _ Hdata Hl) as [_ Hr]. injection Hr as Hr. subst rest'.
  destruct (hex_u32_complete hex tail Hrun) as (r' & Hh). rewrite Hh in HX. injection HX as <- _. reflexivity.
Qed.

(* one byte of the body of an accepted line replaced by a different byte that is not '*':
   the corrupted line is never accepted, from any state *)
Theorem corrupted_body_rejected c q st d tb start a x y b hex tail :
  tag_block tb -> start = 33 \/ start = 36 -> hex_run hex tail ->
  no_byte 42 (a ++ x :: b) -> y <> 42 -> x <> y ->
  xor_fold (a ++ x :: b) = checksum_read hex ->          (* the original line's checksum was right *)
  forall fr, snd (step c q st (tb ++ start :: (a ++ y :: b) ++ 42 :: hex ++ tail) d) <> Ok fr.
Proof.
  intros Htb Hst Hrun Hns Hy Hxy Hsum fr Hok.
  assert (Hns' : no_byte 42 (a ++ y :: b)).
  { intros z Hz. apply in_app_or in Hz. destruct Hz as [Hz|[<-|Hz]]; [apply Hns; apply in_or_app; left; exact Hz|exact Hy|
      apply Hns; apply in_or_app; right; right; exact Hz]. }
  rewrite step_spec in Hok.
  destruct (parse_nmea_sentence c q _) as [[[raw s] ck]|e|p] eqn:E; try discriminate.
  destruct (parse_of_explicit_shape c q tb start (a ++ y :: b) hex tail raw s ck Htb Hst Hns' Hrun E) as [-> ->].
  destruct (N.eqb_spec (checksum_read hex) (xor_fold (a ++ y :: b))) as [Heq|Hne]; [|discriminate].
  apply (xor_single_change a x y b Hxy). congruence.
Qed.
