(* Proofs/Total.v — C01: no Panic result is reachable from AisParser::parse, for every line,
   after every history, with decoding on or off, in every build configuration. *)
From Ais Require Import Model.Base Model.Enums Model.Fields Model.Messages Model.Unarmor Model.Sentence
  Spec.Grammar Proofs.SentenceLemmas Proofs.Reassembly Proofs.Histories Proofs.NoPanic Proofs.UnarmorProof.
From Coq Require Import ZifyBool ZifyNat ZifyN.
Local Open Scope N_scope.

Lemma finish_no_panic c q s d p : s_fill s < 6 -> finish c q s d <> Panic p.
Proof.
  intros Hf. unfold finish. destruct d; [|discriminate].
  destruct (unarmor c (s_data s) (N.to_nat (s_fill s))) as [u|e|p'] eqn:U; cbn [to_nmea].
  - destruct (msg_parse c q u) as [m|e|p'] eqn:M; try discriminate. exfalso; exact (msg_parse_no_panic _ _ _ _ M).
  - discriminate.
  - exfalso. assert (Hn : (N.to_nat (s_fill s) <= 5)%nat) by lia. exact (unarmor_no_panic c _ _ _ Hn U).
Qed.

Lemma handle_no_panic c q st s d p : s_fill s < 6 -> snd (handle c q st s d) <> Panic p.
Proof.
  intros Hf. unfold handle. destruct (has_more s).
  - rewrite verify_spec. destruct (_ && _); discriminate.
  - destruct (is_fragment s).
    + rewrite verify_spec. destruct (_ && _); cbn [snd]; [|discriminate]. apply finish_no_panic. exact Hf.
    + cbn [snd]. apply finish_no_panic. exact Hf.
Qed.

Theorem step_no_panic c q st line d p : snd (step c q st line d) <> Panic p.
Proof.
  rewrite step_spec. destruct (parse_nmea_sentence c q line) as [[[raw s] ck]|e|p'] eqn:E; cbn [snd]; try discriminate.
  - destruct (_ =? _); [|discriminate]. apply handle_no_panic.
    exact (proj1 (proj2 (proj2 (parse_nmea_facts _ _ _ _ _ _ E)))).
  - exfalso; exact (parse_nmea_no_panic _ _ _ _ E).
Qed.

Theorem run_no_panic c q st h : Forall (fun o => forall p, o <> Panic p) (snd (run c q st h)).
Proof.
  revert st; induction h as [|[line d] h IH]; intros st; cbn [run]; [constructor|].
  pose proof (step_no_panic c q st line d) as Hs.
  destruct (step c q st line d) as [st1 o]. specialize (IH st1). destruct (run c q st1 h) as [st2 os].
  cbn [snd] in *. constructor; assumption.
Qed.

Theorem cli_no_panic q input : Forall (fun r => forall p, r <> RecPanic p) (cli q input).
Proof.
  unfold cli. set (lines := split_lines input).
  pose proof (run_no_panic Std q p_init (map (fun l => (l, true)) lines)) as H.
  destruct (run Std q p_init _) as [st outs]. cbn [snd] in H.
  revert outs H. induction lines as [|l ls IH]; intros outs H; [constructor|].
  destruct outs as [|o os]; [constructor|]. cbn [combine map].
  inversion H as [|? ? Ho Hos]; subst. constructor; [|apply IH; exact Hos].
  unfold cli_record_of. destruct o as [[s|s]|e|p']; try discriminate. exfalso; exact (Ho p' eq_refl).
Qed.
