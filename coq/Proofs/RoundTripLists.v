(* Proofs/RoundTripLists.v — round trips from field values for the message types that end in a list:
   binary / safety acknowledgements (types 7 and 13: one to four destinations) and data link
   management (type 20: one to four reservations).  The list may have any length 1..4; whatever follows
   it must be shorter than one element (byte padding), so that the number of complete elements present
   is the number transmitted. *)
From Ais Require Import Model.Base Model.Enums Model.Fields Model.Messages Spec.Layouts Proofs.Bits Proofs.Encode Proofs.MsgLevel.
From Coq Require Import Lia ZifyNat.
Ltac Zify.zify_post_hook ::= Z.div_mod_to_equations.
Local Open Scope N_scope.

Lemma enc_app a b : enc (a ++ b) = enc a ++ enc b.
Proof. unfold enc. apply flat_map_app. Qed.

Lemma total_width_app a b : total_width (a ++ b) = (total_width a + total_width b)%nat.
Proof. induction a as [|f a IH]; [reflexivity|]. cbn [app total_width]. rewrite IH. lia. Qed.

Lemma in_range_app a b : in_range (a ++ b) <-> in_range a /\ in_range b.
Proof. unfold in_range. apply Forall_app. Qed.

(* reading [k] elements of width [w] out of an encoded list of elements *)
Lemma items_at_enc {A B} (ef : A -> list field) (g : A -> B) (v : list bool -> nat -> B) (w : nat) :
  (forall a, total_width (ef a) = w) ->
  (forall a tail, in_range (ef a) -> v (enc (ef a) ++ tail) 0%nat = g a) ->
  (forall pre bs p, v (pre ++ bs) (length pre + p)%nat = v bs p) ->
  forall l pre post, Forall (fun a => in_range (ef a)) l ->
    items_at v w (enc (pre ++ flat_map ef l) ++ post) (total_width pre) (length l) = map g l.
Proof.
  intros Hw Hread Hshift l. induction l as [|a l IH]; intros pre post Hr; [reflexivity|].
  inversion Hr as [|? ? Ha Hl]; subst. cbn [length items_at map flat_map].
  f_equal.
  - rewrite !enc_app, <- !app_assoc. rewrite <- (enc_length pre), <- (Nat.add_0_r (length (enc pre))).
    rewrite Hshift. apply Hread. exact Ha.
  - replace (w + total_width pre)%nat with (total_width (pre ++ ef a)) by (rewrite total_width_app, Hw; lia).
    rewrite app_assoc. apply IH. exact Hl.
Qed.

Lemma sl_shift pre bs p w : sl (pre ++ bs) (length pre + p) w = sl bs p w.
Proof. rewrite sl_skip_prefix by lia. f_equal. lia. Qed.

(* ---------- types 7 and 13 ---------- *)
Definition ack_fields (a : N * N) : list field := [(30%nat, fst a); (2%nat, snd a)].
Definition ack_of (a : N * N) : acknowledgement := {| ack_mmsi := fst a; ack_seq_num := snd a |}.
Definition head_fields (t rep mmsi spare : N) : list field := [(6%nat, t); (2%nat, rep); (30%nat, mmsi); (2%nat, spare)].

Lemma ack_at_shift pre bs p : ack_at (pre ++ bs) (length pre + p) = ack_at bs p.
Proof.
  unfold ack_at. f_equal; [apply sl_shift|].
  replace (30 + (length pre + p))%nat with (length pre + (30 + p))%nat by lia. apply sl_shift.
Qed.

Lemma ack_at_read a tail : in_range (ack_fields a) -> ack_at (enc (ack_fields a) ++ tail) 0 = ack_of a.
Proof.
  intros Hr. unfold ack_at, ack_of. f_equal.
  - exact (sl_enc _ tail 0 30 _ Hr eq_refl).
  - exact (sl_enc _ tail 30 2 _ Hr eq_refl).
Qed.

Lemma roundtrip_acks c q (K : ack_message -> ais_message) t rep mmsi spare (acks : list (N * N)) post :
  (forall bs, sl bs 0 6 = t -> msg_list c q 40 32 K ack_message_of bs) ->
  in_range (head_fields t rep mmsi spare) -> Forall (fun a => in_range (ack_fields a)) acks ->
  (1 <= length acks <= 4)%nat -> (length post < 32)%nat ->
  parse_bits c q (enc (head_fields t rep mmsi spare ++ flat_map ack_fields acks) ++ post) =
  Ok (K {| am_message_type := t; am_repeat_indicator := rep; am_mmsi := mmsi; am_acks := map ack_of acks |}).
Proof.
  intros HK Hh Ha Hn Hp.
  set (bs := enc (head_fields t rep mmsi spare ++ flat_map ack_fields acks) ++ post).
  assert (Hhead : forall o w v, field_at (head_fields t rep mmsi spare) o w = Some v -> sl bs o w = v).
  { intros o w v Hf. unfold bs. rewrite enc_app, <- app_assoc. exact (sl_enc _ _ o w v Hh Hf). }
  assert (Hlen : length bs = (40 + 32 * length acks + length post)%nat).
  { unfold bs. rewrite app_length, enc_length, total_width_app. cbn [head_fields total_width fst].
    assert (total_width (flat_map ack_fields acks) = 32 * length acks)%nat as ->; [|lia].
    clear. induction acks as [|a l IH]; [reflexivity|]. cbn [flat_map length]. rewrite total_width_app, IH. cbn. lia. }
  pose proof (HK bs (Hhead 0%nat 6%nat t eq_refl)) as H. unfold msg_list in H.
  destruct (Nat.leb_spec (40 + 32) (length bs)); [|lia]. rewrite H. do 2 f_equal.
  unfold ack_message_of. rewrite (Hhead 0%nat 6%nat t eq_refl), (Hhead 6%nat 2%nat rep eq_refl), (Hhead 8%nat 30%nat mmsi eq_refl).
  f_equal.
  replace (Nat.min 4 ((length bs - 40) / 32)) with (length acks) by (rewrite Hlen; lia).
  unfold acks_at, bs. change 40%nat with (total_width (head_fields t rep mmsi spare)).
  apply (items_at_enc ack_fields ack_of ack_at 32); [reflexivity|exact ack_at_read|exact ack_at_shift|exact Ha].
Qed.

Theorem roundtrip_type7 c q rep mmsi spare acks post :
  in_range (head_fields 7 rep mmsi spare) -> Forall (fun a => in_range (ack_fields a)) acks ->
  (1 <= length acks <= 4)%nat -> (length post < 32)%nat ->
  parse_bits c q (enc (head_fields 7 rep mmsi spare ++ flat_map ack_fields acks) ++ post) =
  Ok (BinaryAcknowledgeMessage {| am_message_type := 7; am_repeat_indicator := rep; am_mmsi := mmsi; am_acks := map ack_of acks |}).
Proof. apply roundtrip_acks. intros bs Ht. exact (msg_type7 c q bs Ht). Qed.

Theorem roundtrip_type13 c q rep mmsi spare acks post :
  in_range (head_fields 13 rep mmsi spare) -> Forall (fun a => in_range (ack_fields a)) acks ->
  (1 <= length acks <= 4)%nat -> (length post < 32)%nat ->
  parse_bits c q (enc (head_fields 13 rep mmsi spare ++ flat_map ack_fields acks) ++ post) =
  Ok (SafetyRelatedAcknowledgment {| am_message_type := 13; am_repeat_indicator := rep; am_mmsi := mmsi; am_acks := map ack_of acks |}).
Proof. apply roundtrip_acks. intros bs Ht. exact (msg_type13 c q bs Ht). Qed.

(* ---------- type 20 ---------- *)
Definition reservation_fields (r : N * N * N * N) : list field :=
  let '(o, n, t, i) := r in [(12%nat, o); (4%nat, n); (3%nat, t); (11%nat, i)].
Definition reservation_of (r : N * N * N * N) : slot_reservation :=
  let '(o, n, t, i) := r in {| sr_offset := o; sr_num_slots := n; sr_timeout := t; sr_increment := i |}.

Lemma reservation_at_shift pre bs p : reservation_at (pre ++ bs) (length pre + p) = reservation_at bs p.
Proof.
  unfold reservation_at. f_equal; [apply sl_shift| | |].
  - replace (12 + (length pre + p))%nat with (length pre + (12 + p))%nat by lia. apply sl_shift.
  - replace (16 + (length pre + p))%nat with (length pre + (16 + p))%nat by lia. apply sl_shift.
  - replace (19 + (length pre + p))%nat with (length pre + (19 + p))%nat by lia. apply sl_shift.
Qed.

Lemma reservation_at_read r tail : in_range (reservation_fields r) -> reservation_at (enc (reservation_fields r) ++ tail) 0 = reservation_of r.
Proof.
  destruct r as [[[o n] t] i]. intros Hr. unfold reservation_at, reservation_of. f_equal.
  - exact (sl_enc _ tail 0 12 _ Hr eq_refl).
  - exact (sl_enc _ tail 12 4 _ Hr eq_refl).
  - exact (sl_enc _ tail 16 3 _ Hr eq_refl).
  - exact (sl_enc _ tail 19 11 _ Hr eq_refl).
Qed.

Theorem roundtrip_type20 c q rep mmsi spare (rs : list (N * N * N * N)) post :
  in_range (head_fields 20 rep mmsi spare) -> Forall (fun r => in_range (reservation_fields r)) rs ->
  (1 <= length rs <= 4)%nat -> (length post < 30)%nat ->
  parse_bits c q (enc (head_fields 20 rep mmsi spare ++ flat_map reservation_fields rs) ++ post) =
  Ok (DataLinkManagementMessage {| dl_message_type := 20; dl_repeat_indicator := rep; dl_mmsi := mmsi; dl_reservations := map reservation_of rs |}).
Proof.
  intros Hh Ha Hn Hp.
  set (bs := enc (head_fields 20 rep mmsi spare ++ flat_map reservation_fields rs) ++ post).
  assert (Hhead : forall o w v, field_at (head_fields 20 rep mmsi spare) o w = Some v -> sl bs o w = v).
  { intros o w v Hf. unfold bs. rewrite enc_app, <- app_assoc. exact (sl_enc _ _ o w v Hh Hf). }
  assert (Hlen : length bs = (40 + 30 * length rs + length post)%nat).
  { unfold bs. rewrite app_length, enc_length, total_width_app. cbn [head_fields total_width fst].
    assert (total_width (flat_map reservation_fields rs) = 30 * length rs)%nat as ->; [|lia].
    clear. induction rs as [|[[[o n] t] i] l IH]; [reflexivity|]. cbn [flat_map length]. rewrite total_width_app, IH. cbn. lia. }
  pose proof (msg_type20 c q bs (Hhead 0%nat 6%nat 20 eq_refl)) as H. unfold msg_list in H.
  destruct (Nat.leb_spec (40 + 30) (length bs)); [|lia]. rewrite H. do 2 f_equal.
  unfold data_link_of. rewrite (Hhead 0%nat 6%nat 20 eq_refl), (Hhead 6%nat 2%nat rep eq_refl), (Hhead 8%nat 30%nat mmsi eq_refl).
  f_equal.
  replace (Nat.min 4 ((length bs - 40) / 30)) with (length rs) by (rewrite Hlen; lia).
  unfold reservations_at, bs. change 40%nat with (total_width (head_fields 20 rep mmsi spare)).
  apply (items_at_enc reservation_fields reservation_of reservation_at 30);
    [intros [[[o n] t] i]; reflexivity|exact reservation_at_read|exact reservation_at_shift|exact Ha].
Qed.
