(* Extract.v — extraction of the executable model for the correspondence driver.
   Only ExtrOcamlBasic is used: nat, N, Z, positive stay Coq's inductive datatypes. *)
From Coq Require Import Extraction ExtrOcamlBasic.
From Ais Require Import Model.Base Model.Enums Model.Fields Model.Messages Model.Unarmor
  Model.Sentence Model.Canon Model.F32Eval Model.NomBits Model.NomBytes.
Extraction Language OCaml.
Extraction "model.ml"
  cfg quirks quirks_asis quirks_off
  unarmor msg_parse step run p_init cli
  t_step t_unarmor t_msg t_state t_conv t_shiptype t_cli
  fbits N.of_nat N.to_nat Z.of_N nom_take
  parse_u8_digit_lib hex_u32_nom from_str_u8.
