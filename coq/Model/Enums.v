(* Model/Enums.v — transcription of the large enumerations (types.rs, position_report.rs,
   aid_to_navigation_report.rs).  First written by tools/gen_enums.py, maintained by hand. *)
From Ais Require Import Model.Base.
Local Open Scope N_scope.

Inductive ship_type :=
| ST_Reserved (c : N)
| ST_WingInGround
| ST_WingInGroundHazardousCategoryA
| ST_WingInGroundHazardousCategoryB
| ST_WingInGroundHazardousCategoryC
| ST_WingInGroundHazardousCategoryD
| ST_WingInGroundReserved (c : N)
| ST_Fishing
| ST_Towing
| ST_TowingLarge
| ST_Dredging
| ST_DivingOps
| ST_MilitaryOps
| ST_Sailing
| ST_PleasureCraft
| ST_HighSpeedCraft
| ST_HighSpeedCraftHazardousCategoryA
| ST_HighSpeedCraftHazardousCategoryB
| ST_HighSpeedCraftHazardousCategoryC
| ST_HighSpeedCraftHazardousCategoryD
| ST_HighSpeedCraftReserved (c : N)
| ST_HighSpeedCraftNoAdditionalInformation
| ST_PilotVessel
| ST_SearchAndRescueVessel
| ST_Tug
| ST_PortTender
| ST_AntiPollutionEquipment
| ST_LawEnforcement
| ST_SpareLocalVessel (c : N)
| ST_MedicalTransport
| ST_NoncombatantShip
| ST_Passenger
| ST_PassengerHazardousCategoryA
| ST_PassengerHazardousCategoryB
| ST_PassengerHazardousCategoryC
| ST_PassengerHazardousCategoryD
| ST_PassengerReserved (c : N)
| ST_PassengerNoAdditionalInformation
| ST_Cargo
| ST_CargoHazardousCategoryA
| ST_CargoHazardousCategoryB
| ST_CargoHazardousCategoryC
| ST_CargoHazardousCategoryD
| ST_CargoReserved (c : N)
| ST_CargoNoAdditionalInformation
| ST_Tanker
| ST_TankerHazardousCategoryA
| ST_TankerHazardousCategoryB
| ST_TankerHazardousCategoryC
| ST_TankerHazardousCategoryD
| ST_TankerReserved (c : N)
| ST_TankerNoAdditionalInformation
| ST_Other
| ST_OtherHazardousCategoryA
| ST_OtherHazardousCategoryB
| ST_OtherHazardousCategoryC
| ST_OtherHazardousCategoryD
| ST_OtherReserved (c : N)
| ST_OtherNoAdditionalInformation.

(* ShipType::parse — one test per match arm, in source order *)
Definition ship_type_parse (d : N) : option ship_type :=
  if (d =? 0) then None else
  if ((1 <=? d) && (d <=? 19)) then Some (ST_Reserved d) else
  if (d =? 20) then Some (ST_WingInGround) else
  if (d =? 21) then Some (ST_WingInGroundHazardousCategoryA) else
  if (d =? 22) then Some (ST_WingInGroundHazardousCategoryB) else
  if (d =? 23) then Some (ST_WingInGroundHazardousCategoryC) else
  if (d =? 24) then Some (ST_WingInGroundHazardousCategoryD) else
  if ((25 <=? d) && (d <=? 29)) then Some (ST_WingInGroundReserved d) else
  if (d =? 30) then Some (ST_Fishing) else
  if (d =? 31) then Some (ST_Towing) else
  if (d =? 32) then Some (ST_TowingLarge) else
  if (d =? 33) then Some (ST_Dredging) else
  if (d =? 34) then Some (ST_DivingOps) else
  if (d =? 35) then Some (ST_MilitaryOps) else
  if (d =? 36) then Some (ST_Sailing) else
  if (d =? 37) then Some (ST_PleasureCraft) else
  if ((38 <=? d) && (d <=? 39)) then Some (ST_Reserved d) else
  if (d =? 40) then Some (ST_HighSpeedCraft) else
  if (d =? 41) then Some (ST_HighSpeedCraftHazardousCategoryA) else
  if (d =? 42) then Some (ST_HighSpeedCraftHazardousCategoryB) else
  if (d =? 43) then Some (ST_HighSpeedCraftHazardousCategoryC) else
  if (d =? 44) then Some (ST_HighSpeedCraftHazardousCategoryD) else
  if ((45 <=? d) && (d <=? 48)) then Some (ST_HighSpeedCraftReserved d) else
  if (d =? 49) then Some (ST_HighSpeedCraftNoAdditionalInformation) else
  if (d =? 50) then Some (ST_PilotVessel) else
  if (d =? 51) then Some (ST_SearchAndRescueVessel) else
  if (d =? 52) then Some (ST_Tug) else
  if (d =? 53) then Some (ST_PortTender) else
  if (d =? 54) then Some (ST_AntiPollutionEquipment) else
  if (d =? 55) then Some (ST_LawEnforcement) else
  if ((56 <=? d) && (d <=? 57)) then Some (ST_SpareLocalVessel d) else
  if (d =? 58) then Some (ST_MedicalTransport) else
  if (d =? 59) then Some (ST_NoncombatantShip) else
  if (d =? 60) then Some (ST_Passenger) else
  if (d =? 61) then Some (ST_PassengerHazardousCategoryA) else
  if (d =? 62) then Some (ST_PassengerHazardousCategoryB) else
  if (d =? 63) then Some (ST_PassengerHazardousCategoryC) else
  if (d =? 64) then Some (ST_PassengerHazardousCategoryD) else
  if ((65 <=? d) && (d <=? 68)) then Some (ST_PassengerReserved d) else
  if (d =? 69) then Some (ST_PassengerNoAdditionalInformation) else
  if (d =? 70) then Some (ST_Cargo) else
  if (d =? 71) then Some (ST_CargoHazardousCategoryA) else
  if (d =? 72) then Some (ST_CargoHazardousCategoryB) else
  if (d =? 73) then Some (ST_CargoHazardousCategoryC) else
  if (d =? 74) then Some (ST_CargoHazardousCategoryD) else
  if ((75 <=? d) && (d <=? 78)) then Some (ST_CargoReserved d) else
  if (d =? 79) then Some (ST_CargoNoAdditionalInformation) else
  if (d =? 80) then Some (ST_Tanker) else
  if (d =? 81) then Some (ST_TankerHazardousCategoryA) else
  if (d =? 82) then Some (ST_TankerHazardousCategoryB) else
  if (d =? 83) then Some (ST_TankerHazardousCategoryC) else
  if (d =? 84) then Some (ST_TankerHazardousCategoryD) else
  if ((85 <=? d) && (d <=? 88)) then Some (ST_TankerReserved d) else
  if (d =? 89) then Some (ST_TankerNoAdditionalInformation) else
  if (d =? 90) then Some (ST_Other) else
  if (d =? 91) then Some (ST_OtherHazardousCategoryA) else
  if (d =? 92) then Some (ST_OtherHazardousCategoryB) else
  if (d =? 93) then Some (ST_OtherHazardousCategoryC) else
  if (d =? 94) then Some (ST_OtherHazardousCategoryD) else
  if ((95 <=? d) && (d <=? 98)) then Some (ST_OtherReserved d) else
  if (d =? 99) then Some (ST_OtherNoAdditionalInformation) else
  if ((100 <=? d) && (d <=? 255)) then None else
  None.

(* constructor index in declaration order, and the carried code if any *)
Definition ship_type_index (v : ship_type) : N * option N :=
  match v with
  | ST_Reserved c => (0, Some c)
  | ST_WingInGround => (1, None)
  | ST_WingInGroundHazardousCategoryA => (2, None)
  | ST_WingInGroundHazardousCategoryB => (3, None)
  | ST_WingInGroundHazardousCategoryC => (4, None)
  | ST_WingInGroundHazardousCategoryD => (5, None)
  | ST_WingInGroundReserved c => (6, Some c)
  | ST_Fishing => (7, None)
  | ST_Towing => (8, None)
  | ST_TowingLarge => (9, None)
  | ST_Dredging => (10, None)
  | ST_DivingOps => (11, None)
  | ST_MilitaryOps => (12, None)
  | ST_Sailing => (13, None)
  | ST_PleasureCraft => (14, None)
  | ST_HighSpeedCraft => (15, None)
  | ST_HighSpeedCraftHazardousCategoryA => (16, None)
  | ST_HighSpeedCraftHazardousCategoryB => (17, None)
  | ST_HighSpeedCraftHazardousCategoryC => (18, None)
  | ST_HighSpeedCraftHazardousCategoryD => (19, None)
  | ST_HighSpeedCraftReserved c => (20, Some c)
  | ST_HighSpeedCraftNoAdditionalInformation => (21, None)
  | ST_PilotVessel => (22, None)
  | ST_SearchAndRescueVessel => (23, None)
  | ST_Tug => (24, None)
  | ST_PortTender => (25, None)
  | ST_AntiPollutionEquipment => (26, None)
  | ST_LawEnforcement => (27, None)
  | ST_SpareLocalVessel c => (28, Some c)
  | ST_MedicalTransport => (29, None)
  | ST_NoncombatantShip => (30, None)
  | ST_Passenger => (31, None)
  | ST_PassengerHazardousCategoryA => (32, None)
  | ST_PassengerHazardousCategoryB => (33, None)
  | ST_PassengerHazardousCategoryC => (34, None)
  | ST_PassengerHazardousCategoryD => (35, None)
  | ST_PassengerReserved c => (36, Some c)
  | ST_PassengerNoAdditionalInformation => (37, None)
  | ST_Cargo => (38, None)
  | ST_CargoHazardousCategoryA => (39, None)
  | ST_CargoHazardousCategoryB => (40, None)
  | ST_CargoHazardousCategoryC => (41, None)
  | ST_CargoHazardousCategoryD => (42, None)
  | ST_CargoReserved c => (43, Some c)
  | ST_CargoNoAdditionalInformation => (44, None)
  | ST_Tanker => (45, None)
  | ST_TankerHazardousCategoryA => (46, None)
  | ST_TankerHazardousCategoryB => (47, None)
  | ST_TankerHazardousCategoryC => (48, None)
  | ST_TankerHazardousCategoryD => (49, None)
  | ST_TankerReserved c => (50, Some c)
  | ST_TankerNoAdditionalInformation => (51, None)
  | ST_Other => (52, None)
  | ST_OtherHazardousCategoryA => (53, None)
  | ST_OtherHazardousCategoryB => (54, None)
  | ST_OtherHazardousCategoryC => (55, None)
  | ST_OtherHazardousCategoryD => (56, None)
  | ST_OtherReserved c => (57, Some c)
  | ST_OtherNoAdditionalInformation => (58, None)
  end.

Inductive navaid_type :=
| NT_ReferencePoint
| NT_Racon
| NT_FixedStructureOffShore
| NT_Spare
| NT_LightWithoutSectors
| NT_LightWithSectors
| NT_LeadingLightFront
| NT_LeadingLightRear
| NT_BeaconCardinalN
| NT_BeaconCardinalE
| NT_BeaconCardinalS
| NT_BeaconCardinalW
| NT_BeaconPortHand
| NT_BeaconStarboardHand
| NT_BeaconPreferredChannelPortHand
| NT_BeaconPreferredChannelStarboardHand
| NT_BeaconIsolatedDanger
| NT_BeaconSafeWater
| NT_BeaconSpecialMark
| NT_CardinalMarkN
| NT_CardinalMarkE
| NT_CardinalMarkS
| NT_CardinalMarkW
| NT_PortHandMark
| NT_StarboardHandMark
| NT_PreferredChannelPortHand
| NT_PreferredChannelStarboardHand
| NT_IsolatedDanger
| NT_SafeWater
| NT_SpecialMark
| NT_LightVesselOrLanbyOrRigs
| NT_Unknown (c : N).

(* NavaidType::parse — one test per match arm, in source order *)
Definition navaid_type_parse (d : N) : option navaid_type :=
  if (d =? 0) then None else
  if (d =? 1) then Some (NT_ReferencePoint) else
  if (d =? 2) then Some (NT_Racon) else
  if (d =? 3) then Some (NT_FixedStructureOffShore) else
  if (d =? 4) then Some (NT_Spare) else
  if (d =? 5) then Some (NT_LightWithoutSectors) else
  if (d =? 6) then Some (NT_LightWithSectors) else
  if (d =? 7) then Some (NT_LeadingLightFront) else
  if (d =? 8) then Some (NT_LeadingLightRear) else
  if (d =? 9) then Some (NT_BeaconCardinalN) else
  if (d =? 10) then Some (NT_BeaconCardinalE) else
  if (d =? 11) then Some (NT_BeaconCardinalS) else
  if (d =? 12) then Some (NT_BeaconCardinalW) else
  if (d =? 13) then Some (NT_BeaconPortHand) else
  if (d =? 14) then Some (NT_BeaconStarboardHand) else
  if (d =? 15) then Some (NT_BeaconPreferredChannelPortHand) else
  if (d =? 16) then Some (NT_BeaconPreferredChannelStarboardHand) else
  if (d =? 17) then Some (NT_BeaconIsolatedDanger) else
  if (d =? 18) then Some (NT_BeaconSafeWater) else
  if (d =? 19) then Some (NT_BeaconSpecialMark) else
  if (d =? 20) then Some (NT_CardinalMarkN) else
  if (d =? 21) then Some (NT_CardinalMarkE) else
  if (d =? 22) then Some (NT_CardinalMarkS) else
  if (d =? 23) then Some (NT_CardinalMarkW) else
  if (d =? 24) then Some (NT_PortHandMark) else
  if (d =? 25) then Some (NT_StarboardHandMark) else
  if (d =? 26) then Some (NT_PreferredChannelPortHand) else
  if (d =? 27) then Some (NT_PreferredChannelStarboardHand) else
  if (d =? 28) then Some (NT_IsolatedDanger) else
  if (d =? 29) then Some (NT_SafeWater) else
  if (d =? 30) then Some (NT_SpecialMark) else
  if (d =? 31) then Some (NT_LightVesselOrLanbyOrRigs) else
  Some (NT_Unknown d).

(* constructor index in declaration order, and the carried code if any *)
Definition navaid_type_index (v : navaid_type) : N * option N :=
  match v with
  | NT_ReferencePoint => (0, None)
  | NT_Racon => (1, None)
  | NT_FixedStructureOffShore => (2, None)
  | NT_Spare => (3, None)
  | NT_LightWithoutSectors => (4, None)
  | NT_LightWithSectors => (5, None)
  | NT_LeadingLightFront => (6, None)
  | NT_LeadingLightRear => (7, None)
  | NT_BeaconCardinalN => (8, None)
  | NT_BeaconCardinalE => (9, None)
  | NT_BeaconCardinalS => (10, None)
  | NT_BeaconCardinalW => (11, None)
  | NT_BeaconPortHand => (12, None)
  | NT_BeaconStarboardHand => (13, None)
  | NT_BeaconPreferredChannelPortHand => (14, None)
  | NT_BeaconPreferredChannelStarboardHand => (15, None)
  | NT_BeaconIsolatedDanger => (16, None)
  | NT_BeaconSafeWater => (17, None)
  | NT_BeaconSpecialMark => (18, None)
  | NT_CardinalMarkN => (19, None)
  | NT_CardinalMarkE => (20, None)
  | NT_CardinalMarkS => (21, None)
  | NT_CardinalMarkW => (22, None)
  | NT_PortHandMark => (23, None)
  | NT_StarboardHandMark => (24, None)
  | NT_PreferredChannelPortHand => (25, None)
  | NT_PreferredChannelStarboardHand => (26, None)
  | NT_IsolatedDanger => (27, None)
  | NT_SafeWater => (28, None)
  | NT_SpecialMark => (29, None)
  | NT_LightVesselOrLanbyOrRigs => (30, None)
  | NT_Unknown c => (31, Some c)
  end.

Inductive nav_status :=
| NS_UnderWayUsingEngine
| NS_AtAnchor
| NS_NotUnderCommand
| NS_RestrictedManouverability
| NS_ConstrainedByDraught
| NS_Moored
| NS_Aground
| NS_EngagedInFishing
| NS_UnderWaySailing
| NS_ReservedForHSC
| NS_ReservedForWIG
| NS_Reserved01
| NS_Reserved02
| NS_Reserved03
| NS_AisSartIsActive
| NS_Unknown (c : N).

(* NavigationStatus::parse — one test per match arm, in source order *)
Definition nav_status_parse (d : N) : option nav_status :=
  if (d =? 0) then Some (NS_UnderWayUsingEngine) else
  if (d =? 1) then Some (NS_AtAnchor) else
  if (d =? 2) then Some (NS_NotUnderCommand) else
  if (d =? 3) then Some (NS_RestrictedManouverability) else
  if (d =? 4) then Some (NS_ConstrainedByDraught) else
  if (d =? 5) then Some (NS_Moored) else
  if (d =? 6) then Some (NS_Aground) else
  if (d =? 7) then Some (NS_EngagedInFishing) else
  if (d =? 8) then Some (NS_UnderWaySailing) else
  if (d =? 9) then Some (NS_ReservedForHSC) else
  if (d =? 10) then Some (NS_ReservedForWIG) else
  if (d =? 11) then Some (NS_Reserved01) else
  if (d =? 12) then Some (NS_Reserved02) else
  if (d =? 13) then Some (NS_Reserved03) else
  if (d =? 14) then Some (NS_AisSartIsActive) else
  if (d =? 15) then None else
  Some (NS_Unknown d).

(* constructor index in declaration order, and the carried code if any *)
Definition nav_status_index (v : nav_status) : N * option N :=
  match v with
  | NS_UnderWayUsingEngine => (0, None)
  | NS_AtAnchor => (1, None)
  | NS_NotUnderCommand => (2, None)
  | NS_RestrictedManouverability => (3, None)
  | NS_ConstrainedByDraught => (4, None)
  | NS_Moored => (5, None)
  | NS_Aground => (6, None)
  | NS_EngagedInFishing => (7, None)
  | NS_UnderWaySailing => (8, None)
  | NS_ReservedForHSC => (9, None)
  | NS_ReservedForWIG => (10, None)
  | NS_Reserved01 => (11, None)
  | NS_Reserved02 => (12, None)
  | NS_Reserved03 => (13, None)
  | NS_AisSartIsActive => (14, None)
  | NS_Unknown c => (15, Some c)
  end.

Inductive epfd_type :=
| EP_Gps
| EP_Glonass
| EP_CombinedGpsAndGlonass
| EP_LoranC
| EP_Chayka
| EP_IntegratedNavigationSystem
| EP_Surveyed
| EP_Galileo
| EP_Unknown (c : N).

(* EpfdType::parse — one test per match arm, in source order *)
Definition epfd_type_parse (d : N) : option epfd_type :=
  if (d =? 0) then None else
  if (d =? 1) then Some (EP_Gps) else
  if (d =? 2) then Some (EP_Glonass) else
  if (d =? 3) then Some (EP_CombinedGpsAndGlonass) else
  if (d =? 4) then Some (EP_LoranC) else
  if (d =? 5) then Some (EP_Chayka) else
  if (d =? 6) then Some (EP_IntegratedNavigationSystem) else
  if (d =? 7) then Some (EP_Surveyed) else
  if (d =? 8) then Some (EP_Galileo) else
  if (d =? 15) then None else
  Some (EP_Unknown d).

(* constructor index in declaration order, and the carried code if any *)
Definition epfd_type_index (v : epfd_type) : N * option N :=
  match v with
  | EP_Gps => (0, None)
  | EP_Glonass => (1, None)
  | EP_CombinedGpsAndGlonass => (2, None)
  | EP_LoranC => (3, None)
  | EP_Chayka => (4, None)
  | EP_IntegratedNavigationSystem => (5, None)
  | EP_Surveyed => (6, None)
  | EP_Galileo => (7, None)
  | EP_Unknown c => (8, Some c)
  end.

(* impl From<ShipType> for u8 *)
Definition ship_type_to_u8 (v : ship_type) : N :=
  match v with
  | ST_Reserved c => c
  | ST_WingInGround => 20
  | ST_WingInGroundHazardousCategoryA => 21
  | ST_WingInGroundHazardousCategoryB => 22
  | ST_WingInGroundHazardousCategoryC => 23
  | ST_WingInGroundHazardousCategoryD => 24
  | ST_WingInGroundReserved c => c
  | ST_Fishing => 30
  | ST_Towing => 31
  | ST_TowingLarge => 32
  | ST_Dredging => 33
  | ST_DivingOps => 34
  | ST_MilitaryOps => 35
  | ST_Sailing => 36
  | ST_PleasureCraft => 37
  | ST_HighSpeedCraft => 40
  | ST_HighSpeedCraftHazardousCategoryA => 41
  | ST_HighSpeedCraftHazardousCategoryB => 42
  | ST_HighSpeedCraftHazardousCategoryC => 43
  | ST_HighSpeedCraftHazardousCategoryD => 44
  | ST_HighSpeedCraftReserved c => c
  | ST_HighSpeedCraftNoAdditionalInformation => 49
  | ST_PilotVessel => 50
  | ST_SearchAndRescueVessel => 51
  | ST_Tug => 52
  | ST_PortTender => 53
  | ST_AntiPollutionEquipment => 54
  | ST_LawEnforcement => 55
  | ST_SpareLocalVessel c => c
  | ST_MedicalTransport => 58
  | ST_NoncombatantShip => 59
  | ST_Passenger => 60
  | ST_PassengerHazardousCategoryA => 61
  | ST_PassengerHazardousCategoryB => 62
  | ST_PassengerHazardousCategoryC => 63
  | ST_PassengerHazardousCategoryD => 64
  | ST_PassengerReserved c => c
  | ST_PassengerNoAdditionalInformation => 69
  | ST_Cargo => 70
  | ST_CargoHazardousCategoryA => 71
  | ST_CargoHazardousCategoryB => 72
  | ST_CargoHazardousCategoryC => 73
  | ST_CargoHazardousCategoryD => 74
  | ST_CargoReserved c => c
  | ST_CargoNoAdditionalInformation => 79
  | ST_Tanker => 80
  | ST_TankerHazardousCategoryA => 81
  | ST_TankerHazardousCategoryB => 82
  | ST_TankerHazardousCategoryC => 83
  | ST_TankerHazardousCategoryD => 84
  | ST_TankerReserved c => c
  | ST_TankerNoAdditionalInformation => 89
  | ST_Other => 90
  | ST_OtherHazardousCategoryA => 91
  | ST_OtherHazardousCategoryB => 92
  | ST_OtherHazardousCategoryC => 93
  | ST_OtherHazardousCategoryD => 94
  | ST_OtherReserved c => c
  | ST_OtherNoAdditionalInformation => 99
  end.
