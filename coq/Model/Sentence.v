(* Model/Sentence.v — src/sentence.rs: the NMEA sentence grammar (nom byte combinators at the
   semantic level), the checksum, and the AisParser reassembly state machine. *)
From Ais Require Import Model.Base Model.Enums Model.Fields Model.Messages Model.Unarmor.
Local Open Scope N_scope.

Inductive talker := AB | AD | AI | AN | AR | AS | AT | AX | BS | SA | TalkerUnknown.
Inductive report := VDM | VDO | ReportUnknown.

(* impl From<&[u8]> for TalkerId / AisReportType *)
Definition talker_of (a b : N) : talker :=
  if (a =? 65) && (b =? 66) then AB
  else if (a =? 65) && (b =? 68) then AD
  else if (a =? 65) && (b =? 73) then AI
  else if (a =? 65) && (b =? 78) then AN
  else if (a =? 65) && (b =? 82) then AR
  else if (a =? 65) && (b =? 83) then AS
  else if (a =? 65) && (b =? 84) then AT
  else if (a =? 65) && (b =? 88) then AX
  else if (a =? 66) && (b =? 83) then BS
  else if (a =? 83) && (b =? 65) then SA
  else TalkerUnknown.
Definition report_of (a b c : N) : report :=
  if (a =? 86) && (b =? 68) && (c =? 77) then VDM
  else if (a =? 86) && (b =? 68) && (c =? 79) then VDO
  else ReportUnknown.

Record sentence := {
  s_talker : talker;
  s_report : report;
  s_num_fragments : N;
  s_fragment_number : N;
  s_message_id : option N;
  s_channel : option N;          (* code point of the char *)
  s_data : list N;
  s_fill : N;
  s_message_type : N;
  s_message : option ais_message }.

Definition has_more (s : sentence) : bool := s_fragment_number s <? s_num_fragments s.
Definition is_fragment (s : sentence) : bool := negb (s_num_fragments s =? 1).

(* ---------- nom byte-level combinators, as used ---------- *)
Definition B (A : Type) := res (A * list N).

(* tag(<one byte>) *)
Definition tag1 (c : N) (l : list N) : B unit :=
  match l with
  | x :: r => if x =? c then Ok (tt, r) else Err EError
  | [] => Err EError
  end.

(* take_until(<one byte>): the prefix before the first occurrence, which is not consumed *)
Fixpoint take_until (c : N) (l : list N) : option (list N * list N) :=
  match l with
  | [] => None
  | x :: r =>
    if x =? c then Some ([], l)
    else match take_until c r with Some (a, b) => Some (x :: a, b) | None => None end
  end.

Fixpoint span (f : N -> bool) (l : list N) : list N * list N :=
  match l with
  | [] => ([], [])
  | x :: r => if f x then let '(a, b) := span f r in (x :: a, b) else ([], l)
  end.

Definition is_digit (c : N) : bool := (48 <=? c) && (c <=? 57).
Definition dec_value (ds : list N) : N := fold_left (fun acc d => 10 * acc + (d - 48)) ds 0.

(* parse_u8_digit = map_res(map_res(digit1, from_utf8), u8::from_str): any number of leading
   zeros, value at most 255; every failure is a recoverable Error *)
Definition parse_u8_digit (l : list N) : B N :=
  let '(ds, r) := span is_digit l in
  match ds with
  | [] => Err EError
  | _ => if dec_value ds <=? 255 then Ok (dec_value ds, r) else Err EError
  end.

(* opt(parse_u8_digit) *)
Definition opt_u8_digit (l : list N) : B (option N) :=
  match parse_u8_digit l with
  | Ok (v, r) => Ok (Some v, r)
  | Err EError => Ok (None, l)
  | Err e => Err e
  | Panic s => Panic s
  end.

Definition is_hex (c : N) : bool :=
  ((48 <=? c) && (c <=? 57)) || ((97 <=? c) && (c <=? 102)) || ((65 <=? c) && (c <=? 70)).
Definition hex_digit (c : N) : N :=
  if c <=? 57 then c - 48 else if c <=? 70 then c - 55 else c - 87.
Definition hex_value (ds : list N) : N := fold_left (fun acc d => 16 * acc + hex_digit d) ds 0.

(* nom::number::complete::hex_u32: is_a(hex digits), at most the first eight are read *)
Definition hex_u32 (l : list N) : B N :=
  let '(ds, r) := span is_hex l in
  match ds with
  | [] => Err EError
  | _ =>
    if (length ds <=? 8)%nat then Ok (hex_value ds, r)
    else Ok (hex_value (firstn 8 l), skipn 8 l)
  end.

(* messages::message_type(ais_data) on the armoured payload: the first six bits of its first
   byte (q19 = true, the tree as it is); with the finding repaired, the value of the first
   armouring character *)
Definition sentence_message_type (q : quirks) (ais_data : list N) : res N :=
  match ais_data with
  | [] => Err EError
  | b :: _ =>
    if q19_type_from_armored q then Ok ((b / 4) mod 64)
    else Ok (match armor_value b with Some v => v | None => (b / 4) mod 64 end)
  end.

(* parse_ais_sentence *)
Definition parse_ais_sentence (c : cfg) (q : quirks) (data : list N) : B sentence :=
  match data with
  | t1 :: t2 :: r1 :: r2 :: r3 :: data =>          (* take(2u8), take(3u8) *)
    rbind (tag1 44 data) (fun '(_, data) =>
    rbind (parse_u8_digit data) (fun '(num_fragments, data) =>
    rbind (tag1 44 data) (fun '(_, data) =>
    rbind (parse_u8_digit data) (fun '(fragment_number, data) =>
    rbind (tag1 44 data) (fun '(_, data) =>
    rbind (opt_u8_digit data) (fun '(message_id, data) =>
    rbind (tag1 44 data) (fun '(_, data) =>
    match take_until 44 data with
    | None => Err EError
    | Some (channel_bytes, data) =>
      let channel := match channel_bytes with [] => None | ch :: _ => Some ch end in   (* opt(anychar) *)
      rbind (tag1 44 data) (fun '(_, data) =>
      match take_until 44 data with
      | None => Err EError
      | Some (ais_data, data) =>
        rbind (tag1 44 data) (fun '(_, data) =>
        rbind (parse_u8_digit data) (fun '(fill_bit_count, data) =>
        if negb (fill_bit_count <? 6) then Err EError          (* verify(.., |val| *val < 6) *)
        else
        rbind (sentence_message_type q ais_data) (fun message_type =>
        if noalloc c && (MAX_SENTENCE_SIZE_BYTES <? length ais_data)%nat then Err EFailure
        else
          Ok ({| s_talker := talker_of t1 t2; s_report := report_of r1 r2 r3;
                 s_num_fragments := num_fragments; s_fragment_number := fragment_number;
                 s_message_id := message_id; s_channel := channel; s_data := ais_data;
                 s_fill := fill_bit_count; s_message_type := message_type;
                 s_message := None |}, data))))
      end)
    end)))))))
  | _ => Err EError
  end.

(* opt(delimited(tag("\\"), take_until("\\"), tag("\\"))) *)
Definition skip_tag_block (line : list N) : list N :=
  match line with
  | x :: r =>
    if x =? 92 then
      match take_until 92 r with
      | Some (_, _ :: r') => r'      (* take_until stops in front of the closing backslash *)
      | _ => line
      end
    else line
  | [] => line
  end.

(* parse_nmea_sentence: (raw, sentence, checksum) *)
Definition parse_nmea_sentence (c : cfg) (q : quirks) (line : list N) : res (list N * sentence * N) :=
  let data := skip_tag_block line in
  match data with
  | d :: data =>
    if (d =? 33) || (d =? 36) then                                  (* alt((tag("!"), tag("$"))) *)
      match take_until 42 data with                                 (* peek(take_until("*")) *)
      | None => Err EError
      | Some (raw, _) =>
        rbind (parse_ais_sentence c q data) (fun '(msg, rest) =>
        rbind (tag1 42 rest) (fun '(_, rest) =>
        (* D11 repair: the '*' that ends the fields must be the first one *)
        if negb (length data - length rest =? length raw + 1)%nat then Err EError
        else
        rbind (hex_u32 rest) (fun '(checksum, _) =>
        if negb (checksum <=? 255) then Err EError
        else Ok (raw, msg, checksum))))
      end
    else Err EError
  | [] => Err EError
  end.

(* ---------- AisParser ---------- *)
Record pstate := { p_id : option N; p_fn : N; p_data : list N }.
Definition p_init := {| p_id := None; p_fn := 0; p_data := [] |}.

Inductive frag := Complete (s : sentence) | Incomplete (s : sentence).

(* verify_and_extend_data (after the D1 and D10 repairs) *)
Definition verify_and_extend (c : cfg) (st : pstate) (s : sentence) : pstate * res unit :=
  if negb (opt_eqb (p_id st) (s_message_id s)) then (st, Err ENmea)
  else if negb (s_fragment_number s =? p_fn st + 1) then (st, Err ENmea)     (* checked_sub != Some(1) *)
  else if noalloc c && (MAX_SENTENCE_SIZE_BYTES <? length (p_data st) + length (s_data s))%nat
       then (st, Err ENmea)                                                   (* heapless extend_from_slice *)
  else ({| p_id := p_id st; p_fn := s_fragment_number s; p_data := p_data st ++ s_data s |}, Ok tt).

Definition with_data (s : sentence) (d : list N) : sentence :=
  {| s_talker := s_talker s; s_report := s_report s; s_num_fragments := s_num_fragments s;
     s_fragment_number := s_fragment_number s; s_message_id := s_message_id s;
     s_channel := s_channel s; s_data := d; s_fill := s_fill s;
     s_message_type := s_message_type s; s_message := s_message s |}.
Definition with_message (s : sentence) (m : option ais_message) : sentence :=
  {| s_talker := s_talker s; s_report := s_report s; s_num_fragments := s_num_fragments s;
     s_fragment_number := s_fragment_number s; s_message_id := s_message_id s;
     s_channel := s_channel s; s_data := s_data s; s_fill := s_fill s;
     s_message_type := s_message_type s; s_message := m |}.

(* the tail of AisParser::parse for a sentence that is not waiting for more fragments *)
Definition finish (c : cfg) (q : quirks) (s : sentence) (decode : bool) : res frag :=
  if decode then
    match to_nmea (unarmor c (s_data s) (N.to_nat (s_fill s))) with
    | Ok unarmored =>
      match msg_parse c q unarmored with
      | Ok m => Ok (Complete (with_message s (Some m)))
      | Err e => Err e
      | Panic p => Panic p
      end
    | Err e => Err e
    | Panic p => Panic p
    end
  else Ok (Complete s).

(* what AisParser::parse does once the sentence is parsed and its checksum verified *)
Definition handle (c : cfg) (q : quirks) (st : pstate) (s : sentence) (decode : bool) : pstate * res frag :=
  if has_more s then
    let st1 := if s_fragment_number s =? 1
               then {| p_id := s_message_id s; p_fn := 0; p_data := [] |}
               else st in
    match verify_and_extend c st1 s with
    | (st2, Ok _) => (st2, Ok (Incomplete s))
    | (st2, Err e) => (st2, Err e)
    | (st2, Panic p) => (st2, Panic p)
    end
  else if is_fragment s then
    match verify_and_extend c st s with
    | (st2, Ok _) =>
      (* swap the accumulated data out; D4 repair: close the group *)
      ({| p_id := p_id st2; p_fn := 0; p_data := [] |}, finish c q (with_data s (p_data st2)) decode)
    | (st2, Err e) => (st2, Err e)
    | (st2, Panic p) => (st2, Panic p)
    end
  else (st, finish c q s decode).

(* AisParser::parse(&mut self, line, decode) *)
Definition step (c : cfg) (q : quirks) (st : pstate) (line : list N) (decode : bool) : pstate * res frag :=
  match parse_nmea_sentence c q line with
  | Err _ => (st, Err ENmea)
  | Panic p => (st, Panic p)
  | Ok (raw, s, checksum) =>
    let received := xor_fold raw in
    if negb (checksum =? received) then (st, Err (EChecksum checksum received))
    else handle c q st s decode
  end.

(* a history: lines with their decode flags, fed to one parser *)
Fixpoint run (c : cfg) (q : quirks) (st : pstate) (h : list (list N * bool)) : pstate * list (res frag) :=
  match h with
  | [] => (st, [])
  | (line, decode) :: h' =>
    let '(st1, o) := step c q st line decode in
    let '(st2, os) := run c q st1 h' in
    (st2, o :: os)
  end.

(* impl From<AisFragments> for Option<AisSentence> / Result<AisSentence> *)
Definition frag_to_option (f : frag) : option sentence :=
  match f with Complete s => Some s | Incomplete _ => None end.
Definition frag_to_result (f : frag) : res sentence :=
  match f with Complete s => Ok s | Incomplete _ => Err ENmea end.

(* ---------- src/bin/aisparser.rs ---------- *)
(* BufRead::split(b'\n'): segments between newlines; a final empty segment is not produced *)
Fixpoint split_lines_aux (cur : list N) (l : list N) : list (list N) :=
  match l with
  | [] => match cur with [] => [] | _ => [rev_append cur []] end
  | x :: r => if x =? 10 then rev_append cur [] :: split_lines_aux [] r else split_lines_aux (x :: cur) r
  end.
Definition split_lines (input : list N) : list (list N) := split_lines_aux [] input.

Inductive cli_record :=
| RecOut (line : list N) (m : option ais_message)   (* println! of a completed message *)
| RecErr (line : list N) (e : err)                  (* eprintln! of a rejected line *)
| RecNone                                           (* incomplete fragment: nothing *)
| RecPanic (site : N).

Definition cli_record_of (line : list N) (o : res frag) : cli_record :=
  match o with
  | Ok (Complete s) => RecOut line (s_message s)
  | Ok (Incomplete _) => RecNone
  | Err e => RecErr line e
  | Panic p => RecPanic p
  end.

Definition cli (q : quirks) (input : list N) : list cli_record :=
  let lines := split_lines input in
  let '(_, outs) := run Std q p_init (map (fun l => (l, true)) lines) in
  map (fun '(l, o) => cli_record_of l o) (combine lines outs).
