(* Model/F32Eval.v — evaluation of the symbolic float expressions in IEEE-754 binary32,
   round-to-nearest-even, with Flocq.  Used only by the canonical printer (through the
   extracted driver) and by the C10 accuracy theorems; Flocq's definitions depend on the
   standard library's real-number axioms, which is why nothing else imports this file. *)
From Coq Require Import ZArith.
From Flocq Require Import Core.Core IEEE754.BinarySingleNaN IEEE754.Binary IEEE754.Bits.
From Ais Require Import Model.Base Model.Fields.

Lemma Hprec : FLX.Prec_gt_0 24. Proof. reflexivity. Qed.
Lemma Hmax : Prec_lt_emax 24 128. Proof. reflexivity. Qed.

Definition f32 := binary32.
(* `z as f32` for an integer z *)
Definition f32_of_Z (z : Z) : f32 := Binary.binary_normalize 24 128 Hprec Hmax mode_NE z 0 false.
Definition f32_div (a b : f32) : f32 := Binary.Bdiv 24 128 Hprec Hmax binop_nan_pl32 mode_NE a b.
Definition f32_mul (a b : f32) : f32 := Binary.Bmult 24 128 Hprec Hmax binop_nan_pl32 mode_NE a b.

Fixpoint feval (e : fexpr) : f32 :=
  match e with
  | FOfInt z => f32_of_Z z
  | FDiv a k => f32_div (feval a) (f32_of_Z k)
  | FMul a k => f32_mul (feval a) (f32_of_Z k)
  end.

(* f32::to_bits *)
Definition fbits (e : fexpr) : Z := bits_of_b32 (feval e).
