(* Model/Base.v — shared vocabulary of the executable model of squidpickles/ais.

   Conventions (DESIGN.md §2.2):
   - a byte is an [N]; a byte string is a [list N];
   - the bit stream of a byte string is MSB first;
   - every Rust operation that can panic is an explicit [Panic] result;
   - the three build configurations are a parameter [cfg]. *)

From Coq Require Export List NArith ZArith Bool Arith Lia.
Export ListNotations.

Inductive cfg := Std | Alloc | NoAlloc.

Definition noalloc (c : cfg) : bool :=
  match c with NoAlloc => true | _ => false end.

(* Known-finding switches: [true] = behaviour of the unchanged tree. *)
Record quirks := { q19_type_from_armored : bool; q16_type9_no_selector : bool }.
Definition quirks_asis := {| q19_type_from_armored := true; q16_type9_no_selector := true |}.
Definition quirks_off := {| q19_type_from_armored := false; q16_type9_no_selector := false |}.

(* nom's recoverable / unrecoverable errors and the crate's two categories. *)
Inductive err :=
| EError            (* nom::Err::Error *)
| EFailure          (* nom::Err::Failure *)
| ENmea             (* errors::Error::Nmea { .. } (text not modelled) *)
| EChecksum (expected found : N).

Inductive res (A : Type) :=
| Ok (a : A)
| Err (e : err)
| Panic (site : N).
Arguments Ok {A} a.
Arguments Err {A} e.
Arguments Panic {A} site.

Definition rbind {A B} (r : res A) (f : A -> res B) : res B :=
  match r with Ok a => f a | Err e => Err e | Panic s => Panic s end.

Definition rmap {A B} (f : A -> B) (r : res A) : res B :=
  match r with Ok a => Ok (f a) | Err e => Err e | Panic s => Panic s end.

(* `?` on a nom result inside a function returning errors::Result: every nom error becomes
   Error::Nmea (the From<nom::Err<..>> impls of errors.rs never build a Checksum error) *)
Definition to_nmea {A} (r : res A) : res A :=
  match r with
  | Ok a => Ok a
  | Err _ => Err ENmea
  | Panic s => Panic s
  end.

Definition is_panic {A} (r : res A) : bool :=
  match r with Panic _ => true | _ => false end.

Definition is_ok {A} (r : res A) : bool :=
  match r with Ok _ => true | _ => false end.

(* ---------- bits ---------- *)

Definition byte_bits (b : N) : list bool :=
  [N.testbit b 7; N.testbit b 6; N.testbit b 5; N.testbit b 4;
   N.testbit b 3; N.testbit b 2; N.testbit b 1; N.testbit b 0].

Definition bits_of_bytes (l : list N) : list bool := flat_map byte_bits l.

Definition b2n (b : bool) : N := if b then 1%N else 0%N.

Fixpoint N_of_bits_acc (acc : N) (l : list bool) : N :=
  match l with
  | [] => acc
  | b :: r => N_of_bits_acc (2 * acc + b2n b)%N r
  end.

Definition N_of_bits (l : list bool) : N := N_of_bits_acc 0%N l.

(* the [w]-bit field at bit offset [o], MSB first *)
Definition sl (bs : list bool) (o w : nat) : N := N_of_bits (firstn w (skipn o bs)).

(* repack a bit list into bytes, MSB first; a trailing partial byte is dropped
   (never occurs: callers pass whole-byte bit strings) *)
Fixpoint pack8 (fuel : nat) (bs : list bool) : list N :=
  match fuel with
  | O => []
  | S f =>
    match bs with
    | b7 :: b6 :: b5 :: b4 :: b3 :: b2 :: b1 :: b0 :: r =>
      N_of_bits [b7; b6; b5; b4; b3; b2; b1; b0] :: pack8 f r
    | _ => []
    end
  end.
Definition bytes_of_bits (bs : list bool) : list N := pack8 (length bs) bs.

(* ---------- the bit-cursor parser monad (nom::bits, `(&[u8], usize)` input) ----------
   The input is the whole bit list and the cursor is the number of bits consumed. *)

Definition P (A : Type) := list bool -> nat -> res (A * nat).

Definition ret {A} (a : A) : P A := fun _ p => Ok (a, p).

Definition bind {A B} (m : P A) (f : A -> P B) : P B :=
  fun bs p =>
    match m bs p with
    | Ok (a, p') => f a bs p'
    | Err e => Err e
    | Panic s => Panic s
    end.

Definition lift {A} (r : res A) : P A :=
  fun _ p => match r with Ok a => Ok (a, p) | Err e => Err e | Panic s => Panic s end.

Definition pfail {A} (e : err) : P A := fun _ _ => Err e.
Definition ppanic {A} (s : N) : P A := fun _ _ => Panic s.

Declare Scope p_scope.
Delimit Scope p_scope with P.
Notation "x <- m ;; k" := (bind m (fun x => k))
  (at level 61, m at next level, right associativity) : p_scope.
Notation "' pat <- m ;; k" := (bind m (fun x => match x with pat => k end))
  (at level 61, pat pattern, m at next level, right associativity) : p_scope.

(* nom::bits::complete::take(count): Eof is a recoverable Error; count = 0 succeeds
   without looking at the input (nom 7.1.3 bits/complete.rs) *)
Definition take (w : nat) : P N :=
  fun bs p =>
    if (w =? 0)%nat then Ok (0%N, p)
    else if (w + p <=? length bs)%nat then Ok (sl bs p w, (w + p)%nat)
    else Err EError.

(* parsers.rs remaining_bits *)
Definition remaining : P nat := fun bs p => Ok ((length bs - p)%nat, p).

(* `data.0` of the bit cursor: the bytes from the current byte on, then the cursor is
   replaced by the empty input `(<&[u8]>::default(), 0)` *)
Definition rest_bytes : P (list N) :=
  fun bs p => Ok (bytes_of_bits (skipn (8 * (p / 8)) bs), length bs).

(* nom::combinator::map *)
Definition pmap {A B} (f : A -> B) (m : P A) : P B :=
  fun bs p => match m bs p with Ok (a, p') => Ok (f a, p') | Err e => Err e | Panic s => Panic s end.

(* run a bit parser on a byte string: nom::bits::bits(parser)(bytes) followed by `let (_, x) = ..?` *)
Definition run_bits {A} (m : P A) (bs : list bool) : res A :=
  match m bs 0%nat with Ok (a, _) => Ok a | Err e => Err e | Panic s => Panic s end.

(* ---------- byte-string helpers ---------- *)

Definition xor_fold (l : list N) : N := fold_left N.lxor l 0%N.

Fixpoint list_eqb (a b : list N) : bool :=
  match a, b with
  | [], [] => true
  | x :: a', y :: b' => (x =? y)%N && list_eqb a' b'
  | _, _ => false
  end.

Definition opt_eqb (a b : option N) : bool :=
  match a, b with
  | None, None => true
  | Some x, Some y => (x =? y)%N
  | _, _ => false
  end.
