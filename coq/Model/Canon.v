(* Model/Canon.v — canonical token tree of every observable outcome.  The OCaml driver prints
   it; the Rust harness prints the same tree for the implementation; the orchestrator diffs
   the two and attributes each difference to properties by the kind letters.

   Kinds (ASCII codes): atoms  c constructor/outcome code · i unsigned integer field · b flag ·
   z signed integer · y the message's own type field · f f32 bits · q sentence field ·
   m sentence message_type.   byte strings  t text · d binary data · p raw payload.
   nodes  s struct · l list · e enum (index, carried code) · n option whose None is a
   "not available" code · u option whose None is an "undefined" enum code · o structural
   option · v message variant (index, struct) · r communication state · k outcome. *)
From Ais Require Import Model.Base Model.Enums Model.Fields Model.Messages Model.Unarmor Model.Sentence.
Local Open Scope N_scope.

Inductive tok :=
| TA (kind : N) (v : Z)
| TB (kind : N) (l : list N)
| TN (kind : N) (ch : list tok).

Definition kc := 99. Definition ki := 105. Definition kb := 98. Definition kz := 122.
Definition ky := 121. Definition kf := 102. Definition kq := 113. Definition km := 109.
Definition kt := 116. Definition kd := 100. Definition kp := 112.
Definition ks := 115. Definition kl := 108. Definition ke := 101. Definition kn := 110.
Definition ku := 117. Definition ko := 111. Definition kv := 118. Definition kr := 114.
Definition kk := 107.

Section WithFloat.
Variable fbits : fexpr -> Z.   (* IEEE-754 binary32 evaluation, supplied by F32Eval *)

Definition ti (v : N) := TA ki (Z.of_N v).
Definition tb (v : bool) := TA kb (if v then 1 else 0)%Z.
Definition tc (v : N) := TA kc (Z.of_N v).
Definition tf (e : fexpr) := TA kf (fbits e).
Definition topt {A} (kind : N) (f : A -> tok) (o : option A) : tok :=
  match o with None => TN kind [] | Some a => TN kind [f a] end.
Definition tenum (ix : N * option N) : tok :=
  match ix with
  | (i, None) => TN ke [tc i]
  | (i, Some c) => TN ke [tc i; tc c]
  end.
Definition tlist {A} (f : A -> tok) (l : list A) : tok := TN kl (map f l).

Definition t_accuracy (a : accuracy) := tenum (match a with Unaugmented => 0 | Dgps => 1 end, None).
Definition t_dte (a : dte) := tenum (match a with DteReady => 0 | DteNotReady => 1 end, None).
Definition t_assigned (a : assigned_mode) := tenum (match a with Autonomous => 0 | Assigned => 1 end, None).
Definition t_cs (a : carrier_sense) := tenum (match a with CsSotdma => 0 | CsCarrierSense => 1 end, None).
Definition t_maneuver (a : maneuver) :=
  tenum (match a with NoSpecialManeuver => (0, None) | SpecialManeuver => (1, None)
                    | ManeuverUnknown c => (2, Some c) end).
Definition t_sync (a : sync_state) :=
  tenum (match a with UtcDirect => (0, None) | UtcIndirect => (1, None) | BaseStation => (2, None)
                    | NumberOfReceivedStations => (3, None) | SyncUnknown c => (4, Some c) end).
Definition t_sub (a : sub_message) :=
  match a with
  | SlotOffset v => TN ks [tc 0; ti v]
  | UtcHourAndMinute h m => TN ks [tc 1; ti h; ti m]
  | SlotNumber v => TN ks [tc 2; ti v]
  | ReceivedStations v => TN ks [tc 3; ti v]
  end.
Definition t_radio (a : radio_status) :=
  match a with
  | Sotdma sync timeout sub => TN kr [tc 0; t_sync sync; ti timeout; t_sub sub]
  | Itdma sync incr slots keep => TN kr [tc 1; t_sync sync; ti incr; ti slots; tb keep]
  end.

Definition t_position_report (m : position_report) :=
  TN ks [TA ky (Z.of_N (pr_message_type m)); ti (pr_repeat_indicator m); ti (pr_mmsi m);
         topt ku (fun v => tenum (nav_status_index v)) (pr_navigation_status m);
         topt kn (TA kz) (pr_rate_of_turn m);
         topt kn tf (pr_speed_over_ground m);
         t_accuracy (pr_position_accuracy m);
         topt kn tf (pr_longitude m); topt kn tf (pr_latitude m);
         topt kn tf (pr_course_over_ground m);
         topt kn ti (pr_true_heading m);
         ti (pr_timestamp m);
         topt ku t_maneuver (pr_maneuver_indicator m);
         tb (pr_raim m);
         t_radio (pr_radio_status m)].

Definition t_base_station_report (m : base_station_report) :=
  TN ks [TA ky (Z.of_N (bs_message_type m)); ti (bs_repeat_indicator m); ti (bs_mmsi m);
         topt kn ti (bs_year m); topt kn ti (bs_month m); topt kn ti (bs_day m); ti (bs_hour m);
         topt kn ti (bs_minute m); topt kn ti (bs_second m);
         t_accuracy (bs_fix_quality m);
         topt kn tf (bs_longitude m); topt kn tf (bs_latitude m);
         topt ku (fun v => tenum (epfd_type_index v)) (bs_epfd_type m);
         tb (bs_raim m);
         t_radio (bs_radio_status m)].

Definition t_static_voyage (m : static_voyage) :=
  TN ks [TA ky (Z.of_N (sv_message_type m)); ti (sv_repeat_indicator m); ti (sv_mmsi m);
         ti (sv_ais_version m); ti (sv_imo_number m);
         TB kt (sv_callsign m); TB kt (sv_vessel_name m);
         topt ku (fun v => tenum (ship_type_index v)) (sv_ship_type m);
         ti (sv_dimension_to_bow m); ti (sv_dimension_to_stern m);
         ti (sv_dimension_to_port m); ti (sv_dimension_to_starboard m);
         topt ku (fun v => tenum (epfd_type_index v)) (sv_epfd_type m);
         topt kn ti (sv_eta_month_utc m); topt kn ti (sv_eta_day_utc m); ti (sv_eta_hour_utc m);
         topt kn ti (sv_eta_minute_utc m);
         tf (sv_draught m);
         TB kt (sv_destination m);
         t_dte (sv_dte m)].

Definition t_binary_addressed (m : binary_addressed) :=
  TN ks [TA ky (Z.of_N (ba_message_type m)); ti (ba_repeat_indicator m); ti (ba_mmsi m);
         ti (ba_seqno m); ti (ba_dest_mmsi m); tb (ba_retransmit m);
         ti (ba_dac m); ti (ba_fid m); TB kd (ba_data m)].

Definition t_ack (a : acknowledgement) := TN ks [ti (ack_mmsi a); ti (ack_seq_num a)].
Definition t_ack_message (m : ack_message) :=
  TN ks [TA ky (Z.of_N (am_message_type m)); ti (am_repeat_indicator m); ti (am_mmsi m);
         tlist t_ack (am_acks m)].

Definition t_binary_broadcast (m : binary_broadcast) :=
  TN ks [TA ky (Z.of_N (bb_message_type m)); ti (bb_repeat_indicator m); ti (bb_mmsi m);
         ti (bb_dac m); ti (bb_fid m); TB kd (bb_data m)].

Definition t_sar (m : sar_position_report) :=
  TN ks [TA ky (Z.of_N (sar_message_type m)); ti (sar_repeat_indicator m); ti (sar_mmsi m);
         topt kn ti (sar_altitude m);
         topt kn tf (sar_speed_over_ground m);
         t_accuracy (sar_position_accuracy m);
         topt kn tf (sar_longitude m); topt kn tf (sar_latitude m);
         topt kn tf (sar_course_over_ground m);
         ti (sar_timestamp m);
         t_dte (sar_dte m);
         t_assigned (sar_assigned_mode m);
         tb (sar_raim m);
         t_radio (sar_radio_status m)].

Definition t_utc_date_inquiry (m : utc_date_inquiry) :=
  TN ks [TA ky (Z.of_N (ui_message_type m)); ti (ui_repeat_indicator m); ti (ui_mmsi m);
         ti (ui_dest_mmsi m)].

Definition t_addressed_safety (m : addressed_safety) :=
  TN ks [TA ky (Z.of_N (as_message_type m)); ti (as_repeat_indicator m); ti (as_mmsi m);
         ti (as_seqno m); ti (as_dest_mmsi m); tb (as_retransmit m); TB kt (as_text m)].

Definition t_safety_broadcast (m : safety_broadcast) :=
  TN ks [TA ky (Z.of_N (sb_message_type m)); ti (sb_repeat_indicator m); ti (sb_mmsi m);
         TB kt (sb_text m)].

Definition t_int_message (m : int_message) :=
  TN ks [ti (im_message_type m); topt kn ti (im_slot_offset m)].
Definition t_int_station (s : int_station) :=
  TN ks [ti (is_mmsi s); tlist t_int_message (is_messages s)].
Definition t_interrogation (m : interrogation) :=
  TN ks [TA ky (Z.of_N (in_message_type m)); ti (in_repeat_indicator m); ti (in_mmsi m);
         tlist t_int_station (in_stations m)].

Definition t_assignment (m : assignment_mode_command) :=
  TN ks [TA ky (Z.of_N (ac_message_type m)); ti (ac_repeat_indicator m); ti (ac_mmsi m);
         ti (ac_mmsi1 m); ti (ac_offset1 m); ti (ac_increment1 m);
         topt ko ti (ac_mmsi2 m); topt ko ti (ac_offset2 m); topt ko ti (ac_increment2 m)].

Definition t_correction (m : correction_data) :=
  TN ks [ti (cd_message_type m); ti (cd_station_id m); ti (cd_z_count m);
         ti (cd_sequence_number m); ti (cd_n m); ti (cd_health m); TB kd (cd_data m)].
Definition t_dgnss (m : dgnss_broadcast) :=
  TN ks [TA ky (Z.of_N (dg_message_type m)); ti (dg_repeat_indicator m); ti (dg_mmsi m);
         topt kn tf (dg_longitude m); topt kn tf (dg_latitude m);
         t_correction (dg_payload m)].

Definition t_class_b (m : class_b_position_report) :=
  TN ks [TA ky (Z.of_N (cb_message_type m)); ti (cb_repeat_indicator m); ti (cb_mmsi m);
         topt kn tf (cb_speed_over_ground m);
         t_accuracy (cb_position_accuracy m);
         topt kn tf (cb_longitude m); topt kn tf (cb_latitude m);
         topt kn tf (cb_course_over_ground m);
         topt kn ti (cb_true_heading m);
         ti (cb_timestamp m);
         t_cs (cb_cs_unit m);
         tb (cb_has_display m); tb (cb_has_dsc m); tb (cb_whole_band m); tb (cb_accepts_message_22 m);
         t_assigned (cb_assigned_mode m);
         tb (cb_raim m);
         t_radio (cb_radio_status m)].

Definition t_ext_class_b (m : ext_class_b_position_report) :=
  TN ks [TA ky (Z.of_N (eb_message_type m)); ti (eb_repeat_indicator m); ti (eb_mmsi m);
         topt kn tf (eb_speed_over_ground m);
         t_accuracy (eb_position_accuracy m);
         topt kn tf (eb_longitude m); topt kn tf (eb_latitude m);
         topt kn tf (eb_course_over_ground m);
         topt kn ti (eb_true_heading m);
         ti (eb_timestamp m);
         TB kt (eb_name m);
         topt ku (fun v => tenum (ship_type_index v)) (eb_type_of_ship_and_cargo m);
         ti (eb_dimension_to_bow m); ti (eb_dimension_to_stern m);
         ti (eb_dimension_to_port m); ti (eb_dimension_to_starboard m);
         topt ku (fun v => tenum (epfd_type_index v)) (eb_epfd_type m);
         tb (eb_raim m);
         t_dte (eb_dte m);
         t_assigned (eb_assigned_mode m)].

Definition t_reservation (r : slot_reservation) :=
  TN ks [ti (sr_offset r); ti (sr_num_slots r); ti (sr_timeout r); ti (sr_increment r)].
Definition t_data_link (m : data_link_management) :=
  TN ks [TA ky (Z.of_N (dl_message_type m)); ti (dl_repeat_indicator m); ti (dl_mmsi m);
         tlist t_reservation (dl_reservations m)].

Definition t_aid (m : aid_to_navigation) :=
  TN ks [TA ky (Z.of_N (an_message_type m)); ti (an_repeat_indicator m); ti (an_mmsi m);
         topt ku (fun v => tenum (navaid_type_index v)) (an_aid_type m);
         TB kt (an_name m);
         t_accuracy (an_accuracy m);
         topt kn tf (an_longitude m); topt kn tf (an_latitude m);
         ti (an_dimension_to_bow m); ti (an_dimension_to_stern m);
         ti (an_dimension_to_port m); ti (an_dimension_to_starboard m);
         topt ku (fun v => tenum (epfd_type_index v)) (an_epfd_type m);
         ti (an_utc_second m);
         tb (an_off_position m);
         ti (an_regional_reserved m);
         tb (an_raim m); tb (an_virtual_aid m); tb (an_assigned_mode m)].

Definition t_part (p : message_part) :=
  match p with
  | PartA name => TN ke [tc 0; TB kt name]
  | PartB ship vendor model_serial unit serial callsign bow stern port starboard =>
    TN ke [tc 1; topt ku (fun v => tenum (ship_type_index v)) ship; TB kt vendor; TB kt model_serial;
           ti unit; ti serial; TB kt callsign; ti bow; ti stern; ti port; ti starboard]
  | PartUnknown n => TN ke [tc 2; tc n]
  end.
Definition t_static_data (m : static_data_report) :=
  TN ks [TA ky (Z.of_N (sd_message_type m)); ti (sd_repeat_indicator m); ti (sd_mmsi m);
         t_part (sd_message_part m)].

Definition t_long_range (m : long_range_broadcast) :=
  TN ks [TA ky (Z.of_N (lr_message_type m)); ti (lr_repeat_indicator m); ti (lr_mmsi m);
         t_accuracy (lr_position_accuracy m);
         tb (lr_raim m);
         topt ku (fun v => tenum (nav_status_index v)) (lr_navigation_status m);
         topt kn tf (lr_longitude m); topt kn tf (lr_latitude m);
         topt kn tf (lr_speed_over_ground m);
         topt kn tf (lr_course_over_ground m);
         tb (lr_gnss_position_status m)].

Definition t_message (m : ais_message) : tok :=
  match m with
  | PositionReport x => TN kv [tc 0; t_position_report x]
  | BaseStationReport x => TN kv [tc 1; t_base_station_report x]
  | BinaryBroadcastMessage x => TN kv [tc 2; t_binary_broadcast x]
  | Interrogation x => TN kv [tc 3; t_interrogation x]
  | StaticAndVoyageRelatedData x => TN kv [tc 4; t_static_voyage x]
  | DgnssBroadcastBinaryMessage x => TN kv [tc 5; t_dgnss x]
  | StandardClassBPositionReport x => TN kv [tc 6; t_class_b x]
  | ExtendedClassBPositionReport x => TN kv [tc 7; t_ext_class_b x]
  | DataLinkManagementMessage x => TN kv [tc 8; t_data_link x]
  | AidToNavigationReport x => TN kv [tc 9; t_aid x]
  | StaticDataReport x => TN kv [tc 10; t_static_data x]
  | UtcDateResponse x => TN kv [tc 11; t_base_station_report x]
  | StandardAircraftPositionReport x => TN kv [tc 12; t_sar x]
  | AssignmentModeCommand x => TN kv [tc 13; t_assignment x]
  | BinaryAcknowledgeMessage x => TN kv [tc 14; t_ack_message x]
  | UtcDateInquiry x => TN kv [tc 15; t_utc_date_inquiry x]
  | AddressedSafetyRelatedMessage x => TN kv [tc 16; t_addressed_safety x]
  | SafetyRelatedBroadcastMessage x => TN kv [tc 17; t_safety_broadcast x]
  | SafetyRelatedAcknowledgment x => TN kv [tc 18; t_ack_message x]
  | LongRangeAisBroadcastMessage x => TN kv [tc 19; t_long_range x]
  | BinaryAddressedMessage x => TN kv [tc 20; t_binary_addressed x]
  end.

Definition tq (v : N) := TA kq (Z.of_N v).
Definition t_talker (t : talker) : N :=
  match t with AB => 0 | AD => 1 | AI => 2 | AN => 3 | AR => 4 | AS => 5 | AT => 6 | AX => 7
             | BS => 8 | SA => 9 | TalkerUnknown => 10 end.
Definition t_report (r : report) : N := match r with VDM => 0 | VDO => 1 | ReportUnknown => 2 end.

Definition t_sentence (s : sentence) : tok :=
  TN ks [tq (t_talker (s_talker s)); tq (t_report (s_report s));
         tq (s_num_fragments s); tq (s_fragment_number s);
         topt ko tq (s_message_id s); topt ko tq (s_channel s);
         TB kp (s_data s); tq (s_fill s);
         TA km (Z.of_N (s_message_type s));
         topt ko t_message (s_message s)].

(* outcome codes: 0 Ok, 2 Err Nmea (also a nom error that escaped), 3 Err Checksum, 9 panic *)
Definition t_outcome {A} (f : A -> list tok) (r : res A) : tok :=
  match r with
  | Ok a => TN kk (tc 0 :: f a)
  | Err (EChecksum e g) => TN kk [tc 3; ti e; ti g]
  | Err _ => TN kk [tc 2]
  | Panic s => TN kk [tc 9; tc s]
  end.

Definition t_frag (f : frag) : list tok :=
  match f with
  | Complete s => [tc 0; t_sentence s]
  | Incomplete s => [tc 1; t_sentence s]
  end.

Definition t_step (o : res frag) : tok := t_outcome t_frag o.
Definition t_unarmor (o : res (list N)) : tok := t_outcome (fun d => [TB kd d]) o.
Definition t_msg (o : res ais_message) : tok := t_outcome (fun m => [t_message m]) o.
Definition t_state (st : pstate) : tok := TN ks [topt ko tq (p_id st); tq (p_fn st); TB kp (p_data st)].
Definition t_conv (o : res frag) : tok :=
  match o with
  | Ok f => TN ks [topt ko t_sentence (frag_to_option f);
                   t_outcome (fun s => [t_sentence s]) (frag_to_result f)]
  | _ => TN ks []
  end.
Definition t_shiptype (code : N) : tok :=
  topt ku (fun v => TN ks [tenum (ship_type_index v); ti (ship_type_to_u8 v)]) (ship_type_parse code).
Definition t_cli (r : cli_record) : tok :=
  match r with
  | RecOut line m => TN ks [tc 0; TB kp line; topt ko t_message m]
  | RecErr line (EChecksum e g) => TN ks [tc 1; TB kp line; tc 3; ti e; ti g]
  | RecErr line _ => TN ks [tc 1; TB kp line; tc 2]
  | RecNone => TN ks [tc 2]
  | RecPanic s => TN ks [tc 9; tc s]
  end.

End WithFloat.
