(* Model/Unarmor.v — messages/mod.rs `unarmor`, the buffer algorithm with every index,
   subtraction and shift that Rust checks made explicit. *)
From Ais Require Import Model.Base.
Local Open Scope N_scope.

(* `match *byte { 48..=87 => byte - 48, 96..=119 => byte - 56, _ => return Err(..) }` *)
Definition armor_value (b : N) : option N :=
  if (48 <=? b) && (b <=? 87) then Some (b - 48)
  else if (96 <=? b) && (b <=? 119) then Some (b - 56)
  else None.

(* `output[i] op= ..`: [None] when the index is out of bounds *)
Fixpoint upd (l : list N) (i : nat) (f : N -> N) : option (list N) :=
  match l, i with
  | [], _ => None
  | x :: r, O => Some (f x :: r)
  | x :: r, S i' => match upd r i' f with Some r' => Some (x :: r') | None => None end
  end.

Definition shl8 (x : N) (k : nat) : N := (N.shiftl x (N.of_nat k)) mod 256.  (* u8 << k, k < 8 *)

Fixpoint unarmor_loop (data : list N) (offset : nat) (out : list N) : res (list N) :=
  match data with
  | [] => Ok out
  | byte :: rest =>
    match armor_value byte with
    | None => Err ENmea
    | Some v =>
      let unarmored := v * 4 in                      (* `<< 2`, at most 252 *)
      let offset_byte := (offset / 8)%nat in
      let offset_bit := (offset mod 8)%nat in
      match upd out offset_byte (fun x => N.lor x (N.shiftr unarmored (N.of_nat offset_bit))) with
      | None => Panic 201                            (* output[offset_byte] *)
      | Some out1 =>
        if (2 <? offset_bit)%nat then
          match upd out1 (offset_byte + 1) (fun x => N.lor x (shl8 unarmored (8 - offset_bit))) with
          | None => Panic 202                        (* output[offset_byte + 1] *)
          | Some out2 => unarmor_loop rest (offset + 6) out2
          end
        else unarmor_loop rest (offset + 6) out1
      end
    end
  end.

Definition MAX_SENTENCE_SIZE_BYTES : nat := 384.

Definition fill_mask (bit_count byte_count fill_bits : nat) (output : list N) : res (list N) :=
  if negb (fill_bits =? 0)%nat && negb (byte_count =? 0)%nat then   (* `&& byte_count != 0`: D2 repair *)
    let bits_in_final_byte := if (bit_count mod 8 =? 0)%nat then 8%nat else (bit_count mod 8)%nat in
    let final_idx := (byte_count - 1)%nat in
    let shift := ((8 - bits_in_final_byte) + Nat.min fill_bits bits_in_final_byte)%nat in
    if (8 <? shift)%nat then Panic 203               (* `_ => unreachable!()` *)
    else
      let m := if (shift =? 8)%nat then 0 else shl8 255 shift in
      match upd output final_idx (fun x => N.land x m) with
      | None => Panic 204                            (* output[final_idx] *)
      | Some out1 =>
        if (bits_in_final_byte <? fill_bits)%nat then
          if (final_idx =? 0)%nat then Panic 205     (* final_idx - 1 *)
          else if (8 <=? fill_bits - bits_in_final_byte)%nat then Panic 206   (* shift amount *)
          else
            match upd out1 (final_idx - 1) (fun x => N.land x (shl8 255 (fill_bits - bits_in_final_byte))) with
            | None => Panic 207
            | Some out2 => Ok out2
            end
        else Ok out1
      end
  else Ok output.

(* pub fn unarmor(data: &[u8], fill_bits: usize) -> Result<AisRawData> *)
Definition unarmor (c : cfg) (data : list N) (fill_bits : nat) : res (list N) :=
  let bit_count := (length data * 6)%nat in
  let byte_count := (bit_count / 8 + (if (bit_count mod 8 =? 0)%nat then 0 else 1))%nat in
  if noalloc c && (MAX_SENTENCE_SIZE_BYTES <? byte_count)%nat then Err ENmea   (* heapless resize *)
  else
    match unarmor_loop data 0 (repeat 0 byte_count) with
    | Ok output => fill_mask bit_count byte_count fill_bits output
    | Err e => Err e
    | Panic s => Panic s
    end.
