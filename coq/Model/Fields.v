(* Model/Fields.v — field-level conversions: messages/parsers.rs, navigation.rs, types.rs,
   radio_status.rs.  One definition per Rust function; panic sites are explicit. *)
From Ais Require Import Model.Base Model.Enums.
Local Open Scope N_scope.
Local Open Scope p_scope.

(* ---------- floats stay symbolic: the exact sequence of f32 operations ---------- *)
Inductive fexpr :=
| FOfInt (z : Z)              (* `z as f32` *)
| FDiv (a : fexpr) (k : Z)    (* `a / k.0`, k exactly representable *)
| FMul (a : fexpr) (k : Z).   (* `a * k.0` *)

(* ---------- parsers.rs ---------- *)

Definition opt_nz (v : N) : option N := if v =? 0 then None else Some v.

Definition parse_year : P (option N) := pmap opt_nz (take 14).
Definition parse_month : P (option N) := pmap opt_nz (take 4).
Definition parse_day : P (option N) := pmap opt_nz (take 5).
Definition parse_hour : P N := take 5.
Definition minsec_conv (v : N) : option N := if v =? 60 then None else Some v.
Definition parse_minsec : P (option N) := pmap minsec_conv (take 6).

(* sixbit_to_ascii *)
Definition sixbit_to_ascii (d : N) : res N :=
  if d <? 32 then Ok (d + 64)
  else if d <? 64 then Ok d
  else Err ENmea.

(* map_res(take_bits(6u8), sixbit_to_ascii): an Err of the closure is Error(MapRes) *)
Definition take_char : P N :=
  fun bs p =>
    match take 6 bs p with
    | Ok (v, p') => match sixbit_to_ascii v with Ok c => Ok (c, p') | _ => Err EError end
    | Err e => Err e
    | Panic s => Panic s
    end.

(* nom::multi::count(f, n) *)
Fixpoint count_chars (n : nat) : P (list N) :=
  match n with
  | O => ret []
  | S n' => c <- take_char ;; r <- count_chars n' ;; ret (c :: r)
  end.

(* str::trim_start / trim_end_matches('@') / trim_end on bytes in 32..95:
   the only white-space character in that range is the space *)
Fixpoint drop_while (f : N -> bool) (l : list N) : list N :=
  match l with
  | [] => []
  | x :: r => if f x then drop_while f r else l
  end.
Definition drop_while_end (f : N -> bool) (l : list N) : list N :=
  rev (drop_while f (rev l)).
Definition is_space (c : N) : bool := c =? 32.
Definition is_at (c : N) : bool := c =? 64.
Definition trim_text (l : list N) : list N :=
  drop_while_end is_space (drop_while_end is_at (drop_while is_space l)).

Definition MAX_6BIT_ARRAY_BYTES : nat := 20.

(* parse_6bit_ascii(input, size) *)
Definition parse_6bit_ascii (c : cfg) (size : nat) : P (list N) :=
  let char_count := (size / 6)%nat in
  if noalloc c && (MAX_6BIT_ARRAY_BYTES <? char_count)%nat
  then pfail EFailure   (* nom_noalloc::count: TooLarge (after the D3 repair) *)
  else
    bytes <- count_chars char_count ;;
    if forallb (fun b => b <? 128) bytes   (* str::from_utf8 *)
    then ret (trim_text bytes)
    else pfail EFailure.

(* message_type_bits *)
Definition message_type_bits : P N := take 6.

(* u8_to_bool: `_ => unreachable!()` *)
Definition u8_to_bool (d : N) : res bool :=
  if d =? 0 then Ok false else if d =? 1 then Ok true else Panic 701.
Definition take_bool : P bool := v <- take 1 ;; lift (u8_to_bool v).

(* signed_i32(input, len): assert!(len <= 32); shifts by len and 32 - len *)
Definition sext (len : nat) (n : N) : Z :=
  if N.testbit n (N.of_nat (len - 1)) then (Z.of_N n - 2 ^ Z.of_nat len)%Z else Z.of_N n.
Definition signed_i32 (len : nat) : P Z :=
  if (32 <? len)%nat then ppanic 801            (* assert! *)
  else if (len =? 0)%nat || (len =? 32)%nat then ppanic 802   (* shift amount = 32 overflows *)
  else n <- take len ;; ret (sext len n).

(* ---------- navigation.rs ---------- *)

Definition parse_speed_over_ground (d : N) : option fexpr :=
  if d =? 1023 then None else Some (FDiv (FOfInt (Z.of_N d)) 10).
Definition parse_longitude (d : Z) : option fexpr :=
  if (d =? 108600000)%Z then None else Some (FDiv (FOfInt d) 600000).
Definition parse_latitude (d : Z) : option fexpr :=
  if (d =? 54600000)%Z then None else Some (FDiv (FOfInt d) 600000).
Definition parse_cog (d : N) : option fexpr :=
  if d =? 3600 then None else Some (FDiv (FOfInt (Z.of_N d)) 10).
Definition parse_heading (d : N) : option N := if d =? 511 then None else Some d.

Inductive accuracy := Unaugmented | Dgps.
Definition accuracy_parse (d : N) : res accuracy :=
  if d =? 0 then Ok Unaugmented else if d =? 1 then Ok Dgps else Panic 702.
Definition take_accuracy : P accuracy := v <- take 1 ;; lift (accuracy_parse v).

(* RateOfTurn::parse: `data as i8`, 0x80 is "not available"; the value kept is the i8 *)
Definition as_i8 (d : N) : Z := if d <? 128 then Z.of_N d else (Z.of_N d - 256)%Z.
Definition rate_of_turn_parse (d : N) : option Z :=
  if (as_i8 d =? -128)%Z then None else Some (as_i8 d).

Inductive maneuver := NoSpecialManeuver | SpecialManeuver | ManeuverUnknown (c : N).
Definition maneuver_parse (d : N) : option maneuver :=
  if d =? 0 then None
  else if d =? 1 then Some NoSpecialManeuver
  else if d =? 2 then Some SpecialManeuver
  else Some (ManeuverUnknown d).

(* ---------- types.rs ---------- *)

Inductive dte := DteReady | DteNotReady.
Definition dte_default := DteNotReady.
Definition dte_from (d : N) : res dte :=
  if d =? 0 then Ok DteReady else if d =? 1 then Ok DteNotReady else Panic 703.
Definition take_dte : P dte := v <- take 1 ;; lift (dte_from v).

Inductive assigned_mode := Autonomous | Assigned.
Definition assigned_mode_parse (d : N) : res assigned_mode :=
  if d =? 0 then Ok Autonomous else if d =? 1 then Ok Assigned else Panic 704.
Definition take_assigned_mode : P assigned_mode := v <- take 1 ;; lift (assigned_mode_parse v).

(* standard_class_b_position_report.rs *)
Inductive carrier_sense := CsSotdma | CsCarrierSense.
Definition carrier_sense_parse (d : N) : res carrier_sense :=
  if d =? 0 then Ok CsSotdma else if d =? 1 then Ok CsCarrierSense else Panic 705.
Definition take_carrier_sense : P carrier_sense := v <- take 1 ;; lift (carrier_sense_parse v).

(* ---------- radio_status.rs ---------- *)

Inductive sync_state := UtcDirect | UtcIndirect | BaseStation | NumberOfReceivedStations | SyncUnknown (c : N).
Definition sync_state_parse (d : N) : sync_state :=
  if d =? 0 then UtcDirect
  else if d =? 1 then UtcIndirect
  else if d =? 2 then BaseStation
  else if d =? 3 then NumberOfReceivedStations
  else SyncUnknown d.

Inductive sub_message :=
| SlotOffset (v : N)
| UtcHourAndMinute (h m : N)
| SlotNumber (v : N)
| ReceivedStations (v : N).

Definition utc_hour_and_minute : P sub_message :=
  hour <- take 5 ;; _ <- take 1 ;; minute <- take 6 ;; _ <- take 2 ;;
  ret (UtcHourAndMinute hour minute).

Definition sub_message_parse (slot_timeout : N) : P sub_message :=
  if slot_timeout =? 0 then pmap SlotOffset (take 14)
  else if slot_timeout =? 1 then utc_hour_and_minute
  else if (slot_timeout =? 2) || (slot_timeout =? 4) || (slot_timeout =? 6) then pmap SlotNumber (take 14)
  else if (slot_timeout =? 3) || (slot_timeout =? 5) || (slot_timeout =? 7) then pmap ReceivedStations (take 14)
  else ppanic 706.

Inductive radio_status :=
| Sotdma (sync : sync_state) (slot_timeout : N) (sub : sub_message)
| Itdma (sync : sync_state) (slot_increment : N) (num_slots : N) (keep : bool).

Definition sotdma_parse : P radio_status :=
  sync <- pmap sync_state_parse (take 2) ;;
  slot_timeout <- take 3 ;;
  sub <- sub_message_parse slot_timeout ;;
  ret (Sotdma sync slot_timeout sub).

Definition itdma_parse : P radio_status :=
  sync <- pmap sync_state_parse (take 2) ;;
  slot_increment <- take 13 ;;
  num_slots <- take 3 ;;
  keep <- take_bool ;;
  ret (Itdma sync slot_increment num_slots keep).

(* parse_radio(input, msg_type) *)
Definition parse_radio (msg_type : N) : P radio_status :=
  if (msg_type =? 1) || (msg_type =? 2) || (msg_type =? 4) || (msg_type =? 11) || (msg_type =? 9)
  then sotdma_parse
  else if msg_type =? 3 then itdma_parse
  else pfail EFailure.
