(* Model/Messages.v — the 21 message parsers of src/messages/*.rs and messages::parse,
   statement for statement.  Record fields are in the declaration order of the Rust structs. *)
From Ais Require Import Model.Base Model.Enums Model.Fields.
Local Open Scope N_scope.
Local Open Scope p_scope.

(* common header: message_type(6) repeat_indicator(2) mmsi(30) *)
Definition header : P (N * N * N) :=
  message_type <- take 6 ;; repeat_indicator <- take 2 ;; mmsi <- take 30 ;;
  ret (message_type, repeat_indicator, mmsi).

(* ---------- types 1-3: position_report.rs ---------- *)
Record position_report := {
  pr_message_type : N; pr_repeat_indicator : N; pr_mmsi : N;
  pr_navigation_status : option nav_status;
  pr_rate_of_turn : option Z;
  pr_speed_over_ground : option fexpr;
  pr_position_accuracy : accuracy;
  pr_longitude : option fexpr; pr_latitude : option fexpr;
  pr_course_over_ground : option fexpr;
  pr_true_heading : option N;
  pr_timestamp : N;
  pr_maneuver_indicator : option maneuver;
  pr_raim : bool;
  pr_radio_status : radio_status }.

Definition parse_position_report : P position_report :=
  message_type <- take 6 ;;
  repeat_indicator <- take 2 ;;
  mmsi <- take 30 ;;
  navigation_status <- pmap nav_status_parse (take 4) ;;
  rate_of_turn <- pmap rate_of_turn_parse (take 8) ;;
  speed_over_ground <- pmap parse_speed_over_ground (take 10) ;;
  position_accuracy <- take_accuracy ;;
  longitude <- pmap parse_longitude (signed_i32 28) ;;
  latitude <- pmap parse_latitude (signed_i32 27) ;;
  course_over_ground <- pmap parse_cog (take 12) ;;
  true_heading <- pmap parse_heading (take 9) ;;
  timestamp <- take 6 ;;
  maneuver_indicator <- pmap maneuver_parse (take 2) ;;
  _ <- take 3 ;;
  raim <- take_bool ;;
  radio <- parse_radio message_type ;;
  ret {| pr_message_type := message_type; pr_repeat_indicator := repeat_indicator; pr_mmsi := mmsi;
         pr_navigation_status := navigation_status; pr_rate_of_turn := rate_of_turn;
         pr_speed_over_ground := speed_over_ground; pr_position_accuracy := position_accuracy;
         pr_longitude := longitude; pr_latitude := latitude;
         pr_course_over_ground := course_over_ground; pr_true_heading := true_heading;
         pr_timestamp := timestamp; pr_maneuver_indicator := maneuver_indicator;
         pr_raim := raim; pr_radio_status := radio |}.

(* ---------- types 4 and 11: base_station_report.rs, utc_date_response.rs ---------- *)
Record base_station_report := {
  bs_message_type : N; bs_repeat_indicator : N; bs_mmsi : N;
  bs_year : option N; bs_month : option N; bs_day : option N; bs_hour : N;
  bs_minute : option N; bs_second : option N;
  bs_fix_quality : accuracy;
  bs_longitude : option fexpr; bs_latitude : option fexpr;
  bs_epfd_type : option epfd_type;
  bs_raim : bool;
  bs_radio_status : radio_status }.

(* The 10-bit spare is read with `take_bits::<_, u8, _, _>(10u8)`: ten bits into a u8.
   At bit offset 138 (2 within its byte) nom's accumulation `acc += val << 4` followed by
   `acc += val >> 4` does not overflow; the value is discarded.  Modelled as a plain take. *)
Definition parse_base_station_report : P base_station_report :=
  message_type <- take 6 ;;
  repeat_indicator <- take 2 ;;
  mmsi <- take 30 ;;
  year <- parse_year ;;
  month <- parse_month ;;
  day <- parse_day ;;
  hour <- parse_hour ;;
  minute <- parse_minsec ;;
  second <- parse_minsec ;;
  fix_quality <- take_accuracy ;;
  longitude <- pmap parse_longitude (signed_i32 28) ;;
  latitude <- pmap parse_latitude (signed_i32 27) ;;
  epfd <- pmap epfd_type_parse (take 4) ;;
  _ <- take 10 ;;
  raim <- take_bool ;;
  radio <- parse_radio message_type ;;
  ret {| bs_message_type := message_type; bs_repeat_indicator := repeat_indicator; bs_mmsi := mmsi;
         bs_year := year; bs_month := month; bs_day := day; bs_hour := hour;
         bs_minute := minute; bs_second := second; bs_fix_quality := fix_quality;
         bs_longitude := longitude; bs_latitude := latitude; bs_epfd_type := epfd;
         bs_raim := raim; bs_radio_status := radio |}.

(* ---------- type 5: static_and_voyage_related_data.rs ---------- *)
Record static_voyage := {
  sv_message_type : N; sv_repeat_indicator : N; sv_mmsi : N;
  sv_ais_version : N; sv_imo_number : N;
  sv_callsign : list N; sv_vessel_name : list N;
  sv_ship_type : option ship_type;
  sv_dimension_to_bow : N; sv_dimension_to_stern : N;
  sv_dimension_to_port : N; sv_dimension_to_starboard : N;
  sv_epfd_type : option epfd_type;
  sv_eta_month_utc : option N; sv_eta_day_utc : option N; sv_eta_hour_utc : N;
  sv_eta_minute_utc : option N;
  sv_draught : fexpr;
  sv_destination : list N;
  sv_dte : dte }.

Definition parse_static_voyage (c : cfg) : P static_voyage :=
  message_type <- take 6 ;;
  repeat_indicator <- take 2 ;;
  mmsi <- take 30 ;;
  ais_version <- take 2 ;;
  imo_number <- take 30 ;;
  callsign <- parse_6bit_ascii c 42 ;;
  vessel_name <- parse_6bit_ascii c 120 ;;
  ship_type <- pmap ship_type_parse (take 8) ;;
  dimension_to_bow <- take 9 ;;
  dimension_to_stern <- take 9 ;;
  dimension_to_port <- take 6 ;;
  dimension_to_starboard <- take 6 ;;
  epfd <- pmap epfd_type_parse (take 4) ;;
  eta_month <- parse_month ;;
  eta_day <- parse_day ;;
  eta_hour <- parse_hour ;;
  eta_minute <- parse_minsec ;;
  draught <- pmap (fun raw => FDiv (FOfInt (Z.of_N raw)) 10) (take 8) ;;
  rem <- remaining ;;
  destination <- parse_6bit_ascii c (Nat.min 120 rem) ;;
  rem2 <- remaining ;;
  dte <- (if (0 <? rem2)%nat then take_dte else ret dte_default) ;;
  rem3 <- remaining ;;
  _ <- (if (0 <? rem3)%nat then take 1 else ret 0) ;;
  ret {| sv_message_type := message_type; sv_repeat_indicator := repeat_indicator; sv_mmsi := mmsi;
         sv_ais_version := ais_version; sv_imo_number := imo_number;
         sv_callsign := callsign; sv_vessel_name := vessel_name; sv_ship_type := ship_type;
         sv_dimension_to_bow := dimension_to_bow; sv_dimension_to_stern := dimension_to_stern;
         sv_dimension_to_port := dimension_to_port; sv_dimension_to_starboard := dimension_to_starboard;
         sv_epfd_type := epfd; sv_eta_month_utc := eta_month; sv_eta_day_utc := eta_day;
         sv_eta_hour_utc := eta_hour; sv_eta_minute_utc := eta_minute; sv_draught := draught;
         sv_destination := destination; sv_dte := dte |}.

(* ---------- binary data capacity (no-alloc: heapless Vec<u8, 119>) ---------- *)
Definition MAX_DATA_SIZE_BYTES : nat := 119.
Definition owned_data (c : cfg) : P (list N) :=
  d <- rest_bytes ;;
  if noalloc c && (MAX_DATA_SIZE_BYTES <? length d)%nat then pfail EFailure else ret d.

(* ---------- type 6: binary_addressed.rs ---------- *)
Record binary_addressed := {
  ba_message_type : N; ba_repeat_indicator : N; ba_mmsi : N;
  ba_seqno : N; ba_dest_mmsi : N; ba_retransmit : bool;
  ba_dac : N; ba_fid : N; ba_data : list N }.

Definition parse_binary_addressed (c : cfg) : P binary_addressed :=
  message_type <- take 6 ;;
  repeat_indicator <- take 2 ;;
  mmsi <- take 30 ;;
  seqno <- take 2 ;;
  dest_mmsi <- take 30 ;;
  retransmit <- take_bool ;;
  _ <- take 1 ;;
  dac <- take 10 ;;
  fid <- take 6 ;;
  data <- owned_data c ;;
  ret {| ba_message_type := message_type; ba_repeat_indicator := repeat_indicator; ba_mmsi := mmsi;
         ba_seqno := seqno; ba_dest_mmsi := dest_mmsi; ba_retransmit := retransmit;
         ba_dac := dac; ba_fid := fid; ba_data := data |}.

(* ---------- nom::multi::many_m_n(min, max, f) and nom_noalloc::many_m_n::<MAX>(min, f) ----------
   Both loop at most [max] times, stop at the first recoverable Error (an error iff fewer
   than [min] elements were read), reject an element parser that consumes nothing, and
   propagate Failure.  The no-alloc copy pushes with `push_unchecked` into a Vec of capacity
   MAX = max, which the loop bound makes safe (lemma many_m_n_length). *)
Fixpoint many_loop {A} (f : P A) (min : nat) (fuel : nat) (count : nat) : P (list A) :=
  match fuel with
  | O => ret []
  | S fuel' =>
    fun bs p =>
      match f bs p with
      | Ok (v, p') =>
        if (length bs - p' =? length bs - p)%nat then Err EError   (* infinite loop check *)
        else match many_loop f min fuel' (S count) bs p' with
             | Ok (r, p'') => Ok (v :: r, p'')
             | Err e => Err e
             | Panic s => Panic s
             end
      | Err EError => if (count <? min)%nat then Err EError else Ok ([], p)
      | Err e => Err e
      | Panic s => Panic s
      end
  end.
Definition many_m_n {A} (min max : nat) (f : P A) : P (list A) :=
  if (max <? min)%nat then pfail EFailure else many_loop f min max 0.

(* ---------- types 7 and 13: binary_acknowledge.rs, safety_related_acknowledgment.rs ---------- *)
Record acknowledgement := { ack_mmsi : N; ack_seq_num : N }.
Definition parse_acknowledgement : P acknowledgement :=
  mmsi <- take 30 ;; seq_num <- take 2 ;; ret {| ack_mmsi := mmsi; ack_seq_num := seq_num |}.

Record ack_message := {
  am_message_type : N; am_repeat_indicator : N; am_mmsi : N; am_acks : list acknowledgement }.

Definition parse_ack_message : P ack_message :=
  message_type <- take 6 ;;
  repeat_indicator <- take 2 ;;
  mmsi <- take 30 ;;
  _ <- take 2 ;;
  acks <- many_m_n 1 4 parse_acknowledgement ;;
  ret {| am_message_type := message_type; am_repeat_indicator := repeat_indicator; am_mmsi := mmsi;
         am_acks := acks |}.

(* ---------- type 8: binary_broadcast_message.rs ---------- *)
Record binary_broadcast := {
  bb_message_type : N; bb_repeat_indicator : N; bb_mmsi : N;
  bb_dac : N; bb_fid : N; bb_data : list N }.

Definition parse_binary_broadcast (c : cfg) : P binary_broadcast :=
  message_type <- take 6 ;;
  repeat_indicator <- take 2 ;;
  mmsi <- take 30 ;;
  _ <- take 2 ;;
  dac <- take 10 ;;
  fid <- take 6 ;;
  data <- owned_data c ;;
  ret {| bb_message_type := message_type; bb_repeat_indicator := repeat_indicator; bb_mmsi := mmsi;
         bb_dac := dac; bb_fid := fid; bb_data := data |}.

(* ---------- type 9: standard_aircraft_position_report.rs ---------- *)
Record sar_position_report := {
  sar_message_type : N; sar_repeat_indicator : N; sar_mmsi : N;
  sar_altitude : option N;
  sar_speed_over_ground : option fexpr;
  sar_position_accuracy : accuracy;
  sar_longitude : option fexpr; sar_latitude : option fexpr;
  sar_course_over_ground : option fexpr;
  sar_timestamp : N;
  sar_dte : dte;
  sar_assigned_mode : assigned_mode;
  sar_raim : bool;
  sar_radio_status : radio_status }.

Definition parse_altitude (d : N) : option N := if d =? 4095 then None else Some d.
Definition parse_speed_over_ground_sar (d : N) : option fexpr :=
  if d =? 1023 then None else Some (FOfInt (Z.of_N d)).

(* q16 = true: the tree as it is — the communication-state selector bit is not consumed and
   the state is read as SOTDMA one bit early.  q16 = false: the selector chooses. *)
Definition parse_sar_radio (q : quirks) (message_type : N) : P radio_status :=
  if q16_type9_no_selector q then parse_radio message_type
  else
    sel <- take 1 ;;
    (if sel =? 0 then sotdma_parse else itdma_parse).

Definition parse_sar_position_report (q : quirks) : P sar_position_report :=
  message_type <- take 6 ;;
  repeat_indicator <- take 2 ;;
  mmsi <- take 30 ;;
  altitude <- pmap parse_altitude (take 12) ;;
  speed_over_ground <- pmap parse_speed_over_ground_sar (take 10) ;;
  position_accuracy <- take_accuracy ;;
  longitude <- pmap parse_longitude (signed_i32 28) ;;
  latitude <- pmap parse_latitude (signed_i32 27) ;;
  course_over_ground <- pmap parse_cog (take 12) ;;
  timestamp <- take 6 ;;
  _ <- take 8 ;;
  dte <- take_dte ;;
  _ <- take 3 ;;
  assigned <- take_assigned_mode ;;
  raim <- take_bool ;;
  radio <- parse_sar_radio q message_type ;;
  ret {| sar_message_type := message_type; sar_repeat_indicator := repeat_indicator; sar_mmsi := mmsi;
         sar_altitude := altitude; sar_speed_over_ground := speed_over_ground;
         sar_position_accuracy := position_accuracy;
         sar_longitude := longitude; sar_latitude := latitude;
         sar_course_over_ground := course_over_ground; sar_timestamp := timestamp;
         sar_dte := dte; sar_assigned_mode := assigned; sar_raim := raim;
         sar_radio_status := radio |}.

(* ---------- type 10: utc_date_inquiry.rs ---------- *)
Record utc_date_inquiry := {
  ui_message_type : N; ui_repeat_indicator : N; ui_mmsi : N; ui_dest_mmsi : N }.

Definition parse_utc_date_inquiry : P utc_date_inquiry :=
  message_type <- take 6 ;;
  repeat_indicator <- take 2 ;;
  mmsi <- take 30 ;;
  _ <- take 2 ;;
  dest_mmsi <- take 30 ;;
  _ <- take 2 ;;
  ret {| ui_message_type := message_type; ui_repeat_indicator := repeat_indicator; ui_mmsi := mmsi;
         ui_dest_mmsi := dest_mmsi |}.

(* ---------- type 12: addressed_safety_related.rs ---------- *)
Record addressed_safety := {
  as_message_type : N; as_repeat_indicator : N; as_mmsi : N;
  as_seqno : N; as_dest_mmsi : N; as_retransmit : bool; as_text : list N }.

Definition parse_addressed_safety (c : cfg) : P addressed_safety :=
  message_type <- take 6 ;;
  repeat_indicator <- take 2 ;;
  mmsi <- take 30 ;;
  seqno <- take 2 ;;
  dest_mmsi <- take 30 ;;
  retransmit <- take_bool ;;
  _ <- take 1 ;;
  rem <- remaining ;;
  if (rem <? 6)%nat then pfail EError
  else
    text <- parse_6bit_ascii c rem ;;
    ret {| as_message_type := message_type; as_repeat_indicator := repeat_indicator; as_mmsi := mmsi;
           as_seqno := seqno; as_dest_mmsi := dest_mmsi; as_retransmit := retransmit;
           as_text := text |}.

(* ---------- type 14: safety_related_broadcast.rs ---------- *)
Record safety_broadcast := {
  sb_message_type : N; sb_repeat_indicator : N; sb_mmsi : N; sb_text : list N }.

Definition parse_safety_broadcast (c : cfg) : P safety_broadcast :=
  message_type <- take 6 ;;
  repeat_indicator <- take 2 ;;
  mmsi <- take 30 ;;
  _ <- take 2 ;;
  rem <- remaining ;;
  if (rem <? 6)%nat then pfail EError
  else
    text <- parse_6bit_ascii c rem ;;
    ret {| sb_message_type := message_type; sb_repeat_indicator := repeat_indicator; sb_mmsi := mmsi;
           sb_text := text |}.

(* ---------- type 15: interrogation.rs ---------- *)
Record int_message := { im_message_type : N; im_slot_offset : option N }.
Record int_station := { is_mmsi : N; is_messages : list int_message }.
Record interrogation := {
  in_message_type : N; in_repeat_indicator : N; in_mmsi : N; in_stations : list int_station }.

Definition parse_int_message : P int_message :=
  message_type <- take 6 ;;
  rem <- remaining ;;
  slot_offset <- (if (12 <=? rem)%nat
                  then so <- take 12 ;; ret (opt_nz so)
                  else ret None) ;;
  ret {| im_message_type := message_type; im_slot_offset := slot_offset |}.

(* push_unwrap: heapless `push(..).unwrap()` panics when the list is full
   (MessageList capacity 3, StationList capacity 2 without an allocator) *)
Definition push_unwrap {A} (c : cfg) (cap : nat) (l : list A) (x : A) : res (list A) :=
  if noalloc c && (cap <=? length l)%nat then Panic 1001 else Ok (l ++ [x]).

Definition parse_int_station (c : cfg) : P int_station :=
  mmsi <- take 30 ;;
  message <- parse_int_message ;;
  messages <- lift (push_unwrap c 3 [] message) ;;
  rem <- remaining ;;
  messages <- (if (8 <=? rem)%nat
               then
                 _ <- take 2 ;;
                 message2 <- parse_int_message ;;
                 (if negb (im_message_type message2 =? 0) ||
                     (match im_slot_offset message2 with Some _ => true | None => false end)
                  then lift (push_unwrap c 3 messages message2)
                  else ret messages)
               else ret messages) ;;
  ret {| is_mmsi := mmsi; is_messages := messages |}.

Definition parse_interrogation (c : cfg) : P interrogation :=
  message_type <- take 6 ;;
  repeat_indicator <- take 2 ;;
  mmsi <- take 30 ;;
  _ <- take 2 ;;
  station <- parse_int_station c ;;
  stations <- lift (push_unwrap c 2 [] station) ;;
  rem <- remaining ;;
  stations <- (if (30 <=? rem)%nat
               then
                 _ <- take 2 ;;     (* D9 repair: spare bits in front of the second station *)
                 station2 <- parse_int_station c ;;
                 stations2 <- lift (push_unwrap c 2 stations station2) ;;
                 _ <- take 2 ;;
                 ret stations2
               else ret stations) ;;
  ret {| in_message_type := message_type; in_repeat_indicator := repeat_indicator; in_mmsi := mmsi;
         in_stations := stations |}.

(* ---------- type 16: assignment_mode_command.rs ---------- *)
Record assignment_mode_command := {
  ac_message_type : N; ac_repeat_indicator : N; ac_mmsi : N;
  ac_mmsi1 : N; ac_offset1 : N; ac_increment1 : N;
  ac_mmsi2 : option N; ac_offset2 : option N; ac_increment2 : option N }.

Definition parse_assignment_mode_command : P assignment_mode_command :=
  message_type <- take 6 ;;
  repeat_indicator <- take 2 ;;
  mmsi <- take 30 ;;
  _ <- take 2 ;;
  mmsi1 <- take 30 ;;
  offset1 <- take 12 ;;
  increment1 <- take 10 ;;
  rem <- remaining ;;
  if (52 <=? rem)%nat then
    mmsi2 <- take 30 ;;
    offset2 <- take 12 ;;
    increment2 <- take 10 ;;
    ret {| ac_message_type := message_type; ac_repeat_indicator := repeat_indicator; ac_mmsi := mmsi;
           ac_mmsi1 := mmsi1; ac_offset1 := offset1; ac_increment1 := increment1;
           ac_mmsi2 := Some mmsi2; ac_offset2 := Some offset2; ac_increment2 := Some increment2 |}
  else
    ret {| ac_message_type := message_type; ac_repeat_indicator := repeat_indicator; ac_mmsi := mmsi;
           ac_mmsi1 := mmsi1; ac_offset1 := offset1; ac_increment1 := increment1;
           ac_mmsi2 := None; ac_offset2 := None; ac_increment2 := None |}.

(* ---------- type 17: dgnss_broadcast_binary_message.rs ---------- *)
Record correction_data := {
  cd_message_type : N; cd_station_id : N; cd_z_count : N; cd_sequence_number : N;
  cd_n : N; cd_health : N; cd_data : list N }.
Record dgnss_broadcast := {
  dg_message_type : N; dg_repeat_indicator : N; dg_mmsi : N;
  dg_longitude : option fexpr; dg_latitude : option fexpr;
  dg_payload : correction_data }.

Definition parse_longitude_min_10 (d : Z) : option fexpr :=
  if (d =? 108600)%Z then None else Some (FDiv (FOfInt d) 600).
Definition parse_latitude_min_10 (d : Z) : option fexpr :=
  if (d =? 54600)%Z then None else Some (FDiv (FOfInt d) 600).

Definition parse_correction_data (c : cfg) : P correction_data :=
  message_type <- take 6 ;;
  station_id <- take 10 ;;
  z_count <- take 13 ;;
  sequence_number <- take 3 ;;
  n <- take 5 ;;
  health <- take 3 ;;
  data <- owned_data c ;;
  ret {| cd_message_type := message_type; cd_station_id := station_id; cd_z_count := z_count;
         cd_sequence_number := sequence_number; cd_n := n; cd_health := health; cd_data := data |}.

Definition parse_dgnss_broadcast (c : cfg) : P dgnss_broadcast :=
  message_type <- take 6 ;;
  repeat_indicator <- take 2 ;;
  mmsi <- take 30 ;;
  _ <- take 2 ;;
  longitude <- pmap parse_longitude_min_10 (signed_i32 18) ;;
  latitude <- pmap parse_latitude_min_10 (signed_i32 17) ;;
  _ <- take 5 ;;
  payload <- parse_correction_data c ;;
  ret {| dg_message_type := message_type; dg_repeat_indicator := repeat_indicator; dg_mmsi := mmsi;
         dg_longitude := longitude; dg_latitude := latitude; dg_payload := payload |}.

(* ---------- type 18: standard_class_b_position_report.rs ---------- *)
Record class_b_position_report := {
  cb_message_type : N; cb_repeat_indicator : N; cb_mmsi : N;
  cb_speed_over_ground : option fexpr;
  cb_position_accuracy : accuracy;
  cb_longitude : option fexpr; cb_latitude : option fexpr;
  cb_course_over_ground : option fexpr;
  cb_true_heading : option N;
  cb_timestamp : N;
  cb_cs_unit : carrier_sense;
  cb_has_display : bool; cb_has_dsc : bool; cb_whole_band : bool; cb_accepts_message_22 : bool;
  cb_assigned_mode : assigned_mode;
  cb_raim : bool;
  cb_radio_status : radio_status }.

(* `let (data, cs_selector) = take_bits(1u8)(data)?; match cs_selector { 0 => Sotdma, 1 => Itdma, _ => unreachable!() }` *)
Definition parse_cs_radio : P radio_status :=
  cs_selector <- take 1 ;;
  (if cs_selector =? 0 then sotdma_parse
   else if cs_selector =? 1 then itdma_parse
   else ppanic 707).

Definition parse_class_b_position_report : P class_b_position_report :=
  message_type <- take 6 ;;
  repeat_indicator <- take 2 ;;
  mmsi <- take 30 ;;
  _ <- take 8 ;;
  speed_over_ground <- pmap parse_speed_over_ground (take 10) ;;
  position_accuracy <- take_accuracy ;;
  longitude <- pmap parse_longitude (signed_i32 28) ;;
  latitude <- pmap parse_latitude (signed_i32 27) ;;
  course_over_ground <- pmap parse_cog (take 12) ;;
  true_heading <- pmap parse_heading (take 9) ;;
  timestamp <- take 6 ;;
  _ <- take 2 ;;
  cs_unit <- take_carrier_sense ;;
  has_display <- take_bool ;;
  has_dsc <- take_bool ;;
  whole_band <- take_bool ;;
  accepts_message_22 <- take_bool ;;
  assigned <- take_assigned_mode ;;
  raim <- take_bool ;;
  radio <- parse_cs_radio ;;
  ret {| cb_message_type := message_type; cb_repeat_indicator := repeat_indicator; cb_mmsi := mmsi;
         cb_speed_over_ground := speed_over_ground; cb_position_accuracy := position_accuracy;
         cb_longitude := longitude; cb_latitude := latitude;
         cb_course_over_ground := course_over_ground; cb_true_heading := true_heading;
         cb_timestamp := timestamp; cb_cs_unit := cs_unit;
         cb_has_display := has_display; cb_has_dsc := has_dsc; cb_whole_band := whole_band;
         cb_accepts_message_22 := accepts_message_22; cb_assigned_mode := assigned;
         cb_raim := raim; cb_radio_status := radio |}.

(* ---------- type 19: extended_class_b_position_report.rs ---------- *)
Record ext_class_b_position_report := {
  eb_message_type : N; eb_repeat_indicator : N; eb_mmsi : N;
  eb_speed_over_ground : option fexpr;
  eb_position_accuracy : accuracy;
  eb_longitude : option fexpr; eb_latitude : option fexpr;
  eb_course_over_ground : option fexpr;
  eb_true_heading : option N;
  eb_timestamp : N;
  eb_name : list N;
  eb_type_of_ship_and_cargo : option ship_type;
  eb_dimension_to_bow : N; eb_dimension_to_stern : N;
  eb_dimension_to_port : N; eb_dimension_to_starboard : N;
  eb_epfd_type : option epfd_type;
  eb_raim : bool;
  eb_dte : dte;
  eb_assigned_mode : assigned_mode }.

Definition parse_ext_class_b_position_report (c : cfg) : P ext_class_b_position_report :=
  message_type <- take 6 ;;
  repeat_indicator <- take 2 ;;
  mmsi <- take 30 ;;
  _ <- take 8 ;;
  speed_over_ground <- pmap parse_speed_over_ground (take 10) ;;
  position_accuracy <- take_accuracy ;;
  longitude <- pmap parse_longitude (signed_i32 28) ;;
  latitude <- pmap parse_latitude (signed_i32 27) ;;
  course_over_ground <- pmap parse_cog (take 12) ;;
  true_heading <- pmap parse_heading (take 9) ;;
  timestamp <- take 6 ;;
  _ <- take 4 ;;
  name <- parse_6bit_ascii c 120 ;;
  ship <- pmap ship_type_parse (take 8) ;;
  dimension_to_bow <- take 9 ;;
  dimension_to_stern <- take 9 ;;
  dimension_to_port <- take 6 ;;
  dimension_to_starboard <- take 6 ;;
  epfd <- pmap epfd_type_parse (take 4) ;;
  raim <- take_bool ;;
  dte <- take_dte ;;
  assigned <- take_assigned_mode ;;
  _ <- take 4 ;;
  ret {| eb_message_type := message_type; eb_repeat_indicator := repeat_indicator; eb_mmsi := mmsi;
         eb_speed_over_ground := speed_over_ground; eb_position_accuracy := position_accuracy;
         eb_longitude := longitude; eb_latitude := latitude;
         eb_course_over_ground := course_over_ground; eb_true_heading := true_heading;
         eb_timestamp := timestamp; eb_name := name; eb_type_of_ship_and_cargo := ship;
         eb_dimension_to_bow := dimension_to_bow; eb_dimension_to_stern := dimension_to_stern;
         eb_dimension_to_port := dimension_to_port; eb_dimension_to_starboard := dimension_to_starboard;
         eb_epfd_type := epfd; eb_raim := raim; eb_dte := dte; eb_assigned_mode := assigned |}.

(* ---------- type 20: data_link_management_message.rs ---------- *)
Record slot_reservation := { sr_offset : N; sr_num_slots : N; sr_timeout : N; sr_increment : N }.
Record data_link_management := {
  dl_message_type : N; dl_repeat_indicator : N; dl_mmsi : N; dl_reservations : list slot_reservation }.

Definition parse_slot_reservation : P slot_reservation :=
  offset <- take 12 ;; num_slots <- take 4 ;; timeout <- take 3 ;; increment <- take 11 ;;
  ret {| sr_offset := offset; sr_num_slots := num_slots; sr_timeout := timeout; sr_increment := increment |}.

Definition parse_data_link_management : P data_link_management :=
  message_type <- take 6 ;;
  repeat_indicator <- take 2 ;;
  mmsi <- take 30 ;;
  _ <- take 2 ;;
  reservations <- many_m_n 1 4 parse_slot_reservation ;;
  ret {| dl_message_type := message_type; dl_repeat_indicator := repeat_indicator; dl_mmsi := mmsi;
         dl_reservations := reservations |}.

(* ---------- type 21: aid_to_navigation_report.rs ---------- *)
Record aid_to_navigation := {
  an_message_type : N; an_repeat_indicator : N; an_mmsi : N;
  an_aid_type : option navaid_type;
  an_name : list N;
  an_accuracy : accuracy;
  an_longitude : option fexpr; an_latitude : option fexpr;
  an_dimension_to_bow : N; an_dimension_to_stern : N;
  an_dimension_to_port : N; an_dimension_to_starboard : N;
  an_epfd_type : option epfd_type;
  an_utc_second : N;
  an_off_position : bool;
  an_regional_reserved : N;
  an_raim : bool; an_virtual_aid : bool; an_assigned_mode : bool }.

Definition parse_aid_to_navigation (c : cfg) : P aid_to_navigation :=
  message_type <- take 6 ;;
  repeat_indicator <- take 2 ;;
  mmsi <- take 30 ;;
  aid_type <- pmap navaid_type_parse (take 5) ;;
  name <- parse_6bit_ascii c 120 ;;
  accuracy <- take_accuracy ;;
  longitude <- pmap parse_longitude (signed_i32 28) ;;
  latitude <- pmap parse_latitude (signed_i32 27) ;;
  dimension_to_bow <- take 9 ;;
  dimension_to_stern <- take 9 ;;
  dimension_to_port <- take 6 ;;
  dimension_to_starboard <- take 6 ;;
  epfd <- pmap epfd_type_parse (take 4) ;;
  utc_second <- take 6 ;;
  off_position <- take_bool ;;
  regional_reserved <- take 8 ;;
  raim <- take_bool ;;
  virtual_aid <- take_bool ;;
  assigned <- take_bool ;;
  _ <- take 1 ;;
  ret {| an_message_type := message_type; an_repeat_indicator := repeat_indicator; an_mmsi := mmsi;
         an_aid_type := aid_type; an_name := name; an_accuracy := accuracy;
         an_longitude := longitude; an_latitude := latitude;
         an_dimension_to_bow := dimension_to_bow; an_dimension_to_stern := dimension_to_stern;
         an_dimension_to_port := dimension_to_port; an_dimension_to_starboard := dimension_to_starboard;
         an_epfd_type := epfd; an_utc_second := utc_second; an_off_position := off_position;
         an_regional_reserved := regional_reserved; an_raim := raim; an_virtual_aid := virtual_aid;
         an_assigned_mode := assigned |}.

(* ---------- type 24: static_data_report.rs ---------- *)
Inductive message_part :=
| PartA (vessel_name : list N)
| PartB (ship : option ship_type) (vendor_id model_serial : list N)
        (unit_model_code serial_number : N) (callsign : list N)
        (dimension_to_bow dimension_to_stern dimension_to_port dimension_to_starboard : N)
| PartUnknown (n : N).
Record static_data_report := {
  sd_message_type : N; sd_repeat_indicator : N; sd_mmsi : N; sd_message_part : message_part }.

(* `let (_, model_serial) = parse_6bit_ascii(data, 24)?` reads ahead without consuming *)
Definition peek_p {A} (m : P A) : P A :=
  fun bs p => match m bs p with Ok (a, _) => Ok (a, p) | Err e => Err e | Panic s => Panic s end.

Definition parse_message_part (c : cfg) : P message_part :=
  part_number <- take 2 ;;
  if part_number =? 0 then
    vessel_name <- parse_6bit_ascii c 120 ;;
    rem <- remaining ;;
    _ <- take (Nat.min rem 7) ;;
    ret (PartA vessel_name)
  else if part_number =? 1 then
    ship <- pmap ship_type_parse (take 8) ;;
    vendor_id <- parse_6bit_ascii c 18 ;;
    model_serial <- peek_p (parse_6bit_ascii c 24) ;;
    unit_model_code <- take 4 ;;
    serial_number <- take 20 ;;
    callsign <- parse_6bit_ascii c 42 ;;
    dimension_to_bow <- take 9 ;;
    dimension_to_stern <- take 9 ;;
    dimension_to_port <- take 6 ;;
    dimension_to_starboard <- take 6 ;;
    _ <- take 6 ;;
    ret (PartB ship vendor_id model_serial unit_model_code serial_number callsign
               dimension_to_bow dimension_to_stern dimension_to_port dimension_to_starboard)
  else if (part_number =? 2) || (part_number =? 3) then ret (PartUnknown part_number)
  else ppanic 708.

Definition parse_static_data_report (c : cfg) : P static_data_report :=
  message_type <- take 6 ;;
  repeat_indicator <- take 2 ;;
  mmsi <- take 30 ;;
  part <- parse_message_part c ;;
  ret {| sd_message_type := message_type; sd_repeat_indicator := repeat_indicator; sd_mmsi := mmsi;
         sd_message_part := part |}.

(* ---------- type 27: long_range_ais_broadcast.rs ---------- *)
Record long_range_broadcast := {
  lr_message_type : N; lr_repeat_indicator : N; lr_mmsi : N;
  lr_position_accuracy : accuracy;
  lr_raim : bool;
  lr_navigation_status : option nav_status;
  lr_longitude : option fexpr; lr_latitude : option fexpr;
  lr_speed_over_ground : option fexpr;
  lr_course_over_ground : option fexpr;
  lr_gnss_position_status : bool }.

(* after the D5 repair: the 1/10-minute codes first, then navigation.rs parse_longitude /
   parse_latitude (whose own 1/10000-minute codes can never match an 18/17-bit value but
   are still executed), then `* 1000.0` when the type is 27 *)
Definition lr_scale (message_type : N) (v : option fexpr) : option fexpr :=
  match v with
  | Some e => Some (if message_type =? 27 then FMul e 1000 else e)
  | None => None
  end.
Definition lr_longitude_conv (message_type : N) (d : Z) : option fexpr :=
  lr_scale message_type (if (d =? 108600)%Z then None else parse_longitude d).
Definition lr_latitude_conv (message_type : N) (d : Z) : option fexpr :=
  lr_scale message_type (if (d =? 54600)%Z then None else parse_latitude d).
Definition parse_speed_over_ground_62 (d : N) : option fexpr :=
  if d =? 63 then None else Some (FOfInt (Z.of_N d)).
Definition parse_cog_511 (d : N) : option fexpr :=
  if d =? 511 then None else Some (FOfInt (Z.of_N d)).

Definition parse_long_range_broadcast : P long_range_broadcast :=
  message_type <- take 6 ;;
  repeat_indicator <- take 2 ;;
  mmsi <- take 30 ;;
  position_accuracy <- take_accuracy ;;
  raim <- take_bool ;;
  navigation_status <- pmap nav_status_parse (take 4) ;;
  longitude <- pmap (lr_longitude_conv message_type) (signed_i32 18) ;;
  latitude <- pmap (lr_latitude_conv message_type) (signed_i32 17) ;;
  speed_over_ground <- pmap parse_speed_over_ground_62 (take 6) ;;
  course_over_ground <- pmap parse_cog_511 (take 9) ;;
  gnss <- take_bool ;;
  ret {| lr_message_type := message_type; lr_repeat_indicator := repeat_indicator; lr_mmsi := mmsi;
         lr_position_accuracy := position_accuracy; lr_raim := raim;
         lr_navigation_status := navigation_status;
         lr_longitude := longitude; lr_latitude := latitude;
         lr_speed_over_ground := speed_over_ground; lr_course_over_ground := course_over_ground;
         lr_gnss_position_status := gnss |}.

(* ---------- messages/mod.rs: enum AisMessage (declaration order) and parse ---------- *)
Inductive ais_message :=
| PositionReport (m : position_report)
| BaseStationReport (m : base_station_report)
| BinaryBroadcastMessage (m : binary_broadcast)
| Interrogation (m : interrogation)
| StaticAndVoyageRelatedData (m : static_voyage)
| DgnssBroadcastBinaryMessage (m : dgnss_broadcast)
| StandardClassBPositionReport (m : class_b_position_report)
| ExtendedClassBPositionReport (m : ext_class_b_position_report)
| DataLinkManagementMessage (m : data_link_management)
| AidToNavigationReport (m : aid_to_navigation)
| StaticDataReport (m : static_data_report)
| UtcDateResponse (m : base_station_report)
| StandardAircraftPositionReport (m : sar_position_report)
| AssignmentModeCommand (m : assignment_mode_command)
| BinaryAcknowledgeMessage (m : ack_message)
| UtcDateInquiry (m : utc_date_inquiry)
| AddressedSafetyRelatedMessage (m : addressed_safety)
| SafetyRelatedBroadcastMessage (m : safety_broadcast)
| SafetyRelatedAcknowledgment (m : ack_message)
| LongRangeAisBroadcastMessage (m : long_range_broadcast)
| BinaryAddressedMessage (m : binary_addressed).

Definition run_variant {A} (bs : list bool) (k : A -> ais_message) (p : P A) : res ais_message :=
  to_nmea (rmap k (run_bits p bs)).

Definition parse_bits (c : cfg) (q : quirks) (bs : list bool) : res ais_message :=
  match run_bits message_type_bits bs with
  | Err _ => Err ENmea
  | Panic s => Panic s
  | Ok t =>
    if (1 <=? t) && (t <=? 3) then run_variant bs PositionReport parse_position_report
    else if t =? 4 then run_variant bs BaseStationReport parse_base_station_report
    else if t =? 5 then run_variant bs StaticAndVoyageRelatedData (parse_static_voyage c)
    else if t =? 7 then run_variant bs BinaryAcknowledgeMessage parse_ack_message
    else if t =? 6 then run_variant bs BinaryAddressedMessage (parse_binary_addressed c)
    else if t =? 8 then run_variant bs BinaryBroadcastMessage (parse_binary_broadcast c)
    else if t =? 9 then run_variant bs StandardAircraftPositionReport (parse_sar_position_report q)
    else if t =? 10 then run_variant bs UtcDateInquiry parse_utc_date_inquiry
    else if t =? 11 then run_variant bs UtcDateResponse parse_base_station_report
    else if t =? 12 then run_variant bs AddressedSafetyRelatedMessage (parse_addressed_safety c)
    else if t =? 13 then run_variant bs SafetyRelatedAcknowledgment parse_ack_message
    else if t =? 14 then run_variant bs SafetyRelatedBroadcastMessage (parse_safety_broadcast c)
    else if t =? 15 then run_variant bs Interrogation (parse_interrogation c)
    else if t =? 16 then run_variant bs AssignmentModeCommand parse_assignment_mode_command
    else if t =? 17 then run_variant bs DgnssBroadcastBinaryMessage (parse_dgnss_broadcast c)
    else if t =? 18 then run_variant bs StandardClassBPositionReport parse_class_b_position_report
    else if t =? 19 then run_variant bs ExtendedClassBPositionReport (parse_ext_class_b_position_report c)
    else if t =? 20 then run_variant bs DataLinkManagementMessage parse_data_link_management
    else if t =? 21 then run_variant bs AidToNavigationReport (parse_aid_to_navigation c)
    else if t =? 24 then run_variant bs StaticDataReport (parse_static_data_report c)
    else if t =? 27 then run_variant bs LongRangeAisBroadcastMessage parse_long_range_broadcast
    else Err ENmea
  end.

(* messages::parse(unarmored: &[u8]) *)
Definition msg_parse (c : cfg) (q : quirks) (bytes : list N) : res ais_message :=
  parse_bits c q (bits_of_bytes bytes).
