(* Model/NomBytes.v — transcriptions of the two library routines that turn the numeric fields of a
   sentence into numbers, as they are written in their sources (the model proper, Model/Sentence.v,
   uses their mathematical meaning: [dec_value] with a bound, [hex_value] of at most eight digits;
   Proofs/NomBytesProof.v proves the two views equal, and the harness runs the real routines against
   these definitions, mode `N`).

   1. Rust core, `<u8 as FromStr>::from_str` = `u8::from_str_radix(src, 10)` (core/src/num/mod.rs):

        if src.is_empty() { return Err(Empty) }
        let (is_positive, digits) = match src[0] {
            b'+' | b'-' if src[1..].is_empty() => return Err(InvalidDigit),
            b'+' => (true, &src[1..]),
            b'-' if is_signed_ty => (false, &src[1..]),
            _ => (true, src) };
        let mut result = 0u8;
        if digits.len() <= size_of::<u8>() * 2 {            // cannot overflow: plain arithmetic
            for &c in digits { result = result * 10; let x = to_digit(c, 10).ok_or(InvalidDigit)?; result = result + x; }
        } else {
            for &c in digits { let mul = result.checked_mul(10); let x = to_digit(c, 10).ok_or(InvalidDigit)?;
                               result = mul.ok_or(PosOverflow)?; result = result.checked_add(x).ok_or(PosOverflow)?; } }
        Ok(result)

   2. nom 7.1.3 `number::complete::hex_u32` (src/number/complete.rs):

        let (i, o) = is_a(&b"0123456789abcdefABCDEF"[..])(input)?;
        let (parsed, remaining) = if o.len() <= 8 { (o, i) } else { (&input[..8], &input[8..]) };
        let res = parsed.iter().rev().enumerate()
                        .map(|(k, &v)| (v as char).to_digit(16).unwrap_or(0) << (k * 4)).sum();
        Ok((remaining, res))                                                                           *)
From Ais Require Import Model.Base Model.Sentence.
Local Open Scope N_scope.

Definition to_digit10 (c : N) : option N := if (48 <=? c) && (c <=? 57) then Some (c - 48) else None.

(* the plain loop: u8 arithmetic that, for at most two digits, cannot leave 0..255 *)
Fixpoint from_str_fast (digits : list N) (result : N) : option N :=
  match digits with
  | [] => Some result
  | c :: r => match to_digit10 c with None => None | Some x => from_str_fast r (result * 10 + x) end
  end.

(* the checked loop *)
Fixpoint from_str_checked (digits : list N) (result : N) : option N :=
  match digits with
  | [] => Some result
  | c :: r =>
    let mul := if result * 10 <=? 255 then Some (result * 10) else None in          (* checked_mul *)
    match to_digit10 c with
    | None => None                                                                    (* InvalidDigit *)
    | Some x =>
      match mul with
      | None => None                                                                  (* PosOverflow *)
      | Some m => if m + x <=? 255 then from_str_checked r (m + x) else None         (* checked_add *)
      end
    end
  end.

Definition from_str_u8 (src : list N) : option N :=
  match src with
  | [] => None                                                                        (* Empty *)
  | c0 :: rest =>
    if ((c0 =? 43) || (c0 =? 45)) && (match rest with [] => true | _ => false end) then None
    else
      let digits := if c0 =? 43 then rest else src in     (* a '-' stays in front of an unsigned type's digits *)
      if (length digits <=? 2)%nat then from_str_fast digits 0 else from_str_checked digits 0
  end.

(* char::to_digit(16) *)
Definition to_digit16 (c : N) : option N :=
  if (48 <=? c) && (c <=? 57) then Some (c - 48)
  else if (97 <=? c) && (c <=? 102) then Some (c - 87)
  else if (65 <=? c) && (c <=? 70) then Some (c - 55)
  else None.

(* sum over the reversed, enumerated digits: the k-th digit from the right is shifted by 4k *)
Fixpoint hex_sum_rev (rev_digits : list N) (k : N) : N :=
  match rev_digits with
  | [] => 0
  | v :: r => N.shiftl (match to_digit16 v with Some d => d | None => 0 end) (k * 4) + hex_sum_rev r (k + 1)
  end.

Definition hex_u32_nom (input : list N) : res (N * list N) :=
  let '(o, i) := span is_hex input in
  match o with
  | [] => Err EError                                                                  (* is_a: at least one *)
  | _ =>
    let '(parsed, remaining) := if (length o <=? 8)%nat then (o, i) else (firstn 8 input, skipn 8 input) in
    Ok (hex_sum_rev (rev parsed) 0, remaining)
  end.

(* parse_u8_digit of sentence.rs through these routines: digit1, then from_str on the digit run *)
Definition parse_u8_digit_lib (l : list N) : res (N * list N) :=
  let '(ds, r) := span is_digit l in
  match ds with
  | [] => Err EError
  | _ => match from_str_u8 ds with Some v => Ok (v, r) | None => Err EError end
  end.
