(* Model/NomBits.v — a transcription of nom 7.1.3 `bits::complete::take` (src/bits/complete.rs), the one
   primitive every bit-level reader of the crate is built from.  The Rust cursor is
   `(input: &[u8], bit_offset: usize)`; the accumulator type `O` is taken wide enough for `count`
   bits (the crate's call sites: Model/Messages.v, panic site P11 otherwise), so it is an unbounded N here.

     let cnt = (count + bit_offset) / 8;
     if input.len() * 8 < count + bit_offset { Err(Eof) } else {
       let (mut acc, mut offset, mut remaining, mut end_offset) = (0, bit_offset, count, 0);
       for byte in input.iter().take(cnt + 1) {
         if remaining == 0 { break; }
         let val = if offset == 0 { byte } else { ((byte << offset) as u8 >> offset) };
         if remaining < 8 - offset { acc += val >> (8 - offset - remaining); end_offset = remaining + offset; break; }
         else { acc += val << (remaining - (8 - offset)); remaining -= 8 - offset; offset = 0; }
       }
       Ok(((input[cnt..], end_offset), acc)) }                                                        *)
From Ais Require Import Model.Base.
Local Open Scope N_scope.

(* the loop body over the bytes the iterator yields; returns (acc, end_offset) *)
Fixpoint nom_take_loop (bytes : list N) (offset remaining : nat) (acc : N) : N * nat :=
  match bytes with
  | [] => (acc, 0%nat)
  | byte :: rest =>
    if (remaining =? 0)%nat then (acc, 0%nat)
    else
      let val := if (offset =? 0)%nat then byte
                 else N.shiftr (N.shiftl byte (N.of_nat offset) mod 256) (N.of_nat offset) in
      if (remaining <? 8 - offset)%nat
      then (acc + N.shiftr val (N.of_nat (8 - offset - remaining)), (remaining + offset)%nat)
      else nom_take_loop rest 0 (remaining - (8 - offset)) (acc + N.shiftl val (N.of_nat (remaining - (8 - offset))))
  end.

(* take(count)((input, bit_offset)) : Ok ((rest, end_offset), value) | Err Eof *)
Definition nom_take (count : nat) (input : list N) (bit_offset : nat) : res ((list N * nat) * N) :=
  if (count =? 0)%nat then Ok ((input, bit_offset), 0)
  else
    let cnt := ((count + bit_offset) / 8)%nat in
    if (length input * 8 <? count + bit_offset)%nat then Err EError
    else
      let '(acc, end_offset) := nom_take_loop (firstn (cnt + 1) input) bit_offset count 0 in
      Ok ((skipn cnt input, end_offset), acc).
