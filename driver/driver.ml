(* driver.ml — runs the extracted Coq model on a cases file and prints one canonical
   token tree per case (same grammar as the Rust harness).  Hand-written glue only:
   int <-> N/Z/nat conversion, hex parsing, printing. *)
open Model

let rec pos_of_int (i : int) : positive =
  if i = 1 then XH else if i land 1 = 0 then XO (pos_of_int (i lsr 1)) else XI (pos_of_int (i lsr 1))
let n_of_int (i : int) : n = if i = 0 then N0 else Npos (pos_of_int i)
let rec int_of_pos (p : positive) : int =
  match p with XH -> 1 | XO q -> 2 * int_of_pos q | XI q -> 2 * int_of_pos q + 1
let int_of_n (x : n) : int = match x with N0 -> 0 | Npos p -> int_of_pos p
let int_of_z (x : z) : int = match x with Z0 -> 0 | Zpos p -> int_of_pos p | Zneg p -> - (int_of_pos p)
let rec nat_of_int (i : int) : nat = if i <= 0 then O else S (nat_of_int (i - 1))

let bytes_of_hex (s : string) : n list =
  if s = "-" then [] else begin
    let l = String.length s / 2 in
    List.init l (fun i -> n_of_int (int_of_string ("0x" ^ String.sub s (2 * i) 2)))
  end

let buf = Buffer.create 65536
let hide_m = ref false   (* sweeps of properties other than C19 hash the lines without the sentence-level message type *)
let rec pr (t : tok) : unit =
  match t with
  | TA (k, _) when !hide_m && int_of_n k = 109 -> Buffer.add_string buf "m_"
  | TA (k, v) -> Buffer.add_char buf (Char.chr (int_of_n k)); Buffer.add_string buf (string_of_int (int_of_z v))
  | TB (k, l) ->
    Buffer.add_char buf (Char.chr (int_of_n k));
    if l = [] then Buffer.add_char buf '-'
    else List.iter (fun b -> Buffer.add_string buf (Printf.sprintf "%02x" (int_of_n b))) l
  | TN (k, ch) ->
    Buffer.add_char buf '('; Buffer.add_char buf (Char.chr (int_of_n k));
    List.iter (fun c -> Buffer.add_char buf ' '; pr c) ch;
    Buffer.add_char buf ')'

let flush_line () = Buffer.add_char buf '\n'; print_string (Buffer.contents buf); Buffer.clear buf

let z_of_int (i : int) : z = if i = 0 then Z0 else if i > 0 then Zpos (pos_of_int i) else Zneg (pos_of_int (- i))
(* the public scaling functions of messages::navigation on a raw value *)
let scaled (which : string) (raw : int) : fexpr option =
  match which with
  | "lon" -> parse_longitude (z_of_int raw)
  | "lat" -> parse_latitude (z_of_int raw)
  | "sog" -> parse_speed_over_ground (n_of_int raw)
  | "cog" -> parse_cog (n_of_int raw)
  | _ -> failwith "bad F case"
let pr_optf (v : fexpr option) : unit =
  match v with
  | None -> Buffer.add_string buf "(n)"
  | Some e -> Buffer.add_string buf "(n f"; Buffer.add_string buf (string_of_int (int_of_z (fbits e))); Buffer.add_char buf ')'

(* `exact` mode (fourth argument): a scaled quantity is printed as the exact rational its expression denotes, coded as
   num * 2^21 + den (den < 2^21), instead of its binary32 bits — the orchestrator uses it to evaluate C10's accuracy
   clause itself when the implementation's bits differ from the model's *)
let rec rational (e : fexpr) : int * int =
  match e with
  | FOfInt z -> (int_of_z z, 1)
  | FDiv (a, k) -> let (n, d) = rational a in (n, d * int_of_z k)
  | FMul (a, k) -> let (n, d) = rational a in (n * int_of_z k, d)
let fexact (e : fexpr) : z = let (n, d) = rational e in z_of_int (n * 2097152 + d)
let fbits = if Array.length Sys.argv > 3 && Sys.argv.(3) = "exact" then fexact else fbits

let () =
  let c = match Sys.argv.(1) with "std" -> Std | "alloc" -> Alloc | "none" -> NoAlloc | _ -> failwith "cfg" in
  let q = match Sys.argv.(2) with "asis" -> quirks_asis | "off" -> quirks_off
    | "q19" -> { q19_type_from_armored = false; q16_type9_no_selector = true }
    | "q16" -> { q19_type_from_armored = true; q16_type9_no_selector = false }
    | _ -> failwith "quirks" in
  let st = [| p_init; p_init |] in
  (try
    while true do
      let line = input_line stdin in
      match String.split_on_char ' ' line with
      | "H" :: _ -> st.(0) <- p_init; st.(1) <- p_init; Buffer.add_string buf "H"; flush_line ()   (* `H c` too *)
      | [("L" | "C") as tag; p; d; hex] ->
        let p = int_of_string p in
        let (st', o) = step c q st.(p) (bytes_of_hex hex) (d = "1") in
        st.(p) <- st';
        pr (t_step fbits o);
        if tag = "C" then (Buffer.add_string buf " | "; pr (t_conv fbits o));
        Buffer.add_string buf " ; "; pr (t_state st');
        flush_line ()
      | ["U"; fill; hex] ->
        pr (t_unarmor (unarmor c (bytes_of_hex hex) (nat_of_int (int_of_string fill)))); flush_line ()
      | ["M"; hex] -> pr (t_msg fbits (msg_parse c q (bytes_of_hex hex))); flush_line ()
      | ["S"; code] -> pr (t_shiptype (n_of_int (int_of_string code))); flush_line ()
      | ["X"; hex] ->
        let recs = cli q (bytes_of_hex hex) in
        pr (TN (n_of_int 108, List.map (t_cli fbits) recs)); flush_line ()
      | ["A"; p1; p2; d; fix; flags; hex] ->
        let flags = int_of_string flags in
        hide_m := (flags land 2 = 0);
        (* two-byte sweep (see the harness): digest of the 65536 token lines *)
        let p1 = int_of_string p1 and p2 = int_of_string p2 in
        let bytes = Bytes.of_string (let l = String.length hex / 2 in String.init l (fun i -> Char.chr (int_of_string ("0x" ^ String.sub hex (2 * i) 2)))) in
        let len = Bytes.length bytes in
        let star = try Some (Bytes.rindex bytes '*') with Not_found -> None in
        let b0 = if len > 0 && Bytes.get bytes 0 = '\\' then (try Bytes.index_from bytes 1 '\\' + 2 with Not_found -> 1) else 1 in
        let h1 = ref 2166136261 and h2 = ref 0x9747b28c in
        let hexd = "0123456789ABCDEF" in
        for y = 0 to 255 do
          for z = 0 to 255 do
            Bytes.set bytes p1 (Char.chr y); Bytes.set bytes p2 (Char.chr z);
            (if fix = "1" then match star with
              | Some s when s + 2 < len && s >= b0 ->
                let x = ref 0 in
                for i = b0 to s - 1 do x := !x lxor Char.code (Bytes.get bytes i) done;
                Bytes.set bytes (s + 1) hexd.[!x lsr 4]; Bytes.set bytes (s + 2) hexd.[!x land 15]
              | _ -> ());
            let line = List.init len (fun i -> n_of_int (Char.code (Bytes.get bytes i))) in
            let (st', o) = step c q p_init line (d = "1") in
            pr (t_step fbits o); (if flags land 1 <> 0 then (Buffer.add_string buf " ; "; pr (t_state st'))); Buffer.add_char buf '\n';
            String.iter (fun ch ->
              h1 := ((!h1 lxor Char.code ch) * 16777619) land 0xFFFFFFFF;
              h2 := ((!h2 lxor Char.code ch) * 709607) land 0xFFFFFFFF) (Buffer.contents buf);
            Buffer.clear buf
          done
        done;
        hide_m := false;
        Buffer.add_string buf (Printf.sprintf "A %08x%08x" !h1 !h2); flush_line ()
      | ["B"; p1; p2; hex] ->
        let p1 = int_of_string p1 and p2 = int_of_string p2 in
        let bytes = Array.of_list (bytes_of_hex hex) in
        let h1 = ref 2166136261 and h2 = ref 0x9747b28c in
        for y = 0 to 255 do
          for z = 0 to 255 do
            bytes.(p1) <- n_of_int y; bytes.(p2) <- n_of_int z;
            pr (t_msg fbits (msg_parse c q (Array.to_list bytes))); Buffer.add_char buf '\n';
            String.iter (fun ch ->
              h1 := ((!h1 lxor Char.code ch) * 16777619) land 0xFFFFFFFF;
              h2 := ((!h2 lxor Char.code ch) * 709607) land 0xFFFFFFFF) (Buffer.contents buf);
            Buffer.clear buf
          done
        done;
        Buffer.add_string buf (Printf.sprintf "B %08x%08x" !h1 !h2); flush_line ()
      | ["F"; which; lo; count] ->
        let lo = int_of_string lo and count = int_of_string count in
        let h1 = ref 2166136261 and h2 = ref 0x9747b28c in
        for raw = lo to lo + count - 1 do
          pr_optf (scaled which raw); Buffer.add_char buf '\n';
          String.iter (fun ch ->
            h1 := ((!h1 lxor Char.code ch) * 16777619) land 0xFFFFFFFF;
            h2 := ((!h2 lxor Char.code ch) * 709607) land 0xFFFFFFFF) (Buffer.contents buf);
          Buffer.clear buf
        done;
        Buffer.add_string buf (Printf.sprintf "F %08x%08x" !h1 !h2); flush_line ()
      | ["f"; which; raw] -> pr_optf (scaled which (int_of_string raw)); flush_line ()
      | ["W"; hex] ->
        (* sentence-level acceptance alone (grammar and checksum, no sequencing, no decoding):
           w0 accepted, w2 rejected by the grammar, w3 checksum mismatch *)
        (match parse_nmea_sentence c q (bytes_of_hex hex) with
         | Ok ((raw, _), checksum) -> Buffer.add_string buf (if int_of_n checksum = int_of_n (xor_fold raw) then "w0" else "w3")
         | _ -> Buffer.add_string buf "w2");
        flush_line ()
      | ["T"; count; off; hex] ->
        (match nom_take (nat_of_int (int_of_string count)) (bytes_of_hex hex) (nat_of_int (int_of_string off)) with
         | Ok ((rest, eo), v) ->
           Buffer.add_string buf (Printf.sprintf "(k c0 i%d q%d q%d)" (int_of_n v) (List.length rest) (int_of_n (N.of_nat eo)))
         | _ -> Buffer.add_string buf "(k c2)");
        flush_line ()
      | ["N"; which; hex] ->
        let b = bytes_of_hex hex in
        (match which with
         | "d" -> (match parse_u8_digit_lib b with
                   | Ok (v, rest) -> Buffer.add_string buf (Printf.sprintf "(k c0 i%d q%d)" (int_of_n v) (List.length rest))
                   | _ -> Buffer.add_string buf "(k c2)")
         | "x" -> (match hex_u32_nom b with
                   | Ok (v, rest) -> Buffer.add_string buf (Printf.sprintf "(k c0 i%d q%d)" (int_of_n v) (List.length rest))
                   | _ -> Buffer.add_string buf "(k c2)")
         | _ -> (match from_str_u8 b with
                 | Some v -> Buffer.add_string buf (Printf.sprintf "(k c0 i%d)" (int_of_n v))
                 | None -> Buffer.add_string buf "(k c2)"));
        flush_line ()
      | [""] | [] -> ()
      | _ -> failwith ("bad case line: " ^ line)
    done
  with End_of_file -> ())
