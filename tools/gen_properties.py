#!/usr/bin/env python3
"""Development aid: writes the per-type boilerplate of Properties/C04.v, C14.v (statements closed by
`exact`).  The output is committed; the checks only compile it."""
HDR = '''From Ais Require Import Model.Base Model.Enums Model.Fields Model.Messages Model.Unarmor Model.Sentence
  Spec.Layouts Proofs.Bits Proofs.Reads Proofs.Layouts Proofs.Dispatch Proofs.MsgLevel.
From Coq Require Import Lia.
Local Open Scope N_scope.
'''
fixed = [(1,'PositionReport','position_report_of',168),(2,'PositionReport','position_report_of',168),(3,'PositionReport','position_report_of',168),
         (4,'BaseStationReport','base_station_report_of',168),(11,'UtcDateResponse','base_station_report_of',168),
         (10,'UtcDateInquiry','utc_date_inquiry_of',72),(16,'AssignmentModeCommand','assignment_of',92),
         (18,'StandardClassBPositionReport','class_b_of',168),(19,'ExtendedClassBPositionReport','ext_class_b_of',312),
         (21,'AidToNavigationReport','aid_to_navigation_of',272),(27,'LongRangeAisBroadcastMessage','long_range_of',95)]
data = [(6,'BinaryAddressedMessage','binary_addressed_of',88),(8,'BinaryBroadcastMessage','binary_broadcast_of',56),(17,'DgnssBroadcastBinaryMessage','dgnss_of',120)]
lists = [(7,'BinaryAcknowledgeMessage','ack_message_of',32),(13,'SafetyRelatedAcknowledgment','ack_message_of',32),(20,'DataLinkManagementMessage','data_link_of',30)]
texts = [(12,'AddressedSafetyRelatedMessage','addressed_safety_of',72),(14,'SafetyRelatedBroadcastMessage','safety_broadcast_of',40)]

def thm(name, stmt, proof):
    return f'Theorem {name} :\n  {stmt}.\nProof. {proof} Qed.\nPrint Assumptions {name}.\n'

def decode_thms(prefix):
    out = []
    for t,K,V,L in fixed:
        out.append(thm(f'{prefix}_type{t}', f'forall c q bs, sl bs 0 6 = {t} -> ({L} <= length bs)%nat ->\n  parse_bits c q bs = Ok ({K} ({V} bs))',
            f'intros c q bs Ht Hl. pose proof (msg_type{t} c q bs Ht) as H. unfold msg_fixed in H. destruct (Nat.leb_spec {L} (length bs)); [exact H|lia].'))
    for t,K,V,H in data:
        out.append(thm(f'{prefix}_type{t}', f'forall c q bs, sl bs 0 6 = {t} -> ({H} <= length bs)%nat ->\n  noalloc c && (MAX_DATA_SIZE_BYTES <? length (bytes_of_bits (skipn {H} bs)))%nat = false ->\n  parse_bits c q bs = Ok ({K} ({V} bs))',
            f'intros c q bs Ht Hl Hc. pose proof (msg_type{t} c q bs Ht) as H. unfold msg_data in H. rewrite Hc in H. destruct (Nat.leb_spec {H} (length bs)); [exact H|lia].'))
    for t,K,V,w in lists:
        out.append(thm(f'{prefix}_type{t}', f'forall c q bs, sl bs 0 6 = {t} -> (40 + {w} <= length bs)%nat ->\n  parse_bits c q bs = Ok ({K} ({V} bs))',
            f'intros c q bs Ht Hl. pose proof (msg_type{t} c q bs Ht) as H. unfold msg_list in H. destruct (Nat.leb_spec (40 + {w}) (length bs)); [exact H|lia].'))
    for t,K,V,H in texts:
        out.append(thm(f'{prefix}_type{t}', f'forall c q bs, sl bs 0 6 = {t} -> ({H} + 6 <= length bs)%nat ->\n  noalloc c && (20 <? (length bs - {H}) / 6)%nat = false ->\n  parse_bits c q bs = Ok ({K} ({V} bs))',
            f'intros c q bs Ht Hl Hc. pose proof (msg_type{t} c q bs Ht) as H. unfold msg_text in H. rewrite Hc in H. destruct (Nat.leb_spec ({H} + 6) (length bs)); [exact H|lia].'))
    return out

def short_thms(prefix):
    out = []
    for t,K,V,L in fixed:
        out.append(thm(f'{prefix}_short{t}', f'forall c q bs, sl bs 0 6 = {t} -> (length bs < {L})%nat -> parse_bits c q bs = Err ENmea',
            f'intros c q bs Ht Hl. pose proof (msg_type{t} c q bs Ht) as H. unfold msg_fixed in H. destruct (Nat.leb_spec {L} (length bs)); [lia|exact H].'))
    for t,K,V,H in data:
        out.append(thm(f'{prefix}_short{t}', f'forall c q bs, sl bs 0 6 = {t} -> (length bs < {H})%nat -> parse_bits c q bs = Err ENmea',
            f'intros c q bs Ht Hl. pose proof (msg_type{t} c q bs Ht) as H. unfold msg_data in H. destruct (Nat.leb_spec {H} (length bs)); [lia|exact H].'))
    for t,K,V,w in lists:
        out.append(thm(f'{prefix}_short{t}', f'forall c q bs, sl bs 0 6 = {t} -> (length bs < 40 + {w})%nat -> parse_bits c q bs = Err ENmea',
            f'intros c q bs Ht Hl. pose proof (msg_type{t} c q bs Ht) as H. unfold msg_list in H. destruct (Nat.leb_spec (40 + {w}) (length bs)); [lia|exact H].'))
    for t,K,V,H in texts:
        out.append(thm(f'{prefix}_short{t}', f'forall c q bs, sl bs 0 6 = {t} -> (length bs < {H} + 6)%nat -> parse_bits c q bs = Err ENmea',
            f'intros c q bs Ht Hl. pose proof (msg_type{t} c q bs Ht) as H. unfold msg_text in H. destruct (Nat.leb_spec ({H} + 6) (length bs)); [lia|exact H].'))
    return out

if __name__ == '__main__':
    import sys
    which = sys.argv[1]
    if which == 'decode': print('\n'.join(decode_thms(sys.argv[2])))
    else: print('\n'.join(short_thms(sys.argv[2])))
