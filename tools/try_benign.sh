#!/bin/sh
# usage: tools/try_benign.sh <ids...> — runs every property's quick correspondence against each
# behaviour-preserving refactoring stored under benign/<id>/ (scratch worktree, removed afterwards).
# Every check must stay silent; a VIOLATION here is a false alarm of the machinery (or a behaviour
# change the refactoring's author missed — the replay tells which).
cd "$(dirname "$0")/.."
all="C01 C02 C03 C04 C05 C06 C07 C08 C09 C10 C11 C12 C13 C14 C15 C16 C17 C18 C19 C20"
for m in "$@"; do
  out=$(tools/try_mutant.sh benign/$m/patch.diff $all 2>&1)
  fired=$(echo "$out" | grep -E "^VIOLATION" | tr '\n' ' ')
  n=$(echo "$out" | grep -cE "violations,")
  echo "$m: $n checks ran; alarms: ${fired:-none}"
done
