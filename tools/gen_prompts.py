#!/usr/bin/env python3
"""usage: tools/gen_prompts.py <dir> <style> [ids...] — writes <dir>/<Cxx>.prompt for a wave of sub-agents and creates the
scratch worktrees <dir>/<Cxx> of /repo (detached, at HEAD).  A prompt holds the text of one property, the protocol
(build in three configurations, the pinned suite passes unedited, a demo that fails with / passes without the change,
no git stash), the requested STYLE of change, and one line per earlier seeded change for that property so that the
agent picks another mechanism — nothing else from /verif."""
import json, os, subprocess, sys, glob

STYLES = {
 'feature': "the change is presented as a small FEATURE ADDITION or API EXTENSION that a maintainer would welcome — support for one more message type or sentence variant (e.g. types 22/23/25/26, `!BSVDM`-style talkers, NMEA 4.10 TAG blocks with more fields, a `parse_with_timestamp`, a builder/`Default`/`Clone` for the parser, a getter, a `Display` impl, a new cargo feature) — where the new code path, or the small refactoring made to accommodate it, changes the behaviour of EXISTING inputs in some corner; the feature itself should work",
 'port': "the change is presented as a PORT / MIGRATION of an internal — replacing a nom combinator chain by a hand-written reader (or the reverse), a `Vec` by a fixed array or `heapless` container (or the reverse), `u8` arithmetic by `usize`/`u32` (or the reverse), byte-slice handling by `str` handling, a recursive helper by a loop, a per-call buffer by a field of the parser, the bit cursor `(slice, offset)` by a running bit index — where the port is faithful except in ONE corner (a boundary, a width, an error that became a value or the reverse, a state that now survives a failing call)",
 'harden': "the change is presented as ROBUSTNESS HARDENING — limits, sanity checks, early rejections, defensive clamps, saturating arithmetic, resynchronisation after garbage, duplicate suppression, a time-to-live for pending fragment groups — that goes ONE STEP too far or is off by one, so that some legal input is now rejected, altered or forgotten (or an illegal one slips through a check that was moved)",
 'spec': "the change is presented as bringing the decoder CLOSER TO THE STANDARDS (ITU-R M.1371-5, NMEA 0183 / IEC 61162-1, IALA guidance) as a well-meaning maintainer reads them — rejecting or normalising values the standard calls reserved, undefined or 'not to be used', applying a default the standard prescribes, clamping to the documented range, honouring a corner the standard describes (e.g. heading 360..510, speed 1022 = '102.2 knots or higher', second 61..63, type 24 part numbers 2..3, ship type first/second digit, turn rate +-127, fill bits, sentence length limit of 82 characters, talker identifiers) — in a way that CONTRADICTS THE PROPERTY AS STATED above for some input",
 'api': "the change is presented as PUBLIC-API ERGONOMICS / INPUT NORMALISATION — `parse` accepting `impl AsRef<[u8]>` or `&str`, trimming surrounding whitespace or a trailing CR/LF, tolerating lower-case or missing pieces, skipping a UTF-8 BOM or leading garbage before the '!', `FromStr`/`TryFrom<&[u8]>` impls, an iterator adaptor over lines, returning owned instead of borrowed data, `#[must_use]`/`Default`/`Clone`/`PartialEq` derives, splitting a module — where the normalisation or the restructuring changes what some line means (bytes dropped or kept that take part in the checksum, a field that is now optional, state that is now shared or copied)",
 'diag': "the change is presented as an improvement of DIAGNOSTICS — richer error values or messages, error context (line number, field name, offset), a `source()` chain, logging hooks, a `Debug` clean-up, a statistics counter on the parser — where computing the diagnostic has a side effect on parsing (consumes input, mutates state before a check, evaluates something eagerly that used to be lazy, panics while formatting, changes which error wins)",
}

def main():
    d, style = sys.argv[1], sys.argv[2]
    ids = sys.argv[3:] or ['C%02d' % i for i in range(1, 21)]
    verif = os.path.dirname(os.path.dirname(os.path.abspath(__file__)))
    props = {}
    for l in open(os.path.join(verif, 'properties.jsonl')):
        p = json.loads(l); props[p['id']] = p
    os.makedirs(d, exist_ok=True)
    for pid in ids:
        earlier = []
        for m in sorted(glob.glob(os.path.join(verif, 'seeded', pid + '*', 'meta.json'))):
            try: earlier.append(json.load(open(m)).get('what', ''))
            except Exception: pass
        text = props[pid].get('statement') or props[pid].get('text')
        wt = os.path.join(d, pid)
        if not os.path.isdir(wt):
            subprocess.run(['git', '-C', '/repo', 'worktree', 'add', '--detach', wt, 'HEAD'], check=True, stdout=subprocess.DEVNULL, stderr=subprocess.DEVNULL)
        prompt = f'''You are helping to evaluate a verification framework by writing a *seeded defect* for a Rust crate (squidpickles/ais, an AIS NMEA 0183 decoder, no_std-capable).

Your private scratch git worktree of the crate is at: {wt}   (work ONLY there; never touch /repo or /verif, never read anything under /verif; do not commit anything).
The sandbox has no network: always use `cargo ... --offline` (export CARGO_NET_OFFLINE=true).

The crate is supposed to satisfy this semantic property ({pid}):

"""
{text}
"""

TASK: make a realistic change to the crate's source (under src/) that BREAKS this property, while
  (a) the crate still compiles in all three configurations: `cargo build --offline` (std), `cargo build --offline --no-default-features --features alloc`, `cargo build --offline --no-default-features`;
  (b) the existing test suite still passes unedited: `cargo test --offline` (59 unit tests + 1 doctest) — do not edit, delete or add to the existing tests;
  (c) {STYLES[style]} — not an obvious sabotage, no `if input == magic` special-casing of one literal input;
  (d) the violation needs something SPECIFIC to manifest — at best TWO independent conditions that must coincide, each harmless alone: a particular multi-step sequence of lines, a particular length/value/boundary combination, a particular build configuration, an unusual but legal input, or two cooperating sites that each look fine alone — so that ordinary use and the existing tests do not expose it at once.

Mechanisms ALREADY used by earlier seeded changes for this property — pick a clearly DIFFERENT mechanism and a different part of the code where possible:
''' + ''.join('  - %s\n' % e for e in earlier if e) + f'''
DELIVERABLES (all inside your worktree):
  1. the source change, left UNCOMMITTED in the working tree (only files under src/);
  2. a demonstration `tests/demo_mutant.rs` (an integration test using only the crate's public API: `ais::AisParser`, `ais::messages::{{parse, unarmor}}`, `ais::AisFragments`, ... — or for the command-line tool a test that runs the built binary via `env!("CARGO_BIN_EXE_aisparser")`) which FAILS with your change and PASSES on the original code. Verify both yourself: run it with the change, then save your change with `git diff -- src > {d}/{pid}.mine.patch; git checkout -- src` to run it without and `git apply` the patch file to restore it (do NOT use `git stash`: the stash is shared between worktrees and other agents are working in parallel; if you add NEW files under src/, `git add -N` them first so that they are in the diff), and report the outcomes. If the defect only shows in a non-default configuration, say exactly which cargo flags the demo needs;
  3. `meta.txt`: what you changed, which clause of the property it breaks, exactly what is needed for it to manifest, a concrete failing input (full NMEA lines or hex bytes), and the commands you ran with their results.

Read the code first (src/sentence.rs, src/messages/mod.rs, src/messages/*.rs, src/bin/aisparser.rs, src/errors.rs, src/lib.rs). Keep the patch small (ideally under 80 changed lines). When done, reply with a short summary: files changed, the mechanism, the trigger, the concrete failing input, and the results of (a), (b) and the demo with/without the change.
'''
        open(os.path.join(d, pid + '.prompt'), 'w').write(prompt)
    print('wrote', len(ids), 'prompts under', d)

if __name__ == '__main__':
    main()
