#!/usr/bin/env python3
"""usage: tools/soak_explore.py <seconds>  — a long coverage-guided search on /repo's current tree (own corpus
under .cache/soak), then every retained input through the implementation and the model, compared in full
(std build; messages and unarmor also on the no-allocator build).  Prints the disagreements.  Development aid:
flushes out model/implementation differences that the short per-run search would only hit now and then."""
import os, sys, subprocess, shutil
sys.path.insert(0, os.path.join(os.path.dirname(os.path.abspath(__file__)), '..'))
from vlib import common as c, explore as e
from concurrent.futures import ThreadPoolExecutor
secs = int(sys.argv[1]) if len(sys.argv) > 1 else 600
root = os.path.join(c.CACHE, 'soak')
bindir = e.build()
log = {}
for t in e.TARGETS:
    d = os.path.join(root, t)
    if not os.path.isdir(d):
        os.makedirs(d); e.seed_corpus(t, d)
with ThreadPoolExecutor(max_workers=3) as ex:
    list(ex.map(lambda t: e.run_target(bindir, t, os.path.join(root, t), secs, 5, log), e.TARGETS))
print(log)
exe = c.build_harness('std', 'debug')
bad = 0
for t in e.TARGETS:
    d = os.path.join(root, t)
    files = sorted(os.listdir(d))
    art = d + '-artifacts'
    arts = sorted(os.listdir(art)) if os.path.isdir(art) else []
    lines = ['%s %s' % (e.KIND[t], (open(os.path.join(d, f), 'rb').read().hex() or '-')) for f in files]
    lines += ['%s %s' % (e.KIND[t], (open(os.path.join(art, f), 'rb').read().hex() or '-')) for f in arts]
    p = subprocess.run([exe, '--dump'], input=('\n'.join(lines) + '\n').encode(), stdout=subprocess.PIPE)
    cases = [l for l in p.stdout.decode('latin-1').split('\n') if l]
    for feat in (('std', 'none') if t != 'hist' else ('std', 'none')):
        io = c.run_impl(cases, feat, 'debug'); mo = c.run_model(cases, feat, 'asis')
        n = 0
        for i, (a, b) in enumerate(zip(io, mo)):
            if cases[i].startswith('H'): continue
            a0, b0 = c.split_line(a)[0], c.split_line(b)[0]
            if a0 != b0:
                ds = [d_ for d_ in c.relevant_diffs(a0, b0, None) if not d_[0].endswith('m') and not ('r' in d_[0] and '(v c12 ' in a0)]
                if ds:
                    n += 1
                    if n <= 5: print('DIFF', t, feat, cases[i][:200], '\n  impl ', a0[:300], '\n  model', b0[:300], '\n  ', ds[:3])
        bad += n
        print(t, feat, 'inputs', len(files), 'artifacts', len(arts), 'cases', len(cases), 'disagreements', n)
print('TOTAL disagreements', bad)
