#!/bin/sh
# runs every property's check (tier from $1, default quick) and prints one line per property
cd "$(dirname "$0")/.."
tier=${1:-quick}
for i in 01 02 03 04 05 06 07 08 09 10 11 12 13 14 15 16 17 18 19 20; do
  timeout 7200 ./check C$i --tier $tier 2>&1 | grep -E "VIOLATION|KNOWN|theorems" 
done
