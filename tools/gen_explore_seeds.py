#!/usr/bin/env python3
"""Writes explore/seeds/{msg,hist,unarmor}.hex: starting inputs for the coverage-guided search
(one hex string per line).  Built from the ordinary generators; the history seeds are encoded in the
input shape of harness/src/shape.rs and decoded back through the harness as a self-check."""
import os, random, subprocess, sys
sys.path.insert(0, os.path.join(os.path.dirname(os.path.abspath(__file__)), '..'))
from vlib import common as c, gen, props as P

rng = random.Random(20260930)
out = os.path.join(c.VERIF, 'explore', 'seeds')
os.makedirs(out, exist_ok=True)

def enc_line(line, parser=0, decode=1):
    flags = (decode << 2) | (parser << 3)
    star = line.rfind(b'*')
    if line[:1] == b'!' and star > 0 and len(line) == star + 3 and star - 1 <= 255 and b'*' not in line[1:star]:
        body = line[1:star]
        if line[star + 1:] == b'%02X' % gen.checksum(body):
            return bytes([1 | flags, len(body), 0]) + body
    if len(line) <= 255:
        return bytes([2 | flags, len(line)]) + line
    return None

def enc_hist(lines):
    recs = [enc_line(l, p, d) for (p, d, l) in lines[:10]]
    if any(r is None for r in recs): return None
    return b''.join(recs)

msg, hist, una = [], [], []
for t in gen.SUPPORTED:
    for mode in ('mixed', 'random', 'ones', 'zeros', 'mixed', 'mixed'):
        msg.append(gen.pack(gen.message_bits(rng, t, mode)))
for t in range(64):
    msg.append(bytes([t << 2]) + bytes(rng.getrandbits(8) for _ in range(rng.choice([0, 5, 20, 40]))))

histories = []
for t in gen.SUPPORTED:
    for _ in range(3):
        histories.append([(0, 1, gen.valid_sentence(rng, t))])
    pay, fill = gen.armor(gen.message_bits(rng, t))
    for n in (2, 3, 5):
        if len(pay) > n:
            sid = rng.choice([None, 0, 3, 9])
            histories.append([(0, 1, l) for l in gen.fragment(rng, pay, fill, n, sid)])
# interleaved groups on two parsers, transparent lines between fragments, bad checksums
for _ in range(60):
    pay, fill = gen.armor(gen.message_bits(rng, rng.choice(gen.SUPPORTED)))
    pay2, fill2 = gen.armor(gen.message_bits(rng, rng.choice(gen.SUPPORTED)))
    a = gen.fragment(rng, pay, fill, rng.choice([2, 3]), rng.choice([None, 1, 2]))
    b = gen.fragment(rng, pay2, fill2, rng.choice([1, 2]), rng.choice([None, 1, 5]))
    h = []
    for i in range(max(len(a), len(b))):
        if i < len(a): h.append((0, rng.randrange(2), a[i]))
        if i < len(b): h.append((rng.randrange(2), 1, b[i]))
        if rng.random() < 0.3: h.append((0, 1, gen.mutate(rng, gen.valid_sentence(rng))))
    histories.append(h)
for _ in range(40):
    histories.append([(0, 1, gen.random_line(rng))])
for h in histories:
    e = enc_hist(h)
    if e is not None and len(e) <= 700: hist.append((e, h))

for n in (0, 1, 2, 3, 4, 5, 7, 8, 28, 60, 100):
    for fl in (0, 2, 5):
        una.append(bytes([fl]) + bytes(rng.getrandbits(8) for _ in range(n)))
una.append(bytes([0x80 | 1]) + b'15M:w`W0')
una.append(bytes([0x80]) + b'15M\x00\xff/X_x')

# self-check: the harness decodes the history seeds back to the lines they were made from
exe = c.build_harness('std', 'debug')
p = subprocess.run([exe, '--dump'], input=''.join('h %s\n' % e.hex() for e, _ in hist).encode(), stdout=subprocess.PIPE)
got = [l for l in p.stdout.decode().split('\n') if l]
want = []
for e, h in hist:
    want.append('H'); want += ['L %d %d %s' % (p_, d, c.hexs(l)) for (p_, d, l) in h[:10]]
assert got == want, 'shape self-check failed'
for name, items in (('msg', msg), ('hist', [e for e, _ in hist]), ('unarmor', una)):
    with open(os.path.join(out, name + '.hex'), 'w') as f:
        for b in items: f.write((b.hex() if b else '-') + '\n')
    print(name, len(items), 'seeds')

from vlib import explore
open(os.path.join(c.VERIF, 'explore', 'baseline.sha'), 'w').write(explore.repo_hash() + '\n')
print('baseline', explore.repo_hash())
