#!/bin/sh
# usage: tools/try_mutant.sh <diff> <check ids...> — applies a seeded change to a scratch worktree of
# /repo (outside /repo and /verif, removed afterwards) and runs the named checks' correspondence on it
cd "$(dirname "$0")/.."
diff=$(realpath "$1"); shift
wt=/tmp/verif-mut-$$
tag=$(printf %s "$wt" | sha1sum | cut -c1-8)
git -C /repo worktree add -q --detach "$wt" HEAD || exit 2
git -C "$wt" apply "$diff" || { git -C /repo worktree remove --force "$wt"; exit 2; }
for p in "$@"; do
  echo "== $p"; VERIF_REPO="$wt" timeout 1200 ./check "$p" --skip-proof --evidence-dir /tmp/verif-mut-evidence-$$ 2>&1 | grep -E "VIOLATION|KNOWN|violations" | head -3
done
git -C /repo worktree remove --force "$wt"; git -C /repo worktree prune
rm -rf /tmp/verif-mut-evidence-$$ .cache/harness-$tag .cache/target-*-$tag .cache/explore-crate-$tag .cache/explore-target-$tag .cache/explore-target-*feat-$tag .cache/explore/$tag* .cache/*-$tag.lock
