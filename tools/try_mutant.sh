#!/bin/sh
# usage: tools/try_mutant.sh <diff> <check ids...>  — applies a seeded change to /repo, runs the checks, restores /repo
diff="$1"; shift
git -C /repo apply "$diff" || exit 2
for p in "$@"; do
  echo "== $p"; timeout 900 ./check "$p" --skip-proof 2>&1 | grep -E "VIOLATION|KNOWN|violations" | head -3
done
git -C /repo checkout -- .
