#!/bin/sh
# usage: tools/ingest_wave.sh <dir with worktrees Cxx> <suffix> [ids...] — for every finished worktree
# (meta.txt present): confirm (ingest_mutant.sh, trying the two non-default configurations for the demo
# when the default one does not fail), remove the worktree, run the property's check, print one line.
dir=$1; suf=$2; shift 2
cd "$(dirname "$0")/.."
ids=${*:-C01 C02 C03 C04 C05 C06 C07 C08 C09 C10 C11 C12 C13 C14 C15 C16 C17 C18 C19 C20}
for k in $ids; do
  wt=$dir/$k
  [ -f "$wt/meta.txt" ] && [ -d "$wt/tests" ] || continue
  [ -f seeded/$k$suf/meta.json ] && continue
  prop=$(printf %s "$k" | cut -c1-3)
  ok=no
  for flags in "" "--no-default-features" "--no-default-features --features alloc"; do
    if tools/ingest_mutant.sh "$wt" "$k$suf" "$prop" $flags > /tmp/ingest-$k.log 2>&1; then ok="yes[$flags]"; break; fi
  done
  git -C /repo worktree remove --force "$wt" 2>/dev/null
  res=$(tools/try_mutant.sh seeded/$k$suf/patch.diff $prop 2>&1 | grep -E "^VIOLATION|violations," | head -2 | tr '\n' ' ')
  echo "$k$suf confirmed=$ok :: $res"
done
