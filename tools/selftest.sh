#!/bin/sh
# Sensitivity self-test: applies every seeded change of /verif/seeded to a scratch worktree of /repo
# (under /tmp, removed afterwards), runs the named property's quick correspondence against it and
# expects a VIOLATION.  /repo itself is not touched.
cd "$(dirname "$0")/.."
fail=0
for d in seeded/*/; do
  id=$(basename "$d")
  prop=$(python3 -c "import json;print(json.load(open('$d/meta.json'))['property'])")
  out=$(tools/try_mutant.sh "$d/patch.diff" "$prop" 2>&1 | grep -E "^VIOLATION" | head -1)
  if [ -n "$out" ]; then echo "$id: caught by $prop ($out)"; else echo "$id: MISSED by $prop"; fail=1; fi
done
exit $fail
