#!/bin/sh
# Sensitivity self-test: applies every seeded change of /verif/seeded to /repo's working tree (never
# committed), runs the named property's quick correspondence, expects a VIOLATION, and restores /repo.
cd "$(dirname "$0")/.."
fail=0
for d in seeded/*/; do
  id=$(basename "$d")
  prop=$(python3 -c "import json;print(json.load(open('$d/meta.json'))['property'])")
  if ! git -C /repo apply "$PWD/$d/patch.diff"; then echo "$id: patch does not apply"; fail=1; continue; fi
  out=$(timeout 1200 ./check "$prop" --skip-proof 2>&1 | grep -E "^VIOLATION" | head -1)
  git -C /repo checkout -- .
  if [ -n "$out" ]; then echo "$id: caught by $prop ($out)"; else echo "$id: MISSED by $prop"; fail=1; fi
done
exit $fail
