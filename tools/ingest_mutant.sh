#!/bin/sh
# usage: tools/ingest_mutant.sh <worktree> <seeded id> <property> [cargo flags for the demo...]
# Takes a sub-agent's scratch worktree (source change uncommitted, tests/demo_mutant.rs, meta.txt),
# confirms independently that (1) the existing suite passes with the change, (2) the demonstration
# fails with it and (3) passes without it, and stores patch.diff / demo / notes under seeded/<id>/.
# Prints one summary line; exit 0 only if all three confirmations hold.
wt=$1; id=$2; prop=$3; shift 3
cd "$(dirname "$0")/.."
export CARGO_NET_OFFLINE=true
d=seeded/$id
mkdir -p "$d"
git -C "$wt" diff -- src > "$d/patch.diff"
[ -s "$d/patch.diff" ] || { echo "$id: empty patch"; exit 2; }
cp "$wt/tests/demo_mutant.rs" "$d/demo_mutant.rs" 2>/dev/null || { echo "$id: no demo"; exit 2; }
cp "$wt/meta.txt" "$d/meta.txt" 2>/dev/null
# (1) suite with the change (demo moved aside so that only the pinned tests run)
mv "$wt/tests/demo_mutant.rs" "$wt/demo_mutant.rs.aside"
suite=$(cd "$wt" && cargo test --offline --lib 2>&1 | grep -E "^test result" | head -1)
doc=$(cd "$wt" && cargo test --offline --doc 2>&1 | grep -E "^test result" | head -1)
b1=$(cd "$wt" && cargo build --offline --no-default-features --features alloc 2>&1 | grep -cE "^error")
b2=$(cd "$wt" && cargo build --offline --no-default-features 2>&1 | grep -cE "^error")
mv "$wt/demo_mutant.rs.aside" "$wt/tests/demo_mutant.rs"
# (2) demo with the change
with=$(cd "$wt" && cargo test --offline "$@" --test demo_mutant 2>&1 | grep -E "^test result" | head -1)
# (3) demo without
git -C "$wt" checkout -q -- src
without=$(cd "$wt" && cargo test --offline "$@" --test demo_mutant 2>&1 | grep -E "^test result" | head -1)
git -C "$wt" apply "$PWD/$d/patch.diff"
echo "$id [$prop]: suite: $suite | doc: $doc | build errors alloc/none: $b1/$b2 | demo with: $with | demo without: $without"
printf '%s\n' "suite_with_change: $suite" "doctest_with_change: $doc" "demo_with_change: $with" "demo_without_change: $without" "demo_flags: $*" > "$d/confirm.txt"
case "$suite" in *"59 passed; 0 failed"*) ;; *) exit 1;; esac
case "$with" in *FAILED*) ;; *) exit 1;; esac
case "$without" in *"ok."*) ;; *) exit 1;; esac
[ "$b1" = 0 ] && [ "$b2" = 0 ] || exit 1
exit 0
