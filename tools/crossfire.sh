#!/bin/sh
# usage: tools/crossfire.sh <seeded ids...> — runs every property's quick correspondence against each
# seeded change (scratch worktree, removed afterwards) and prints which checks fire.  A check that
# fires on a change seeded for another property is either a second property the change really breaks
# or a misattribution; DESIGN.md section 11 discusses the off-diagonal entries.
cd "$(dirname "$0")/.."
all="C01 C02 C03 C04 C05 C06 C07 C08 C09 C10 C11 C12 C13 C14 C15 C16 C17 C18 C19 C20"
for m in "$@"; do
  out=$(tools/try_mutant.sh seeded/$m/patch.diff $all 2>&1)
  fired=$(echo "$out" | grep -E "^VIOLATION" | sed -E 's/VIOLATION property=(C[0-9]+).*/\1/' | tr '\n' ' ')
  echo "$m: $fired"
done
