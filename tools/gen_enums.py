#!/usr/bin/env python3
"""One-time generator (development aid, not run by the checks): reads the three large
enums of /repo and writes their transcription as Coq inductives (Model/Enums.v) and the
constructor-index functions of the Rust harness (harness/src/enums.rs).  The output is
committed and thereafter maintained by hand; the correspondence check (exhaustive over
all codes) is what ties it to the code."""
import re, sys
R = '/repo/src/messages/'
def enum(src, name):
    m = re.search(r'pub enum %s \{(.*?)\n\}' % name, src, re.S)
    out = []
    for v in m.group(1).strip().split('\n'):
        v = v.strip().rstrip(',')
        if not v or v.startswith('//'): continue
        out.append((v.split('(')[0], '(' in v))
    return out
def arms(src, name):
    m = re.search(r'impl %s \{\s*pub fn parse\(data: u8\) -> Option<Self> \{\s*match data \{(.*?)\n        \}' % name, src, re.S)
    out = []
    for a in m.group(1).strip().split('\n'):
        a = a.strip().rstrip(',')
        pat, rhs = [x.strip() for x in a.split('=>')]
        if pat == '_': rng = None
        elif '..=' in pat:
            lo, hi = pat.split('..=')
            rng = (int(lo), 255 if hi == 'u8::MAX' else int(hi))
        else: rng = (int(pat), int(pat))
        if rhs == 'None': out.append((rng, None, False))
        else:
            c = re.match(r'Some\(Self::(\w+)(\(data\))?\)', rhs)
            out.append((rng, c.group(1), bool(c.group(2))))
    return out
specs = [('types.rs', 'ShipType', 'ST', 'ship_type'),
         ('aid_to_navigation_report.rs', 'NavaidType', 'NT', 'navaid_type'),
         ('position_report.rs', 'NavigationStatus', 'NS', 'nav_status'),
         ('types.rs', 'EpfdType', 'EP', 'epfd_type')]
coq = ['(* Model/Enums.v — transcription of the large enumerations (types.rs, position_report.rs,',
       '   aid_to_navigation_report.rs).  First written by tools/gen_enums.py, maintained by hand. *)',
       'From Ais Require Import Model.Base.', 'Local Open Scope N_scope.', '']
rs = ['// constructor indices in declaration order; first written by tools/gen_enums.py', '#![allow(unused)]',
      'use ais::messages::types::*;', 'use ais::messages::position_report::NavigationStatus;',
      'use ais::messages::aid_to_navigation_report::NavaidType;', '']
for f, name, pre, cn in specs:
    src = open(R + f).read()
    vs = enum(src, name); ar = arms(src, name)
    coq.append('Inductive %s :=' % cn)
    for v, p in vs: coq.append('| %s_%s%s' % (pre, v, ' (c : N)' if p else ''))
    coq[-1] += '.'
    coq.append('')
    coq.append('(* %s::parse — one test per match arm, in source order *)' % name)
    coq.append('Definition %s_parse (d : N) : option %s :=' % (cn, cn))
    for rng, c, p in ar:
        val = 'None' if c is None else 'Some (%s_%s%s)' % (pre, c, ' d' if p else '')
        if rng is None: coq.append('  %s.' % val); break
        lo, hi = rng
        cond = '(d =? %d)' % lo if lo == hi else '((%d <=? d) && (d <=? %d))' % (lo, hi)
        coq.append('  if %s then %s else' % (cond, val))
    else:
        coq.append('  None.')
    coq.append('')
    coq.append('(* constructor index in declaration order, and the carried code if any *)')
    coq.append('Definition %s_index (v : %s) : N * option N :=' % (cn, cn))
    coq.append('  match v with')
    for i, (v, p) in enumerate(vs):
        coq.append('  | %s_%s%s => (%d, %s)' % (pre, v, ' c' if p else '', i, 'Some c' if p else 'None'))
    coq.append('  end.')
    coq.append('')
    rs.append('pub fn %s_index(v: &%s) -> (u32, Option<u8>) {' % (cn, name))
    rs.append('    match v {')
    for i, (v, p) in enumerate(vs):
        rs.append('        %s::%s%s => (%d, %s),' % (name, v, '(c)' if p else '', i, 'Some(*c)' if p else 'None'))
    rs.append('    }'); rs.append('}'); rs.append('')
# From<ShipType> for u8
src = open(R + 'types.rs').read()
m = re.search(r'impl From<ShipType> for u8 \{.*?match value \{(.*?)\n        \}', src, re.S)
coq.append('(* impl From<ShipType> for u8 *)')
coq.append('Definition ship_type_to_u8 (v : ship_type) : N :=')
coq.append('  match v with')
for a in m.group(1).strip().split('\n'):
    a = a.strip().rstrip(',')
    pat, rhs = [x.strip() for x in a.split('=>')]
    if '(' in pat: coq.append('  | ST_%s c => c' % pat.split('(')[0])
    else: coq.append('  | ST_%s => %s' % (pat, rhs))
coq.append('  end.')
open('/verif/coq/Model/Enums.v', 'w').write('\n'.join(coq) + '\n')
open('/verif/harness/src/enums.rs', 'w').write('\n'.join(rs) + '\n')
