#!/usr/bin/env python3
"""Writes MANIFEST.json from the table below (run by hand after changing what is claimed)."""
import json, os
V = os.path.dirname(os.path.dirname(os.path.abspath(__file__)))
LEVEL_TEXT = ("theorems about a hand-written executable Gallina model of the crate (Coq 8.16 kernel), for all inputs / "
              "histories / configurations the property quantifies over, tied to /repo's current working tree on every run by a "
              "differential correspondence (extracted model vs. the implementation built from /repo) on the property's projection")
NOTE = ("trusted: Coq kernel + VM; the Rust->Gallina transcription (sampled by the correspondence, exhaustively on finite "
        "sub-domains, and on inputs retained by a coverage-guided search of the tree under test); extraction (ExtrOcamlBasic only) + OCaml glue; Rust harness printer; nom/heapless/core semantics as modelled")
claimed = {
 'C04': ('layout theorems and round trips from field values, also through armouring, fragmentation and framing (Coq) + differential correspondence', '6 C04', 'per type the decoded message equals the ITU layout function of the payload bits (type 15: at every length, the positional specification interrogation_of)'),
 'C09': ('dispatch theorem (Coq, 64-way case split) + differential correspondence (a panic or non-returning call on an unsupported type counts: it is not an error value)', '6 C09', ''),
 'C02': ('grammar/checksum theorems (Coq) + differential correspondence on outcome and checksum values', '6 C02', ''),
 'C06': ('invariant of a ghost-instrumented state machine by induction over histories (Coq) + exhaustive short histories and random long ones against the implementation', '6 C06', ''),
 'C07': ('sentence-shape theorems (Coq) + differential correspondence on sentence fields, the two address tables exhaustively (2^16 talkers, 2^24 report types) and every adjacent byte pair through digest sweeps', '6 C07', ''),
 'C08': ('accepted <-> WellFormed, both directions; u8::from_str and nom hex_u32 transcribed and proved equal to the model (Coq) ; TAG block, leading bytes and trailer irrelevance theorems (Coq) + mutation / near-miss correspondence and every adjacent byte pair of several sentence shapes (digest sweeps)', '6 C08', ''),
 'C01': ('no-Panic theorems over an executable model in which every panicking Rust operation is an explicit Panic result (Coq) + catch_unwind/watchdog runs of debug and release builds of the three feature sets', '6 C01', 'partial for the runtime: memory safety and termination of the implementation itself are sampled, not proved'),
 'C03': ('equality of the buffer algorithm with the 6-bit unpacking specification for all strings and fills (Coq: induction four characters at a time + finite sweeps) + exhaustive byte/phase/fill correspondence', '6 C03', ''),
 'C19': ('theorems pinning the as-is value, refuting the property on a witness and proving it for the repaired model (Coq) + three-way correspondence (impl / as-is model / repaired model); known finding', '6 C19', 'the unchanged tree violates the property: recorded as a known finding'),
 'C10': ('two\'s-complement theorem + Flocq binary32 error analysis of the exact operation sequence (Coq) + bit-exact correspondence of the 32 result bits (thorough: every raw value of the 28/27/18/17-bit coordinate domains)', '6 C10', '"correct to single-precision rounding" is read as relative error <= 2^-22 (two or three roundings); these theorems use the standard library real-number axioms'),
 'C11': ('iff theorems per conversion function for every raw value (Coq) + directed sentinel/neighbour correspondence and whole raw-value ranges of the public scaling functions', '6 C11', ''),
 'C12': ('exhaustive kernel-checked case splits over all codes against the specification tables (Coq) + exhaustive correspondence through the real message path', '6 C12', ''),
 'C13': ('trim/character-table theorems (Coq) + one-hot sweeps and structured texts against the implementation', '6 C13', ''),
 'C15': ('data = input bytes after the header, for every length (Coq) + every payload length 0..125 in three builds', '6 C15', ''),
 'C16': ('layout theorems for the 19-bit state per type; type 9: as-is pinned, refuted on a witness, proved for the repaired model (Coq) + three-way correspondence; known finding', '6 C16', 'type 9 violates the property on the unchanged tree: recorded as a known finding'),
 'C05': ('in-order reassembly theorem from any state for any n >= 2 and transmit-then-receive theorem over a specification-side transmitter (Coq, induction over the fragment list) + groups of 2..12 fragments under five kinds of prior history with interleaved lines and the Option/Result conversions', '6 C05', ''),
 'C14': ('per-type length thresholds and element counts as functions of the number of bits present (Coq) + every type x every byte length', '6 C14', ''),
 'C18': ('std = alloc by computation; no-alloc refines std up to Nmea rejection at message, unarmor, sentence and step level (Coq) + three (thorough: six) builds run on the other properties\' streams and capacity boundaries', '6 C18', 'std-vs-alloc Rust builds are tied by correspondence, not proof'),
 'C20': ('theorems about the CLI loop as a function of stdin bytes (Coq) + the real binary run through pipes, compared record by record with the model and with the library in process, and every stream re-run without its rejected lines / unfragmented sentences (the records of the other lines must not change)', '6 C20', 'partial for the runtime: read errors, closed stdout, exit status are observed on the binary, not modelled'),
 'C17': ('state-transparency theorems lifted to histories, independence of two instances on interleaved histories (Coq) + metamorphic insert/remove runs and two-parser interleavings', '6 C17', 'that the implementation keeps no state outside the parser value is what the interleaving runs check'),
}
pending = {}
props = [json.loads(l) for l in open(os.path.join(V, 'properties.jsonl'))]
checks, na = [], []
for p in props:
    pid = p['id']
    if pid in claimed:
        tech, ref, extra = claimed[pid]
        checks.append({
            'property_id': pid,
            'quick_cmd': './check %s --tier quick' % pid,
            'thorough_cmd': './check %s --tier thorough' % pid,
            'evidence_file': 'evidence/%s.json' % pid,
            'replay_cmd_template': './check %s --replay {path}' % pid,
            'engine': 'coq-model+correspondence',
            'level_claimed': {'category': 'proof', 'text': LEVEL_TEXT + ('; ' + extra if extra else ''), 'design_ref': 'DESIGN.md section ' + ref},
            'level_note': NOTE,
            'technique': tech})
    else:
        na.append({'property_id': pid, 'reason': pending.get(pid, 'not claimed yet: its theorems and check are still being built in this development (see DESIGN.md section 9, work order)')})
m = {'version': 1,
     'setup_cmd': './setup.sh',
     'hooks': {'guard': 'ais_verif', 'enable': 'no source hook is needed (private parser state is read through its Debug output); RUSTFLAGS="--cfg ais_verif" is reserved',
               'baseline_off_cmd': 'cd /repo && cargo test --workspace --no-fail-fast --offline',
               'source_commits': [], 'add_only': True},
     'engines': [{'name': 'coq-model', 'path': 'coq', 'serves_properties': [c['property_id'] for c in checks], 'kind_free_text': 'Coq 8.16 development: executable model, specs, proofs, property theorems'},
                 {'name': 'ocaml-driver', 'path': 'driver', 'serves_properties': [c['property_id'] for c in checks], 'kind_free_text': 'extracted model + driver printing canonical token trees'},
                 {'name': 'rust-harness', 'path': 'harness', 'serves_properties': [c['property_id'] for c in checks], 'kind_free_text': 'links /repo by path (3 feature sets x 2 profiles), prints the same token trees'},
                 {'name': 'exploration', 'path': 'explore', 'serves_properties': [c['property_id'] for c in checks], 'kind_free_text': 'coverage-guided search (libFuzzer via cargo-fuzz, nightly toolchain) on the tree under test; proposes inputs for the correspondence, decides nothing, optional (DESIGN.md section 13)'},
                 {'name': 'orchestrator', 'path': 'check', 'serves_properties': [c['property_id'] for c in checks], 'kind_free_text': 'generators, differ, verdict, evidence'}],
     'checks': checks,
     'notes': 'fix: commits in /repo and the two known findings are listed in known_findings.json and DESIGN.md section 5',
     'not_applicable': na}
json.dump(m, open(os.path.join(V, 'MANIFEST.json'), 'w'), indent=1)
print(len(checks), 'claimed;', len(na), 'not claimed')
