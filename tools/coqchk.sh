#!/bin/sh
# Independent re-check of the compiled development with coqchk, printing the axioms it relies on.
cd "$(dirname "$0")/../coq"
mods=$(ls Properties/*.vo | sed 's/\.vo$//; s#/#.#; s#^#Ais.#')
timeout 3600 coqchk -o -silent -Q . Ais $mods
